#!/usr/bin/env python3
"""C12 lockset extractor, clang-AST edition: the same member-field access table as
props/C12/lockgen.py (which works on the header *text*), recomputed independently from
`clang++ -Xclang -ast-dump=json` of a translation unit that includes the two headers.

The classes are templates and are analysed as *template patterns* (nothing is instantiated:
TransactionalValue<T>::operator=(const TransactionalValue<T>&) does not even compile when
instantiated).  In a pattern, accesses to members of the current instantiation are MemberExpr
nodes on a CXXThisExpr; the way the access is used is read off the chain of parent nodes.

  analyse(repo, workdir) -> (rows, info)
     rows: dicts with keys cls, method, line, field, write, atomic, lock, file  (as lockgen.analyse)
     info: {"files": [(header, "ok"|"missing")], "clang_rc": int, "notes": [...], "fields": {...}}
  rows == [] with a reason in info["notes"] when clang fails or the dump is unusable.

Conventions shared with the textual extractor
  * write = anything that is not recognisably a plain read.
  * lock  = the most recently taken mutex *member* still held at the access: a lock_guard /
    unique_lock / scoped_lock variable (from its declaration to the end of the enclosing scope, or
    to guard.unlock()/release()), or a manual m.lock() .. m.unlock().  A lock taken inside a nested
    block is considered released at the end of that block.
  * constructor initialiser `field(expr)`: one write row for `field`, lock "", reported at the line
    of the constructor body's opening brace (that is what the textual extractor reports).
Deliberate differences from the textual extractor (none occurs in the current headers)
  * `(*this).field` counts as an own-field access; `obj.field` of another object does not.
  * a lambda body starts with no lock held (the closure may run later, on another thread).
  * unique_lock constructed with std::defer_lock / std::try_to_lock holds nothing until guard.lock().
  * reads of other fields inside constructor-initialiser expressions are rows (at their own line).
  * `T &x = field;` / `for (auto &x : field)` / `in >> field` are writes; `arr[i]` of a const object is a read.
Limitations: one `lock` per row (the innermost), no inter-procedural accesses (a call to another
method of the class contributes nothing), function bodies only (default member initialisers and
friend functions are not rows), classes are found through the dump filter (falls back to dumping
the whole rkcommon namespace when a class name does not contain "Transactional").

usage: lockgen_ast.py [--repo DIR] [--workdir DIR] [--compare]
"""
import os
import re
import shutil
import subprocess
import sys
import tempfile

HERE = os.path.dirname(os.path.abspath(__file__))
sys.path.insert(0, os.path.normpath(os.path.join(HERE, "..", "..", "tools", "cxx2coq")))
import astutil  # noqa: E402  (load_docs)

HEADERS = ["rkcommon/containers/TransactionalBuffer.h", "rkcommon/utility/TransactionalValue.h"]
CLANG = os.environ.get("VERIF_CLANGXX", "clang++")
DEFAULT_FILTER = "rkcommon"     # whole namespace: also namespace-level functions and operators of the two headers
# member functions that are const on every standard container / atomic (used only where the callee
# is unresolved because the object type is dependent; resolved calls are decided by the AST)
CONST_CALLS = {"size", "empty", "capacity", "load", "cbegin", "cend", "count", "length", "max_size"}
GUARD_TYPE = re.compile(r"\b(lock_guard|unique_lock|scoped_lock)\b")
NOT_LOCKING_TAGS = ("defer_lock", "try_to_lock")
FUNC_KINDS = ("CXXMethodDecl", "CXXConstructorDecl", "CXXDestructorDecl", "CXXConversionDecl")
DECL_CONTAINERS = ("TranslationUnitDecl", "NamespaceDecl", "LinkageSpecDecl", "ClassTemplateDecl",
                   "CXXRecordDecl", "FunctionTemplateDecl", "ClassTemplatePartialSpecializationDecl")
SCOPE_KINDS = ("CompoundStmt", "IfStmt", "ForStmt", "WhileStmt", "DoStmt", "SwitchStmt",
               "CXXForRangeStmt", "CXXCatchStmt", "CXXTryStmt")
ASSIGN_OPS = {"=", "+=", "-=", "*=", "/=", "%=", "&=", "|=", "^=", "<<=", ">>="}
TRANSPARENT = ("ParenExpr", "MaterializeTemporaryExpr", "ExprWithCleanups", "CXXBindTemporaryExpr",
               "ConstantExpr", "SubstNonTypeTemplateParmExpr")
CALL_LIKE = ("CallExpr", "CXXMemberCallExpr", "CXXOperatorCallExpr", "CXXConstructExpr",
             "CXXTemporaryObjectExpr", "CXXUnresolvedConstructExpr", "InitListExpr", "ParenListExpr",
             "CXXNewExpr", "UserDefinedLiteral", "CUDAKernelCallExpr")
CAST_EXPLICIT = ("CStyleCastExpr", "CXXStaticCastExpr", "CXXFunctionalCastExpr", "CXXConstCastExpr",
                 "CXXReinterpretCastExpr", "CXXDynamicCastExpr")


# ------------------------------------------------------------------ source locations
def annotate(doc):
    """clang's JSON prints `file` / `line` of a location only when it differs from the previously
    *printed* location (loc, then range.begin, then range.end, node by node in document order, the
    state starting afresh for every filtered top-level document).  Resolve that once:
    node['_file'], node['_line'] (loc, else range.begin), node['_bline'], node['_eline'], node['_boff'].
    Macro locations use the expansion location."""
    st = {"file": None, "line": None}

    def bare(l):
        if "file" in l:
            st["file"] = l["file"]
        if "line" in l:
            st["line"] = l["line"]
        if "offset" not in l and "line" not in l and "col" not in l:
            return None                                   # invalid location: nothing printed
        return (st["file"], st["line"], l.get("offset"))

    def resolve(l):
        if not isinstance(l, dict) or not l:
            return None
        if "spellingLoc" in l or "expansionLoc" in l:
            res = {}
            for k, v in l.items():                        # in printed order
                if k in ("spellingLoc", "expansionLoc") and isinstance(v, dict):
                    res[k] = bare(v)
            if (l.get("expansionLoc") or {}).get("isMacroArgExpansion") and res.get("spellingLoc"):
                return res["spellingLoc"]                 # a macro *argument*: where the token is written
            return res.get("expansionLoc") or res.get("spellingLoc")
        return bare(l)

    def visit(n):
        loc = beg = end = None
        for k, v in list(n.items()):
            if k == "loc":
                loc = resolve(v)
            elif k == "range" and isinstance(v, dict):
                for kk, vv in v.items():
                    if kk == "begin":
                        beg = resolve(vv)
                    elif kk == "end":
                        end = resolve(vv)
            elif k == "inner":
                first = loc or beg
                n["_file"], n["_line"] = (first[0], first[1]) if first else (st["file"], st["line"])
                n["_bline"] = beg[1] if beg else n["_line"]
                n["_eline"] = end[1] if end else n["_bline"]
                n["_boff"] = beg[2] if beg else None
                n["_loff"] = loc[2] if loc else None
                for c in v or []:
                    if isinstance(c, dict) and c:
                        visit(c)
        if "_line" not in n:
            first = loc or beg
            n["_file"], n["_line"] = (first[0], first[1]) if first else (st["file"], st["line"])
            n["_bline"] = beg[1] if beg else n["_line"]
            n["_eline"] = end[1] if end else n["_bline"]
            n["_boff"] = beg[2] if beg else None
            n["_loff"] = loc[2] if loc else None

    visit(doc)


def kids(n):
    return [c for c in (n.get("inner") or []) if isinstance(c, dict) and c]


def qual(n):
    t = n.get("type") or {}
    return (t.get("qualType") or "") + " " + (t.get("desugaredQualType") or "")


def is_const_type(n):
    q = (n.get("type") or {}).get("qualType") or ""
    return bool(re.match(r"const\b", q)) or q.endswith(" const")


def return_type(fn):
    """Text of the return type out of a function qualType like 'T &(const U &) const'."""
    q = (fn.get("type") or {}).get("qualType") or ""
    d = 0
    for i, c in enumerate(q):
        if c in "<[":
            d += 1
        elif c in ">]":
            d -= 1
        elif c == "(" and d == 0:
            return q[:i].strip()
    return q


# ------------------------------------------------------------------ collecting classes and methods
class Cls(object):
    def __init__(self, node):
        self.name = node.get("name") or ""
        self.ids = {node.get("id")}
        self.fields = {}        # FieldDecl id -> (name, type text)
        self.file = node.get("_file")
        self.node = node


FREE_FUNCS = []


def collect(docs):
    """-> (classes by CXXRecordDecl id, [(function decl node, class id or None)])"""
    classes = {}
    funcs = []
    seen = set()
    del FREE_FUNCS[:]

    def visit(n, cls_id, _in_template):
        k = n.get("kind")
        if k == "ClassTemplateSpecializationDecl":
            return                                        # instantiations: not source text
        if k == "CXXRecordDecl":
            if n.get("completeDefinition") or any(c.get("kind") == "FieldDecl" for c in kids(n)) \
                    or n.get("definitionData"):
                c = classes.setdefault(n.get("id"), Cls(n))
                for ch in kids(n):
                    if ch.get("kind") == "FieldDecl" and ch.get("name"):
                        c.fields[ch.get("id")] = (ch["name"], qual(ch).strip())
                for ch in kids(n):
                    visit(ch, n.get("id"), False)
            return
        if k == "FunctionDecl":                           # namespace-level function / operator (or a template's pattern)
            if n.get("id") not in seen and not n.get("isImplicit"):
                seen.add(n.get("id"))
                FREE_FUNCS.append((n, _in_template))
            return
        if k in FUNC_KINDS:
            if n.get("id") not in seen:
                seen.add(n.get("id"))
                funcs.append((n, n.get("parentDeclContextId") or cls_id))
            return                                        # never look for methods inside bodies
        if k == "FunctionTemplateDecl":
            first = True
            for ch in kids(n):
                if ch.get("kind") in FUNC_KINDS or ch.get("kind") == "FunctionDecl":
                    if first:                             # the pattern; later ones are specialisations
                        visit(ch, cls_id, True)
                    first = False
            return
        if k in DECL_CONTAINERS:
            for ch in kids(n):
                visit(ch, cls_id, False)

    for d in docs:
        visit(d, None, False)
    return classes, funcs


def method_name(fn):
    k = fn.get("kind")
    if k == "CXXConstructorDecl":
        return "<ctor>"
    if k == "CXXDestructorDecl":
        return "<dtor>"
    return re.sub(r"\s+", "", fn.get("name") or "")


# ------------------------------------------------------------------ one method body
class Body(object):
    def __init__(self, fn, cls, header, rows, notes):
        self.fn, self.cls, self.header, self.rows, self.notes = fn, cls, header, rows, notes
        self.meth = method_name(fn)
        self.mutex = {i: f[0] for i, f in cls.fields.items() if "mutex" in f[1]}
        self.data = {i: f for i, f in cls.fields.items() if i not in self.mutex}
        self.by_name = {f[0]: i for i, f in cls.fields.items()}
        self.held = []          # [mutex member name, depth, guard VarDecl id or None]
        self.guard_vars = {}    # guard VarDecl id -> [mutex member names]
        self.depth = 0
        self.ret = return_type(fn)

    # ---- which member of *this* does this expression name?
    def own_field(self, n):
        """FieldDecl id if n is `field`, `this->field` or `(*this).field` for a field of the class.
        (In a pattern an explicit `this->field` can stay a CXXDependentScopeMemberExpr: by name then.)"""
        k = n.get("kind")
        if k == "MemberExpr":
            fid = n.get("referencedMemberDecl")
        elif k == "CXXDependentScopeMemberExpr":
            fid = self.by_name.get(n.get("member"))
        else:
            return None
        if fid not in self.cls.fields:
            return None

        def strip(b):
            while b is not None and b.get("kind") in ("ParenExpr", "ImplicitCastExpr"):
                kb = kids(b)
                b = kb[0] if kb else None
            return b

        b = kids(n)
        b = strip(b[0] if b else None)
        if b is not None and b.get("kind") == "UnaryOperator" and b.get("opcode") == "*":
            kb = kids(b)
            b = strip(kb[0] if kb else None)
        if b is None or b.get("kind") != "CXXThisExpr":
            return None
        return fid

    def mutexes_in(self, n):
        """names of the mutex members of *this* mentioned anywhere below n, in order"""
        res = []
        fid = self.own_field(n)
        if fid in self.mutex:
            res.append(self.mutex[fid])
        for c in kids(n):
            res.extend(self.mutexes_in(c))
        return res

    @staticmethod
    def mentions(n, words):
        if any(w in (n.get("name") or "") or w in qual(n) for w in words):
            return True
        rd = n.get("referencedDecl") or {}
        if any(w in (rd.get("name") or "") for w in words):
            return True
        return any(Body.mentions(c, words) for c in kids(n))

    # ---- write / read
    def is_write(self, node, parents):
        if is_const_type(node):
            return False                                  # const object (const method, non-mutable field)
        cur = node
        i = len(parents) - 1
        while i >= 0:
            p = parents[i]
            k = p.get("kind")
            pk = kids(p)
            idx = next((j for j, c in enumerate(pk) if c is cur), -1)
            if k in TRANSPARENT:
                pass
            elif k == "ImplicitCastExpr":
                ck = p.get("castKind")
                if ck == "LValueToRValue":
                    return False
                if ck == "NoOp" and is_const_type(p):
                    return False                          # bound to a const reference / const object argument
            elif k == "MemberExpr":
                if "bound member function" in qual(p):
                    return True                           # non-const member function (a const one has a NoOp cast)
                # data sub-member of the field: go on with the sub-object
            elif k in ("CXXDependentScopeMemberExpr", "UnresolvedMemberExpr"):
                name = p.get("member") or p.get("name") or ""
                g = parents[i - 1] if i > 0 else None
                called = g is not None and g.get("kind") in ("CallExpr", "CXXMemberCallExpr") and \
                    kids(g) and kids(g)[0] is p
                if called or k == "UnresolvedMemberExpr":
                    return name not in CONST_CALLS
                # dependent data sub-member: go on with the sub-object
            elif k in ("BinaryOperator", "CompoundAssignOperator"):
                op = p.get("opcode") or ""
                if op in ASSIGN_OPS:
                    return idx == 0
                if op == ",":
                    if idx == 0:
                        return False
                elif op in (".*", "->*"):
                    return True
                elif op == ">>" and idx == 1:
                    return True                           # `in >> field` on a class / dependent type
                else:
                    return False
            elif k == "UnaryOperator":
                op = p.get("opcode") or ""
                if op in ("++", "--", "&"):
                    return True
                if op in ("!", "-", "+", "~", "*"):
                    return False
                if op not in ("__extension__",):
                    return True
            elif k == "ConditionalOperator" or k == "BinaryConditionalOperator":
                if idx == 0:
                    return False
            elif k == "ArraySubscriptExpr":
                return idx == 0                           # element handed out (an index is only read)
            elif k in CAST_EXPLICIT:
                vc = p.get("valueCategory")
                if vc == "prvalue":
                    return False
                if vc == "xvalue":
                    return True                           # moved from
            elif k in CALL_LIKE:
                return True                               # callee object, or argument bound by (non-const) reference
            elif k == "ReturnStmt":
                rt = self.ret
                return ("&" in rt or "*" in rt) and not re.search(r"\bconst\b", rt)
            elif k == "VarDecl":
                q = (p.get("type") or {}).get("qualType") or ""
                return "&" in q and not re.match(r"const\b", q)
            elif k in ("UnaryExprOrTypeTraitExpr", "CXXNoexceptExpr", "CXXTypeidExpr"):
                return False                              # unevaluated
            elif k in ("IfStmt", "WhileStmt", "DoStmt", "ForStmt", "SwitchStmt", "CompoundStmt",
                       "CaseStmt", "DefaultStmt", "LabelStmt", "AttributedStmt"):
                return False                              # condition / discarded value: a read
            elif k == "CXXDeleteExpr":
                return False
            else:
                return True                               # unknown context (incl. RecoveryExpr)
            cur = p
            i -= 1
        return False

    # ---- statements
    def row(self, fid, line, write, lock=None):
        name, typ = self.data[fid]
        self.rows.append(dict(cls=self.cls.name, method=self.meth, line=int(line or 0), field=name,
                              write=bool(write), atomic="atomic" in typ,
                              lock=(self.held[-1][0] if self.held else "") if lock is None else lock,
                              file=self.header))

    def member_call(self, n):
        """(object expression, member name) if n is a resolved `obj.name(...)`"""
        if n.get("kind") != "CXXMemberCallExpr":
            return None
        ks = kids(n)
        if not ks or ks[0].get("kind") != "MemberExpr":
            return None
        ob = kids(ks[0])
        if not ob:
            return None
        o = ob[0]
        while o.get("kind") in ("ParenExpr", "ImplicitCastExpr") and kids(o):
            o = kids(o)[0]
        return o, ks[0].get("name") or ""

    def visit(self, n, parents):
        k = n.get("kind")
        if k == "LambdaExpr":
            # the closure may run later / elsewhere: locks held where it is created do not count
            saved, self.held = self.held, []
            d0, self.depth = self.depth, self.depth + 1
            for c in kids(n):
                if c.get("kind") == "CompoundStmt":       # the body (the closure class repeats it)
                    self.visit(c, parents + [n])
            self.held, self.depth = saved, d0
            return
        if k in ("CXXRecordDecl", "ClassTemplateDecl", "FunctionDecl", "TypedefDecl", "TypeAliasDecl"):
            return                                        # local declarations: not this method's accesses
        if k == "VarDecl" and GUARD_TYPE.search(qual(n)):
            ms = []
            for c in kids(n):
                ms.extend(self.mutexes_in(c))
            if ms:
                self.guard_vars[n.get("id")] = ms
                if not any(self.mentions(c, NOT_LOCKING_TAGS) for c in kids(n)):
                    for m in ms:
                        self.held.append([m, self.depth, n.get("id")])
                return
        mc = self.member_call(n)
        if mc:
            o, name = mc
            fid = self.own_field(o)
            if fid in self.mutex and name in ("lock", "unlock"):
                m = self.mutex[fid]
                if name == "lock":
                    self.held.append([m, self.depth, None])
                else:
                    self.held = [g for g in self.held if not (g[0] == m and g[2] is None)]
                return
            if fid in self.mutex:
                return                                    # try_lock etc: not a lock we rely on
            vid = (o.get("referencedDecl") or {}).get("id") if o.get("kind") == "DeclRefExpr" else None
            if vid in self.guard_vars:
                if name in ("unlock", "release"):
                    self.held = [g for g in self.held if g[2] != vid]
                elif name == "lock":
                    for m in self.guard_vars[vid]:
                        self.held.append([m, self.depth, vid])
                return
        fid = self.own_field(n)
        if fid is not None:
            if fid in self.data:
                self.row(fid, n.get("_eline") or n.get("_line"), self.is_write(n, parents))
            return
        scope = k in SCOPE_KINDS
        if scope:
            self.depth += 1
        np = parents + [n]
        for c in kids(n):
            self.visit(c, np)
        if scope:
            self.depth -= 1
            self.held = [g for g in self.held if g[1] <= self.depth]

    def run(self):
        fn = self.fn
        body = next((c for c in kids(fn) if c.get("kind") in ("CompoundStmt", "CXXTryStmt")), None)
        if body is None:
            return False
        for c in kids(fn):
            if c.get("kind") != "CXXCtorInitializer":
                continue
            init = kids(c)
            e = init[0] if init else None
            if e is not None and e.get("kind") == "CXXDefaultInitExpr":
                continue                                  # default member initialiser, not written here
            if e is not None and e.get("_boff") is not None and e.get("_boff") == fn.get("_loff"):
                continue                                  # implicit initialiser (sits on the ctor's name)
            tgt = (c.get("anyInit") or {})
            fid = tgt.get("id")
            if fid not in self.cls.fields:
                fid = self.by_name.get(tgt.get("name"))
            if fid in self.data:
                self.row(fid, body.get("_bline"), True, lock="")
            for x in init:
                self.visit(x, [c])
        self.visit(body, [fn])
        return True


# ------------------------------------------------------------------ driver
def interface_of(c):
    """The declarations written in the class body: [(class, kind, name, type/signature)].
    kind: field | static | method | other.  A parameter with a default argument is marked in the
    signature (" /defaults:k"), a member template as "template ...".  Implicit members are skipped."""
    out = []

    def sig(fn, prefix=""):
        q = ((fn.get("type") or {}).get("qualType") or "").strip()
        nd = sum(1 for p in kids(fn) if p.get("kind") == "ParmVarDecl" and "init" in p)
        return prefix + q + (" /defaults:%d" % nd if nd else "")

    for ch in kids(c.node):
        k = ch.get("kind")
        if ch.get("isImplicit") or k == "AccessSpecDecl":
            continue
        q = ((ch.get("type") or {}).get("qualType") or "").strip()
        if k == "FieldDecl":
            out.append((c.name, "field", ch.get("name") or "", q))
        elif k == "VarDecl":
            out.append((c.name, "static", ch.get("name") or "", q))
        elif k in FUNC_KINDS:
            out.append((c.name, "method", method_name(ch), sig(ch) + (" =default" if ch.get("explicitlyDefaulted") == "default" else "")
                        + (" =delete" if ch.get("explicitlyDeleted") or ch.get("explicitlyDefaulted") == "deleted" else "")))
        elif k == "FunctionTemplateDecl":
            pat = [g for g in kids(ch) if g.get("kind") in FUNC_KINDS]
            if pat:
                out.append((c.name, "method", method_name(pat[0]), sig(pat[0], "template ")))
        elif k == "CXXRecordDecl" and not ch.get("completeDefinition"):
            continue                                      # injected class name
        else:
            out.append((c.name, "other", k or "?", ch.get("name") or q))
    return out


def header_classes(src):
    """class/struct names defined in a header (cheap textual scan, only to choose the dump filter)."""
    src = re.sub(r"//[^\n]*|/\*.*?\*/", " ", src, flags=re.S)
    return [m.group(2) for m in re.finditer(r"(?<!enum )\b(struct|class)\s+(\w+)\s*(?:final\s*)?(?::[^;{]*)?\{", src)]


def analyse(repo, workdir):
    rows = []
    info = {"files": [], "clang_rc": -1, "notes": [], "fields": {}}
    notes = info["notes"]
    repo = os.path.abspath(repo)
    present = []
    names = []
    for h in HEADERS:
        p = os.path.join(repo, h)
        if os.path.isfile(p):
            info["files"].append((h, "ok"))
            present.append(h)
            try:
                names.extend(header_classes(open(p, errors="replace").read()))
            except OSError:
                pass
        else:
            info["files"].append((h, "missing"))
            notes.append("header %s is missing" % h)
    if not present:
        notes.append("neither header exists under %s" % repo)
        return [], info
    flt = DEFAULT_FILTER
    try:
        os.makedirs(workdir, exist_ok=True)
        tu = os.path.join(workdir, "c12_tu.cpp")
        dump = os.path.join(workdir, "c12_ast.json")
        with open(tu, "w") as f:
            for h in present:
                f.write('#include "%s"\n' % h)
        cmd = [CLANG, "-std=c++11", "-fsyntax-only", "-I" + repo, "-Xclang", "-ast-dump=json",
               "-Xclang", "-ast-dump-filter=" + flt, tu]
        with open(dump, "w") as out:
            pr = subprocess.run(cmd, stdout=out, stderr=subprocess.PIPE, timeout=120)
        info["clang_rc"] = pr.returncode
        err = pr.stderr.decode("utf-8", "replace")
    except (OSError, subprocess.SubprocessError) as e:
        notes.append("cannot run clang: %s" % e)
        return [], info
    if pr.returncode != 0:
        notes.append("clang failed (rc=%d): %s" % (pr.returncode, " | ".join(err.strip().splitlines()[:6])))
        return [], info
    if err.strip():
        notes.append("clang diagnostics: " + " | ".join(err.strip().splitlines()[:4]))
    try:
        docs = astutil.load_docs(dump)
    except Exception as e:                                # truncated / malformed dump
        notes.append("cannot parse the AST dump: %s" % e)
        return [], info
    if not docs:
        notes.append("empty AST dump (filter %r matched nothing)" % flt)
        return [], info
    for d in docs:
        annotate(d)
    want = {os.path.normpath(os.path.join(repo, h)): h for h in present}
    want.update({os.path.realpath(p): h for p, h in list(want.items())})

    def header_of(n):
        return header_of_file(n.get("_file"), want, workdir)

    classes, funcs = collect(docs)
    for c in classes.values():
        if header_of_file(c.file, want, workdir):
            info["fields"].setdefault(c.name, {}).update({f[0]: f[1] for f in c.fields.values()})
    iface = set(t for c in classes.values() if header_of_file(c.file, want, workdir) for t in interface_of(c))
    # namespace-level functions / operators / function templates declared in the two headers
    for fn, in_tpl in FREE_FUNCS:
        if header_of_file(fn.get("_file"), want, workdir):
            iface.add(("<namespace>", "function", fn.get("name") or "?",
                       ("template " if in_tpl else "") + ((fn.get("type") or {}).get("qualType") or "").strip()))
    info["interface"] = sorted(iface)
    if not any(header_of_file(c.file, want, workdir) for c in classes.values()):
        notes.append("no class definition from the two headers in the AST dump")
        return [], info
    bodies = 0
    per_header = {h: [] for h in present}
    for fn, cid in funcs:
        h = header_of(fn)
        if h is None:
            continue
        cls = classes.get(cid)
        if cls is None:
            if any(c.get("kind") in ("CompoundStmt", "CXXTryStmt") for c in kids(fn)):
                notes.append("method %s at %s:%s: class not found in the dump"
                             % (fn.get("name"), h, fn.get("_line")))
                return [], info
            continue
        if Body(fn, cls, h, per_header[h], notes).run():
            bodies += 1
    if not bodies:
        notes.append("no method body found in the AST dump")
        return [], info
    info["bodies"] = bodies
    for h in present:
        rows.extend(per_header[h])
    return rows, info


def header_of_file(f, want, workdir):
    if not f:
        return None
    f = f if os.path.isabs(f) else os.path.join(workdir, f)
    return want.get(os.path.normpath(f)) or want.get(os.path.realpath(f))


def key(r):
    return (r["cls"], r["method"], r["line"], r["field"], r["write"], r["atomic"], r["lock"])


def fmt(r):
    return "%-20s %-10s %s:%-3d %-13s %s %s lock=%s" % (
        r["cls"], r["method"], os.path.basename(r["file"]), r["line"], r["field"],
        "W" if r["write"] else "R", "atomic" if r["atomic"] else "plain ", r["lock"] or "-")


def compare(rows, trows):
    """multiset difference of the two tables -> (only in the AST table, only in the textual table)"""
    a, b = sorted(key(r) for r in rows), sorted(key(r) for r in trows)
    only_a, rest = [], list(b)
    for x in a:
        if x in rest:
            rest.remove(x)
        else:
            only_a.append(x)
    return only_a, rest


def coq_text(rows, iface, repo):
    """Contents of coq/C12/gen/Locks.v: the access table and the member list."""
    sys.path.insert(0, HERE)
    import lockgen
    rows = sorted(rows, key=lambda r: (r["file"], r["line"], r["field"], r["method"]))
    txt = lockgen.to_coq(rows, repo).replace("GENERATED by props/C12/lockgen.py", "GENERATED by props/C12/lockgen_ast.py (clang JSON AST)")
    q = lockgen.coq_str
    items = ["  {| m_class := %s; m_kind := %s; m_name := %s; m_sig := %s |}" % (q(c), q(k), q(n), q(t)) for (c, k, n, t) in iface]
    txt += "\n(* every declaration written in the two class bodies (sorted) *)\nDefinition members : list member := [\n" + ";\n".join(items) + "\n].\n"
    return txt


def main():
    repo = os.environ.get("VERIF_REPO", "/repo")
    workdir = None
    cmp_ = False
    outp = None
    a = sys.argv[1:]
    while a:
        if a[0] == "--repo" and len(a) > 1:
            repo = a[1]; a = a[2:]
        elif a[0] == "--workdir" and len(a) > 1:
            workdir = a[1]; a = a[2:]
        elif a[0] == "--compare":
            cmp_ = True; a = a[1:]
        elif a[0] == "--out" and len(a) > 1:
            outp = a[1]; a = a[2:]
        elif a[0] in ("-h", "--help"):
            print(__doc__); return 0
        else:
            a = a[1:]
    tmp = None
    if workdir is None:
        tmp = workdir = tempfile.mkdtemp(prefix="c12ast-wd-")
    try:
        rows, info = analyse(repo, workdir)
    finally:
        if tmp:
            shutil.rmtree(tmp, ignore_errors=True)
    if outp and rows:
        os.makedirs(os.path.dirname(os.path.abspath(outp)), exist_ok=True)
        with open(outp, "w") as f:
            f.write(coq_text(rows, info.get("interface", []), repo))
    for r in rows:
        print(fmt(r))
    for n in info["notes"]:
        sys.stderr.write("note: %s\n" % n)
    for h, st in info["files"]:
        if st != "ok":
            sys.stderr.write("note: %s %s\n" % (h, st))
    if not rows:
        sys.stderr.write("lockgen_ast: no table (clang rc=%s)\n" % info["clang_rc"])
        return 2
    if cmp_:
        sys.path.insert(0, HERE)
        import lockgen
        trows, _ = lockgen.analyse(repo)
        only_a, only_t = compare(rows, trows)
        for x in only_a:
            print("ONLY-AST   %r" % (x,))
        for x in only_t:
            print("ONLY-TEXT  %r" % (x,))
        if only_a or only_t:
            return 1
        sys.stderr.write("lockgen_ast: agrees with lockgen.analyse on %d rows\n" % len(rows))
    return 0


if __name__ == "__main__":
    sys.exit(main())
