(* C02 driver: one case per line on stdin, one observation per line on stdout.
     T <0|1> <trace>   slot-event trace of the instrumented payload (C construct, A assign, R read, D destroy;
                       case is ignored) run through the extracted lifetime machine (arg: trivial_T)
     CHECK             the reflective check on the source-derived fact table, 4 configurations
     ASYNC             heap packaged_task discipline of the source-derived async() events
     UAF               schedule_internal task-object events (source-derived) on a 3-task thread history *)
let rec int_of_nat = function O -> 0 | S n -> 1 + int_of_nat n
let rec n_of_int i = if i = 0 then N0 else Npos (pos_of_int i)
and pos_of_int i = if i = 1 then XH else if i land 1 = 1 then XI (pos_of_int (i lsr 1)) else XO (pos_of_int (i lsr 1))
let s_life = function Raw -> "Raw" | Live -> "Live" | Dead -> "Dead"
let s_val = function VIndet -> "indet" | VDefault -> "default" | VResult -> "result"
let s_err = function None -> "none" | Some ERet -> "retValue-outside-lifetime" | Some EFlag -> "jobFinished-outside-lifetime"
                   | Some EImpl -> "taskImpl-outside-lifetime-or-destroyed-while-task-runs"
                   | Some ERace -> "get()-no-wait-path-races-on-retValue(flag-does-not-publish)"
let s_cp = function CCons k -> "construct#" ^ string_of_int (int_of_nat k) | CIdle -> "idle" | CGet0 -> "get:test" | CGetW -> "get:wait"
                  | CGetR -> "get:read" | CWaitW -> "wait" | CDtorW -> "dtor:wait" | CDtor k -> "dtor:destroy#" ^ string_of_int (int_of_nat k)
                  | CDone -> "dtor-returned"
let s_tp = function TNone -> "not-launched" | TRun k -> "op#" ^ string_of_int (int_of_nat k) | TDone -> "ended"
let ev_of_char c = match Char.uppercase_ascii c with
  | 'C' -> Some SConstruct | 'A' -> Some SAssign | 'R' -> Some SRead | 'D' -> Some SDestroy | _ -> None
let () =
  try while true do
    let line = input_line stdin in
    let toks = List.filter (fun s -> s <> "") (String.split_on_char ' ' line) in
    match toks with
    | ["T"; tv; tr] ->
      let trivial = tv = "1" in
      let evs = List.filter_map ev_of_char (List.init (String.length tr) (String.get tr)) in
      if tr <> "-" && List.length evs <> String.length tr then print_endline "reject bad-event"
      else begin
        let evs = if tr = "-" then [] else evs in
        match slot_run trivial slot0 evs with
        | Some (l, v) ->
          let reads = slot_reads trivial slot0 evs in
          Printf.printf "accept final=%s:%s reads=%s\n" (s_life l) (s_val v)
            (if reads = [] then "-" else String.concat "," (List.map s_val reads))
        | None -> print_endline "reject"
      end
    | ["CHECK"] ->
      let parts = List.map (fun c ->
          let name = (match c.c_launch with Spawn -> "spawn" | Call -> "call") ^ "/" ^ (if c.c_trivial then "trivial" else "nontrivial") in
          let ok = check c (safe_all c) in
          let bad = match find_bad c (safe_all c) with
            | None -> "" 
            | Some s -> Printf.sprintf " bad-state[client=%s task=%s err=%s got=%s fin_seen=%b]" (s_cp s.cp) (s_tp s.tp) (s_err s.err)
                          (match s.got with None -> "-" | Some v -> s_val v) s.fin_seen in
          Printf.sprintf "%s=%b states=%d%s" name ok (int_of_nat (count c)) bad) (all_cfgs facts_src) in
      print_endline (String.concat " ; " parts)
    | ["ASYNC"] -> Printf.printf "async_ok=%b\n" (async_ok async_pre_src async_post_src async_body_src (S O))
    | ["UAF"] ->
      let ids = List.map n_of_int [1; 2; 3] in
      let tr = thread_events exec_range_src tryrun_dec_after_exec_src None ids in
      Printf.printf "no_uaf=%b\n" (no_uaf [] (submit_events (n_of_int 1) @ tr))
    | _ -> print_endline "?"
  done with End_of_file -> ()
