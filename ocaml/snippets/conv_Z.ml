(* conversions between OCaml int and the extracted Coq Z (needs conv_N.ml first) *)
let z_of_int (i : int) : z = if i = 0 then Z0 else if i > 0 then Zpos (pos_of_int i) else Zneg (pos_of_int (- i))
let int_of_z (x : z) : int = match x with Z0 -> 0 | Zpos p -> int_of_pos p | Zneg p -> - (int_of_pos p)
(* decimal strings of arbitrary size <-> Z, for values beyond 62 bits *)
let z_of_string (s : string) : z =
  let neg = String.length s > 0 && s.[0] = '-' in
  let ds = if neg then String.sub s 1 (String.length s - 1) else s in
  let ten = Zpos (pos_of_int 10) in
  let acc = ref Z0 in
  String.iter (fun c -> acc := Z.add (Z.mul !acc ten) (z_of_int (Char.code c - 48))) ds;
  if neg then Z.opp !acc else !acc
let string_of_z (x : z) : string =
  let ten = Zpos (pos_of_int 10) in
  let rec go (v : z) (acc : string) =
    match v with Z0 -> if acc = "" then "0" else acc
    | _ -> let q = Z.div v ten and r = Z.modulo v ten in go q (string_of_int (int_of_z r) ^ acc) in
  match x with Zneg p -> "-" ^ go (Zpos p) "" | _ -> go x ""
