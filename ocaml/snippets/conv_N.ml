(* conversions between OCaml int and the extracted Coq positive / N *)
let rec pos_of_int (i : int) : positive =
  if i <= 1 then XH else if i land 1 = 0 then XO (pos_of_int (i lsr 1)) else XI (pos_of_int (i lsr 1))
let rec int_of_pos (p : positive) : int =
  match p with XH -> 1 | XO q -> 2 * int_of_pos q | XI q -> 2 * int_of_pos q + 1
let n_of_int (i : int) : n = if i <= 0 then N0 else Npos (pos_of_int i)
let int_of_n (x : n) : int = match x with N0 -> 0 | Npos p -> int_of_pos p
let str_of_string (s : string) : n list = List.init (String.length s) (fun i -> n_of_int (Char.code s.[i]))
let string_of_str (l : n list) : string =
  let b = Buffer.create 16 in List.iter (fun c -> Buffer.add_char b (Char.chr ((int_of_n c) land 255))) l; Buffer.contents b
(* hex transport of arbitrary byte strings on one line ("-" is the empty string) *)
let hex_of_string (s : string) : string =
  if s = "" then "-" else String.concat "" (List.init (String.length s) (fun i -> Printf.sprintf "%02x" (Char.code s.[i])))
let string_of_hex (h : string) : string =
  if h = "-" then "" else String.init (String.length h / 2) (fun i -> Char.chr (int_of_string ("0x" ^ String.sub h (2*i) 2)))
