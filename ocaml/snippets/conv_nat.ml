let rec nat_of_int (i : int) : nat = if i <= 0 then O else S (nat_of_int (i - 1))
let rec int_of_nat (x : nat) : int = match x with O -> 0 | S y -> 1 + int_of_nat y
