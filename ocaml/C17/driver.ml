(* C17 driver: one case per line on stdin, one observation line per case on stdout.
   Arithmetic cases (generated definitions) print three readings "M:<obs>|I:<obs>|O:<obs>"
   (machine-wrapped, ideal, overflow-checked; "ovf" = the checked reading reported an overflow);
   the other cases (hand-written model) print one observation in the harness's format.
     F2 dx dy | F3 dx dy dz            exhaustive over the extent
     P2 dx dy x y i | P3 dx dy dz x y z i | Q3 dx dy dz x y z i     single points (big integers)
     FE lx ly lz hx hy hz              for_each
     IT2 dx dy | IT3 dx dy dz          iterator traversal
     IO2 dx dy a b | IO3 dx dy dz a b  the other iterator members (jump_to, current, + - offset/iterator, --, ==, dimensions)
     AR dx dy dz n (x y z v)*n         ActualArray3D clear(0), n sets, then get over [-2,d+1]^3
     RP dx dy dz rx ry rz              Array3DRepeater over [-2, 2r+2)^3
     SH dx dy dz sx sy sz | SB dx dy dz lx ly lz hx hy hz | AC dx dy dz seed | MS dx dy dzs n seed
     VR dx dy dz seed bx by bz ex ey ez   getValueRange
     VA kind dx dy dz seed p0..p5 bx by bz ex ey ez   getValueRange through an adaptor + its own get over the region
     BG dx dy dz x y z v idx           one set/get in a >2^32-cell byte array (lazily mapped memory) *)
let ios = int_of_string
let zi = z_of_int
let rec pos_small (p : positive) (d : int) = d < 61 && (match p with XH -> true | XO q | XI q -> pos_small q (d + 1))
let zs (x : z) : string =
  match x with
  | Z0 -> "0"
  | Zpos p when pos_small p 0 -> string_of_int (int_of_z x)
  | Zneg p when pos_small p 0 -> string_of_int (int_of_z x)
  | _ -> string_of_z x
let zp = z_of_string

type reading = { itp : interp; inj : z -> s; show : s -> string }
let rd_i = { itp = iZ; inj = (Obj.magic idZ : z -> s); show = (fun v -> zs (Obj.magic v : z)) }
let rd_m = { itp = mZ; inj = (Obj.magic idZ : z -> s); show = (fun v -> zs (Obj.magic v : z)) }
let rd_o = { itp = oZ; inj = (Obj.magic someZ : z -> s);
             show = (fun v -> match (Obj.magic v : z option) with Some z -> zs z | None -> "ovf") }
let three f = "M:" ^ f rd_m ^ "|I:" ^ f rd_i ^ "|O:" ^ f rd_o

let range a b = let rec go i acc = if i < a then acc else go (i - 1) (i :: acc) in go (b - 1) []
let cat = String.concat ","
let dash s = if s = "" then "-" else s
let sh3 r ((x, y), z) = r.show x ^ "." ^ r.show y ^ "." ^ r.show z
let sh2 r (x, y) = r.show x ^ "." ^ r.show y

let coords3 dx dy dz = List.concat_map (fun z -> List.concat_map (fun y -> List.map (fun x -> (x, y, z)) (range 0 dx)) (range 0 dy)) (range 0 dz)
let box3 (ax, bx) (ay, by) (az, bz) = List.concat_map (fun z -> List.concat_map (fun y -> List.map (fun x -> (x, y, z)) (range ax bx)) (range ay by)) (range az bz)

let obs_f2 dx dy r =
  let zx = zi dx and zy = zi dy in
  let cs = List.concat_map (fun y -> List.map (fun x -> (x, y)) (range 0 dx)) (range 0 dy) in
  Printf.sprintf "T %s F %s R %s" (r.show (x_total2 r.itp r.inj zx zy))
    (dash (cat (List.map (fun (x, y) -> r.show (x_flatten2 r.itp r.inj zx zy (zi x) (zi y))) cs)))
    (dash (cat (List.map (fun i -> sh2 r (x_reshape2 r.itp r.inj zx zy (zi i))) (range 0 (dx * dy)))))

let obs_f3 dx dy dz r =
  let zx = zi dx and zy = zi dy and zz = zi dz in
  let cs = coords3 dx dy dz and is = range 0 (dx * dy * dz) in
  Printf.sprintf "T %s P %s F %s R %s L %s C %s" (r.show (x_total3 r.itp r.inj zx zy zz))
    (r.show (x_longProduct r.itp r.inj zx zy zz))
    (dash (cat (List.map (fun (x, y, z) -> r.show (x_flatten3 r.itp r.inj zx zy zz (zi x) (zi y) (zi z))) cs)))
    (dash (cat (List.map (fun i -> sh3 r (x_reshape3 r.itp r.inj zx zy zz (zi i))) is)))
    (dash (cat (List.map (fun (x, y, z) -> r.show (x_longIndex r.itp r.inj zx zy zz (zi x) (zi y) (zi z))) cs)))
    (dash (cat (List.map (fun i -> sh3 r (x_coordsOf r.itp r.inj zx zy zz (zi i))) is)))

let obs_p3 full dx dy dz x y z i r =
  let a = Printf.sprintf "T %s F %s R %s" (r.show (x_total3 r.itp r.inj dx dy dz))
      (r.show (x_flatten3 r.itp r.inj dx dy dz x y z)) (sh3 r (x_reshape3 r.itp r.inj dx dy dz i)) in
  if not full then a else
    a ^ Printf.sprintf " P %s L %s C %s" (r.show (x_longProduct r.itp r.inj dx dy dz))
      (r.show (x_longIndex r.itp r.inj dx dy dz x y z)) (sh3 r (x_coordsOf r.itp r.inj dx dy dz i))

let obs_p2 dx dy x y i r =
  Printf.sprintf "T %s F %s R %s" (r.show (x_total2 r.itp r.inj dx dy))
    (r.show (x_flatten2 r.itp r.inj dx dy x y)) (sh2 r (x_reshape2 r.itp r.inj dx dy i))

(* ---- hand-written model *)
let zof (v : s) : z = Obj.magic v
let v3 (x, y, z) = v3z (zi x) (zi y) (zi z)
let show_v3 (v : vec3) = zs (zof v.vec3_x) ^ "." ^ zs (zof v.vec3_y) ^ "." ^ zs (zof v.vec3_z)
let show_v2 (v : vec2) = zs (zof v.vec2_x) ^ "." ^ zs (zof v.vec2_y)
let value seed i = ((((i + 1) * (seed + 7) * 2654435761) land 0xFFFFFFFF) lsr 16) mod 23 - 11
let lidx (dx, dy, _) (x, y, z) = x + dx * (y + dy * z)

let filled (dx, dy, dz) (f : int -> int) : actual =
  let a0 = actual_clear (actual_new (v3 (dx, dy, dz)) (zi 12345)) Z0 in
  List.fold_left (fun a c -> actual_set a (v3 c) (zi (f (lidx (dx, dy, dz) c)))) a0 (coords3 dx dy dz)

let inside (a : arr) (x, y, z) =
  let d = a.a_dims in
  x >= 0 && y >= 0 && z >= 0 && x < int_of_z (zof d.vec3_x) && y < int_of_z (zof d.vec3_y) && z < int_of_z (zof d.vec3_z)
let show_arr (a : arr) ws split =
  let g w = zs (a.a_get (v3 w)) in
  let ins = List.filter (fun w -> not split || inside a w) ws and outs = List.filter (fun w -> split && not (inside a w)) ws in
  Printf.sprintf "S %s N %s G %s%s" (show_v3 a.a_dims) (zs a.a_num) (dash (cat (List.map g ins)))
    (if split then " GM " ^ dash (cat (List.map g outs)) else "")

let nat_fuel n = Z.to_nat (zi n)
let show_list f o = match o with None -> "fuel" | Some l -> dash (cat (List.map f l))

let () =
  try while true do
    let line = input_line stdin in
    let toks = List.filter (fun s -> s <> "") (String.split_on_char ' ' line) in
    let out = match toks with
      | ["F2"; dx; dy] -> three (obs_f2 (ios dx) (ios dy))
      | ["F3"; dx; dy; dz] -> three (obs_f3 (ios dx) (ios dy) (ios dz))
      | ["P3"; dx; dy; dz; x; y; z; i] -> three (obs_p3 true (zp dx) (zp dy) (zp dz) (zp x) (zp y) (zp z) (zp i))
      | ["Q3"; dx; dy; dz; x; y; z; i] -> three (obs_p3 false (zp dx) (zp dy) (zp dz) (zp x) (zp y) (zp z) (zp i))
      | ["P2"; dx; dy; x; y; i] -> three (obs_p2 (zp dx) (zp dy) (zp x) (zp y) (zp i))
      | ["FE"; lx; ly; lz; hx; hy; hz] ->
        dash (cat (List.map show_v3 (for_each (v3 (ios lx, ios ly, ios lz)) (v3 (ios hx, ios hy, ios hz)))))
      | ["IT3"; dx; dy; dz] ->
        let dx = ios dx and dy = ios dy and dz = ios dz in
        let b = seq3_begin (zi dx) (zi dy) (zi dz) and e = seq3_end (zi dx) (zi dy) (zi dz) in
        let fuel = nat_fuel (dx * dy * dz + 1) in
        let post = show_list show_v3 (iterate3 fuel b e) and pre = show_list show_v3 (rangefor3 fuel b e) in
        let (after, ret) = preinc3 b in
        Printf.sprintf "post %s pre %s rf %s ret %s.%s" post pre pre
          (zs (zof (multidim_index_iterator3_current__ iZ after))) (zs (zof (multidim_index_iterator3_current__ iZ ret)))
      | ["IT2"; dx; dy] ->
        let dx = ios dx and dy = ios dy in
        let b = seq2_begin (zi dx) (zi dy) and e = seq2_end (zi dx) (zi dy) in
        let fuel = nat_fuel (dx * dy + 1) in
        let post = show_list show_v2 (iterate2 fuel b e) and pre = show_list show_v2 (rangefor2 fuel b e) in
        let (after, ret) = preinc2 b in
        Printf.sprintf "post %s pre %s rf %s ret %s.%s" post pre pre
          (zs (zof (multidim_index_iterator2_current__ iZ after))) (zs (zof (multidim_index_iterator2_current__ iZ ret)))
      | ["IO3"; dx; dy; dz; a; b] ->
        (* the remaining iterator members through the GENERATED operators (ideal reading); prefix -- is hand-modelled like prefix ++ *)
        let d = v3z (zi (ios dx)) (zi (ios dy)) (zi (ios dz)) and a = zi (ios a) and b = zi (ios b) in
        let inj (z : z) : s = Obj.magic z in
        let cur it = zs (zof (multidim_index_iterator3_current__ iZ it)) in
        let it0 = multidim_index_iterator3_mk__v3ul iZ d in
        let it1 = multidim_index_iterator3_jump_to__ul iZ it0 (inj a) in
        let it2 = multidim_index_iterator3_op_add__ul iZ it1 (inj b) in
        let other = multidim_index_iterator3_mk__v3ul_ul iZ d (inj b) in
        let it3 = multidim_index_iterator3_op_add__multidim_index_iterator3 iZ it2 other in
        let it4 = multidim_index_iterator3_op_sub__multidim_index_iterator3 iZ it3 other in
        let it5 = multidim_index_iterator3_op_sub__ul iZ it4 (inj b) in
        let it6 = multidim_index_iterator3_op_dec__i iZ it5 (inj Z0) in
        let c7 = Z.sub (zof (multidim_index_iterator3_current__ iZ it6)) (zi 1) in
        let it7 = multidim_index_iterator3_mk__v3ul_ul iZ d (inj c7) in
        let bs x = if x then "1" else "0" in
        let d2 = v3z (zi (ios dx + 1)) (zi (ios dy)) (zi (ios dz)) in
        Printf.sprintf "D %s C %s E %s" (show_v3 (multidim_index_sequence3_dimensions__ iZ (multidim_index_sequence3_mk__v3ul iZ d)))
          (cat [cur it0; cur it1; cur it2; cur it3; cur it4; cur it5; cur it6; zs c7; zs c7])
          (bs (multidim_index_iterator3_op_eq__multidim_index_iterator3 iZ it7 (multidim_index_iterator3_mk__v3ul_ul iZ d (inj c7)))
           ^ bs (multidim_index_iterator3_op_eq__multidim_index_iterator3 iZ it7 other)
           ^ bs (multidim_index_iterator3_op_eq__multidim_index_iterator3 iZ it7 (multidim_index_iterator3_mk__v3ul_ul iZ d2 (inj c7)))
           ^ bs (multidim_index_iterator3_op_ne__multidim_index_iterator3 iZ it7 (multidim_index_iterator3_mk__v3ul_ul iZ d (inj c7))))
      | ["IO2"; dx; dy; a; b] ->
        let d = v2z (zi (ios dx)) (zi (ios dy)) and a = zi (ios a) and b = zi (ios b) in
        let inj (z : z) : s = Obj.magic z in
        let cur it = zs (zof (multidim_index_iterator2_current__ iZ it)) in
        let it0 = multidim_index_iterator2_mk__v2ul iZ d in
        let it1 = multidim_index_iterator2_jump_to__ul iZ it0 (inj a) in
        let it2 = multidim_index_iterator2_op_add__ul iZ it1 (inj b) in
        let other = multidim_index_iterator2_mk__v2ul_ul iZ d (inj b) in
        let it3 = multidim_index_iterator2_op_add__multidim_index_iterator2 iZ it2 other in
        let it4 = multidim_index_iterator2_op_sub__multidim_index_iterator2 iZ it3 other in
        let it5 = multidim_index_iterator2_op_sub__ul iZ it4 (inj b) in
        let it6 = multidim_index_iterator2_op_dec__i iZ it5 (inj Z0) in
        let c7 = Z.sub (zof (multidim_index_iterator2_current__ iZ it6)) (zi 1) in
        let it7 = multidim_index_iterator2_mk__v2ul_ul iZ d (inj c7) in
        let bs x = if x then "1" else "0" in
        let d2 = v2z (zi (ios dx + 1)) (zi (ios dy)) in
        Printf.sprintf "D %s C %s E %s" (show_v2 (multidim_index_sequence2_dimensions__ iZ (multidim_index_sequence2_mk__v2ul iZ d)))
          (cat [cur it0; cur it1; cur it2; cur it3; cur it4; cur it5; cur it6; zs c7; zs c7])
          (bs (multidim_index_iterator2_op_eq__multidim_index_iterator2 iZ it7 (multidim_index_iterator2_mk__v2ul_ul iZ d (inj c7)))
           ^ bs (multidim_index_iterator2_op_eq__multidim_index_iterator2 iZ it7 other)
           ^ bs (multidim_index_iterator2_op_eq__multidim_index_iterator2 iZ it7 (multidim_index_iterator2_mk__v2ul_ul iZ d2 (inj c7)))
           ^ bs (multidim_index_iterator2_op_ne__multidim_index_iterator2 iZ it7 (multidim_index_iterator2_mk__v2ul_ul iZ d (inj c7))))
      | "AR" :: dx :: dy :: dz :: n :: rest ->
        let dx = ios dx and dy = ios dy and dz = ios dz in
        let a0 = actual_clear (actual_new (v3 (dx, dy, dz)) (zi 12345)) Z0 in
        let rec sets a l = match l with
          | x :: y :: z :: v :: r -> sets (actual_set a (v3 (ios x, ios y, ios z)) (zi (ios v))) r
          | _ -> a in
        ignore n;
        let a = sets a0 rest in
        Printf.sprintf "N %s G %s X %s" (zs (actual_num a))
          (cat (List.map (fun w -> zs (actual_get a (v3 w))) (box3 (-2, dx + 2) (-2, dy + 2) (-2, dz + 2))))
          (dash (cat (List.map (fun c -> zs (actual_indexOf a (v3 c))) (coords3 dx dy dz))))
      | ["SH"; dx; dy; dz; sx; sy; sz] ->
        let d = (ios dx, ios dy, ios dz) in let (dx, dy, dz) = d in
        let base = as_arr (filled d (fun i -> 1 + i)) in
        show_arr (shifted base (v3 (ios sx, ios sy, ios sz))) (box3 (-2, dx + 2) (-2, dy + 2) (-2, dz + 2)) true
      | ["RP"; dx; dy; dz; rx; ry; rz] ->
        let d = (ios dx, ios dy, ios dz) and (rx, ry, rz) = (ios rx, ios ry, ios rz) in
        let base = as_arr (filled d (fun i -> 1 + i)) in
        show_arr (repeater base (v3 (rx, ry, rz))) (box3 (-2, 2 * rx + 2) (-2, 2 * ry + 2) (-2, 2 * rz + 2)) true
      | ["SB"; dx; dy; dz; lx; ly; lz; hx; hy; hz] ->
        let d = (ios dx, ios dy, ios dz) in
        let lo = (ios lx, ios ly, ios lz) and hi = (ios hx, ios hy, ios hz) in
        let base = as_arr (filled d (fun i -> 1 + i)) in
        let (a, b, c) = lo and (p, q, r) = hi in
        show_arr (subbox base (v3 lo) (v3 hi)) (box3 (-2, p - a + 2) (-2, q - b + 2) (-2, r - c + 2)) true
      | ["AC"; dx; dy; dz; seed] ->
        let d = (ios dx, ios dy, ios dz) in let (dx, dy, dz) = d in let seed = ios seed in
        let base = as_arr (filled d (fun i -> value seed i * 37 - 1000)) in
        let ws = box3 (-2, dx + 2) (-2, dy + 2) (-2, dz + 2) in
        let af = accessor idZ base and ab = accessor (fun v -> Z.modulo v (zi 256)) base in
        Printf.sprintf "S %s N %s GF %s GB %s" (show_v3 af.a_dims) (zs af.a_num)
          (cat (List.map (fun w -> zs (af.a_get (v3 w))) ws)) (cat (List.map (fun w -> zs (ab.a_get (v3 w))) ws))
      | ["MS"; dx; dy; dzs; n; seed] ->
        let dx = ios dx and dy = ios dy and dzs = ios dzs and n = ios n and seed = ios seed in
        let slices = List.map (fun k -> as_arr (filled (dx, dy, dzs) (fun i -> value (seed + k) i))) (range 0 n) in
        let ms = multislice (List.hd slices) (List.tl slices) in
        show_arr ms (box3 (0, dx) (0, dy) (-2, n + 2)) false
      | ["VR"; dx; dy; dz; seed; bx; by; bz; ex; ey; ez] ->
        let d = (ios dx, ios dy, ios dz) in let seed = ios seed in
        let a = as_arr (filled d (value seed)) in
        (match value_range a (v3 (ios bx, ios by, ios bz)) (v3 (ios ex, ios ey, ios ez)) with
         | None -> "empty" | Some (lo, hi) -> zs lo ^ " " ^ zs hi)
      | ["VA"; kind; dx; dy; dz; seed; p0; p1; p2; p3; p4; p5; bx; by; bz; ex; ey; ez] ->
        let d = (ios dx, ios dy, ios dz) and seed = ios seed in
        let p = Array.map ios [| p0; p1; p2; p3; p4; p5 |] in
        let cell s i = value s i * 37 - 100 in
        let base = as_arr (filled d (cell seed)) in
        let a = match kind with
          | "AB" -> accessor (fun v -> Z.modulo v (zi 256)) base
          | "AS" -> accessor (fun v -> Z.sub (Z.modulo (Z.add v (zi 128)) (zi 256)) (zi 128)) base
          | "AI" -> accessor idZ base
          | "AF" -> accessor (fun v -> Z.quot v (zi 4)) base          (* float cell = v / 4.0f, converted to int: truncation *)
          | "SH" -> shifted base (v3 (p.(0), p.(1), p.(2)))
          | "SB" -> subbox base (v3 (p.(0), p.(1), p.(2))) (v3 (p.(3), p.(4), p.(5)))
          | "RP" -> repeater base (v3 (p.(0), p.(1), p.(2)))
          | "MS" -> let sl = List.map (fun k -> as_arr (filled d (cell (seed + k)))) (range 0 p.(0)) in multislice (List.hd sl) (List.tl sl)
          | _ -> failwith "bad kind" in
        let b = v3 (ios bx, ios by, ios bz) and e = v3 (ios ex, ios ey, ios ez) in
        (match value_range a b e with None -> "R empty" | Some (lo, hi) -> "R " ^ zs lo ^ " " ^ zs hi)
        ^ " G " ^ dash (cat (List.map (fun c -> zs (a.a_get c)) (for_each b e)))
      | ["BG"; dx; dy; dz; x; y; z; v; idx] ->
        let c = v3 (ios x, ios y, ios z) in
        let a = actual_set (actual_new (v3 (ios dx, ios dy, ios dz)) Z0) c (zi (ios v)) in
        Printf.sprintf "N %s X %s G %s RAW %s G0 %s" (zs (actual_num a)) (zs (actual_indexOf a c)) (zs (actual_get a c))
          (zs (a.ac_cells (zp idx))) (zs (actual_get a (v3 (-3, -3, -3))))
      | _ -> "bad-case"
    in print_endline out
  done with End_of_file -> ()
