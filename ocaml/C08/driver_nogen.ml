(* GENERATED COPY of driver.ml with the extracted table replaced by the model's own (fallback when gen/Facts.v
   cannot be extracted); regenerate with: (printf header; cat driver.ml) - see props/C08/check.py st_model *)
let gen_table = model_table
let gen_sel = model_sel
(* C08 driver.  usage: model NB ND [gen]   ("gen": execute the table extracted from the source
   instead of the model's own table, unguarded by nothing else - used by the search).
   stdin: one history per line, tokens
     cB cD            create a Base / Derived object (ids 0,1,2,... in creation order)
     dc:h cc:h:g mc:h:g vc:h:g rc:h:o dt:h        constructors (default copy move converting raw) / destructor
     ca:h:g ma:h:g ra:h:o                         copy / move / raw assignment      (o = object id or - for null)
     ri:o rd:o                                    explicit refInc / refDec
     vm:h:g    IntrusivePtr<Base> x(std::move(derived handle g))       (converting constructor, rvalue argument)
     vt:h:o    IntrusivePtr<Base> x = IntrusivePtr<Derived>(o)         (from a temporary: raw ctor; conversion; ~temporary)
     va:h:g vr:h:g   base = derived;  base = std::move(derived);       (temporary by conversion; move assignment; ~temporary)
     kc:h      { IntrusivePtr<const Base> c = std::move(h); }          (conversion to const T from an rvalue; ~c)
   composite tokens use one scratch handle slot (index NB+ND) that is dead before and after
   stdout per history: per step "ok|objs|handles|cmps" joined by " ; "
     objs:    c<useCount> (alive) | x (destroyed)           handles: . (no handle) | 0 (null) | k (object k-1)
     cmps:    for every pair a<b of live handles, of the same or of different static types: e (==) | n (!=) *)
let ios = int_of_string
let rec int_of_pos (p : positive) : int =
  match p with XH -> 1 | XO q -> 2 * int_of_pos q | XI q -> 2 * int_of_pos q + 1
let int_of_z (x : z) : int = match x with Z0 -> 0 | Zpos p -> int_of_pos p | Zneg p -> - (int_of_pos p)
let rec nat_of_int (i : int) : nat = if i <= 0 then O else S (nat_of_int (i - 1))
let rec int_of_nat (x : nat) : int = match x with O -> 0 | S y -> 1 + int_of_nat y
let nat = nat_of_int
let optid s = if s = "-" then None else Some (nat (ios s))
let parse tok = match String.split_on_char ':' tok with
  | ["cB"] | ["cD"] -> Create
  | ["dc"; h] -> DefCtor (nat (ios h))
  | ["cc"; h; g] -> CopyCtor (nat (ios h), nat (ios g))
  | ["mc"; h; g] -> MoveCtor (nat (ios h), nat (ios g))
  | ["vc"; h; g] -> ConvCtor (nat (ios h), nat (ios g))
  | ["rc"; h; o] -> RawCtor (nat (ios h), optid o)
  | ["dt"; h] -> Dtor (nat (ios h))
  | ["ca"; h; g] -> CopyAssign (nat (ios h), nat (ios g))
  | ["ma"; h; g] -> MoveAssign (nat (ios h), nat (ios g))
  | ["ra"; h; o] -> RawAssign (nat (ios h), optid o)
  | ["ri"; o] -> RefInc (nat (ios o))
  | ["rd"; o] -> RefDec (nat (ios o))
  | ["vm"; h; g] -> ConvMoveCtor (nat (ios h), nat (ios g))
  | _ -> failwith ("bad op " ^ tok)
(* a token is a sequence of model operations; t = scratch slot *)
let parse_seq t tok = match String.split_on_char ':' tok with
  | ["vt"; h; o] -> [RawCtor (nat t, optid o); ConvMoveCtor (nat (ios h), nat t); Dtor (nat t)]
  | ["va"; h; g] -> [ConvCtor (nat t, nat (ios g)); MoveAssign (nat (ios h), nat t); Dtor (nat t)]
  | ["vr"; h; g] -> [ConvMoveCtor (nat t, nat (ios g)); MoveAssign (nat (ios h), nat t); Dtor (nat t)]
  | ["kc"; h] -> [ConvMoveCtor (nat t, nat (ios h)); Dtor (nat t)]
  | _ -> [parse tok]
let () =
  let nb = ios Sys.argv.(1) and nd = ios Sys.argv.(2) in
  let use_gen = Array.length Sys.argv > 3 && Sys.argv.(3) = "gen" in
  let n = nb + nd in
  let observe s =
    let nobj = List.length s.s_heap.objs in
    let objs = String.concat "," (List.init nobj (fun o ->
        if is_alive s (nat o) then "c" ^ string_of_int (int_of_z (use_count s (nat o))) else "x")) in
    let live h = match List.nth s.s_hs h with SLive _ -> true | SDead -> false in
    let hs = String.concat "," (List.init n (fun h ->
        if not (live h) then "." else match handle_ptr s (nat h) with None -> "0" | Some o -> string_of_int (int_of_nat o + 1))) in
    let b = Buffer.create 16 in
    for a = 0 to n - 1 do for c = a + 1 to n - 1 do
        if live a && live c then begin
          let e = handle_eq s (nat a) (nat c) and ne = handle_ne s (nat a) (nat c) in
          Buffer.add_char b (if e && not ne then 'e' else if ne && not e then 'n' else 'X') end
      done done;
    objs ^ "|" ^ hs ^ "|" ^ Buffer.contents b in
  try while true do
    let line = input_line stdin in
    let toks = List.filter (fun s -> s <> "") (String.split_on_char ' ' line) in
    let _, outs = List.fold_left (fun (s, acc) tok ->
        let one s o =
          if use_gen then (if legal s o then (exec_op_s gen_sel gen_table s o, true) else (s, false))
          else step s o in
        (* all-or-nothing: a token whose first operation is outside the contract is rejected *)
        let (s', ok) = List.fold_left (fun (st, ok) o -> if ok then one st o else (st, false)) (s, true) (parse_seq n tok) in
        let s' = if ok then s' else s in
        let flag = if s'.s_heap.err then "ERR|" else if ok then "ok|" else "bad|" in
        (s', (flag ^ observe s') :: acc)) (init (nat (n + 1)), []) toks in
    print_endline (String.concat " ; " (List.rev outs))
  done with End_of_file -> ()
