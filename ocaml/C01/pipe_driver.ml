(* C01/C02 pipe driver: the extracted micro-step machine of coq/C01/Pipe.v (enkiTS LockLessMultiReadPipe).
   Built by props/C01/pipe_check.py, which prepends
     open Pipe, ocaml/snippets/conv_N.ml, conv_nat.ml and ONE line
       let facts_table : (method0 -> instr list) option = None            (plain build, ExtractPipe.v)
     or let facts_table : (method0 -> instr list) option = Some facts_progs  (ExtractPipeFacts.v)
     and  let facts_info : (string * bool * bool) list = []   resp.  [("write", facts_progs_ok MWrite, facts_progs_same MWrite); ...]

   Modes (argv):
     seq [progs=<p>]
        stdin: one case per line      <id> <k> <preset v> <op> <op> ...
               ops:  w<x> WriterTryWriteFront(x)   f WriterTryReadFront   r ReaderTryReadBack
                     e IsPipeEmpty   c Clear
        stdout: one line per case     <id> <tok> ... | W=<W> RC=<RC> RI=<RI> FL=<one letter per slot: W R I ?>
               tokens: w<x>=T|F   f=T:<item>|f=F   r=T:<item>|r=F   e=T|F   c
               (identical to harness/C01/pipe_harness.cpp, mode seq)
               an operation that does not return within the fuel (64*2^k+64 instructions) ends the case:
               the line is the line of the prefix BEFORE that op followed by " SPIN@<index>:<op>".
        w/f are executed by thread 0 (owner), r by thread 1, whole operations by solo micro-steps
        (Pipe.run_op, the body of Pipe.run_seq; for short cases Pipe.run_seq itself is evaluated too and
        must agree, else the line ends in DRIVER-INCONSISTENT).
     explore <k> <w> <readers> <maxops_owner> <maxops_reader> [preset=<v>] [progs=<p>] [maxstates=<n>] [facts]
        exhaustive breadth-first exploration of ALL interleavings of the MODEL; prints
        "EXPLORED states=<n> quiescent=<q> ok"  or  "COUNTEREXAMPLE <kind> states=<n> schedule=<t:op,...>"
        schedule events: t:w<x> t:f t:r begin (or continue) an operation, t:- = one more instruction of
        thread t (any op; Pipe.step ignores the op of a thread that is inside a method).  The list replays
        with Pipe.run_gen from (preset init v)  (mode replay below).
     replay <k> <w> <readers> [preset=<v>] [progs=<p>] schedule=<t:op,...>
        prints the state reached.
     factsinfo
        prints, per method, whether the source-derived table exists and equals Pipe.v's.
   <p> = plain (Pipe.prog_of, default) | facts (the source-derived tables) | cts_front | cts_reader | fast_front
   (the last three are Pipe.v's variants that are NOT the code: the explorer must refute them).

   THIS IS A MODEL TEST: it explores the Coq model, bounded; it is not a proof and by itself says nothing
   about the C++ code. *)

let ni = n_of_int
let ii = int_of_n

let memo (f : method0 -> instr list) : method0 -> instr list =
  (* facts_progs re-runs PipeFactsDefs.compile on every call: tabulate *)
  let a = f MWrite and b = f MReader and c = f MFront in
  fun m -> match m with MWrite -> a | MReader -> b | MFront -> c

let progs_of_name (s : string) : method0 -> instr list =
  memo @@ match s with
  | "plain" -> prog_of
  | "cts_front" -> prog_of_cts_front
  | "cts_reader" -> prog_of_cts_reader
  | "fast_front" -> prog_of_fast_front
  | "facts" -> (match facts_table with
                | Some f -> f
                | None -> prerr_endline "this driver was built without the source-derived tables"; exit 2)
  | _ -> prerr_endline ("unknown program table " ^ s); exit 2

(* ------------------------------------------------------------------ state normalisation
   The extracted state holds its arrays as closures (upd chains).  After every operation / step the
   closures are rebuilt from the values on the 2^k slots and the nthreads threads, so a lookup stays O(1).
   Indices used by the instruction tables are always masked (EMask) in Pipe.prog_of; a table that indexes
   outside the slots would lose that write here (the facts check fails for such a table anyway). *)
let normalize (k : int) (nth : int) (s : state) : state =
  let sz = 1 lsl k in
  let fl = Array.init sz (fun i -> s.flags (ni i)) in
  let bf = Array.init sz (fun i -> s.buf (ni i)) in
  let gp = Array.init sz (fun i -> s.gpos (ni i)) in
  let tl = Array.init nth (fun t -> s.tls (nat_of_int t)) in
  let look a d j = let i = ii j in if i < sz then a.(i) else d in
  { s with flags = look fl N0; buf = look bf N0; gpos = look gp N0;
           tls = (fun t -> let i = int_of_nat t in if i < nth then tl.(i) else tl0) }

let flag_letter (f : n) : char =
  let v = ii f in
  if v = 0 then 'W' else if v = 0x11111111 then 'R' else if v = 0xFFFFFFFF then 'I' else '?'

let state_line (k : int) (s : state) : string =
  let sz = 1 lsl k in
  Printf.sprintf "W=%d RC=%d RI=%d FL=%s" (ii s.gW) (ii s.gRC) (ii s.gRI)
    (String.init sz (fun i -> flag_letter (s.flags (ni i))))

let fuel_for k = nat_of_int (64 * (1 lsl k) + 64)

type sop = SW of int | SF | SR | SE | SC

let parse_op (s : string) : sop =
  match s.[0] with
  | 'w' -> SW (int_of_string (String.sub s 1 (String.length s - 1)))
  | 'f' -> SF | 'r' -> SR | 'e' -> SE | 'c' -> SC
  | _ -> failwith ("op " ^ s)

let event_of = function
  | SW x -> (nat_of_int 0, OpWrite (ni x))
  | SF -> (nat_of_int 0, OpFront)
  | SR -> (nat_of_int 1, OpRead)
  | _ -> assert false

let tok_of (o : sop) (r : (bool * n) option) : string =
  match o, r with
  | SW x, Some (b, _) -> Printf.sprintf "w%d=%s" x (if b then "T" else "F")
  | SF, Some (true, x) -> Printf.sprintf "f=T:%d" (ii x)
  | SF, Some (false, _) -> "f=F"
  | SR, Some (true, x) -> Printf.sprintf "r=T:%d" (ii x)
  | SR, Some (false, _) -> "r=F"
  | _, None -> "?=noresult"
  | _ -> "?"

let seq_case (progs : method0 -> instr list) (line : string) : string =
  let toks = List.filter (fun s -> s <> "") (String.split_on_char ' ' line) in
  match toks with
  | id :: ks :: vs :: ops ->
    let k = int_of_string ks and v = int_of_string vs in
    let kn = ni k and w = ni 32 and nth = nat_of_int 2 in
    let fuel = fuel_for k in
    let ops = List.map parse_op ops in
    let s0 = normalize k 2 (preset init (ni v)) in
    let s = ref s0 in
    let out = Buffer.create 256 in
    let spin = ref "" in
    let results = ref [] in
    (try
      List.iteri (fun i o ->
        match o with
        | SE -> Buffer.add_string out (if is_pipe_empty w !s then " e=T" else " e=F")
        | SC -> s := normalize k 2 (clear !s); Buffer.add_string out " c"
        | _ ->
          (match run_op_gen kn w nth progs fuel !s (event_of o) with
           | Some (s', r) ->
             (* re-tabulate the closures: every operation for small pipes, every 8th for 256 slots *)
             s := (if k <= 4 || i land 7 = 7 then normalize k 2 s' else s'); results := r :: !results;
             Buffer.add_char out ' '; Buffer.add_string out (tok_of o r)
           | None ->
             spin := Printf.sprintf " SPIN@%d:%s" i (match o with SW x -> "w" ^ string_of_int x | SF -> "f" | _ -> "r");
             raise Exit)) ops
    with Exit -> ());
    (* cross-check with Pipe.run_seq itself on short plain sequences *)
    let plain_ops = List.for_all (function SE | SC -> false | _ -> true) ops in
    let incons =
      if plain_ops && List.length ops <= 16 then begin
        let (sf, rs) = run_seq_gen kn w nth progs fuel (List.map event_of ops) s0 in
        let mine = List.rev !results @ (if !spin <> "" then [None] else []) in
        if rs = mine && state_line k sf = state_line k !s then "" else " DRIVER-INCONSISTENT"
      end else "" in
    Printf.sprintf "%s%s | %s%s%s" id (Buffer.contents out) (state_line k !s) !spin incons
  | _ -> "bad-case"

(* ------------------------------------------------------------------ exploration *)
type xst = { st : state; left : int array; nextid : int }

let method_code = function None -> 0 | Some MWrite -> 1 | Some MReader -> 2 | Some MFront -> 3

let key_of (k : int) (nth : int) (x : xst) : string =
  let b = Buffer.create 256 in
  let add i = Buffer.add_string b (string_of_int i); Buffer.add_char b ',' in
  let s = x.st in
  add (ii s.gW); add (ii s.gRC); add (ii s.gRI);
  for i = 0 to (1 lsl k) - 1 do add (ii (s.flags (ni i))); add (ii (s.buf (ni i))) done;
  for t = 0 to nth - 1 do
    let l = s.tls (nat_of_int t) in
    add (method_code l.mode); add (int_of_nat l.pc);
    let r = l.rg in
    List.iter (fun v -> add (ii v)) [r.rwi; r.rrc; r.ridx; r.ract; r.rprev; r.rnum; r.rtmp; r.rin; r.rout];
    add x.left.(t)
  done;
  add x.nextid;
  Buffer.add_char b 'w'; List.iter (fun v -> add (ii v)) s.written;
  Buffer.add_char b 'd'; List.iter add (List.sort compare (List.map (fun (_, v) -> ii v) s.delivered));
  Digest.string (Buffer.contents b)

let ev_string (t, o) =
  Printf.sprintf "%d:%s" t (match o with `W x -> "w" ^ string_of_int x | `F -> "f" | `R -> "r" | `C -> "-")

let coq_event (t, o) : event =
  (nat_of_int t, match o with `W x -> OpWrite (ni x) | `F -> OpFront | `R | `C -> OpRead)

let parse_event (s : string) =
  match String.split_on_char ':' s with
  | [t; o] -> (int_of_string t,
               (match o.[0] with
                | 'w' -> `W (int_of_string (String.sub o 1 (String.length o - 1)))
                | 'f' -> `F | 'r' -> `R | _ -> `C))
  | _ -> failwith ("event " ^ s)

let rec has_dup = function [] -> false | x :: r -> List.mem x r || has_dup r

let opt_arg (args : string list) (name : string) (dflt : string) : string =
  let p = name ^ "=" in
  let n = String.length p in
  List.fold_left (fun acc a -> if String.length a >= n && String.sub a 0 n = p then String.sub a n (String.length a - n) else acc) dflt args


let rec nth_instr (l : instr list) (i : int) : instr =
  match l with [] -> IRet false | x :: r -> if i = 0 then x else nth_instr r (i - 1)

(* definite assignment: in every method every register is written before it is read on every path
   (Rin is set by begin for MWrite).  Forward may-be-unassigned analysis over the table's control flow. *)
let all_regs = [Rwi; Rrc; Ridx; Ract; Rprev; Rnum; Rtmp; Rin; Rout]
let rec exp_regs = function
  | EReg r -> [r] | EConst _ -> [] | EAdd1 e | ESub1 e | EMask e -> exp_regs e | ESub (a, b) -> exp_regs a @ exp_regs b
let rec cond_regs = function
  | CEq (a, b) | CNe (a, b) | CGe (a, b) -> exp_regs a @ exp_regs b | COr (c, d) -> cond_regs c @ cond_regs d
let reads_writes (i : instr) : reg list * reg list =
  match i with
  | ILoad (r, _) -> ([], [r]) | IStore (_, e) -> (exp_regs e, []) | IAdd _ -> ([], [])
  | ILoadFlag (r, idx) -> ([idx], [r]) | IStoreFlag (idx, v) -> ((if v = fLAG_CAN_READ then [idx; Rwi; Rin] else [idx]), []) (* publishing: ghost reads rwi, rin *)
  | ICas (r, idx, _, _) -> ([idx], [r]) | ILoadBuf (r, idx) -> ([idx], [r]) | IStoreBuf (idx, src) -> ([idx; src], [])
  | ISet (r, e) -> (exp_regs e, [r]) | IfNot (c, _) -> (cond_regs c, []) | IJmp _ -> ([], [])
  | IRet true -> ([Rout], []) | IRet false -> ([], []) | IBarrier -> ([], [])
let regs_defined_before_use (progs : method0 -> instr list) : bool =
  List.for_all (fun m ->
    let prog = Array.of_list (progs m) in
    let n = Array.length prog in
    (* defined.(pc) = Some (set of registers assigned on EVERY path reaching pc) *)
    let defined : reg list option array = Array.make (n + 1) None in
    let ok = ref true in
    let work = Queue.create () in
    let join pc d =
      if pc < n then
        match defined.(pc) with
        | None -> defined.(pc) <- Some d; Queue.add pc work
        | Some d0 -> let d1 = List.filter (fun r -> List.mem r d) d0 in
                     if List.length d1 <> List.length d0 then (defined.(pc) <- Some d1; Queue.add pc work) in
    join 0 (match m with MWrite -> [Rin] | _ -> []);
    while not (Queue.is_empty work) do
      let pc = Queue.pop work in
      let d = match defined.(pc) with Some d -> d | None -> [] in
      let (rd, wr) = reads_writes prog.(pc) in
      if not (List.for_all (fun r -> List.mem r d) rd) then ok := false;
      let d' = List.filter (fun r -> not (List.mem r d)) wr @ d in
      (match prog.(pc) with
       | IRet _ -> ()
       | IJmp t -> join (int_of_nat t) d'
       | IfNot (_, t) -> join (pc + 1) d'; join (int_of_nat t) d'
       | _ -> join (pc + 1) d')
    done;
    !ok) [MWrite; MReader; MFront]

let explore (args : string list) =
  match args with
  | ks :: ws :: rs :: mos :: mrs :: rest ->
    let k = int_of_string ks and wi = int_of_string ws and readers = int_of_string rs in
    let mo = int_of_string mos and mr = int_of_string mrs in
    let pname = if List.mem "facts" rest then "facts" else opt_arg rest "progs" "plain" in
    let progs = progs_of_name pname in
    let plain = (pname = "plain") in
    let v = int_of_string (opt_arg rest "preset" "0") in
    let maxstates = int_of_string (opt_arg rest "maxstates" "8000000") in
    let nth = readers + 1 in
    let kn = ni k and w = ni wi and nthn = nat_of_int nth in
    let modulus = 1 lsl wi in
    let fuel = fuel_for k in
    let norm s = normalize k nth s in
    (* partial-order reduction: an instruction that touches no shared memory and no ghost (ISet, IfNot, IJmp,
       IRet, IBarrier, and the begin of an operation) commutes with every step of every other thread, so a
       thread's move is: one instruction, then all following local instructions (at most 64).  The states
       skipped differ from a visited one only in a pc/register of that thread; every configuration of the
       shared memory, and every quiescent state, is still reached.  The schedule printed lists EVERY
       micro-step, so it replays with Pipe.run_gen. *)
    let is_local s t =
      let l = s.tls (nat_of_int t) in
      match l.mode with
      | None -> false
      | Some m -> (match nth_instr (progs m) (int_of_nat l.pc) with
                   | ISet _ | IfNot _ | IJmp _ | IRet _ | IBarrier -> true
                   | _ -> false) in
    let zero_idle = plain || regs_defined_before_use progs in
    let tidy s t =
      (* an idle thread's registers are dead when every method assigns each register before reading it
         (checked on the tables by regs_defined_before_use): forget them, they only multiply states *)
      let l = s.tls (nat_of_int t) in
      if zero_idle && l.mode = None && l.rg <> regs0 then set_tl s (nat_of_int t) { l with rg = regs0 } else s in
    let move s t o =
      let evs = ref [(t, o)] in
      let s = ref (step_gen kn w nthn progs s (coq_event (t, o))) in
      (match o with `C -> () | _ -> (* begin is local: execute the first instruction too *)
         s := step_gen kn w nthn progs !s (coq_event (t, `C)); evs := (t, `C) :: !evs);
      let n = ref 0 in
      while is_local !s t && !n < 64 do
        s := step_gen kn w nthn progs !s (coq_event (t, `C)); evs := (t, `C) :: !evs; incr n
      done;
      (norm (tidy !s t), List.rev !evs) in
    let x0 = { st = norm (preset init (ni v)); left = Array.init nth (fun t -> if t = 0 then mo else mr); nextid = 1 } in
    let seen : (string, int) Hashtbl.t = Hashtbl.create 1000003 in
    (* parent pointers: state number -> (parent number, events leading here) *)
    let parents : (int * (int * [ `W of int | `F | `R | `C ]) list) array ref = ref (Array.make 1024 (-1, [])) in
    let nstates = ref 0 and nquiet = ref 0 in
    let set_parent i p =
      if i >= Array.length !parents then begin
        let a = Array.make (2 * Array.length !parents) (-1, []) in
        Array.blit !parents 0 a 0 (Array.length !parents); parents := a end;
      !parents.(i) <- p in
    let schedule_of i =
      let rec go i acc = if i < 0 then acc else let (p, evs) = !parents.(i) in go p (evs @ acc) in
      String.concat "," (List.map ev_string (go i [])) in
    let fail kind i =
      Printf.printf "COUNTEREXAMPLE %s states=%d progs=%s k=%d w=%d readers=%d preset=%d schedule=%s\n"
        kind !nstates pname k wi readers v (schedule_of i);
      exit 0 in
    let check (x : xst) (i : int) =
      let s = x.st in
      let dl = List.map (fun (_, y) -> ii y) s.delivered in
      let wr = List.map ii s.written in
      if has_dup dl then fail "duplicate-delivery" i;
      if List.exists (fun y -> not (List.mem y wr)) dl then fail "delivered-not-written" i;
      let quiet = quiescentb nthn s in
      let inp = List.map ii (in_pipe kn s) in
      if plain || quiet then begin
        let cl = if plain then List.map ii (claimed nthn s) else [] in
        if List.sort compare wr <> List.sort compare (inp @ cl @ dl) then
          fail (if quiet then "item-lost-or-invented-at-quiescence" else "conservation(written<>in_pipe+claimed+delivered)") i
      end;
      if quiet then begin
        incr nquiet;
        let ncr = List.length inp in
        let diff = ((ii s.gW - ii s.gRC) mod modulus + modulus) mod modulus in
        if diff <> ncr then fail (Printf.sprintf "count-mismatch(W-RC=%d,CAN_READ=%d)" diff ncr) i;
        if is_pipe_empty w s <> (ncr = 0) then fail "IsPipeEmpty-mismatch" i;
        for j = 0 to (1 lsl k) - 1 do
          if flag_letter (s.flags (ni j)) <> 'W' && flag_letter (s.flags (ni j)) <> 'R' then fail "flag-not-CAN_READ/CAN_WRITE-at-quiescence" i
        done;
        if ncr >= 1 then begin
          (match run_op_gen kn w nthn progs fuel s (nat_of_int 1, OpRead) with
           | None -> fail "read-spins-on-nonempty-pipe" i
           | Some (_, Some (true, y)) -> if not (List.mem (ii y) inp) then fail "read-returns-item-not-in-pipe" i
           | Some (_, _) -> fail "read-fails-on-nonempty-pipe" i);
          (match run_op_gen kn w nthn progs fuel s (nat_of_int 0, OpFront) with
           | None -> fail "front-spins-on-nonempty-pipe" i
           | Some (_, Some (true, y)) -> if not (List.mem (ii y) inp) then fail "front-returns-item-not-in-pipe" i
           | Some (_, _) -> fail "front-fails-on-nonempty-pipe" i)
        end
      end in
    let q = Queue.create () in
    let visit (x : xst) (parent : int) evs =
      let key = key_of k nth x in
      if not (Hashtbl.mem seen key) then begin
        let i = !nstates in
        Hashtbl.add seen key i; incr nstates; set_parent i (parent, evs);
        check x i;
        Queue.add (x, i) q
      end in
    visit x0 (-1) [];
    let truncated = ref false in
    while not (Queue.is_empty q) && not !truncated do
      let (x, i) = Queue.pop q in
      if !nstates > maxstates then truncated := true else
      for t = 0 to nth - 1 do
        let l = x.st.tls (nat_of_int t) in
        match l.mode with
        | Some _ -> let (s', evs) = move x.st t `C in visit { x with st = s' } i evs
        | None ->
          if x.left.(t) > 0 then begin
            let left' = Array.copy x.left in
            left'.(t) <- left'.(t) - 1;
            let go o nextid = let (s', evs) = move x.st t o in visit { st = s'; left = left'; nextid } i evs in
            if t = 0 then begin go (`W x.nextid) (x.nextid + 1); go `F x.nextid end
            else go `R x.nextid
          end
      done
    done;
    Printf.printf "EXPLORED states=%d quiescent=%d progs=%s k=%d w=%d readers=%d ops=%d/%d preset=%d %s\n"
      !nstates !nquiet pname k wi readers mo mr v (if !truncated then "truncated" else "ok")
  | _ -> prerr_endline "explore <k> <w> <readers> <maxops_owner> <maxops_reader> [preset=v] [progs=p] [facts]"; exit 2

let replay (args : string list) =
  match args with
  | ks :: ws :: rs :: rest ->
    let k = int_of_string ks and wi = int_of_string ws and readers = int_of_string rs in
    let pname = if List.mem "facts" rest then "facts" else opt_arg rest "progs" "plain" in
    let progs = progs_of_name pname in
    let v = int_of_string (opt_arg rest "preset" "0") in
    let sched = List.filter (fun s -> s <> "") (String.split_on_char ',' (opt_arg rest "schedule" "")) in
    let nth = readers + 1 in
    let s = run_gen (ni k) (ni wi) (nat_of_int nth) progs (List.map (fun e -> coq_event (parse_event e)) sched) (preset init (ni v)) in
    let s = normalize k nth s in
    Printf.printf "REPLAY %s quiescent=%b written=[%s] delivered=[%s] in_pipe=[%s] threads=[%s]\n" (state_line k s)
      (quiescentb (nat_of_int nth) s)
      (String.concat ";" (List.map (fun x -> string_of_int (ii x)) s.written))
      (String.concat ";" (List.map (fun (t, x) -> Printf.sprintf "%d:%d" (int_of_nat t) (ii x)) s.delivered))
      (String.concat ";" (List.map (fun x -> string_of_int (ii x)) (in_pipe (ni k) s)))
      (String.concat ";" (List.init nth (fun t -> let l = s.tls (nat_of_int t) in
                                                  Printf.sprintf "%d@%d" (method_code l.mode) (int_of_nat l.pc))))
  | _ -> prerr_endline "replay <k> <w> <readers> [preset=v] [progs=p] schedule=..."; exit 2

let () =
  match List.tl (Array.to_list Sys.argv) with
  | "explore" :: args -> explore args
  | "replay" :: args -> replay args
  | "factsinfo" :: _ ->
    (* per method: did the source compile to an instruction table, and is it Pipe.v's table *)
    List.iter (fun (m, ok, same) -> Printf.printf "FACTS %s compiled=%b same_as_model=%b\n" m ok same) facts_info;
    if facts_info = [] then print_endline "FACTS none"
  | "seq" :: rest ->
    let progs = progs_of_name (if List.mem "facts" rest then "facts" else opt_arg rest "progs" "plain") in
    (try while true do
       let line = input_line stdin in
       print_endline (try seq_case progs line with Failure m -> "bad-case " ^ m);
       flush stdout
     done with End_of_file -> ())
  | _ -> prerr_endline "usage: pipe_model seq|explore|replay ..."; exit 2
