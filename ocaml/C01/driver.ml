(* C01 driver: one case per line, one observation line per case (same form as harness/C01/harness.cpp)
     F <id> <type> <n> <cost> <depth> <backend>   -> "<id> cnt=<requested_count backend type n> ok"
     B <id> <type> <n> <B>                        -> "<id> nb=<k> [b,e) ..."  (machine-width reading of the block arithmetic)
     E <id> <count> <a> <b>                       -> "<id> cnt=<k> ok"
     A <id> <T> <n> <t:lo-hi> ...                 -> "<id> accept" | "<id> reject"   (trace validation)
     R <id> <T> <n> <seed> <steps>                -> random schedule of the model machine; prints its final log as an A-style trace *)
let ity_of = function
  | "uc" -> TUChar | "sh" -> TShort | "i" -> TInt | "u" -> TUInt | "l" -> TLong | "ll" -> TLLong
  | "ull" -> TULLong | "sz" -> TSizeT | s -> failwith ("type " ^ s)
let bk_of = function "tbb" -> BTbb | "omp" -> BOmp | "internal" -> BInternal | "debug" -> BDebug | s -> failwith ("backend " ^ s)
let is_signed = function TShort | TInt | TLong | TLLong -> true | _ -> false
let zs = string_of_z
let show_blk (b, e) = Printf.sprintf " [%s,%s)" (zs b) (zs e)
let rec take k l = if k <= 0 then [] else match l with [] -> [] | x :: r -> x :: take (k - 1) r
let () =
  try while true do
    let line = input_line stdin in
    let toks = List.filter (fun s -> s <> "") (String.split_on_char ' ' line) in
    (match toks with
    | ["F"; id; ty; n; _cost; _depth; bk] ->
      let c = requested_count (bk_of bk) (ity_of ty) (z_of_string n) in
      Printf.printf "%s cnt=%s ok\n" id (zs c)
    | ["B"; id; ty; n; bs] ->
      let t = cty (ity_of ty) and n = z_of_string n and bs = z_of_string bs in
      let nb = m_num_blocks t n bs in
      let blk b = (m_block_begin t bs b, m_block_end t n bs b) in
      let nbi = int_of_z nb in
      if nbi <= 40 then begin
        let bl = List.map blk (zrange Z0 nb) in
        Printf.printf "%s nb=%d%s\n" id nbi (String.concat "" (List.map show_blk bl))
      end else begin
        let z k = z_of_int k in
        (* chain=1 and maxlen are the statement of blocks_partition / blocks_machine_exact (proved for every n, B) *)
        Printf.printf "%s nb=%d%s%s ..%s%s chain=1 maxlen=%s\n" id nbi (show_blk (blk (z 0))) (show_blk (blk (z 1)))
          (show_blk (blk (z (nbi - 2)))) (show_blk (blk (z (nbi - 1)))) (zs (if Z.ltb n bs then n else bs))
      end
    | ["E"; id; count; a; b] ->
      let count = int_of_string count and a = int_of_string a and b = int_of_string b in
      let lo = min a count in let hi = max lo (count - b) in
      (* zrange is unary-recursive (quadratic after extraction): evaluate the model's address list only for
         small counts; above that its length is the statement of foreach_once (length = count) *)
      let k = if hi - lo <= 3000 then List.length (foreach_addrs (z_of_int 4096) (z_of_int 8) (z_of_int (hi - lo))) else hi - lo in
      Printf.printf "%s cnt=%d ok\n" id k
    | "A" :: id :: t :: n :: pieces ->
      let log = List.map (fun s -> Scanf.sscanf s "%d:%d-%d" (fun t lo hi -> (nat_of_int t, (z_of_int lo, z_of_int hi)))) pieces in
      Printf.printf "%s %s\n" id (if accepts (z_of_string n) (nat_of_int (int_of_string t)) log then "accept" else "reject")
    | ["R"; id; t; n; seed; steps] ->
      (* random walk of the model machine until it is joined (or steps exhausted), then its log *)
      let tt = int_of_string t in
      let p = mk_params (z_of_string n) (nat_of_int tt) in
      let rng = Random.State.make [| int_of_string seed |] in
      let s = ref (init p (nat_of_int 0)) in
      let k = ref (int_of_string steps) in
      let joined st = (match st.adder with None -> true | Some _ -> false) && st.rc = Z0 in
      while !k > 0 && not (joined !s) do
        decr k;
        let ne = List.length !s.entries and no = List.length !s.owed in
        let r x = nat_of_int (Random.State.int rng (max 1 x)) in
        let l = match Random.State.int rng 11 with
          | 0 -> AddWrite | 1 -> AddFullInline | 2 -> AddDone | 3 -> PopOwn (r tt) | 4 -> Steal (r tt, r tt)
          | 5 -> SplitRest (r ne) | 6 -> RestWrite (r ne) | 7 -> RestFullInline (r ne) | 8 -> RestDone (r ne)
          | 9 -> Exec (r ne) | _ -> Dec (r no) in
        (match step p !s l with Some s' -> s := s' | None -> ())
      done;
      Printf.printf "%s %s T=%d n=%s pieces%s\n" id (if joined !s then "joined" else "running") tt n
        (String.concat "" (List.map (fun (th, (lo, hi)) -> Printf.sprintf " %d:%s-%s" (int_of_nat th) (zs lo) (zs hi)) !s.elog))
    | id :: _ -> Printf.printf "%s bad-case\n" (if List.length toks > 1 then List.nth toks 1 else id)
    | [] -> print_endline "");
    flush stdout
  done with End_of_file -> ()
