(* C03 driver.
     model paths  <T|K> <repaired|original>   edge-covering schedules (shortest path from init to the
                                              source of each not-yet-covered edge, then the edge)
     model refute <T|K>                       the refuting schedule of the Original system
     model run    <repaired|original>         stdin: lines "R <T|K> tok tok ..." ; prints per line the
                                              observation after every step, joined by " ; "
   tokens: L (loop step) W (spurious wake) s p d (controller calls start/stop/destroy) C (controller step) *)
let lname s = match s.lp with
  | LTop -> "loop.top" | LChk -> "loop.after_alive_check" | LPub -> "loop.before_set_inside"
  | LTest -> "loop.before_running_check" | LRunOld -> "loop.after_running_check"
  | LEnter -> "loop.body_enter" | LBody -> "body.inside" | LBodyX -> "loop.body_exit"
  | LClr -> "loop.after_clear_inside" | LIdle -> "loop.idle" | LBeforeLock -> "loop.before_lock"
  | LPred -> "loop.pred_enter" | LPredMid -> "loop.pred_mid" | LPredT -> "loop.pred_evaluated=1"
  | LPredF -> "loop.pred_evaluated=0"
  | LSleep -> (match s.cv with CvNotified -> "woken" | _ -> "asleep")
  | LUnl -> "loop.unlocked" | LExit -> "loop.exit" | LDone -> "done"
let cname s = match s.cp with
  | CIdle -> "ctl.idle" | SChk -> "start.after_check" | SLocked -> "start.locked" | SSet -> "start.after_set"
  | SUnl -> "start.unlocked" | SNot -> "start.after_notify" | SRet -> "start.return"
  | PChk -> "stop.after_check" | PClr -> "stop.after_clear" | PSpin -> "stop.spin" | PRet -> "stop.return"
  | DBL -> "dtor.before_lock" | DLocked -> "dtor.locked" | DClrA -> "dtor.after_clear_alive"
  | DClr -> "dtor.after_clear" | DUnl -> "dtor.unlocked" | DNot -> "dtor.after_notify"
  | DRet -> "dtor.after_join" | CDead -> "ctl.dead"
let b x = if x then 1 else 0
let obs s = Printf.sprintf "L:%s C:%s a=%d r=%d i=%d act=%d sr=%d st=%d dr=%d" (lname s) (cname s)
    (b s.alive) (b s.run) (b s.inside) (b s.active) (b s.stop_ret) (b s.start_ret) (b s.dtor_ret)
let tok_of = function StepL -> "L" | WakeL -> "W" | CallStart -> "s" | CallStop -> "p" | CallDestroy -> "d" | StepC -> "C"
let lab_of = function "L" -> StepL | "W" -> WakeL | "s" -> CallStart | "p" -> CallStop | "d" -> CallDestroy
                    | "C" -> StepC | t -> failwith ("bad token " ^ t)
let launch_of = function "T" -> THREAD | "K" -> TASK | t -> failwith ("bad launch " ^ t)
let variant_of = function "repaired" -> Repaired | "original" -> Original | t -> failwith ("bad variant " ^ t)

(* an edge the harness cannot force: the controller takes the mutex while the model's sleeper has been
   notified but has not yet re-locked (on the real code the woken thread re-locks by itself) *)
let unforcible s lab = match lab, s.lp, s.cv, s.cp with
  | StepC, LSleep, CvNotified, (SChk | DBL) -> true
  | _ -> false

let paths sys =
  let parent : (state, (state * label) option) Hashtbl.t = Hashtbl.create 1024 in
  let depth = Hashtbl.create 1024 in
  let order = ref [] in
  let q = Queue.create () in
  Hashtbl.replace parent init None; Hashtbl.replace depth init 0; Queue.add init q;
  (* BFS over forcible edges first *)
  let edges = ref [] in
  let bfs allow_unf =
    while not (Queue.is_empty q) do
      let s = Queue.pop q in
      order := s :: !order;
      List.iter (fun lab -> match step sys s lab with
          | None -> ()
          | Some s' ->
            if allow_unf || not (unforcible s lab) then begin
              if not allow_unf then edges := (s, lab, s') :: !edges;
              if not (Hashtbl.mem parent s') then begin
                Hashtbl.replace parent s' (Some (s, lab));
                Hashtbl.replace depth s' (Hashtbl.find depth s + 1); Queue.add s' q end end)
        all_labels
    done in
  bfs false;
  let forcible_states = Hashtbl.length parent in
  (* count everything (including what is only reachable through unforcible edges) *)
  let all_states = match explore sys fuel with Some l -> l | None -> failwith "explore: out of fuel" in
  let total_edges = List.fold_left (fun n s -> n + List.length (succs sys s)) 0 all_states in
  let rec path_to s acc = match Hashtbl.find parent s with
    | None -> acc | Some (p, lab) -> path_to p (lab :: acc) in
  let covered = Hashtbl.create 4096 in
  let es = List.sort (fun (s1, _, _) (s2, _, _) -> compare (Hashtbl.find depth s2) (Hashtbl.find depth s1)) !edges in
  let out = ref [] in
  List.iter (fun (s, lab, _) ->
      if not (Hashtbl.mem covered (s, lab)) then begin
        let p = path_to s [lab] in
        (* mark every edge along the path *)
        let _ = List.fold_left (fun st l -> Hashtbl.replace covered (st, l) ();
                                 match step sys st l with Some st' -> st' | None -> failwith "path") init p in
        out := p :: !out end) es;
  Printf.printf "# states=%d forcible_states=%d edges=%d forcible_edges=%d paths=%d\n"
    (List.length all_states) forcible_states total_edges (List.length !edges) (List.length !out);
  List.iter (fun p -> print_endline (String.concat " " (List.map tok_of p))) (List.rev !out)

(* seeded random walk over the enabled, forcible transitions; "W <T|K> <seed> <n>" -> "R <T|K> tok ..." *)
let walk_line variant line =
  match List.filter (fun s -> s <> "") (String.split_on_char ' ' line) with
  | ["W"; l; seed; n] ->
    let sys = (launch_of l, variant) in
    let x = ref (int_of_string seed land 0x3fffffff) in
    let rnd k = x := (!x * 1103515245 + 12345) land 0x3fffffff; (!x lsr 8) mod k in
    let weight = function StepL -> 10 | StepC -> 10 | CallStart -> 6 | CallStop -> 6 | WakeL -> 2 | CallDestroy -> 1 in
    let rec go s k acc =
      if k = 0 then List.rev acc else
        let en = List.filter (fun lab -> step sys s lab <> None && not (unforcible s lab)) all_labels in
        if en = [] then List.rev acc else begin
          let tot = List.fold_left (fun a lab -> a + weight lab) 0 en in
          let r = ref (rnd tot) in
          let pick = ref (List.hd en) in
          (try List.iter (fun lab -> if !r < weight lab then (pick := lab; raise Exit) else r := !r - weight lab) en with Exit -> ());
          match step sys s !pick with Some s' -> go s' (k - 1) (tok_of !pick :: acc) | None -> List.rev acc end in
    print_endline (String.concat " " ("R" :: l :: go init (int_of_string n) []))
  | _ -> print_endline "BAD-LINE"

let run_line variant line =
  match List.filter (fun s -> s <> "") (String.split_on_char ' ' line) with
  | "R" :: l :: toks ->
    let sys = (launch_of l, variant) in
    let rec go s toks acc = match toks with
      | [] -> List.rev acc
      | t :: r -> (match step sys s (lab_of t) with
          | Some s' -> go s' r (obs s' :: acc)
          | None -> List.rev ("DISABLED" :: acc)) in
    print_endline (String.concat " ; " (go init toks []))
  | _ -> print_endline "BAD-LINE"

(* launch-method resolution of the constructor: "model resolve <THREAD|TASK|AUTO> <numTaskingThreads>" -> T | K *)
let rec pos_of_int_ n = if n <= 1 then XH else if n land 1 = 1 then XI (pos_of_int_ (n lsr 1)) else XO (pos_of_int_ (n lsr 1))
let z_of_int_ i = if i = 0 then Z0 else if i > 0 then Zpos (pos_of_int_ i) else Zneg (pos_of_int_ (- i))
let method_of = function "THREAD" -> MThread | "TASK" -> MTask | "AUTO" -> MAuto | t -> failwith ("bad method " ^ t)

let () =
  match Array.to_list Sys.argv with
  | [_; "resolve"; m; n] ->
    print_endline (match resolve (method_of m) (z_of_int_ (int_of_string n)) with THREAD -> "T" | TASK -> "K")
  | [_; "paths"; l; v] -> paths (launch_of l, variant_of v)
  | [_; "refute"; l] -> ignore l; print_endline (String.concat " " (List.map tok_of refuting_schedule))
  | [_; "run"; v] ->
    (try while true do run_line (variant_of v) (input_line stdin) done with End_of_file -> ())
  | [_; "walks"; v] ->
    (try while true do walk_line (variant_of v) (input_line stdin) done with End_of_file -> ())
  | _ -> prerr_endline "usage: model paths|refute|run|walks ..."; exit 2
