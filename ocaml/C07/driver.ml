(* C07 driver for the extracted integer model (coq/C07/Model.v).  One case per line:
     20 a b | 23 a b      divRoundUp in a signed type (no overflow on the inputs supplied)
     21 a b | 22 a b      divRoundUp in uint32_t / uint64_t (wrap-around modelled)
     24 x lo hi | 27 ...  clamp<int>/<int64_t>
     25 seed seq n        first n outputs of pcg32 seeded (seed, sequence), comma separated
     26 c0 c1 c2 c3       cvt_uint32(vec4f) packing of four channel values 0..255
     29 seed seq n        as 25, computed by the generator regenerated from the sources (translation validation) *)
let zs = z_of_string
let () =
  try while true do
    let line = input_line stdin in
    let toks = List.filter (fun s -> s <> "") (String.split_on_char ' ' line) in
    let out = match toks with
      | ["20"; a; b] | ["23"; a; b] -> string_of_z (divRoundUp (zs a) (zs b))
      | ["21"; a; b] -> string_of_z (divRoundUp_u (z_of_int 32) (zs a) (zs b))
      | ["22"; a; b] -> string_of_z (divRoundUp_u (z_of_int 64) (zs a) (zs b))
      | ["24"; x; lo; hi] | ["27"; x; lo; hi] | ["47"; x; lo; hi] -> string_of_z (clampZ (zs x) (zs lo) (zs hi))
      | ["25"; seed; seq; n] ->
        String.concat "," (List.map string_of_z (pcg_stream (zs seed) (zs seq) (nat_of_int (int_of_string n))))
      | ["29"; seed; seq; n] ->      (* the engine assembled from REGENERATED pieces (GenRandom.gen_stream), machine reading *)
        String.concat "," (List.map string_of_z (gen_stream (zs seed) (zs seq) (nat_of_int (int_of_string n))))
      | ["70"; t; a; b] ->           (* divRoundUp<T>, T = int8 uint8 int16 uint16 int32 uint32 int64 uint64 (ids 0..7) *)
        (match int_of_string t with
         | 0 -> string_of_z (divRoundUp_n true (z_of_int 8) (zs a) (zs b))
         | 1 -> string_of_z (divRoundUp_n false (z_of_int 8) (zs a) (zs b))
         | 2 -> string_of_z (divRoundUp_n true (z_of_int 16) (zs a) (zs b))
         | 3 -> string_of_z (divRoundUp_n false (z_of_int 16) (zs a) (zs b))
         | 4 | 6 -> string_of_z (divRoundUp (zs a) (zs b))
         | 5 -> string_of_z (divRoundUp_u (z_of_int 32) (zs a) (zs b))
         | _ -> string_of_z (divRoundUp_u (z_of_int 64) (zs a) (zs b)))
      | ["71"; _; x; lo; hi] -> string_of_z (clampZ (zs x) (zs lo) (zs hi))
      | ["26"; a; b; c; d] -> string_of_z (pack (zs a) (zs b) (zs c) (zs d))
      | _ -> "?" in
    print_endline out
  done with End_of_file -> ()
