(* C19 driver: reads cases (see harness/C19/harness.cpp for the syntax), prints the same canonical
   observation line from the extracted model:
     H ...  per step  out|b0 b1|o0 o1 o2 o3   then " ## " and the stamp values per step
     T ...  per step  dense ranks of all existing variables, then " ## " and the values
   With argument "nopriv" only the results (no structure dump) are printed for H cases.
   Also cross-checks, inside the driver, the model's poll results against the history fold
   h_pending and prints !spec on a difference (never expected: proved in Coq). *)
let ios = int_of_string
let nb = 2 and no = 4
let nopriv = Array.length Sys.argv > 1 && Sys.argv.(1) = "nopriv"
let parse_h tok = match String.split_on_char ':' tok with
  | ["nb"; b] -> NewObservable (n_of_int (ios b))
  | ["db"; b] -> DelObservable (n_of_int (ios b))
  | ["no"; o; b] -> NewObserver (n_of_int (ios o), n_of_int (ios b))
  | ["do"; o] -> DelObserver (n_of_int (ios o))
  | ["n"; b] -> Notify (n_of_int (ios b))
  | ["p"; o] -> Poll (n_of_int (ios o))
  | _ -> failwith ("bad op " ^ tok)
let range n = List.init n (fun i -> i)
let dump_h s =
  let bs = List.map (fun b ->
      let r = s.obls (n_of_int b) in
      if not r.b_alive then "-" else
        "[" ^ String.concat "," (List.map (fun o ->
            if (s.obss o).o_alive then string_of_int (int_of_n o) else "X") r.b_regs) ^ "]") (range nb) in
  let os = List.map (fun o ->
      let r = s.obss (n_of_int o) in
      if not r.o_alive then "-" else
        match r.o_observee with
        | None -> "n."
        | Some b ->
          let rb = s.obls b in
          if not rb.b_alive then "X." else
            string_of_int (int_of_n b) ^ (if N.ltb r.o_stamp rb.b_stamp then "+" else ".")) (range no) in
  String.concat " " bs ^ "|" ^ String.concat " " os
let soft_h s =
  String.concat "" (List.map (fun b -> let r = s.obls (n_of_int b) in
                               if r.b_alive then string_of_int (int_of_n r.b_stamp) ^ "," else "-,") (range nb))
  ^ "|" ^
  String.concat "" (List.map (fun o -> let r = s.obss (n_of_int o) in
                               if r.o_alive then string_of_int (int_of_n r.o_stamp) ^ "," else "-,") (range no))
let run_h toks =
  let ops = List.map parse_h toks in
  let _, _, hard, soft = List.fold_left (fun (s, hist, hard, soft) e ->
      let r = step s e in
      let o = match r.r_out with
        | OUnit -> "ok" | OBool b -> if b then "true" else "false" | OInvalid -> "INVALID" in
      let o = if r.r_uaf then o ^ "!uaf" else o in
      let o = match e, r.r_out with
        | Poll ob, OBool b when b <> h_pending hist ob -> o ^ "!spec"
        | _ -> o in
      let s' = r.r_state in
      let line = if nopriv then o else o ^ "|" ^ dump_h s' in
      (s', hist @ [e], line :: hard, soft_h s' :: soft)) (init, [], [], []) ops in
  String.concat " ; " (List.rev hard) ^ " ## " ^ (if nopriv then "" else String.concat " ; " (List.rev soft))

(* T cases *)
let parse_t it =
  let i = String.index it '.' in
  let t = ios (String.sub it 0 i) in
  let f = String.split_on_char ':' (String.sub it (i + 1) (String.length it - i - 1)) in
  let n = fun s -> n_of_int (ios s) in
  (t, match f with
    | ["f"; x] -> IFresh (n x)
    | ["r"; x] -> IRenew (n x)
    | ["cc"; x; t2; y] | ["mc"; x; t2; y] -> ICopyCtor (n x, n t2, n y)
    | ["ca"; x; t2; y] | ["ma"; x; t2; y] -> IAssign (n x, n t2, n y)
    | _ -> failwith ("bad item " ^ it))
let run_t toks =
  let items = List.map parse_t toks in
  let tids = List.sort_uniq compare (List.map fst items) in
  let progs = List.map (fun t ->
      (n_of_int t, compile (List.map snd (List.filter (fun (t', _) -> t' = t) items)))) tids in
  let s0 = tinit (prog_of progs) in
  let vars = List.sort_uniq compare (List.concat_map (fun (t, i) -> match i with
      | IFresh x | IRenew x -> [(t, int_of_n x)]
      | ICopyCtor (x, t2, y) | IAssign (x, t2, y) -> [(t, int_of_n x); (int_of_n t2, int_of_n y)]) items) in
  let _, hard, soft = List.fold_left (fun (s, hard, soft) (t, i) ->
      let s' = List.fold_left (fun s _ -> tstep s (n_of_int t)) s (compile1 i) in
      let live = List.filter_map (fun (t, x) -> match s'.t_vars (n_of_int t) (n_of_int x) with
          | Some v -> Some (t, x, int_of_n v) | None -> None) vars in
      let vals = List.sort_uniq compare (List.map (fun (_, _, v) -> v) live) in
      let rank v = let rec go i = function [] -> -1 | w :: r -> if w = v then i else go (i + 1) r in go 0 vals in
      let h = String.concat " " (List.map (fun (t, x, v) -> Printf.sprintf "%d.%d=%d" t x (rank v)) live) in
      let sf = String.concat " " (List.map (fun (_, _, v) -> string_of_int v) live) in
      (s', h :: hard, sf :: soft)) (s0, [], []) items in
  String.concat " ; " (List.rev hard) ^ " ## " ^ String.concat " ; " (List.rev soft)

let () =
  try while true do
    let line = input_line stdin in
    let toks = List.filter (fun s -> s <> "") (String.split_on_char ' ' line) in
    match toks with
    | "H" :: ops -> print_endline (run_h ops)
    | "T" :: items -> print_endline (run_t items)
    | _ -> print_endline ""
  done with End_of_file -> ()
