(* C10 driver: reads cases, one per line:
     F <op> <op> ...     FlatMap history      ops: at:k idx:k set:k:v ati:i size empty has:k erase:k clear cat:k cati:i (const view)
     P <op> <op> ...     ParameterizedObject  ops: has:n set:n:t:v get:n:t:d rm:n reset add:n
   prints per case one line: per step "out|dump" joined by " ; " *)
let ios = int_of_string
let pr_out o = match o with
  | OVal v -> "val=" ^ string_of_int (int_of_n v)
  | OThrow -> "throw"
  | OItem (k, v) -> Printf.sprintf "item=%d,%d" (int_of_n k) (int_of_n v)
  | ONum x -> "num=" ^ string_of_int (int_of_n x)
  | OBool b -> if b then "true" else "false"
  | OUnit -> "ok"
let dump_fm m = "[" ^ String.concat " " (List.map (fun (k, v) -> Printf.sprintf "%d=%d" (int_of_n k) (int_of_n v)) m) ^ "]"
let dump_po s = "[" ^ String.concat " " (List.map (fun p ->
    Printf.sprintf "%d=%s%s" (int_of_n p.p_name)
      (match p.p_data with None -> "none" | Some (t, v) -> Printf.sprintf "%d:%d" (int_of_n t) (int_of_n v))
      (if p.p_query then "q" else "")) s) ^ "]"
let parse_f tok = match String.split_on_char ':' tok with
  | ["at"; k] -> FAt (n_of_int (ios k)) | ["idx"; k] -> FIndex (n_of_int (ios k))
  | ["set"; k; v] -> FSet (n_of_int (ios k), n_of_int (ios v))
  | ["ati"; i] -> FAtIndex (n_of_int (ios i)) | ["size"] -> FSize | ["empty"] -> FEmpty
  | ["has"; k] -> FContains (n_of_int (ios k)) | ["erase"; k] -> FErase (n_of_int (ios k))
  | ["clear"] -> FClear | ["copy"] -> FCopy
  | ["cat"; k] -> FAtC (n_of_int (ios k)) | ["cati"; i] -> FAtIndexC (n_of_int (ios i))
  | _ -> failwith ("bad op " ^ tok)
let parse_p tok = match String.split_on_char ':' tok with
  | ["has"; k] -> PHas (n_of_int (ios k))
  | ["set"; k; t; v] -> PSet (n_of_int (ios k), n_of_int (ios t), n_of_int (ios v))
  | ["get"; k; t; d] -> PGet (n_of_int (ios k), n_of_int (ios t), n_of_int (ios d))
  | ["rm"; k] -> PRemove (n_of_int (ios k)) | ["reset"] -> PReset
  | ["add"; k] -> PFindAdd (n_of_int (ios k)) | _ -> failwith ("bad op " ^ tok)
let () =
  try while true do
    let line = input_line stdin in
    let toks = List.filter (fun s -> s <> "") (String.split_on_char ' ' line) in
    match toks with
    | "F" :: ops ->
      let _, outs = List.fold_left (fun (m, acc) tok ->
          let (m', o) = fm_step m (parse_f tok) in (m', (pr_out o ^ "|" ^ dump_fm m') :: acc)) ([], []) ops in
      print_endline (String.concat " ; " (List.rev outs))
    | "C" :: tbl :: ops ->
      (* C <a=k,a=k,...> ops: keys in the ops are ARGUMENT codes, the model converts them (Model.fm_step_conv) *)
      let t = List.map (fun e -> match String.split_on_char '=' e with
          | [a; k] -> (n_of_int (ios a), n_of_int (ios k)) | _ -> failwith ("bad table " ^ e))
          (List.filter (fun s -> s <> "") (String.split_on_char ',' tbl)) in
      let _, outs = List.fold_left (fun (m, acc) tok ->
          let (m', o) = fm_step_conv t m (parse_f tok) in (m', (pr_out o ^ "|" ^ dump_fm m') :: acc)) ([], []) ops in
      print_endline (String.concat " ; " (List.rev outs))
    | "Q" :: ops ->
      (* two objects: a:<op> / b:<op> / cab / cba  (Model.po2_step) *)
      let parse_q tok =
        if tok = "cab" then QCopyAB else if tok = "cba" then QCopyBA
        else let o = parse_p (String.sub tok 2 (String.length tok - 2)) in
          if tok.[0] = 'a' then QA o else QB o in
      let _, outs = List.fold_left (fun (s, acc) tok ->
          let (s', o) = po2_step s (parse_q tok) in
          (s', (pr_out o ^ "|" ^ dump_po (p2_view s'.p2_h s'.p2_a) ^ "#" ^ dump_po (p2_view s'.p2_h s'.p2_b)) :: acc))
          ({ p2_h = []; p2_a = []; p2_b = [] }, []) ops in
      print_endline (String.concat " ; " (List.rev outs))
    | "P" :: ops ->
      let _, outs = List.fold_left (fun (s, acc) tok ->
          let (s', o) = po_step s (parse_p tok) in (s', (pr_out o ^ "|" ^ dump_po s') :: acc)) ([], []) ops in
      print_endline (String.concat " ; " (List.rev outs))
    | _ -> print_endline ""
  done with End_of_file -> ()
