(* C12 driver.
   driver seq        sequential histories on stdin, one case per line (same format as harness/C12/harness.cpp seq):
       B <kind> <nprod> op...    op: p<i> | m<i> (producer i pushes its next seq)  c (consume)  s (size)  e (empty)
       V <kind> <v0|-> op...     op: a<v> (assign)  u (update)  g (get)  r (ref)
     The buffer cases run the *system* model tb_sys_step (producer programs = 0,1,2,... as often as
     the producer occurs), the value cases the method-level functions.
   driver tracebuf   a consumer history recorded by `harness stressbuf ... <tracefile>` on stdin; verdict of the
                     extracted acceptance functions tb_accept / tb_accept_obs (first line), plus where it fails.
   driver traceval   a consumer history recorded by `harness stressval ... <tracefile>`; verdict of tv_accept. *)
let ios = int_of_string
let rest s = ios (String.sub s 1 (String.length s - 1))
let rec last = function [] -> failwith "last" | [x] -> x | _ :: t -> last t
let pr_batch b = "[" ^ String.concat " " (List.map (fun (p, s) -> Printf.sprintf "%d.%d" (int_of_nat p) (int_of_n s)) b) ^ "]"
let words line = List.filter (fun s -> s <> "") (String.split_on_char ' ' line)
let range_n lo hi = (* [lo; ...; hi-1] as N, built from the back *)
  let rec go i acc = if i < lo then acc else go (i - 1) (n_of_int i :: acc) in go (hi - 1) []

let seq_mode () =
  try while true do
    let line = input_line stdin in
    let toks = words line in
    match toks with
    | "B" :: _ :: np :: ops ->
      let np = ios np in
      let valid t = (t.[0] = 'p' || t.[0] = 'm') && (let p = rest t in p >= 0 && p < np) in
      let cnt = Array.make (max np 0) 0 in
      List.iter (fun t -> if valid t then cnt.(rest t) <- cnt.(rest t) + 1) ops;
      let progs = Array.to_list (Array.map (fun c -> List.init c (fun i -> n_of_int i)) cnt) in
      let _, outs = List.fold_left (fun (s, acc) t ->
          if t.[0] = 'p' || t.[0] = 'm' then
            (if valid t then (tb_sys_step s (TProd (nat_of_int (rest t))), "ok" :: acc) else (s, "badop" :: acc))
          else if t = "c" then let s' = tb_sys_step s (TCons KConsume) in (s', pr_batch (last s'.ts_batches) :: acc)
          else if t = "s" then let s' = tb_sys_step s (TCons KSize) in
            (s', (match last s'.ts_obs with TONum x -> string_of_int (int_of_n x) | _ -> "?") :: acc)
          else if t = "e" then let s' = tb_sys_step s (TCons KEmpty) in
            (s', (match last s'.ts_obs with TOBool b -> if b then "true" else "false" | _ -> "?") :: acc)
          else (s, "badop" :: acc)) (tb_init progs, []) ops in
      print_endline (String.concat " ; " (List.rev outs))
    | "V" :: _ :: v0 :: ops ->
      let v0 = if v0 = "-" then 0 else ios v0 in
      let _, outs = List.fold_left (fun (t, acc) tok ->
          if tok.[0] = 'a' then (tv_assign t (n_of_int (rest tok)), "ok" :: acc)
          else if tok.[0] = 'A' then begin
            (* A<n>:<start> : n assignments in a row, each by the model's tv_assign *)
            let c = String.index tok ':' in
            let n = ios (String.sub tok 1 (c - 1)) and st = ios (String.sub tok (c + 1) (String.length tok - c - 1)) in
            let t = ref t in
            for k = 0 to n - 1 do t := tv_assign !t (n_of_int (st + k)) done;
            (!t, "ok" :: acc) end
          else if tok.[0] = 'w' then (tv_setref t (n_of_int (rest tok)), "ok" :: acc)
          else if tok = "u" then (match tv_update t with
              | Some (t', b) -> (t', (if b then "true" else "false") :: acc)
              | None -> (t, "stale" :: acc))
          else if tok = "g" || tok = "r" then (t, string_of_int (int_of_n (tv_get t)) :: acc)
          else (t, "badop" :: acc)) (tv_make (n_of_int v0), []) ops in
      print_endline (String.concat " ; " (List.rev outs))
    | _ -> print_endline ""
  done with End_of_file -> ()

let tracebuf_mode () =
  let hdr = words (input_line stdin) in
  let np, counts = match hdr with
    | ["TB"; a; b] -> ios a, List.init (ios a) (fun _ -> ios b)
    | "TBV" :: a :: cs -> ios a, List.map ios cs
    | _ -> failwith "bad header" in
  let progs = List.map (fun c -> range_n 0 c) counts in
  let rounds = ref [] and quiet = ref [] and complete = ref false and nel = ref 0 and nrounds = ref 0 in
  (try while true do
      match words (input_line stdin) with
      | (("b" | "Q") as tag) :: n :: e :: els ->
        let b = List.rev (List.rev_map (fun t ->
            let i = String.index t '.' in
            let p = ios (String.sub t 0 i) and s = ios (String.sub t (i + 1) (String.length t - i - 1)) in
            incr nel;
            if p < 0 || s < 0 then (nat_of_int (np + 1), N0) else (nat_of_int p, n_of_int s)) els) in
        rounds := ((n_of_int (ios n), e = "1"), b) :: !rounds;
        if tag = "Q" then quiet := (!nrounds, ((n_of_int (ios n), e = "1"), b)) :: !quiet;
        incr nrounds
      | ["END"] -> complete := true
      | _ -> ()
    done with End_of_file -> ());
  let rounds = List.rev !rounds in
  let batches = List.rev (List.rev_map snd rounds) in
  let ok1 = tb_accept progs batches and ok2 = tb_accept_obs rounds in
  let quiet = List.rev !quiet in
  let ok3 = tb_accept_quiet (List.map snd quiet) in
  if not !complete then print_endline "reject trace-incomplete"
  else if ok1 && ok2 && ok3 then Printf.printf "accept rounds=%d quiescent_rounds=%d elements=%d\n" (List.length rounds) (List.length quiet) !nel
  else if not ok3 then begin
    let (i, ((n, e), b)) = List.find (fun (_, r) -> not (round_exact r)) quiet in
    Printf.printf "reject quiescent round %d: size()=%d empty()=%b but consume() returned %d elements\n" i (int_of_n n) e (List.length b)
  end
  else begin
    (* locate the failure with the same extracted functions, round by round *)
    let rec walk i rem = function
      | [] -> if all_nil rem then "round-check" else
          "reject after the last batch the producers' programs are not exhausted: remaining per producer = " ^
          String.concat "," (List.map (fun l -> string_of_int (List.length l)) rem)
      | ((n, e), b) :: t ->
        if not (round_ok ((n, e), b)) then
          Printf.sprintf "reject round %d: size()=%d empty()=%b then consume() returned %d elements" i (int_of_n n) e (List.length b)
        else (match take_elems rem b with
            | Some rem' -> walk (i + 1) rem' t
            | None ->
              (* first offending element *)
              let rec el k rem = function
                | [] -> "?"
                | x :: xs -> (match take_elems rem [x] with
                    | Some rem' -> el (k + 1) rem' xs
                    | None ->
                      let p = int_of_nat (fst x) in
                      let due = (try match List.nth rem p with d :: _ -> string_of_int (int_of_n d) | [] -> "none (program exhausted)" with _ -> "none (unknown producer)") in
                      Printf.sprintf "reject batch %d position %d: element %d.%d, due from producer %d: %s" i k p (int_of_n (snd x)) p due) in
              el 0 rem b) in
    print_endline (walk 0 progs rounds)
  end

let traceval_mode () =
  let hdr = words (input_line stdin) in
  let n = match hdr with ["TV"; a] -> ios a | _ -> failwith "bad header" in
  let vs = range_n 1 (n + 1) in
  let evs = ref [] and complete = ref false and cnt = ref 0 in
  let tv v = let v = ios v in if v < 0 then (n_of_int (n + 1), N0) else (n_of_int v, n_of_int v) in
  (try while true do
      (match words (input_line stdin) with
       | ["u1"; v] -> evs := HEv (EvUpdate (true, tv v)) :: !evs
       | ["u0"; v] -> evs := HEv (EvUpdate (false, tv v)) :: !evs
       | ["g"; v] -> evs := HEv (EvGet (tv v)) :: !evs
       | ["q"; i] -> evs := HQuiet (n_of_int (ios i)) :: !evs
       | ["END"] -> complete := true
       | _ -> ());
      incr cnt
    done with End_of_file -> ());
  let evs = List.rev !evs in
  if not !complete then print_endline "reject trace-incomplete"
  else if tv_accept N0 vs evs then Printf.printf "accept events=%d\n" (List.length evs)
  else begin
    (* longest accepted prefix, by bisection on tv_accept_prefix *)
    let arr = Array.of_list evs in
    let pre k = Array.to_list (Array.sub arr 0 k) in
    let lo = ref 0 and hi = ref (Array.length arr) in
    if tv_accept_prefix N0 vs evs then
      print_endline "reject the history is coherent but does not end with the last assigned value obtained"
    else begin
      while !hi - !lo > 1 do
        let mid = (!lo + !hi) / 2 in
        if tv_accept_prefix N0 vs (pre mid) then lo := mid else hi := mid
      done;
      let show = function
        | HEv (EvUpdate (b, v)) -> Printf.sprintf "update()=%b get()=%d" b (int_of_n (snd v))
        | HEv (EvGet v) -> Printf.sprintf "get()=%d" (int_of_n (snd v))
        | HQuiet i -> Printf.sprintf "quiescent(%d)" (int_of_n i) in
      Printf.printf "reject event %d: %s after %s\n" !lo (show arr.(!lo)) (if !lo > 0 then show arr.(!lo - 1) else "start")
    end
  end

let () =
  match (if Array.length Sys.argv > 1 then Sys.argv.(1) else "seq") with
  | "tracebuf" -> tracebuf_mode ()
  | "traceval" -> traceval_mode ()
  | _ -> seq_mode ()
