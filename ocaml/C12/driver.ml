(* C12 driver: sequential histories, one case per line (same format as harness/C12/harness.cpp seq):
     B <kind> <nprod> op...    op: p<i> | m<i> (producer i pushes its next seq)  c (consume)  s (size)  e (empty)
     V <kind> <v0|-> op...     op: a<v> (assign)  u (update)  g (get)  r (ref)
   The buffer cases run the *system* model tb_sys_step (producer programs = 0,1,2,... as often as
   the producer occurs), the value cases the method-level functions. *)
let ios = int_of_string
let rest s = ios (String.sub s 1 (String.length s - 1))
let rec last = function [] -> failwith "last" | [x] -> x | _ :: t -> last t
let pr_batch b = "[" ^ String.concat " " (List.map (fun (p, s) -> Printf.sprintf "%d.%d" (int_of_nat p) (int_of_n s)) b) ^ "]"
let () =
  try while true do
    let line = input_line stdin in
    let toks = List.filter (fun s -> s <> "") (String.split_on_char ' ' line) in
    match toks with
    | "B" :: _ :: np :: ops ->
      let np = ios np in
      let valid t = (t.[0] = 'p' || t.[0] = 'm') && (let p = rest t in p >= 0 && p < np) in
      let cnt = Array.make (max np 0) 0 in
      List.iter (fun t -> if valid t then cnt.(rest t) <- cnt.(rest t) + 1) ops;
      let progs = Array.to_list (Array.map (fun c -> List.init c (fun i -> n_of_int i)) cnt) in
      let _, outs = List.fold_left (fun (s, acc) t ->
          if t.[0] = 'p' || t.[0] = 'm' then
            (if valid t then (tb_sys_step s (TProd (nat_of_int (rest t))), "ok" :: acc) else (s, "badop" :: acc))
          else if t = "c" then let s' = tb_sys_step s (TCons KConsume) in (s', pr_batch (last s'.ts_batches) :: acc)
          else if t = "s" then let s' = tb_sys_step s (TCons KSize) in
            (s', (match last s'.ts_obs with TONum x -> string_of_int (int_of_n x) | _ -> "?") :: acc)
          else if t = "e" then let s' = tb_sys_step s (TCons KEmpty) in
            (s', (match last s'.ts_obs with TOBool b -> if b then "true" else "false" | _ -> "?") :: acc)
          else (s, "badop" :: acc)) (tb_init progs, []) ops in
      print_endline (String.concat " ; " (List.rev outs))
    | "V" :: _ :: v0 :: ops ->
      let v0 = if v0 = "-" then 0 else ios v0 in
      let _, outs = List.fold_left (fun (t, acc) tok ->
          if tok.[0] = 'a' then (tv_assign t (n_of_int (rest tok)), "ok" :: acc)
          else if tok = "u" then (match tv_update t with
              | Some (t', b) -> (t', (if b then "true" else "false") :: acc)
              | None -> (t, "stale" :: acc))
          else if tok = "g" || tok = "r" then (t, string_of_int (int_of_n (tv_get t)) :: acc)
          else (t, "badop" :: acc)) (tv_make (n_of_int v0), []) ops in
      print_endline (String.concat " ; " (List.rev outs))
    | _ -> print_endline ""
  done with End_of_file -> ()
