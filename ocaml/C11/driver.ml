(* C11 driver.  usage: model [new|old_owned|old_fview]      cases on stdin, one per line:
     H <op> <op> ...      history over 4 wrapper slots and 3 source containers.  ops (':'-separated):
        sset:k:a|v:LIST  skill:k  swrite:k:i:v
        def:i:K  src:i:K:k  ptr:i:K:k|null:off:n  fixn:i:LIST  fview:i:j:off:n
        asrc:i:k  reset:i  rptr:i:k|null:off:n  resize:i:n:v
        cc:i:j  ca:i:j  mc:i:j  ma:i:j  del:i  w:i:idx:v
        pw:i:K:j:off:n   slot i := K(w_j.data()+off, n)      rw:i:j:off:n   w_i.reset(w_j.data()+off, n)  (j = i: self-aliasing)
        rr:i:n:j:idx     w_i.resize(n, w_j[idx])   the fill value passed by reference to an element (j = i: of the array itself)
        K = V (ArrayView) O (OwnedArray) F (FixedArray) W (FixedArrayView);  LIST = v,v,v or -
     D <sz> <off> <stride> <LIST bytes> <LIST indices>     DataView<T>, sizeof(T) = sz
   output, one line per case:
     H: per step "ok|skip" "|" slot0 slot1 slot2 slot3 "|" src0 src1 src2, steps joined by " ; "
        slot = "-" or K len z|p [e,e,e]  (z: data()==nullptr)   e = value, D dangling, B outside the buffer, N null
        a wrapper some element of which is not a value (dangling / outside the buffer) prints [stale]
     D: per index the sz bytes in hex, or "oob" *)
let ios = int_of_string
let nat s = nat_of_int (ios s)
let ion = int_of_nat
let split c s = String.split_on_char c s
let list_of s = if s = "-" then [] else List.map ios (split ',' s)
let nlist s = List.map n_of_int (list_of s)
let kind_of = function "V" -> KView | "O" -> KOwned | "F" -> KFixed | "W" -> KFView | s -> failwith ("kind " ^ s)
let kletter = function KView -> "V" | KOwned -> "O" | KFixed -> "F" | KFView -> "W"
let ptr_of k off = if k = "null" then None else Some (nat k, nat off)
let parse tok = match split ':' tok with
  | ["sset"; k; _; l] -> SrcSet (nat k, nlist l)
  | ["skill"; k] -> SrcKill (nat k)
  | ["swrite"; k; i; v] -> SrcWrite (nat k, nat i, n_of_int (ios v))
  | ["def"; i; kd] -> Default (nat i, kind_of kd)
  | ["src"; i; kd; k] -> FromSrc (nat i, kind_of kd, nat k)
  | ["ptr"; i; kd; k; off; n] -> FromPtr (nat i, kind_of kd, ptr_of k off, nat n)
  | ["fixn"; i; l] -> FixedN (nat i, nlist l)
  | ["fview"; i; j; off; n] -> MkFView (nat i, nat j, nat off, nat n)
  | ["asrc"; i; k] -> AssignSrc (nat i, nat k)
  | ["reset"; i] -> Reset (nat i)
  | ["rptr"; i; k; off; n] -> ResetPtr (nat i, ptr_of k off, nat n)
  | ["resize"; i; n; v] -> Resize (nat i, nat n, n_of_int (ios v))
  | ["cc"; i; j] -> CopyCtor (nat i, nat j)
  | ["ca"; i; j] -> CopyAssign (nat i, nat j)
  | ["mc"; i; j] -> MoveCtor (nat i, nat j)
  | ["ma"; i; j] -> MoveAssign (nat i, nat j)
  | ["del"; i] -> Destroy (nat i)
  | ["w"; i; idx; v] -> Write (nat i, nat idx, n_of_int (ios v))
  | ["pw"; i; kd; j; off; n] -> FromWrap (nat i, kind_of kd, nat j, nat off, nat n)
  | ["rw"; i; j; off; n] -> ResetWrap (nat i, nat j, nat off, nat n)
  | ["rr"; i; n; j; idx] -> ResizeRef (nat i, nat n, nat j, nat idx)
  | _ -> failwith ("bad op " ^ tok)
let pr_rd = function RVal v -> string_of_int (int_of_n v) | RDangling -> "D" | ROob -> "B" | RNull -> "N"
let pr_obs = function
  | None -> "-"
  | Some o ->
    let es = o.o_elems in
    let body = if List.exists (function RVal _ -> false | _ -> true) es then "stale"
      else String.concat "," (List.map pr_rd es) in
    let len = ion o.o_len in
    let at_ok = (o.o_at_end = OThrow) &&
                (if len = 0 then o.o_at_last = OThrow
                 else o.o_at_last = ORet (List.nth es (len - 1))) && List.length es = len in
    Printf.sprintf "%s%d%s[%s]%s" (kletter o.o_kind) len (if o.o_null then "z" else "p") body (if at_ok then "" else "!AT")
let pr_src = function None -> "-" | Some l -> "[" ^ String.concat "," (List.map (fun v -> string_of_int (int_of_n v)) l) ^ "]"
let dump st = String.concat " " (List.map pr_obs (observe st)) ^ "|" ^ String.concat " " (List.map pr_src (observe_srcs st))
let () =
  let mode = if Array.length Sys.argv > 1 then Sys.argv.(1) else "new" in
  let ofix, vfix = match mode with "old_owned" -> false, true | "old_fview" -> true, false | "old" -> false, false | _ -> true, true in
  try while true do
    let line = input_line stdin in
    let toks = List.filter (fun s -> s <> "") (split ' ' line) in
    match toks with
    | "H" :: ops ->
      let _, outs = List.fold_left (fun (st, acc) tok ->
          match step ofix vfix st (parse tok) with
          | Some st' -> (st', ("ok|" ^ dump st') :: acc)
          | None -> (st, ("skip|" ^ dump st) :: acc)) (init (nat_of_int 4) (nat_of_int 3), []) ops in
      print_endline (String.concat " ; " (List.rev outs))
    | ["D"; sz; off; stride; bytes; idxs] ->
      let h = [{ b_cells = nlist bytes; b_cap = O; b_rc = S O }] in
      let d = { d_ptr = Some (O, nat off); d_stride = nat stride } in
      let one i =
        let bs = dv_index h d (nat sz) (nat_of_int i) in
        if List.for_all (function RVal _ -> true | _ -> false) bs
        then String.concat "" (List.map (function RVal v -> Printf.sprintf "%02x" (int_of_n v) | _ -> "") bs)
        else "oob" in
      print_endline (String.concat " " (List.map one (list_of idxs)))
    | _ -> print_endline ""
  done with End_of_file -> ()
