(* C16 driver: usage  model [old]
   stdin : one case per line = the file's bytes in hex ("-" = empty)
   stdout: per case the canonical dump of the tree returned by the extracted parser
           (same format as harness/C16/harness.cpp), or THROW / OOB / OUTOFFUEL.
   "old" selects the reader as found (parseString without the terminator test). *)
let hexs (l : n list) : string = hex_of_string (string_of_str l)
let rec dump (Node (name, props, content, children)) : string =
  "(" ^ hexs name ^ " {" ^ String.concat " " (List.map (fun (k, v) -> hexs k ^ "=" ^ hexs v) props)
  ^ "} " ^ hexs content ^ " [" ^ String.concat " " (List.map dump children) ^ "])"
let () =
  let old = Array.length Sys.argv > 1 && Sys.argv.(1) = "old" in
  try while true do
    let line = String.trim (input_line stdin) in
    let s = str_of_string (string_of_hex line) in
    let r = if old then parse_old s else parse s in
    print_endline (match r with
      | Ok (d, _) -> dump d
      | Throw -> "THROW"
      | OOB -> "OOB"
      | OutOfFuel -> "OUTOFFUEL")
  done with End_of_file -> ()
