(* C16 driver: usage  model [old | render]
   default / "old":
     stdin : one case per line = the file's bytes in hex ("-" = empty)
     stdout: per case the canonical dump of the tree returned by the extracted parser
             (same format as harness/C16/harness.cpp), or THROW / OOB / OUTOFFUEL.
     "old" selects the reader as found (parseString without the terminator test).
   "render":
     stdin : one laid-out document (Render.ldoc) per line, as blank-separated tokens, every
             string in hex ("-" = empty):
               doc    := header ws items
               header := H0 | H1 | H2 w ws props
               props  := <n> (name w1 w2 <D|S> val w3){n}
               items  := ( c body ws | n node ws | t text trail )* .
               node   := S name ws0 props | O name ws0 props wbody items
     stdout: per document  <WF|NOTWF> <hex of render_doc d> <dump of doc_of d>
             all three computed by the extracted Coq functions (Render.render_case), so the
             files the check feeds to readXML are exactly the premise of theorem parse_render. *)
let hexs (l : n list) : string = hex_of_string (string_of_str l)
let rec dump (Node (name, props, content, children)) : string =
  "(" ^ hexs name ^ " {" ^ String.concat " " (List.map (fun (k, v) -> hexs k ^ "=" ^ hexs v) props)
  ^ "} " ^ hexs content ^ " [" ^ String.concat " " (List.map dump children) ^ "])"

exception Bad of string
let parse_ldoc (line : string) : ldoc =
  let toks = Array.of_list (List.filter (fun t -> t <> "") (String.split_on_char ' ' line)) in
  let pos = ref 0 in
  let next () = if !pos >= Array.length toks then raise (Bad "eof") else (let t = toks.(!pos) in incr pos; t) in
  let s () = str_of_string (string_of_hex (next ())) in
  let props () =
    let k = int_of_string (next ()) in
    List.init k (fun _ ->
      let name = s () in let w1 = s () in let w2 = s () in
      let dq = (match next () with "D" -> true | "S" -> false | t -> raise (Bad ("quote " ^ t))) in
      let v = s () in let w3 = s () in
      { lp_name = name; lp_w1 = w1; lp_w2 = w2; lp_dq = dq; lp_val = v; lp_w3 = w3 }) in
  let rec items () =
    match next () with
    | "." -> INil
    | "c" -> let b = s () in let w = s () in let r = items () in IComment (b, w, r)
    | "n" -> let nd = node () in let w = s () in let r = items () in IChild (nd, w, r)
    | "t" -> let t = s () in let tr = s () in let r = items () in IText (t, tr, r)
    | t -> raise (Bad ("item " ^ t))
  and node () =
    match next () with
    | "S" -> let name = s () in let ws0 = s () in let ps = props () in LSelf (name, ws0, ps)
    | "O" -> let name = s () in let ws0 = s () in let ps = props () in let wb = s () in
             let its = items () in LOpen (name, ws0, ps, wb, its)
    | t -> raise (Bad ("node " ^ t)) in
  let header =
    match next () with
    | "H0" -> HNone
    | "H1" -> HBare
    | "H2" -> let w = (match s () with [c] -> c | _ -> raise (Bad "header white")) in
              let ws = s () in let ps = props () in HProps (w, ws, ps)
    | t -> raise (Bad ("header " ^ t)) in
  let ws = s () in
  let its = items () in
  if !pos <> Array.length toks then raise (Bad "trailing tokens");
  { ld_header = header; ld_ws = ws; ld_items = its }

(* "writer": one Writer op sequence per line ( H hex | F | O hex | P hex hex | C )* [ ? hexkey* ];
   prints what harness/C16/writer_harness.cpp prints for the real Writer + readXML + hasProp/getProp,
   computed by the extracted WriterModel.writer_output / Model.parse / has_prop / get_prop;  ABORT = an assert
   of the Writer fires *)
let writer_line (line : string) : string =
  let toks = Array.of_list (List.filter (fun t -> t <> "") (String.split_on_char ' ' line)) in
  let s i = str_of_string (string_of_hex toks.(i)) in
  let rec go i ops =
    if i >= Array.length toks then (List.rev ops, [])
    else match toks.(i) with
      | "H" -> go (i + 2) (WHeader (s (i + 1)) :: ops)
      | "F" -> go (i + 1) (WFooter :: ops)
      | "O" -> go (i + 2) (WOpen (s (i + 1)) :: ops)
      | "P" -> go (i + 3) (WProp (s (i + 1), s (i + 2)) :: ops)
      | "C" -> go (i + 1) (WClose :: ops)
      | "?" -> (List.rev ops, List.init (Array.length toks - i - 1) (fun j -> s (i + 1 + j)))
      | _ -> raise (Bad "op") in
  let (ops, keys) = go 0 [] in
  match writer_output ops with
  | None -> "ABORT"
  | Some bytes ->
    let fb = str_of_string "FB" in
    let (d, acc) = (match parse bytes with
      | Ok (Node (n, p, c, ch), _) ->
        let accs = List.concat (List.mapi (fun i (Node (_, props, _, _)) ->
          List.map (fun k -> " " ^ string_of_int i ^ ":" ^ hexs k ^ "=" ^ (if has_prop k props then "1" else "0") ^ ","
                             ^ hexs (get_prop k props) ^ "," ^ hexs (get_prop_or k fb props)) keys) ch) in
        (dump (Node (n, p, c, ch)), String.concat "" accs)
      | Throw -> ("THROW", "")
      | OOB -> ("OOB", "")
      | OutOfFuel -> ("OUTOFFUEL", "")) in
    hexs bytes ^ " " ^ d ^ " acc" ^ acc

let () =
  let mode = if Array.length Sys.argv > 1 then Sys.argv.(1) else "" in
  try while true do
    let line = String.trim (input_line stdin) in
    if mode = "writer" then
      print_endline (try writer_line line with Bad _ | Failure _ | Invalid_argument _ -> "BADCASE")
    else if mode = "render" then begin
      match (try Some (parse_ldoc line) with Bad _ | Failure _ | Invalid_argument _ -> None) with
      | None -> print_endline "BADCASE"
      | Some d ->
        let ((wf, bytes), doc) = render_case d in
        print_endline ((if wf then "WF " else "NOTWF ") ^ hexs bytes ^ " " ^ dump doc)
    end else begin
      let s = str_of_string (string_of_hex line) in
      let r = if mode = "old" then parse_old s else parse s in
      print_endline (match r with
        | Ok (d, _) -> dump d
        | Throw -> "THROW"
        | OOB -> "OOB"
        | OutOfFuel -> "OUTOFFUEL")
    end
  done with End_of_file -> ()
