(* C18 driver: one case per line, fields separated by blanks, strings hex-encoded ("-" = empty).
     SC s d            split(s, char d)                       -> tokens
     SS s delims keep  split(s, delims, keepDelim)            -> tokens
     TK s d            tokenize(s, d)                         -> tokens
     LB a b            longestBeginningMatch, beginsWith      -> lbm 0|1
     LU s              lowerCase, upperCase                   -> lower upper
     PU s q...         PseudoURL(s) + hasParam/getValue(q)    -> type file params has:get ...
     FN s              FileName(s): str path base name ext dropExt
     FE s e            FileName(s).setExt(e) addExt(e)
     FP a b            FileName(a)+FileName(b), FileName(a)+string b
     FO a b            a==b a!=b (a-b) conversions-agree default-ctor
     AL arg:k ...      ArgumentList + parseAndRemove, tryConsume = table lookup -> remaining
     AR w k arg...     ArgumentList::remove(w,k)              -> remaining size empty first
     RA w k arg...     removeArgs(ac, av, w, k)               -> ac av[0..ac)
     PN dec            prettyNumber
     PD hexfloat n d   prettyDouble (n/d = exact value for the model)
   tokens: hex strings joined by ","; "[]" for the empty list *)
let hx s = hex_of_string (string_of_str s)
let uh h = str_of_string (string_of_hex h)
let toks l = if l = [] then "[]" else String.concat "," (List.map hx l)
let rec float_of_pos p = match p with XH -> 1.0 | XO q -> 2.0 *. float_of_pos q | XI q -> 2.0 *. float_of_pos q +. 1.0
let float_of_n x = match x with N0 -> 0.0 | Npos p -> float_of_pos p
let float_of_z x = match x with Z0 -> 0.0 | Zpos p -> float_of_pos p | Zneg p -> -. (float_of_pos p)
let to_f32 v = Int32.float_of_bits (Int32.bits_of_float v)
let pretty c v plain =
  let sfx = int_of_n c.pc_suffix in
  if sfx = 0 then plain ()
  else
    let f = float_of_z c.pc_factor in
    Printf.sprintf "%.1f%c" (if c.pc_mul then v *. f else v /. f) (Char.chr sfx)
let () =
  try while true do
    let line = input_line stdin in
    let t = List.filter (fun s -> s <> "") (String.split_on_char ' ' line) in
    let out = match t with
      | ["SC"; s; d] -> toks (split_char (uh s) (List.hd (uh d)))
      | ["SS"; s; ds; k] -> toks (split_set (uh s) (uh ds) (k = "1"))
      | ["TK"; s; d] -> toks (tokenize (uh s) (List.hd (uh d)))
      | ["LB"; a; b] -> hx (lbm (uh a) (uh b)) ^ " " ^ (if beginsWith (uh a) (uh b) then "1" else "0")
      | ["LU"; s] -> hx (lowerCase (uh s)) ^ " " ^ hx (upperCase (uh s))
      | "PU" :: s :: qs ->
        let u = purl_parse (uh s) in
        let ps = if u.u_params = [] then "[]" else
            String.concat "," (List.map (fun (n, v) -> hx n ^ "=" ^ hx v) u.u_params) in
        String.concat " " ([hx u.u_type; hx u.u_file; ps] @
          List.map (fun q -> (if hasParam u (uh q) then "1" else "0") ^ ":" ^
                             (match getValue u (uh q) with Some v -> hx v | None -> "throw")) qs)
      | ["FN"; s] ->
        let f = fn_norm (uh s) in
        String.concat " " (List.map hx [f; fn_path f; fn_base f; fn_name f; fn_ext f; fn_dropExt f]) ^ " " ^
        (if List.mem (n_of_int 46) (fn_base f) then hx (fn_addExt (fn_dropExt f) (n_of_int 46 :: fn_ext f)) else "~")
      | ["FE"; s; e] -> let f = fn_norm (uh s) in
        hx (fn_setExt f (uh e)) ^ " " ^ hx (fn_addExt f (uh e)) ^ " " ^ hx (fn_addExt (fn_dropExt f) (uh e))
      | ["FP"; a; b] ->
        let fa = fn_norm (uh a) and fb = fn_norm (uh b) in
        String.concat " " (List.map hx [fn_plus fa fb; fn_plus_str fa (uh b)])
      | ["FO"; a; b] ->
        let fa = fn_norm (uh a) and fb = fn_norm (uh b) in
        (* == != | a - b | conversions (str, c_str, operator std::string, operator<<) | default constructor *)
        String.concat " " [(if fn_eq fa fb then "1" else "0"); (if fn_eq fa fb then "0" else "1"); hx (fn_minus fa fb); "1";
                           (if fn_eq (fn_plus [] fb) fb && fn_eq (fn_norm []) [] then "1" else "0")]
      | "AL" :: args ->
        let prs = List.map (fun a -> match String.split_on_char ':' a with
            | [h; k] -> (uh h, int_of_string k) | _ -> failwith "bad AL arg") args in
        let consume l i =
          let i = int_of_nat i in
          let a = List.nth l i in
          let k = try List.assoc a prs with Not_found -> 0 in
          nat_of_int (min k (List.length l - i)) in
        (match parseAndRemove consume (al_ctor (str_of_string "prog" :: List.map fst prs)) with
         | Some l -> toks l | None -> "out-of-fuel")
      | "AR" :: w :: k :: args ->
        let l = al_remove (al_ctor (str_of_string "prog" :: List.map uh args)) (nat_of_int (int_of_string w)) (nat_of_int (int_of_string k)) in
        Printf.sprintf "%s %d %s %s" (toks l) (List.length l) (if l = [] then "1" else "0")
          (match l with [] -> "throw" | x :: _ -> hx x)
      | "RA" :: w :: k :: args ->
        let av = List.map uh args in
        let (ac, av') = removeArgs [] (nat_of_int (List.length av)) av (nat_of_int (int_of_string w)) (nat_of_int (int_of_string k)) in
        let ac = int_of_nat ac in
        Printf.sprintf "%d %s" ac (toks (List.filteri (fun i _ -> i < ac) av'))
      | ["PN"; dec] ->
        let s = Z.to_N (z_of_string dec) in
        pretty (pn_choice s) (float_of_n (double_of_N s)) (fun () -> dec)
      | ["PD"; hf; n; d] ->
        let v = float_of_string hf in
        let q = { qnum = z_of_string n; qden = Z.to_pos (z_of_string d) } in
        pretty (pd_choice q) v (fun () -> Printf.sprintf "%f" (to_f32 v))
      | _ -> "badcase" in
    print_endline out
  done with End_of_file -> ()
