(* C20 driver.
   model img <fmt>        stdin: "<w> <h> <v0> <v1> ..."   -> hex of the file bytes, or "OOB <index>"
   model imgpat <fmt>     stdin: "<w> <h> <seed>"   (pattern-filled buffer, see harness) -> "<length> <md5 of the file bytes>" or "OOB <index>"
                          The bytes are produced from the extracted index list (img_reads comp_sel), header and le_bytes with an
                          array lookup per index instead of the model's list lookup (linear); in mode img both ways are computed
                          and compared.
   model trace            stdin: "T <pname|-> <pid> <id,id,...|-> { | <thread name|TID>#<thread id> ev ev ... }"
                                 threads in the order they started; the id list is the order of the map entries in the file;
                                 the recorder's map is built by the extracted reg_run (threads with equal ids share a list)
                                 ev: B:name:cat:ns  E:ns  M:name:cat:ns  C:name:value:ns   (cat "-" = null; ns = clock ticks; util text is "0")
                          -> "<text of the log>\t<chunk sizes a,b;c;...>\t<json_array verdict>"
   model json             stdin: a text per line -> "1" if the Coq recogniser accepts it as a JSON array, else "0" *)
(* decimal text -> N without going through OCaml's 63-bit int (counter values are uint64) *)
let n s =
  let ten = n_of_int 10 in
  let acc = ref N0 in
  String.iter (fun ch -> if ch < '0' || ch > '9' then failwith ("bad number " ^ s);
                acc := N.add (N.mul ten !acc) (n_of_int (Char.code ch - 48))) s;
  !acc
let toks line = List.filter (fun s -> s <> "") (String.split_on_char ' ' line)
let fmt_of_string = function
  | "PPM" -> PPM | "PGM" -> PGM | "PFM1" -> PFM1 | "PFM3" -> PFM3 | "PFM3a" -> PFM3a | "PFM4" -> PFM4
  | s -> failwith ("bad format " ^ s)
let hex_of_str l =
  let b = Buffer.create 256 in
  List.iter (fun c -> Buffer.add_string b (Printf.sprintf "%02x" (int_of_n c))) l; Buffer.contents b
exception Oob of int
(* header ++ bytes of inp[i] for the model's index list ++ "\n", with O(1) lookups *)
let fast_write f w h (inp : n array) : string =
  let b = Buffer.create 65536 in
  let add l = List.iter (fun c -> Buffer.add_char b (Char.chr (int_of_n c))) l in
  add (header f w h);
  let cs = (let rec len = function O -> 0 | S k -> 1 + len k in len f.f_csize) in
  let count = ref 0 in
  List.iter (fun i -> let k = int_of_n i in
              if k >= Array.length inp then raise (Oob k) else begin
                (* the bytes of the component: natively (fast), checked against the extracted le_bytes on the first
                   components and on every 61st one *)
                let v = int_of_n inp.(k) in
                let pos = Buffer.length b in
                for j = 0 to cs - 1 do Buffer.add_char b (Char.chr ((v lsr (8 * j)) land 255)) done;
                if !count < 64 || !count mod 61 = 0 then begin
                  let ref_bytes = string_of_str (le_bytes f.f_csize inp.(k)) in
                  if Buffer.sub b pos cs <> ref_bytes then failwith "native byte split differs from Model.le_bytes"
                end;
                incr count
              end) (img_reads comp_sel f w h);
  Buffer.add_char b '\n';
  Buffer.contents b
(* "@x<hex>" = the text with those bytes *)
let detok t =
  if String.length t >= 2 && t.[0] = '@' && t.[1] = 'x' then
    String.init ((String.length t - 2) / 2) (fun i -> Char.chr (int_of_string ("0x" ^ String.sub t (2 + 2 * i) 2)))
  else t
let text t = str_of_string (detok t)
let opt s = if s = "-" then None else Some (text s)
let parse_ev tok = match String.split_on_char ':' tok with
  | ["B"; name; cat; ts] -> { e_kind = KBegin; e_name = text name; e_cat = opt cat; e_value = N0; e_time = n ts; e_util = [] }
  | ["M"; name; cat; ts] -> { e_kind = KMarker; e_name = text name; e_cat = opt cat; e_value = N0; e_time = n ts; e_util = [] }
  | ["C"; name; v; ts] -> { e_kind = KCounter; e_name = text name; e_cat = None; e_value = n v; e_time = n ts; e_util = [] }
  | ["E"; ts] -> { e_kind = KEnd; e_name = []; e_cat = None; e_value = N0; e_time = n ts; e_util = str_of_string "0" }
  | _ -> failwith ("bad event " ^ tok)
let rec split_threads acc cur = function
  | [] -> List.rev (match cur with None -> acc | Some (nm, evs) -> (nm, List.rev evs) :: acc)
  | "|" :: nm :: rest ->
    let acc = (match cur with None -> acc | Some (nm0, evs) -> (nm0, List.rev evs) :: acc) in
    split_threads acc (Some (nm, [])) rest
  | t :: rest -> (match cur with Some (nm, evs) -> split_threads acc (Some (nm, t :: evs)) rest | None -> failwith "event before thread")
let () =
  let mode = Sys.argv.(1) in
  try while true do
    let line = input_line stdin in
    match mode with
    | "img" ->
      (match toks line with
       | w :: h :: vals ->
         let f = fmt_of (fmt_of_string Sys.argv.(2)) and inp = List.map n vals in
         let fast = (try Some (fast_write f (n w) (n h) (Array.of_list inp)) with Oob _ -> None) in
         (match writeImage f (n w) (n h) inp with
          | WBytes b ->
            let hx = hex_of_str b in
            let same = (match fast with Some s -> s = string_of_str b | None -> false) in
            print_endline (if same then hx else "FASTPATH-MISMATCH " ^ hx)
          | WOob i -> print_endline ((if fast = None then "" else "FASTPATH-MISMATCH ") ^ "OOB " ^ string_of_int (int_of_n i)))
       | _ -> print_endline "bad case")
    | "imgpat" ->
      (match toks line with
       | [w; h; seed] ->
         let fid = Sys.argv.(2) in
         let f = fmt_of (fmt_of_string fid) in
         let wi = int_of_string w and hi = int_of_string h and sd = int_of_string seed in
         let pc = int_of_n f.f_pixcomp in
         let bytes = (fid = "PPM" || fid = "PGM") in
         let inp = Array.init (wi * hi * pc) (fun i ->
             n_of_int (if bytes then (sd + 37 * i + 101 * (i / 251)) land 255 else 0x3f800000 + sd + i)) in
         (try let s = fast_write f (n w) (n h) inp in
            print_endline (string_of_int (String.length s) ^ " " ^ Digest.to_hex (Digest.string s))
          with Oob k -> print_endline ("OOB " ^ string_of_int k))
       | _ -> print_endline "bad case")
    | "trace" ->
      (match toks line with
       | "T" :: pname :: pid :: order :: rest ->
         let split_hash s = match String.rindex_opt s '#' with
           | Some i -> (String.sub s 0 i, n (String.sub s (i + 1) (String.length s - i - 1)))
           | None -> failwith ("thread without id " ^ s) in
         (* names and categories go through the extracted getCachedString model: pointer = one number per distinct
            text (the harness passes one fixed address per text), one cache per recorder list (thread id) *)
         let ptrs = Hashtbl.create 16 and caches = Hashtbl.create 16 in
         let ptr text = match Hashtbl.find_opt ptrs text with Some p -> p
           | None -> let p = n_of_int (Hashtbl.length ptrs + 1) in Hashtbl.add ptrs text p; p in
         let cached id text =
           let c = (match Hashtbl.find_opt caches id with Some c -> c | None -> []) in
           let (t, c') = sc_lookup c (ptr text) text in Hashtbl.replace caches id c'; t in
         let through id e = match e.e_kind with
           | KEnd -> e
           | _ -> let nm = cached id e.e_name in
             let cat = (match e.e_cat with Some c -> Some (cached id c) | None -> None) in
             { e with e_name = nm; e_cat = cat } in
         let ops = List.concat_map (fun (nmid, evs) ->
             let (nm, id) = split_hash nmid in
             (RAttach id :: (if nm = "TID" then [] else [RName (id, (if nm = "@e" then [] else text nm))]))
             @ List.map (fun e -> RRec (id, through id (parse_ev e))) evs) (split_threads [] None rest) in
         let reg = reg_run ops in
         let ids = if order = "-" then [] else List.map n (String.split_on_char ',' order) in
         let entries = List.map (fun id -> match reg_find reg id with Some en -> en | None -> failwith "order names an unknown id") ids in
         let ths = reg_threads (fun _ -> str_of_string "TID") entries in
         let text = saveLog (opt pname) (n pid) ths in
         let sizes = String.concat ";" (List.map (fun t ->
             if t.t_events = [] then "-" else String.concat "," (List.map (fun c -> string_of_int (List.length c)) t.t_events)) ths) in
         print_endline (string_of_str text ^ "\t" ^ sizes ^ "\t" ^ (if json_array text then "1" else "0")
                        ^ "\t" ^ string_of_int (List.length reg))
       | _ -> print_endline "bad case")
    | "json" -> print_endline (if json_array (str_of_string line) then "1" else "0")
    | _ -> failwith "mode"
  done with End_of_file -> ()
