(* C13 driver: one case per line:  <tbb|omp|internal|debug> <hw> n1 n2 ...   (a token u / s is a USE of the tasking system: parallel_for / schedule)
   prints numTaskingThreads() before any init and after each init, then (internal) workers / peak *)
let rec pos_of_int i = if i = 1 then XH else if i land 1 = 1 then XI (pos_of_int (i lsr 1)) else XO (pos_of_int (i lsr 1))
let z_of_int i = if i = 0 then Z0 else if i > 0 then Zpos (pos_of_int i) else Zneg (pos_of_int (- i))
let rec int_of_pos = function XH -> 1 | XO p -> 2 * int_of_pos p | XI p -> 2 * int_of_pos p + 1
let int_of_z = function Z0 -> 0 | Zpos p -> int_of_pos p | Zneg p -> - (int_of_pos p)
let () =
  try while true do
    let line = input_line stdin in
    match List.filter (fun s -> s <> "") (String.split_on_char ' ' line) with
    | b :: hw :: ns ->
      let b = (match b with "tbb" -> TBB | "omp" -> OMP | "internal" -> Internal | _ -> Debug) in
      let hw = z_of_int (int_of_string hw) in
      let ops = List.map (fun s -> if s = "u" || s = "s" then OUse else OInit (z_of_int (int_of_string s))) ns in
      let rs = reports_ops b hw ops in
      let w = run_ops b hw ops in
      Printf.printf "%s workers=%d peak=%d\n" (String.concat " " (List.map (fun z -> string_of_int (int_of_z z)) rs))
        (int_of_z w.w_workers) (int_of_z w.w_peak)
    | _ -> print_endline "?"
  done with End_of_file -> ()
