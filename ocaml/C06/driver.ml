(* C06 driver: runs the REGENERATED definitions (Model.ml, extracted from gen/GenLin.v) on the cases read from stdin.
   usage: model <interp> <flavour>
     interp  q : exact rationals (IQ, extracted from Sem.v); inputs must be integers or short decimals
             f : machine floating point: every operation carried out in binary64 and rounded to the C type it is
                 performed at (F32 -> round to binary32; exact for + - * / sqrt by the double-rounding theorem)
             d : every operation in binary64 without rounding to binary32 (higher-precision reading of float code)
     flavour f : the float instantiations (QuaternionT<float>), d : the double ones (QuaternionT<double>),
             D : the float-instantiation text on unrounded inputs (with interp d = the same formulas in binary64:
                 reference for LinearSpace<vec2d/vec3d> and their affine spaces)
   Output layout = harness/C06/harness.cpp. *)

let r32 (x : float) : float = Int32.float_of_bits (Int32.bits_of_float x)

let float_interp (round32 : bool) : interp =
  let rnd t (x : float) : float = match t with F32 -> if round32 then r32 x else x | _ -> x in
  let o (x : float) : Obj.t = Obj.repr x and i (x : Obj.t) : float = Obj.obj x in
  { bop = (fun op t a b -> let a = i a and b = i b in
            o (rnd t (match op with Add -> a +. b | Sub -> a -. b | Mul -> a *. b | Div -> a /. b | _ -> nan)));
    uop = (fun op t a -> let a = i a in o (match op with Neg -> -. a | Pos -> a | BNot -> nan));
    cmp = (fun op _ a b -> let a = i a and b = i b in
            (match op with Lt0 -> a < b | Le -> a <= b | Gt0 -> a > b | Ge -> a >= b | Eq0 -> a = b | Ne -> a <> b));
    cast = (fun _ t a -> o (rnd t (i a)));
    ilit = (fun t z -> o (rnd t (float_of_string (string_of_z z))));
    flit = (fun t n d -> o (rnd t (float_of_string (string_of_z n) /. float_of_string (string_of_z d))));
    lib = (fun f t l ->
            let l = List.map i l in
            o (rnd t (match f, l with
                      | LMin, [a; b] -> if b < a then b else a
                      | LMax, [a; b] -> if a < b then b else a
                      | LAbs, [a] -> Float.abs a
                      | LSqrt, [a] -> sqrt a
                      | LSin, [a] -> sin a
                      | LCos, [a] -> cos a
                      | LAcos, [a] -> acos a
                      | _ -> nan)));
    ofbool = (fun _ b -> o (if b then 1.0 else 0.0));
    tobool = (fun _ a -> i a <> 0.0) }

let mode = if Array.length Sys.argv > 1 then Sys.argv.(1) else "f"
let flavour = if Array.length Sys.argv > 2 then Sys.argv.(2) else "f"
let isq = (mode = "q")
let ii : interp = if isq then iQ else float_interp (mode = "f")

(* scalars in / out *)
let rec pow10 k = if k = 0 then Zpos XH else Z.mul (z_of_int 10) (pow10 (k - 1))
let q_of_string (s : string) : q =
  match String.index_opt s '.' with
  | None -> { qnum = z_of_string s; qden = XH }
  | Some p ->
    let ip = String.sub s 0 p and fp = String.sub s (p + 1) (String.length s - p - 1) in
    let neg = String.length ip > 0 && ip.[0] = '-' in
    let ipabs = if neg then String.sub ip 1 (String.length ip - 1) else ip in
    let n = z_of_string ((if ipabs = "" then "0" else ipabs) ^ fp) in
    let n = if neg then Z.opp n else n in
    let d = match pow10 (String.length fp) with Zpos p -> p | _ -> XH in
    qred { qnum = n; qden = d }
let inp (s : string) : Obj.t =
  if isq then Obj.repr (q_of_string s)
  else let x = float_of_string s in Obj.repr (if flavour = "f" then r32 x else x)
let outs (x : Obj.t) : string =
  if isq then (let v : q = Obj.obj x in string_of_z v.qnum ^ "/" ^ string_of_z (Zpos v.qden))
  else Printf.sprintf "%.17g" (Obj.obj x : float)

let buf : string list ref = ref []
let emit x = buf := outs x :: !buf
let p2 (v : vec2) = emit v.vec2_x; emit v.vec2_y
let p3 (v : vec3) = emit v.vec3_x; emit v.vec3_y; emit v.vec3_z
let pm2 (m : linearSpace2) = p2 m.linearSpace2_vx; p2 m.linearSpace2_vy
let pm3 (m : linearSpace3) = p3 m.linearSpace3_vx; p3 m.linearSpace3_vy; p3 m.linearSpace3_vz
let pa3 (a : affineSpaceT_LinearSpace3_vec3) = pm3 a.affineSpaceT_LinearSpace3_vec3_l; p3 a.affineSpaceT_LinearSpace3_vec3_p
let pa2 (a : affineSpaceT_LinearSpace2_vec2) = pm2 a.affineSpaceT_LinearSpace2_vec2_l; p2 a.affineSpaceT_LinearSpace2_vec2_p
let pq (q : quaternionT_s) = emit q.quaternionT_s_r; emit q.quaternionT_s_i; emit q.quaternionT_s_j; emit q.quaternionT_s_k

let toks : string list ref = ref []
let n () = match !toks with [] -> failwith "short case" | t :: r -> toks := r; inp t
let v2 () = let x = n () in let y = n () in { vec2_x = x; vec2_y = y }
let v3 () = let x = n () in let y = n () in let z = n () in { vec3_x = x; vec3_y = y; vec3_z = z }
let m2 () = let a = v2 () in let b = v2 () in { linearSpace2_vx = a; linearSpace2_vy = b }
let m3 () = let a = v3 () in let b = v3 () in let c = v3 () in { linearSpace3_vx = a; linearSpace3_vy = b; linearSpace3_vz = c }
let a3 () = let l = m3 () in let p = v3 () in { affineSpaceT_LinearSpace3_vec3_l = l; affineSpaceT_LinearSpace3_vec3_p = p }
let a2 () = let l = m2 () in let p = v2 () in { affineSpaceT_LinearSpace2_vec2_l = l; affineSpaceT_LinearSpace2_vec2_p = p }
let q4 () = let r = n () in let i = n () in let j = n () in let k = n () in
  { quaternionT_s_i = i; quaternionT_s_j = j; quaternionT_s_k = k; quaternionT_s_r = r }

let dbl = (flavour = "d")
let qmul = if dbl then op_mul__QuaternionT_d_QuaternionT_d else op_mul__QuaternionT_f_QuaternionT_f
let qrot = if dbl then op_mul__QuaternionT_d_v3d else op_mul__QuaternionT_f_v3f
let qconj = if dbl then conj__QuaternionT_d else conj__QuaternionT_f
let qrcp = if dbl then rcp__QuaternionT_d else rcp__QuaternionT_f
let qnorm = if dbl then normalize__QuaternionT_d else normalize__QuaternionT_f
let qrotate = if dbl then quaternionT_d_rotate__v3d_d else quaternionT_f_rotate__v3f_f
let qfrom = if dbl then quaternionT_d_mk__v3d_v3d_v3d else quaternionT_f_mk__v3f_v3f_v3f
let qypr = if dbl then quaternionT_d_mk__d_d_d else quaternionT_f_mk__f_f_f
let qslerp = if dbl then slerp__f_QuaternionT_d_QuaternionT_d else slerp__f_QuaternionT_f_QuaternionT_f

let pb (b : bool) = buf := (if isq then (if b then "1/1" else "0/1") else (if b then "1" else "0")) :: !buf
let twice f x = f x; f x      (* a compound assignment stores and returns the same value: the harness prints both *)
let pick f d = if dbl then d else f

let run (kind : string) : bool =
  match kind with
  | "l2" ->
    let a = m2 () in let b = m2 () in let v = v2 () in
    emit (linearSpace2_det__ ii a); pm2 (linearSpace2_adjoint__ ii a); pm2 (linearSpace2_inverse__ ii a);
    pm2 (linearSpace2_transposed__ ii a); p2 (linearSpace2_row0__ ii a); p2 (linearSpace2_row1__ ii a);
    pm2 (op_mul__LinearSpace2_LinearSpace2 ii a b); p2 (op_mul__LinearSpace2_v2f ii a v); pm2 (linearSpace2_scale__v2f ii v); true
  | "o2" ->   (* hand model of LinearSpace2::orthogonal() (coq/C06/Ortho.v) over the regenerated callees *)
    let a = m2 () in pm2 (orthogonal ii a); true
  | "ol2" ->
    let a = m2 () in let b = m2 () in
    pm2 (op_add__LinearSpace2 ii a); pm2 (op_div__LinearSpace2_LinearSpace2 ii a b);
    twice pm2 (op_mul_assign__LinearSpace2_LinearSpace2 ii a b); twice pm2 (op_div_assign__LinearSpace2_LinearSpace2 ii a b);
    pb (op_eq__LinearSpace2_LinearSpace2 ii a b); pb (op_ne__LinearSpace2_LinearSpace2 ii a b);
    pb (op_eq__LinearSpace2_LinearSpace2 ii a a); pb (op_ne__LinearSpace2_LinearSpace2 ii a a);
    pm2 (linearSpace2_mk__ZeroTy ii ()); pm2 (linearSpace2_mk__OneTy ii ()); true
  | "oa2" ->
    let a = a2 () in let b = a2 () in
    twice pa2 (op_mul_assign__AffineSpaceT_LinearSpace2_v2f_AffineSpaceT_LinearSpace2_v2f ii a b); true
  | "ol3" ->
    let a = m3 () in let b = m3 () in
    pm3 (op_add__LinearSpace3 ii a); pm3 (op_div__LinearSpace3_LinearSpace3 ii a b);
    twice pm3 (op_mul_assign__LinearSpace3_LinearSpace3 ii a b); twice pm3 (op_div_assign__LinearSpace3_LinearSpace3 ii a b);
    pb (op_eq__LinearSpace3_LinearSpace3 ii a b); pb (op_ne__LinearSpace3_LinearSpace3 ii a b);
    pb (op_eq__LinearSpace3_LinearSpace3 ii a a); pb (op_ne__LinearSpace3_LinearSpace3 ii a a);
    pm3 (linearSpace3_mk__ZeroTy ii ()); pm3 (linearSpace3_mk__OneTy ii ()); pm3 (clamp__LinearSpace3 ii a); true
  | "oa3" ->
    let a = a3 () in let b = a3 () in let s = n () in
    pa3 (op_sub__AffineSpaceT_LinearSpace3_v3f ii a); pa3 (op_add__AffineSpaceT_LinearSpace3_v3f ii a);
    pa3 (op_add__AffineSpaceT_LinearSpace3_v3f_AffineSpaceT_LinearSpace3_v3f ii a b);
    pa3 (op_sub__AffineSpaceT_LinearSpace3_v3f_AffineSpaceT_LinearSpace3_v3f ii a b);
    pa3 (op_mul__f_AffineSpaceT_LinearSpace3_v3f ii s a);
    pa3 (op_div__AffineSpaceT_LinearSpace3_v3f_AffineSpaceT_LinearSpace3_v3f ii a b);
    twice pa3 (op_mul_assign__AffineSpaceT_LinearSpace3_v3f_AffineSpaceT_LinearSpace3_v3f ii a b);
    twice pa3 (op_div_assign__AffineSpaceT_LinearSpace3_v3f_AffineSpaceT_LinearSpace3_v3f ii a b);
    twice pa3 (affineSpaceT_LinearSpace3_v3f_op_assign__AffineSpaceT_LinearSpace3_v3f ii (affineSpaceT_LinearSpace3_v3f_mk__ZeroTy ii ()) a);
    pb (op_eq__AffineSpaceT_LinearSpace3_v3f_AffineSpaceT_LinearSpace3_v3f ii a b); pb (op_ne__AffineSpaceT_LinearSpace3_v3f_AffineSpaceT_LinearSpace3_v3f ii a b);
    pb (op_eq__AffineSpaceT_LinearSpace3_v3f_AffineSpaceT_LinearSpace3_v3f ii a a); pb (op_ne__AffineSpaceT_LinearSpace3_v3f_AffineSpaceT_LinearSpace3_v3f ii a a);
    pa3 (affineSpaceT_LinearSpace3_v3f_mk__ZeroTy ii ()); pa3 (affineSpaceT_LinearSpace3_v3f_mk__OneTy ii ());
    let l = a.affineSpaceT_LinearSpace3_vec3_l in
    pa3 (affineSpaceT_LinearSpace3_v3f_mk__v3f_v3f_v3f_v3f ii l.linearSpace3_vx l.linearSpace3_vy l.linearSpace3_vz a.affineSpaceT_LinearSpace3_vec3_p); true
  | "oq" ->
    let a = q4 () in let b = q4 () in let s = n () in let v = v3 () in
    pq ((pick quaternionT_f_mk__f quaternionT_d_mk__d) ii s);
    pq ((pick quaternionT_f_mk__ZeroTy quaternionT_d_mk__ZeroTy) ii ()); pq ((pick quaternionT_f_mk__OneTy quaternionT_d_mk__OneTy) ii ());
    twice pq ((pick op_add_assign__QuaternionT_f_f op_add_assign__QuaternionT_d_d) ii a s);
    twice pq ((pick op_add_assign__QuaternionT_f_QuaternionT_f op_add_assign__QuaternionT_d_QuaternionT_d) ii a b);
    twice pq ((pick op_sub_assign__QuaternionT_f_f op_sub_assign__QuaternionT_d_d) ii a s);
    twice pq ((pick op_sub_assign__QuaternionT_f_QuaternionT_f op_sub_assign__QuaternionT_d_QuaternionT_d) ii a b);
    twice pq ((pick op_mul_assign__QuaternionT_f_f op_mul_assign__QuaternionT_d_d) ii a s);
    twice pq ((pick op_mul_assign__QuaternionT_f_QuaternionT_f op_mul_assign__QuaternionT_d_QuaternionT_d) ii a b);
    twice pq ((pick op_div_assign__QuaternionT_f_f op_div_assign__QuaternionT_d_d) ii a s);
    twice pq ((pick op_div_assign__QuaternionT_f_QuaternionT_f op_div_assign__QuaternionT_d_QuaternionT_d) ii a b);
    pq ((pick op_add__f_QuaternionT_f op_add__d_QuaternionT_d) ii s a); pq ((pick op_add__QuaternionT_f_f op_add__QuaternionT_d_d) ii a s);
    pq ((pick op_sub__f_QuaternionT_f op_sub__d_QuaternionT_d) ii s a); pq ((pick op_sub__QuaternionT_f_f op_sub__QuaternionT_d_d) ii a s);
    pq ((pick op_div__f_QuaternionT_f op_div__d_QuaternionT_d) ii s a); pq ((pick op_div__QuaternionT_f_f op_div__QuaternionT_d_d) ii a s);
    pq ((pick op_div__QuaternionT_f_QuaternionT_f op_div__QuaternionT_d_QuaternionT_d) ii a b);
    pq ((pick op_add__QuaternionT_f op_add__QuaternionT_d) ii a);
    let eq = pick op_eq__QuaternionT_f_QuaternionT_f op_eq__QuaternionT_d_QuaternionT_d
    and ne = pick op_ne__QuaternionT_f_QuaternionT_f op_ne__QuaternionT_d_QuaternionT_d in
    pb (eq ii a b); pb (ne ii a b); pb (eq ii a a); pb (ne ii a a);
    pq ((pick xfmQuaternion__QuaternionT_f_QuaternionT_f xfmQuaternion__QuaternionT_d_QuaternionT_d) ii a b);
    p3 ((pick xfmNormal__QuaternionT_f_v3f xfmNormal__QuaternionT_d_v3d) ii a v);
    (if isq then buf := "skip" :: !buf else emit ((pick abs__QuaternionT_f abs__QuaternionT_d) ii a));
    (if dbl then begin
       (* float f = float(s): the cast to the C float type *)
       let f = ii.cast F64 F32 s in
       pq (op_mul__QuaternionT_d_f ii a f); pq (op_mul__f_QuaternionT_d ii f a) end);
    true
  | "f2" ->
    let v = v2 () in let r = n () in
    pa2 (affineSpaceT_LinearSpace2_v2f_scale__v2f ii v); pa2 (affineSpaceT_LinearSpace2_v2f_translate__v2f ii v);
    pa2 (affineSpaceT_LinearSpace2_v2f_rotate__f ii r); pm2 (linearSpace2_scale__v2f ii v); pm2 (linearSpace2_rotate__f ii r); true
  | "r2" ->
    let r = n () in let p = v2 () in
    pm2 (linearSpace2_rotate__f ii r); pa2 (affineSpaceT_LinearSpace2_v2f_rotate__v2f_f ii p r); true
  | "a2" ->
    let a = a2 () in let b = a2 () in
    pa2 (op_mul__AffineSpaceT_LinearSpace2_v2f_AffineSpaceT_LinearSpace2_v2f ii a b); pa2 (rcp__AffineSpaceT_LinearSpace2_v2f ii a); true
  | "l3" ->
    let a = m3 () in let b = m3 () in let v = v3 () in
    emit (linearSpace3_det__ ii a); pm3 (linearSpace3_adjoint__ ii a); pm3 (linearSpace3_inverse__ ii a);
    pm3 (linearSpace3_transposed__ ii a);
    p3 (linearSpace3_row0__ ii a); p3 (linearSpace3_row1__ ii a); p3 (linearSpace3_row2__ ii a);
    pm3 (op_mul__LinearSpace3_LinearSpace3 ii a b); p3 (op_mul__LinearSpace3_v3f ii a v); pm3 (linearSpace3_scale__v3f ii v);
    p3 (xfmPoint__LinearSpace3_v3f ii a v); p3 (xfmVector__LinearSpace3_v3f ii a v); p3 (xfmNormal__LinearSpace3_v3f ii a v); true
  | "a3" ->
    let a = a3 () in let b = a3 () in let p = v3 () in
    let ab = op_mul__AffineSpaceT_LinearSpace3_v3f_AffineSpaceT_LinearSpace3_v3f ii a b in
    pa3 ab; pa3 (rcp__AffineSpaceT_LinearSpace3_v3f ii a);
    p3 (xfmPoint__AffineSpaceT_LinearSpace3_v3f_v3f ii a p); p3 (xfmVector__AffineSpaceT_LinearSpace3_v3f_v3f ii a p);
    p3 (xfmNormal__AffineSpaceT_LinearSpace3_v3f_v3f ii a p); p3 (xfmPoint__AffineSpaceT_LinearSpace3_v3f_v3f ii ab p);
    pa3 (affineSpaceT_LinearSpace3_v3f_translate__v3f ii p); pa3 (affineSpaceT_LinearSpace3_v3f_scale__v3f ii p); true
  | "rot" ->
    let u = v3 () in let r = n () in let p = v3 () in let v = v3 () in
    let m = linearSpace3_rotate__v3f_f ii u r in
    pm3 m; p3 (op_mul__LinearSpace3_v3f ii m v);
    let q = quaternionT_f_rotate__v3f_f ii u r in
    pq q; pm3 (linearSpace3_mk__QuaternionT_f ii q); p3 (op_mul__QuaternionT_f_v3f ii q v);
    pq (quaternionT_f_mk__v3f_v3f_v3f ii m.linearSpace3_vx m.linearSpace3_vy m.linearSpace3_vz);
    let ar = affineSpaceT_LinearSpace3_v3f_rotate__v3f_v3f_f ii p u r in
    pa3 ar; p3 (xfmPoint__AffineSpaceT_LinearSpace3_v3f_v3f ii ar p); true
  | "frm" ->
    let nn = v3 () in let up = v3 () in
    pm3 (frame__v3f ii nn); pm3 (frame__v3f_v3f ii nn up); true
  | "look" ->
    let eye = v3 () in let pt = v3 () in let up = v3 () in
    pa3 (affineSpaceT_LinearSpace3_v3f_lookat__v3f_v3f_v3f ii eye pt up); true
  | "q" ->
    let a = q4 () in let b = q4 () in let v = v3 () in
    pq (qmul ii a b); pq (qconj ii a); pq (qrcp ii a);
    (if isq then buf := "skip" :: "skip" :: "skip" :: "skip" :: !buf else pq (qnorm ii a));
    p3 (qrot ii a v); true
  | "qf" ->
    let x = v3 () in let y = v3 () in let z = v3 () in pq (qfrom ii x y z); true
  | "qr" ->
    let u = v3 () in let r = n () in let v = v3 () in
    let q = qrotate ii u r in pq q; p3 (qrot ii q v); true
  | "ypr" ->
    let y = n () in let p = n () in let r = n () in pq (qypr ii y p r); true
  | "sl" ->
    (* the factor is a C float in both instantiations *)
    let t = (match !toks with [] -> failwith "short" | s :: r -> toks := r;
             if isq then inp s else Obj.repr (r32 (float_of_string s))) in
    let a = q4 () in let b = q4 () in pq (qslerp ii t a b); true
  | _ -> false

let () =
  try
    while true do
      let line = input_line stdin in
      if String.trim line = "" then print_endline ""
      else begin
        let ts = List.filter (fun s -> s <> "") (String.split_on_char ' ' (String.trim line)) in
        let kind = List.hd ts in
        toks := List.tl ts; buf := [];
        let ok = (try run kind with Failure _ -> false) in
        if ok then print_endline (String.concat " " (kind :: List.rev !buf))
        else print_endline (kind ^ " unsupported")
      end
    done
  with End_of_file -> ()
