(* C05 driver: one case per line  "<op> <inst-code> <number>..."  ->  the observation line of the extracted model.
   numbers: decimal integers, n/d, inf, -inf, nan *)
let parse_x (s : string) : xq =
  if s = "inf" then XP else if s = "-inf" then XN else if s = "nan" then XNaN else
  match String.index_opt s '/' with
  | Some i -> XF (mkq (z_of_string (String.sub s 0 i)) (z_of_string (String.sub s (i + 1) (String.length s - i - 1))))
  | None -> XF (mkq (z_of_string s) (z_of_int 1))
let show_x (x : xq) : string = match x with
  | XP -> "inf" | XN -> "-inf" | XNaN -> "nan"
  | XF q -> let q = mkq (q_num q) (q_den q) in
    let n = string_of_z (q_num q) and d = string_of_z (q_den q) in if d = "1" then n else n ^ "/" ^ d
let () =
  try while true do
    let line = input_line stdin in
    let toks = List.filter (fun s -> s <> "") (String.split_on_char ' ' line) in
    match toks with
    | op :: code :: args ->
      let r = run (nat_of_int (int_of_string op)) (nat_of_int (int_of_string code)) (List.map parse_x args) in
      print_endline (String.concat " " (List.map show_x r))
    | _ -> print_endline ""
  done with End_of_file -> ()
