(* C09 driver.  usage: model [full|plain] [mvz0|mvz1] [fixed|old]
   cases, one per line:
     O <op> ...             Optional history over wrapper slots 0..3 (mvz: a move leaves code 0 behind)
        cd:i:ty cv:i:ty:v mk:i:ty:v cc:i:j cm:i:j xc:i:j xm:i:j d:i av:i:v:u ac:i:j am:i:j xac:i:j xam:i:j
        em:i:v rs:i hv:i val:i vo:i:d eq|ne|lt|le|gt|ge:i:j str:i
     A <op> ...             Any history
        cd:i cv:i:t:v cc:i:j d:i av:i:t:v ac:i:j get:i:t set:i:t:v is:i:t valid:i eq:i:j ne:i:j str:i
     L <alignT> <sizeT>     layout facts of Optional<T>
   output: per step "out|events|dump" (Optional; plain: "out|dump") or "out|dump" (Any) joined by " ; ",
   then a closing step "end|..." that destroys every wrapper still alive. *)
let ios = int_of_string
let nn s = n_of_int (ios s)
let full = ref true
let fixed = ref true
let mvz = ref true
let nslots = 4
let kind_s = function KDefault -> "D" | KCtor -> "C" | KAssign -> "A" | KDtor -> "X" | KRead -> "R" | KMove -> "M"
let err_s = function ENewOnLive -> "new-on-live" | EDtorOnRaw -> "dtor-on-raw" | EAssignToRaw -> "assign-to-raw"
  | EReadRaw -> "read-raw" | ELeak -> "leak"
let pk = ref PkFull
let evs_s l = let l = observed !pk l in String.concat "," (List.map (fun (k, w) -> kind_s k ^ string_of_int (int_of_n w)) l)
let out_s = function OUnit -> "ok" | OBool b -> if b then "true" else "false"
  | OVal None -> "val=none" | OVal (Some v) -> "val=" ^ string_of_int (int_of_n v) | OStr -> "str"
let dump s =
  String.concat "," (List.init nslots (fun i ->
    match s (n_of_int i) with
    | None -> "-"
    | Some w ->
      let o = w.w_opt in
      (if w.w_ty then "U" else "T") ^
      (match o.hv, o.st with
       | true, Live v -> "v" ^ string_of_int (int_of_n v)
       | true, Raw -> "vX"
       | false, _ -> "e") ^
      (if !full then (match o.st with Live _ -> "L" | Raw -> "R") else "")))
let cmp_of = function "eq" -> Some CEq | "ne" -> Some CNe | "lt" -> Some CLt | "le" -> Some CLe
  | "gt" -> Some CGt | "ge" -> Some CGe | _ -> None
let parse_o tok = match String.split_on_char ':' tok with
  | ["cd"; i; ty] -> CtorDefault (nn i, ty = "1")
  | ["cv"; i; ty; v] -> CtorValue (nn i, ty = "1", nn v)
  | ["mk"; i; ty; v] -> MakeOptional (nn i, ty = "1", nn v)
  | ["cc"; i; j] -> CtorCopy (nn i, nn j) | ["cm"; i; j] -> CtorMove (nn i, nn j)
  | ["xc"; i; j] -> CtorConvCopy (nn i, nn j) | ["xm"; i; j] -> CtorConvMove (nn i, nn j)
  | ["d"; i] -> Dtor (nn i)
  | ["av"; i; v; _] -> AssignValue (nn i, nn v)
  | ["ac"; i; j] -> AssignCopy (nn i, nn j) | ["am"; i; j] -> AssignMove (nn i, nn j)
  | ["xac"; i; j] -> AssignConvCopy (nn i, nn j) | ["xam"; i; j] -> AssignConvMove (nn i, nn j)
  | ["em"; i; v] -> Emplace (nn i, nn v) | ["rs"; i] -> Reset (nn i)
  | ["adr"; i; j; mv] -> AssignDeref (nn i, nn j, mv = "1") | ["edr"; i; j; mv] -> EmplaceDeref (nn i, nn j, mv = "1")
  | ["hv"; i] -> HasValue (nn i) | ["val"; i] -> Value (nn i) | ["vo"; i; d] -> ValueOr (nn i, nn d)
  | ["str"; i] -> ToString (nn i)
  | [c; i; j] when cmp_of c <> None -> (match cmp_of c with Some o -> Cmp (o, nn i, nn j) | None -> assert false)
  | _ -> failwith ("bad op " ^ tok)
let fmt o e d = if !full then o ^ "|" ^ e ^ "|" ^ d else o ^ "|" ^ d
let run_o mvz toks =
  let cfg = if !fixed then fixed_cfg mvz else old_cfg mvz in
  let acc = ref [] and s = ref empty_store and dead = ref false in
  let do_op o =
    if not !dead then
      match step cfg !s o with
      | SOk (x, s', e) -> s := s'; acc := fmt (out_s x) (evs_s e) (dump s') :: !acc
      | SErr ((e, w), l) -> dead := true;
        acc := fmt ("ERR:" ^ err_s e ^ "@" ^ string_of_int (int_of_n w)) (evs_s l) (dump !s) :: !acc
      | SIll -> acc := fmt "ill" "" (dump !s) :: !acc in
  (* environment operations (getEnvVar.h): es:name:sid  eu:name  gv:slot:kind:name  (kind 0 int, 1 float, 2 string) *)
  let env = ref env0 in
  let vars = ref vars0 in
  let do_tok t = match String.split_on_char ':' t with
    | ["es"; n; sid] -> if not !dead then begin
        env := fst (estep atoi_code atof_code !env (EnvSet (nn n, nn sid))); acc := fmt "ok" "" (dump !s) :: !acc end
    | ["eu"; n] -> if not !dead then begin
        env := fst (estep atoi_code atof_code !env (EnvUnset (nn n))); acc := fmt "ok" "" (dump !s) :: !acc end
    (* value operations with a named variable as argument: sv:k:v  vu:member:slot:ty:k:category  vr:k *)
    | ["sv"; k; v] -> if not !dead then begin
        (match vstep cfg !s !vars (VSet (nn k, nn v)) with VOk (_, _, _, vs') -> vars := vs' | _ -> ());
        acc := fmt "ok" "" (dump !s) :: !acc end
    | ["vr"; k] -> if not !dead then begin
        (match vstep cfg !s !vars (VRead (nn k)) with
         | VVal (Some v) -> acc := fmt ("val=" ^ string_of_int (int_of_n v)) "" (dump !s) :: !acc
         | _ -> acc := fmt "val=none" "" (dump !s) :: !acc) end
    | ["vu"; m; i; ty; k; c] -> if not !dead then begin
        let m' = (match m with "0" -> VmCtor | "1" -> VmEmplace | "2" -> VmAssign | _ -> VmMake) in
        let c' = (match c with "0" -> VPr | "1" -> VX | "2" -> VCL | _ -> VL) in
        match vstep cfg !s !vars (VUse (m', nn i, ty = "1", nn k, c')) with
        | VOk (x, s', e, vs') -> s := s'; vars := vs'; acc := fmt (out_s x) (evs_s e) (dump s') :: !acc
        | VErr ((e, w), l) -> dead := true;
          acc := fmt ("ERR:" ^ err_s e ^ "@" ^ string_of_int (int_of_n w)) (evs_s l) (dump !s) :: !acc
        | _ -> acc := fmt "ill" "" (dump !s) :: !acc end
    | ["gv"; i; k; n] ->
      let kd = (match k with "0" -> KInt | "1" -> KFloat | _ -> KStr) in
      List.iter do_op (snd (estep atoi_code atof_code !env (GetEnv (nn i, kd, nn n))))
    | _ -> do_op (parse_o t) in
  List.iter do_tok toks;
  (* closing: destroy what is still alive, lowest index first *)
  if not !dead then begin
    let evs = ref [] in
    for i = 0 to nslots - 1 do
      if not !dead then
        match !s (n_of_int i) with
        | None -> ()
        | Some _ ->
          (match step cfg !s (Dtor (n_of_int i)) with
           | SOk (_, s', e) -> s := s'; evs := !evs @ e
           | SErr ((e, w), l) -> dead := true; evs := !evs @ l;
             acc := fmt ("ERR:" ^ err_s e ^ "@" ^ string_of_int (int_of_n w)) (evs_s !evs) (dump !s) :: !acc
           | SIll -> ())
    done;
    if not !dead then acc := fmt "end" (evs_s !evs) (dump !s) :: !acc
  end;
  String.concat " ; " (List.rev !acc)

(* ------------------------------------------------------------------ Any *)
let parse_a tok = match String.split_on_char ':' tok with
  | ["cd"; i] -> ACtorDefault (nn i) | ["cv"; i; t; v] -> ACtorValue (nn i, nn t, nn v)
  | ["cc"; i; j] -> ACtorCopy (nn i, nn j) | ["d"; i] -> ADtor (nn i)
  (* Any has no move constructor / move assignment: an rvalue argument selects the copy operations *)
  | ["mc"; i; j] -> ACtorCopy (nn i, nn j) | ["ma"; i; j] -> AAssignCopy (nn i, nn j)
  | ["av"; i; t; v] -> AAssignValue (nn i, nn t, nn v) | ["ac"; i; j] -> AAssignCopy (nn i, nn j)
  | ["get"; i; t] -> AGet (nn i, nn t) | ["set"; i; t; v] -> ASet (nn i, nn t, nn v)
  | ["is"; i; t] -> AIs (nn i, nn t) | ["valid"; i] -> AValid (nn i)
  | ["eq"; i; j] -> AEq (nn i, nn j) | ["ne"; i; j] -> ANe (nn i, nn j) | ["str"; i] -> AToString (nn i)
  | _ -> failwith ("bad op " ^ tok)
let aout_s = function AUnit -> "ok" | ABool b -> if b then "true" else "false"
  | AVal v -> "val=" ^ string_of_int (int_of_n v) | AThrow -> "throw"
  | AStr None -> "str=empty" | AStr (Some t) -> "str=" ^ string_of_int (int_of_n t)
let adump w =
  String.concat "," (List.init nslots (fun i ->
    match w.a_store (n_of_int i) with
    | None -> "-" | Some None -> "e"
    | Some (Some h) -> Printf.sprintf "%d:%d" (int_of_n h.h_tag) (int_of_n h.h_val)))
let run_a toks =
  let acc = ref [] and w = ref a_init and dead = ref false in
  List.iter (fun t ->
    if not !dead then
      match a_step !fixed !w (parse_a t) with
      | AOk (x, w') -> w := w'; acc := (aout_s x ^ "|" ^ adump w') :: !acc
      | ANullDeref -> dead := true; acc := "CRASH:null-deref" :: !acc
      | AIll -> acc := ("ill|" ^ adump !w) :: !acc) toks;
  if not !dead then begin
    for i = 0 to nslots - 1 do
      match !w.a_store (n_of_int i) with
      | None -> ()
      | Some _ -> (match a_step !fixed !w (ADtor (n_of_int i)) with AOk (_, w') -> w := w' | _ -> ())
    done;
    (* holders still allocated after every wrapper is gone *)
    let n = int_of_n !w.a_next in
    let out = ref 0 in
    for id = 0 to n - 1 do
      let c = int_of_n (N.of_nat (count_new (n_of_int id) !w.a_log)) - int_of_n (N.of_nat (count_free (n_of_int id) !w.a_log)) in
      out := !out + c
    done;
    acc := ("end|" ^ adump !w ^ "|outstanding=" ^ string_of_int !out) :: !acc
  end;
  String.concat " ; " (List.rev !acc)

let () =
  Array.iteri (fun i a -> if i > 0 then match a with
    | "plain" -> full := false | "full" -> full := true
    | "old" -> fixed := false | "fixed" -> fixed := true
    | "mvz0" -> mvz := false | "mvz1" -> mvz := true
    | "pk=full" -> pk := PkFull | "pk=nodtor" -> pk := PkNoDtor | "pk=dtoronly" -> pk := PkDtorOnly | "pk=trivial" -> pk := PkTrivial
    | _ -> ()) Sys.argv;
  try while true do
    let line = input_line stdin in
    let toks = List.filter (fun s -> s <> "") (String.split_on_char ' ' line) in
    match toks with
    | "O" :: ops -> print_endline (run_o !mvz ops)
    | "A" :: ops -> print_endline (run_a ops)
    | ["L"; a; s] ->
      let ((al, sz), off) = layout !fixed (nn a) (nn s) in
      Printf.printf "align=%d size=%d prefixed_offset=%d\n" (int_of_n al) (int_of_n sz) (int_of_n off)
    | _ -> print_endline ""
  done with End_of_file -> ()
