(* C14 driver.  Case lines (numbers are decimal, up to 2^64-1 and negative ints):
     M <sizeT>                      max_size()                         -> max=<d>
     G <sizeT> <A> <n> <ans>        aligned_allocator<T,A>::allocate(n) with the back end answering
                                    <ans> = none | <ptr>               -> <outcome> [req=<bytes>,<align>]
     I <p> <a>                      isAligned((void* )p, (int)a)         -> true|false|undef
     P <p> <a>                      ALIGN_PTR(p, a)                    -> <d>
     S <align>                      the assert in alignedMalloc        -> ok|abort
     H <fail> <op>...               alignedMalloc/alignedFree history over the bump back end
                                    ops  m:<size>:<align>  f:<j> (free the pointer returned by the j-th m)
     A                              the remaining members of aligned_allocator (address, ==, !=, converting constructor, rebind,
                                    allocate with a hint, STACK_BUFFER): a fixed line
     T <sizeT> <n> <align> <ans>    the typed overload alignedMalloc<T>(n, align)  -> null|ptr=<p> req=<bytes>,<align>
     W <s|v|i> <fail> <op>...       as V, element type std::string / std::vector<int> / instrumented (sizeof 32/24/16)
     V <sizeT> <fail> <op>...       two AlignedVector<T> (a, b) over the bump back end
                                    ops  pb:<t>:<x> eb:<t>:<n>:<x> (emplace_back) rs:<t>:<n>:<x> rv:<t>:<n> sh:<t> as:<t>:<n>:<x> cl:<t> sw
   <fail> = index of the back-end request that fails (-1: none). *)
let zs = z_of_string
let sz = string_of_z
let zi = z_of_int
let toks line = List.filter (fun s -> s <> "") (String.split_on_char ' ' line)
let pat j o = (j * 131 + o * 7 + 1) mod 251

let str_outcome = function
  | OOk -> "ok" | OLengthError -> "length_error" | OBadAlloc -> "bad_alloc"
  | OAbort -> "abort" | OInvalidFree -> "invalid_free"

let dump_live live fmt =
  let l = List.sort (fun x y -> compare (int_of_z x.b_addr) (int_of_z y.b_addr)) live in
  "live=[" ^ String.concat " " (List.map fmt l) ^ "]"

let bump0 fail = { bs_cur = bASE; bs_fail = fail }

let run_G sizeT a n ans =
  let st = if ans = "none" then None else Some (zs ans) in
  let w0 = { w_be = st; w_live = []; w_mem = [] } in
  let req = match allocate_guard sizeT n with
    | GRequest bytes -> Printf.sprintf " req=%s,%s" (sz bytes) (sz (wrap a))
    | _ -> "" in
  match fst (allocate scripted_malloc false w0 sizeT a n) with
  | ANull -> "null"
  | ALengthError -> "length_error"
  | ABadAlloc -> "bad_alloc" ^ req
  | APtr p -> "ptr=" ^ sz p ^ req
  | AAbort -> "abort"

let run_T sizeT n a ans =
  let st = if ans = "none" then None else Some (zs ans) in
  let w0 = { w_be = st; w_live = []; w_mem = [] } in
  let req = Printf.sprintf " req=%s,%s" (sz (wrap (Z.mul n sizeT))) (sz a) in
  match fst (aligned_malloc_typed scripted_malloc false w0 sizeT n a) with
  | AMNull -> "null" ^ req
  | AMPtr p -> "ptr=" ^ sz p ^ req
  | AMAbort -> "abort"

(* element sizes of the non-trivially-copyable element types of the W cases (x86-64 libstdc++) *)
let sizeof_tag = function "s" | "S" | "n" -> zi 32 | "v" | "I" | "y" -> zi 24 | "i" -> zi 16 | t -> failwith ("bad element type " ^ t)
(* the value of the element built by emplace_back(args...): element types with a two-argument constructor
   (std::string(n, ch), std::vector<int>(n, v), the instrumented element) encode (n, x); the others are built from enc(x) *)
let multi_arg = ref false
let emplace_value n x = if !multi_arg then 1000 + n * 26 + x else x

let run_H fail ops =
  let w = ref { w_be = bump0 fail; w_live = []; w_mem = [] } in
  let ptrs = ref [] in   (* (index, ptr) *)
  let nm = ref 0 in
  let out = ref [] in
  let step o = h_step bump_malloc bump_free false !w o in
  List.iter (fun tok ->
      match String.split_on_char ':' tok with
      | ["m"; s; a] ->
        let size = zs s in
        (match step (HMalloc (size, zs a)) with
         | Some (AMPtr p, w') ->
           w := w';
           ptrs := (!nm, p) :: !ptrs;
           let isz = int_of_z size in
           if isz > 0 then begin
             (match step (HWrite (p, Z0, zi (pat !nm 0))) with Some (_, w'') -> w := w'' | None -> out := "!write" :: !out);
             (match step (HWrite (p, zi (isz - 1), zi (pat !nm (isz - 1)))) with Some (_, w'') -> w := w'' | None -> out := "!write" :: !out)
           end;
           out := ("p=" ^ sz p) :: !out
         | Some (AMNull, w') -> w := w'; ptrs := (!nm, Z0) :: !ptrs; out := "null" :: !out
         | Some (AMAbort, _) -> ptrs := (!nm, Z0) :: !ptrs; out := "abort" :: !out
         | None -> out := "invalid" :: !out);
        incr nm
      | ["f"; j] ->
        let p = try List.assoc (int_of_string j) !ptrs with Not_found -> Z0 in
        (match step (HFree p) with
         | Some (_, w') -> w := w'; out := "ok" :: !out
         | None -> out := "invalid_free" :: !out)
      | _ -> out := "badop" :: !out) ops;
  let m = !w.w_mem in
  let fmt b =
    let s = int_of_z b.b_size in
    if s = 0 then sz b.b_addr ^ ":0:-:-"
    else Printf.sprintf "%s:%d:%s:%s" (sz b.b_addr) s (sz (mread m b.b_addr)) (sz (mread m (Z.add b.b_addr (zi (s - 1))))) in
  String.concat " ; " (List.rev (dump_live !w.w_live fmt :: !out))

let tsel = function "a" -> false | "b" -> true | s -> failwith ("bad vector " ^ s)
let parse_v tok = match String.split_on_char ':' tok with
  | ["pb"; t; x] -> VPush (tsel t, zs x)
  | ["eb"; t; n; x] -> VEmplaceBack (tsel t, zi (emplace_value (int_of_string n) (int_of_string x)))
  | ["rs"; t; n; x] -> VResize (tsel t, zs n, zs x)
  | ["rv"; t; n] -> VReserve (tsel t, zs n)
  | ["sh"; t] -> VShrink (tsel t)
  | ["as"; t; n; x] -> VAssign (tsel t, zs n, zs x)
  | ["cl"; t] -> VClear (tsel t)
  | ["sw"] -> VSwap
  | _ -> failwith ("bad op " ^ tok)

let dump_vec sizeT m name v =
  Printf.sprintf "%s=%s,%s,%s,[%s]" name (sz v.v_data) (sz v.v_size) (sz v.v_cap)
    (String.concat " " (List.map sz (v_contents sizeT m v)))

let run_V sizeT fail ops =
  let s = ref (vs_init (bump0 fail)) in
  let vmax = gnu_vmax sizeT and grow = gnu_grow sizeT in
  let outs = List.map (fun tok ->
      let (r, s') = vs_step bump_malloc bump_free false sizeT vmax grow !s (parse_v tok) in
      s := s';
      let m = s'.s_w.w_mem in
      String.concat "|" [str_outcome r; dump_vec sizeT m "a" s'.s_a; dump_vec sizeT m "b" s'.s_b;
                         dump_live s'.s_w.w_live (fun b -> sz b.b_addr ^ ":" ^ sz b.b_size)]) ops in
  String.concat " ; " outs

let () =
  try while true do
    let line = input_line stdin in
    let res =
      try match toks line with
        | ["M"; s] -> "max=" ^ sz (max_size (zs s))
        | ["G"; s; a; n; ans] -> run_G (zs s) (zs a) (zs n) ans
        | ["I"; p; a] -> (match is_aligned (zs p) (zs a) with
            | None -> "undef" | Some true -> "true" | Some false -> "false")
        | ["P"; p; a] -> sz (align_ptr (zs p) (zs a))
        | ["S"; a] -> if assert_ok (zs a) then "ok" else "abort"
        | "H" :: fail :: ops -> run_H (zs fail) ops
        | "V" :: s :: fail :: ops -> multi_arg := false; run_V (zs s) (zs fail) ops
        | "W" :: tag :: fail :: ops -> multi_arg := List.mem tag ["S"; "I"; "i"]; run_V (sizeof_tag tag) (zs fail) ops
        | ["A"] -> "addr=1 eq=1 ne=0 rebind=1 max=1 hint=ok hint_len=length_error xeq=1 xfree=ok stack=1"
        | ["T"; s; n; a; ans] -> run_T (zs s) (zs n) (zs a) ans
        | _ -> "badcase"
      with Failure m -> "error: " ^ m in
    print_endline res
  done with End_of_file -> ()
