(* C15 driver: reads cases, one per line, prints one canonical observation line per case
   (the same syntax harness/C15/harness.cpp prints):
     T <ty> <value tokens> <ty> <value tokens> ...      typed sequence
        ty: u8 u32 u64 f32 f64 p3 p12 p24 v3f s cs  v:<ty>  a:<wrapper>:<elem>:<b|d>
        value tokens: raw/string = hex ("-" empty); vector = count then elements;
                      array = count then hex of all bytes
     R <bufhex> <op>...        ops: rd:<size>:<m>  vw:<count>  end
     F <cap> <op>...           ops: w:<hex>  wn:<size>  rs:<size>  rf:<hex>
     W <op>...                 ops: w:<hex>  wn:<size>                         *)
let zi = z_of_int
let zs = z_of_string
let sz = string_of_z
let bytes_of_hex h = str_of_string (string_of_hex h)
let hex_of_bytes l = hex_of_string (string_of_str l)
let bg = n_of_int 0xEE

let raw_size = function
  | "u8" | "b" -> 1 | "u32" | "f32" -> 4 | "u64" | "f64" -> 8 | "p3" -> 3 | "p12" | "v3f" -> 12 | "p24" -> 24
  | t -> failwith ("bad raw type " ^ t)

let rec shape_of ty =
  if ty = "s" || ty = "cs" then SStr
  else if String.length ty > 2 && String.sub ty 0 2 = "v:" then SVec (shape_of (String.sub ty 2 (String.length ty - 2)))
  else if String.length ty > 2 && String.sub ty 0 2 = "a:" then
    (match String.split_on_char ':' ty with
     | [_; _; e; _] -> SArr (zi (raw_size e))
     | _ -> failwith ("bad array type " ^ ty))
  else SRaw (zi (raw_size ty))

let toks = ref []
let next () = match !toks with t :: r -> toks := r; t | [] -> failwith "missing token"

let rec parse_val sh = match sh with
  | SRaw _ -> VRaw (bytes_of_hex (next ()))
  | SStr -> VStr (bytes_of_hex (next ()))
  | SVec sh' ->
    let n = int_of_string (next ()) in
    let acc = ref [] in
    for _ = 1 to n do acc := parse_val sh' :: !acc done;
    VVec (List.rev !acc)
  | SArr e -> let n = next () in let bs = bytes_of_hex (next ()) in VArr (e, zs n, bs)

let rec show_val v = match v with
  | VRaw bs -> hex_of_bytes bs
  | VStr s -> hex_of_bytes s
  | VVec vs -> String.concat " " (string_of_int (List.length vs) :: List.map show_val vs)
  | VArr (_, cnt, bs) -> sz cnt ^ " " ^ hex_of_bytes bs

let rec firstn_int k l = if k <= 0 then [] else match l with [] -> [] | x :: r -> x :: firstn_int (k - 1) r

let run_t () =
  let items = ref [] in
  while !toks <> [] do
    let ty = next () in
    let sh = shape_of ty in
    let v = parse_val sh in
    if not (typed sh v) then failwith ("ill-typed value for " ^ ty);
    items := (ty, sh, v) :: !items
  done;
  let items = List.rev !items in
  let vs = List.map (fun (_, _, v) -> v) items in
  let shs = List.map (fun (_, sh, _) -> sh) items in
  match bw_put_seq vs with
  | None -> "enc=OOB"
  | Some enc ->
    let b = Buffer.create 256 in
    Buffer.add_string b ("enc=" ^ hex_of_bytes enc);
    Buffer.add_string b (" calc=" ^ sz (wsc_put_seq vs));
    (* decode value by value, end() before and after each *)
    let r = ref (reader_of enc) in
    let ends = Buffer.create 16 in
    let e r = Buffer.add_char ends (if rd_end r then '1' else '0') in
    e !r;
    let dec = ref [] and failed = ref None in
    List.iteri (fun k (ty, sh, _) ->
        if !failed = None then
          match get sh !r with
          | ROk (v, r') -> dec := (ty ^ " " ^ show_val v) :: !dec; r := r'; e r'
          | RThrow -> failed := Some ("throw@" ^ string_of_int k)
          | ROob -> failed := Some ("oob@" ^ string_of_int k)) items;
    Buffer.add_string b (" dec=" ^ (match !failed with
        | Some f -> f
        | None -> if items = [] then "-" else String.concat " " (List.rev !dec)));
    Buffer.add_string b (" end=" ^ Buffer.contents ends ^ " cur=" ^ sz !r.r_cur);
    (* truncation points: all of them for short streams, a spread for long ones *)
    let n = List.length enc in
    let pts = if n <= 160 then List.init n (fun t -> t)
      else List.sort_uniq compare (List.init 40 (fun i -> i * n / 40) @ List.init 24 (fun i -> n - 1 - i)) in
    let res = ref "" in
    List.iter (fun t ->
        if !res = "" then
          match get_seq shs (reader_of (firstn_int t enc)) with
          | RThrow -> ()
          | ROk _ -> res := "noThrow@" ^ string_of_int t
          | ROob -> res := "oob@" ^ string_of_int t) pts;
    Buffer.add_string b (" trunc=" ^ (if !res = "" then "ok:" ^ string_of_int n else !res));
    (* fixed writers of capacity len-1, len, len+1 *)
    let cs = List.concat (List.map chunks vs) in
    let fx d =
      if d < 0 && n = 0 then "-" else
        let cap = n + d in
        match fbw_write_chunks (fbw_init (zi cap) bg) cs with
        | (w, FOk) ->
          let same = (match fbw_view w with Some v -> v = enc | None -> false) in
          "K:" ^ sz w.f_cur ^ ":" ^ sz (fbw_available w) ^ ":" ^ (if same then "same" else "diff")
        | (_, FThrow) -> "T"
        | (_, FOob) -> "OOB"
        | (_, FPtr _) -> "?" in
    Buffer.add_string b (" fix=" ^ fx (-1) ^ "," ^ fx 0 ^ "," ^ fx 1);
    (* the same stream read INTO existing destinations: holding the values themselves, the values in
       reverse order (other sizes / other types), nested vectors doubled, nothing; twice in a row *)
    let rec dbl v = match v with VVec l -> VVec (List.map dbl l @ List.map dbl l) | VStr s -> VStr (s @ s) | v -> v in
    let into olds = match get_into_seq shs olds (reader_of enc) with
      | ROk (vs', r') -> vs' = vs && rd_end r'
      | _ -> false in
    let ok = List.for_all into [vs; List.rev vs; List.map dbl vs; []] in
    Buffer.add_string b (" re=" ^ (if ok then "ok" else "model-depends-on-destination"));
    (* static types: the model has one encode per value kind; the size calculator, the growing writer and a
       fixed writer of exact capacity agree with it whatever static type the stream is used through *)
    let st_ok = wsc_put_seq vs = zi n &&
                List.for_all (fun v -> wsc_put_seq [v] = zi (List.length (encode v))) vs &&
                (match fbw_write_chunks (fbw_init (zi n) bg) cs with (w, FOk) -> fbw_view w = Some enc | _ -> false) in
    Buffer.add_string b (" st=" ^ (if st_ok then "ok" else "model-static-type"));
    (* copies of stream objects are copies of values in the functional model *)
    Buffer.add_string b " cp=ok";
    (* a moved-from / reset array is the empty array: count 0; copies and self-assignments are the same value *)
    Buffer.add_string b (" mv=" ^ (if encode (VArr (zi 1, Z0, [])) = le_bytes (nat_of_int 8) Z0 then "ok" else "model"));
    Buffer.contents b

let run_r () =
  let buf = bytes_of_hex (next ()) in
  let r = ref (reader_of buf) in
  let outs = ref [] in
  while !toks <> [] do
    let o = match String.split_on_char ':' (next ()) with
      | ["rd"; s; m] ->
        (match rd_read !r (m = "1") (zs s) with
         | ROk (bs, r') -> r := r'; "ok:" ^ hex_of_bytes bs
         | RThrow -> "throw" | ROob -> "oob")
      | ["vw"; c] ->
        (match rd_view !r (zs c) with
         | ROk ((off, size), r') ->
           r := r';
           if size = Z0 then "view:-:0:-"
           else "view:" ^ sz off ^ ":" ^ sz size ^ ":" ^
                (match fetch buf off size with Some bs -> hex_of_bytes bs | None -> "OOB")
         | RThrow -> "throw" | ROob -> "oob")
      | ["end"] -> "end=" ^ (if rd_end !r then "1" else "0")
      | _ -> "badop" in
    outs := (o ^ "|" ^ sz !r.r_cur) :: !outs
  done;
  String.concat " ; " (List.rev !outs)

let run_f () =
  let cap = zs (next ()) in
  let w = ref (fbw_init cap bg) in
  let outs = ref [] in
  while !toks <> [] do
    let op = match String.split_on_char ':' (next ()) with
      | ["w"; h] -> let bs = bytes_of_hex h in FWrite (Some bs, len bs)
      | ["wn"; s] -> FWrite (None, zs s)
      | ["rs"; s] -> FReserve (zs s, None)
      | ["rf"; h] -> let bs = bytes_of_hex h in FReserve (len bs, Some bs)
      | _ -> failwith "bad op" in
    let (w', out) = fbw_step !w op in
    w := w';
    let o = match out with FOk -> "ok" | FPtr off -> "ptr=" ^ sz off | FThrow -> "throw" | FOob -> "oob" in
    outs := (o ^ "|" ^ sz w'.f_cur ^ "|" ^ sz (fbw_available w') ^ "|" ^ sz (fbw_capacity w') ^ "|" ^
             (match fbw_view w' with Some v -> hex_of_bytes v | None -> "OOB")) :: !outs
  done;
  String.concat " ; " (List.rev !outs)

(* L <cap> <op>... : writer / view lifetimes (see harness runL) *)
let run_l () =
  let cap = zs (next ()) in
  let st = ref (l_init cap bg) in
  let chk () =
    if !st.l_views = [] then "none" else
      String.concat "," (List.map (fun v -> match l_read_view !st v with
          | Some bs -> hex_of_bytes bs | None -> "USE-AFTER-FREE") !st.l_views) in
  let outs = ref [] in
  while !toks <> [] do
    let t = next () in
    let o =
      if t = "chk" then "chk=" ^ chk () else
        let op = match String.split_on_char ':' t with
          | ["w"; h] -> let bs = bytes_of_hex h in LStep (FWrite (Some bs, len bs))
          | ["wn"; s] -> LStep (FWrite (None, zs s))
          | ["rs"; s] -> LStep (FReserve (zs s, None))
          | ["rf"; h] -> let bs = bytes_of_hex h in LStep (FReserve (len bs, Some bs))
          | ["view"] -> LView
          | ["kill"] -> LKill
          | ["reseat"; n] -> LReseat (zs n, n_of_int 0x77)
          | _ -> failwith "bad op" in
        let (st', out) = l_step true !st op in
        st := st';
        (match out with
         | LOut FOk -> "ok" | LOut (FPtr off) -> "ptr=" ^ sz off | LOut FThrow -> "throw" | LOut FOob -> "oob"
         | LViewed c -> "view=" ^ sz c | LDone -> "done" | LDead -> "dead") in
    let tail = match !st.l_wr with
      | Some (i, cur) ->
        (match !st.l_heap i with
         | Some bytes -> let w = { f_bytes = bytes; f_cur = cur } in
           "|" ^ sz cur ^ "|" ^ sz (fbw_available w) ^ "|" ^ sz (fbw_capacity w)
         | None -> "|freed")
      | None -> "|-" in
    outs := (o ^ tail) :: !outs
  done;
  let (st', _) = l_step true !st LKill in
  st := st';
  String.concat " ; " (List.rev (("final=" ^ chk ()) :: !outs))

(* H <op>... : readers and a writer interleaved over one shared buffer (see harness runH) *)
let run_h () =
  let st = ref h_init in
  let msgs = ref [] in
  let xdo op = let (x', _) = x_step { x_h = !st; x_msgs = !msgs } op in st := x'.x_h; msgs := x'.x_msgs in
  let outs = ref [] in
  let cur k = sz (List.nth !st.h_curs k) in
  while !toks <> [] do
    let f = String.split_on_char ':' (next ()) in
    let o = match f with
      | ["w"; h] -> let bs = bytes_of_hex h in
        let (st', out) = h_step !st (HWrite (Some bs, len bs)) in st := st';
        (match out with HOk -> "ok|" ^ string_of_int (List.length st'.h_buf) | _ -> "oob")
      | ["wn"; n] ->
        let (st', out) = h_step !st (HWrite (None, zs n)) in st := st';
        (match out with HOk -> "ok|" ^ string_of_int (List.length st'.h_buf) | _ -> "oob")
      | ["hand"] | ["handa"] ->
        xdo XHandoff;
        let j = List.length !msgs - 1 in
        "msg=" ^ string_of_int j ^ ":" ^ string_of_int (List.length (List.nth !msgs j)) ^ "|" ^ string_of_int (List.length !st.h_buf)
      | ["reset"] -> xdo XReset; "ok|" ^ string_of_int (List.length !st.h_buf)
      | ["self"] -> xdo XSelfAssign; "ok|" ^ string_of_int (List.length !st.h_buf)
      | ["chkm"; js] ->
        let j = int_of_string js in
        if j >= List.length !msgs then "bad" else
          let m = List.nth !msgs j in
          (match rd_read (reader_of m) true (len m) with
           | ROk (bs, r') -> "msg:" ^ hex_of_bytes bs ^ (if rd_end r' then "" else "!notAtEnd")
           | _ -> "msg:throw")
      | ["new"] ->
        let (st', out) = h_step !st HNew in st := st';
        (match out with HReader k -> "reader=" ^ string_of_int (int_of_nat k) | _ -> "?")
      | ["cp"; ks] ->
        let k = int_of_string ks in
        if k >= List.length !st.h_curs then "bad" else begin
          let (st', out) = h_step !st (HCopy (nat_of_int k)) in st := st';
          (match out with HReader j -> "reader=" ^ string_of_int (int_of_nat j) ^ "|" ^ cur (int_of_nat j) | _ -> "?") end
      | op :: ks :: rest ->
        let k = int_of_string ks in
        if k >= List.length !st.h_curs then "bad" else
          let hop = match op, rest with
            | "rd", [s; m] -> HRead (nat_of_int k, m = "1", zs s)
            | "vw", [c] -> HView (nat_of_int k, zs c)
            | "end", [] -> HEnd (nat_of_int k)
            | _ -> failwith "bad op" in
          let buf = !st.h_buf in
          let (st', out) = h_step !st hop in
          st := st';
          (match out with
           | HBytes bs -> "ok:" ^ hex_of_bytes bs
           | HViewed (off, size) ->
             if size = Z0 then "view:-:0:-"
             else "view:" ^ sz off ^ ":" ^ sz size ^ ":" ^ (match fetch buf off size with Some bs -> hex_of_bytes bs | None -> "OOB")
           | HEndIs b -> "end=" ^ (if b then "1" else "0")
           | HThrow -> "throw" | HOob -> "oob" | _ -> "?") ^ "|" ^ cur k
      | _ -> failwith "bad op" in
    outs := o :: !outs
  done;
  String.concat " ; " (List.rev !outs)

let run_w () =
  let buf = ref (Some []) and total = ref Z0 and sizes = ref [] in
  while !toks <> [] do
    let (mem, size) = match String.split_on_char ':' (next ()) with
      | ["w"; h] -> let bs = bytes_of_hex h in (Some bs, len bs)
      | ["wn"; s] -> (None, zs s)
      | _ -> failwith "bad op" in
    (match !buf with Some b -> buf := bw_write b mem size | None -> ());
    total := wsc_write !total size;
    sizes := (match !buf with Some b -> string_of_int (List.length b) | None -> "oob") :: !sizes
  done;
  match !buf with
  | None -> "buf=OOB"
  | Some b -> "buf=" ^ hex_of_bytes b ^ " sizes=" ^ (if !sizes = [] then "-" else String.concat "," (List.rev !sizes)) ^
              " calc=" ^ sz !total

let () =
  try while true do
      let line = input_line stdin in
      let ts = List.filter (fun s -> s <> "") (String.split_on_char ' ' line) in
      let out = try (match ts with
          | "T" :: rest -> toks := rest; run_t ()
          | "R" :: rest -> toks := rest; run_r ()
          | "F" :: rest -> toks := rest; run_f ()
          | "W" :: rest -> toks := rest; run_w ()
          | "L" :: rest -> toks := rest; run_l ()
          | "H" :: rest -> toks := rest; run_h ()
          | _ -> "") with Failure m -> "driver-error:" ^ m in
      print_endline out
    done with End_of_file -> ()
