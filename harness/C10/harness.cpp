// C10 harness: runs FlatMap / ParameterizedObject histories on the real code.
// usage: harness <mode>   mode: ii | ss | sv   (FlatMap instantiation), P lines use ParameterizedObject
// Input/outputs: see ocaml/C10/driver.ml (identical canonical form).
#include <cstdint>
#include <cstring>
#include <cstdio>
#include <cstdlib>
#include <iostream>
#include <sstream>
#include <string>
#include <vector>
// built twice, in parallel: -DC10_NO_PO (FlatMap part) and -DC10_NO_FM (ParameterizedObject part)
#ifndef C10_NO_FM
#include "rkcommon/containers/FlatMap.h"
#endif
#ifndef C10_NO_PO
#include "rkcommon/math/vec.h"
#include "rkcommon/utility/ParameterizedObject.h"
#endif

using namespace rkcommon;
#ifndef C10_NO_FM
using rkcommon::containers::FlatMap;
#endif
#ifndef C10_NO_PO
using rkcommon::math::vec3f;
#endif

template <typename T> struct Codec;
template <> struct Codec<int> {
  static int enc(long v) { return (int)v; }
  static long dec(const int &v) { return v; }
};
// ---- values that are equal under operator== but observably different, and NaNs; decoding is BIT-EXACT / looks at
// every field, so "the last value written" is checked by identity, not by ==
//   float: code 0 <-> +0.0f (also VALUE()), 91 <-> -0.0f (== +0.0f), 92 <-> a quiet NaN, 93 <-> the NaN with the sign bit
//          set (a NaN is != itself), every other code v <-> (float)v
//   Shadow {key, shadow}: operator== compares key only; code v <-> {v % 50, v / 50}, so v and v + 50 are == but distinct
static float floatEnc(long v)
{
  uint32_t b;
  if (v == 0) b = 0u; else if (v == 91) b = 0x80000000u; else if (v == 92) b = 0x7fc00000u; else if (v == 93) b = 0xffc00000u;
  else return (float)v;
  float f; memcpy(&f, &b, 4); return f;
}
static long floatDec(const float &f)
{
  uint32_t b; memcpy(&b, &f, 4);
  if (b == 0u) return 0; if (b == 0x80000000u) return 91; if (b == 0x7fc00000u) return 92; if (b == 0xffc00000u) return 93;
  return (long)f;
}
struct Shadow {
  int key = 0;
  int shadow = 0;
  bool operator==(const Shadow &o) const { return key == o.key; }
  bool operator!=(const Shadow &o) const { return key != o.key; }
};
template <> struct Codec<float> {
  static float enc(long v) { return floatEnc(v); }
  static long dec(const float &v) { return floatDec(v); }
};
template <> struct Codec<Shadow> {
  static Shadow enc(long v) { Shadow s; s.key = (int)(v % 50); s.shadow = (int)(v / 50); return s; }
  static long dec(const Shadow &s) { return s.key + 50L * s.shadow; }
};
template <> struct Codec<std::string> {
  static std::string enc(long v) { return v == 0 ? std::string() : "v" + std::to_string(v) + std::string(v % 40, 'x'); }
  static long dec(const std::string &s) { return s.empty() ? 0 : std::stol(s.substr(1)); }
};
template <> struct Codec<std::vector<int>> {
  static std::vector<int> enc(long v) { std::vector<int> r; if (v) for (long i = 0; i <= v % 5; ++i) r.push_back((int)(v + i)); return r; }
  static long dec(const std::vector<int> &s) { return s.empty() ? 0 : s[0]; }
};
struct KeyS {
  // keys 1..4 form a prefix chain ("k", "kk", ...), so a key comparison that looks at a prefix only is visible
  static std::string enc(long v) { return (v >= 1 && v <= 4) ? std::string((size_t)v, 'k') : "k" + std::to_string(v) + std::string(v % 30, 'y'); }
  static long dec(const std::string &s) { return (s.size() <= 4 && s.find_first_not_of('k') == std::string::npos) ? (long)s.size() : std::stol(s.substr(1)); }
};
struct KeyI {
  static int enc(long v) { return (int)v; }
  static long dec(const int &s) { return s; }
};

// ---- call sites whose argument type differs from KEY: enc() returns the WIDE argument, the members convert it to
// `const KEY &` at the call.  Argument codes 1..6; 3 and 4 are other spellings of the keys of 1 and 2:
//   float key, double argument : 0.1, 0.7 (not representable in float), (double)0.1f, (double)0.7f, 1.5, 2.25
//   short key, int argument    : 1, -2, 65537 (wraps to 1), 65534 (wraps to -2), 5, 300
//   unsigned char key, int     : 1, 254, 257 (wraps to 1), -2 (wraps to 254), 5, 6
//   std::string key, const char* : "k1", "k2", the same texts in other buffers, "k5", "k6"
struct KeyFD {
  static double enc(long c) { static const double a[7] = {0, 0.1, 0.7, (double)0.1f, (double)0.7f, 1.5, 2.25}; return a[c >= 1 && c <= 6 ? c : 0]; }
};
struct KeyHI {
  static int enc(long c) { static const int a[7] = {0, 1, -2, 65537, 65534, 5, 300}; return a[c >= 1 && c <= 6 ? c : 0]; }
};
struct KeyUI {
  static int enc(long c) { static const int a[7] = {0, 1, 254, 257, -2, 5, 6}; return a[c >= 1 && c <= 6 ? c : 0]; }
};
struct KeySC {
  static const char *enc(long c)
  {
    static const char a[7][4] = {"k0", "k1", "k2", "k1", "k2", "k5", "k6"};
    return a[c >= 1 && c <= 6 ? c : 0];
  }
};
// the canonical code of a stored key = the smallest argument code that converts to it (computed with the real
// conversion, also printed by `--table` and handed to the model as data)
template <typename K, typename KW>
struct Wide {
  static auto enc(long c) -> decltype(KW::enc(c)) { return KW::enc(c); }
  static long dec(const K &k)
  {
    for (long c = 1; c <= 6; ++c) { K conv = KW::enc(c); if (conv == k) return c; }
    return 0;
  }
  static std::string table()
  {
    std::ostringstream o;
    for (long c = 1; c <= 6; ++c) { K conv = KW::enc(c); o << (c > 1 ? "," : "") << c << "=" << dec(conv); }
    return o.str();
  }
};

// ---- wide key domains (modes iw / sw): key codes 1..24 map to keys chosen to expose hash / modulus / bit-trick structure.
// Code 1 is a base key; code 1+j (j = 1..16) agrees with it in exactly the j low bits of std::hash (so they collide
// modulo every 2^i, i <= j, and differ modulo 2^(j+1)); the rest are negatives, extremes and a second colliding pair.
//   ints   : 1, 1+2^j (j=1..16), -1, -65, INT_MAX, INT_MIN, 0, 64, 65536          (std::hash<int> is the identity)
//   strings: "color", then for each j the first "p<i>" whose std::hash has exactly the j low bits of hash("color"),
//            "k", "", a long name, and the first "q<i>" colliding with "k" modulo 64  - computed at start-up with
//            the platform's std::hash (deterministic with libstdc++), printed by `--pool` for the generator to verify
#include <climits>
#include <functional>
struct KeyIW {
  static int enc(long c)
  {
    if (c >= 1 && c <= 17) return c == 1 ? 1 : 1 + (int)(1L << (c - 1));
    static const int rest[7] = {-1, -65, INT_MAX, INT_MIN, 0, 64, 65536};
    return (c >= 18 && c <= 24) ? rest[c - 18] : (int)c + 100000;
  }
  static long dec(const int &k) { for (long c = 1; c <= 24; ++c) if (enc(c) == k) return c; return (long)k - 100000; }
};
struct KeySW {
  static std::vector<std::string> &pool()
  {
    static std::vector<std::string> p;
    if (p.empty()) {
      std::hash<std::string> H;
      p.resize(25);
      p[1] = "color";
      size_t h1 = H(p[1]);
      for (int j = 1; j <= 16; ++j) {
        size_t lo = ((size_t)1 << j) - 1, bit = (size_t)1 << j;
        for (long i = 0; i < 20000000; ++i) {
          std::string cand = "p" + std::to_string(i);
          size_t h = H(cand);
          if ((h & lo) == (h1 & lo) && (h & bit) != (h1 & bit)) { p[1 + j] = cand; break; }
        }
      }
      p[18] = "k"; p[19] = ""; p[20] = std::string(40, 'z') + "radiusScale"; p[21] = "K"; p[22] = "color "; p[23] = "colo";
      size_t hk = H(p[18]);
      for (long i = 0; i < 20000000; ++i) { std::string cand = "q" + std::to_string(i); if ((H(cand) & 63) == (hk & 63)) { p[24] = cand; break; } }
    }
    return p;
  }
  static std::string enc(long c) { return (c >= 1 && c <= 24) ? pool()[c] : "w" + std::to_string(c); }
  static long dec(const std::string &s)
  {
    for (long c = 1; c <= 24; ++c) if (pool()[c] == s) return c;
    return std::stol(s.substr(1));
  }
  static std::string table()
  {
    std::ostringstream o; std::hash<std::string> H;
    for (long c = 1; c <= 24; ++c) o << (c > 1 ? "," : "") << c << "=" << H(pool()[c]);
    return o.str();
  }
};

static std::vector<std::string> split(const std::string &s, char d)
{
  std::vector<std::string> r; std::string t; std::istringstream is(s);
  while (std::getline(is, t, d)) r.push_back(t);
  return r;
}

#ifndef C10_NO_FM
template <typename K, typename V, typename KC>
static std::string runF(const std::vector<std::string> &ops)
{
  FlatMap<K, V> m;
  const FlatMap<K, V> &cview = m;     // every const member is exercised through this view of the same map
  // (operator[] const is excluded: it cannot be instantiated - push_back on a const vector)
  std::ostringstream out;
  bool first = true;
  for (auto &tok : ops) {
    auto f = split(tok, ':');
    std::ostringstream o;
    try {
      if (f[0] == "at") o << "val=" << Codec<V>::dec(m.at(KC::enc(std::stol(f[1]))));
      else if (f[0] == "idx") o << "val=" << Codec<V>::dec(m[KC::enc(std::stol(f[1]))]);
      else if (f[0] == "set") { m[KC::enc(std::stol(f[1]))] = Codec<V>::enc(std::stol(f[2])); o << "ok"; }
      else if (f[0] == "ati") { auto &it = m.at_index((size_t)std::stol(f[1])); o << "item=" << KC::dec(it.first) << "," << Codec<V>::dec(it.second); }
      else if (f[0] == "cat") o << "val=" << Codec<V>::dec(cview.at(KC::enc(std::stol(f[1]))));
      else if (f[0] == "cati") { auto &it = cview.at_index((size_t)std::stol(f[1])); o << "item=" << KC::dec(it.first) << "," << Codec<V>::dec(it.second); }
      else if (f[0] == "size") o << "num=" << cview.size();
      else if (f[0] == "empty") o << (cview.empty() ? "true" : "false");
      else if (f[0] == "has") o << (cview.contains(KC::enc(std::stol(f[1]))) ? "true" : "false");
      else if (f[0] == "erase") { m.erase(KC::enc(std::stol(f[1]))); o << "ok"; }
      else if (f[0] == "clear") { m.clear(); o << "ok"; }
      else if (f[0] == "copy") {
        // implicit copy constructor / assignment: value copies of the vector; no move exists, std::move copies
        auto snap = [](const FlatMap<K, V> &x) { std::ostringstream d; for (auto it = x.begin(); it != x.end(); ++it) d << KC::dec(it->first) << "=" << Codec<V>::dec(it->second) << " "; return d.str(); };
        FlatMap<K, V> c(m);
        std::string before = snap(c);
        m.clear();                                   // mutating the original must not touch the copy
        bool ok = snap(c) == before && m.size() == 0;
        FlatMap<K, V> c2(std::move(c));
        ok = ok && snap(c) == before && snap(c2) == before;
        m = c2;
        c2.clear();
        o << (ok ? "ok" : "!ALIAS");
      }
      else o << "badop";
    } catch (const std::out_of_range &) { o.str(""); o << "throw"; }
    // reserve() must not change anything observable (and may reallocate: nothing below holds an iterator across it)
    m.reserve(m.size() + (size_t)(tok.size() % 3));
    // dump by forward iteration; cross-check with reverse iteration and const access
    o << "|[";
    bool f1 = true;
    for (auto it = m.begin(); it != m.end(); ++it) { o << (f1 ? "" : " ") << KC::dec(it->first) << "=" << Codec<V>::dec(it->second); f1 = false; }
    o << "]";
    {
      const FlatMap<K, V> &cm = m;
      size_t n = 0; for (auto it = cm.cbegin(); it != cm.cend(); ++it) ++n;
      size_t r = 0; std::vector<long> rk; for (auto it = cm.crbegin(); it != cm.crend(); ++it) { ++r; rk.push_back(KC::dec(it->first)); }
      bool okrev = true; size_t i = 0;
      for (auto it = cm.begin(); it != cm.end(); ++it, ++i) if (rk[rk.size() - 1 - i] != KC::dec(it->first)) okrev = false;
      // the remaining spellings: rbegin()/rend() const and non-const, end() const reached from begin() const
      std::vector<long> r2, r3;
      for (auto it = cm.rbegin(); it != cm.rend(); ++it) r2.push_back(KC::dec(it->first));
      for (auto it = m.rbegin(); it != m.rend(); ++it) r3.push_back(KC::dec(it->first));
      if (n != cm.size() || r != n || !okrev || r2 != rk || r3 != rk) o << "!ITER";
    }
    out << (first ? "" : " ; ") << o.str();
    first = false;
  }
  return out.str();
}

#endif  // C10_NO_FM

#ifndef C10_NO_PO
#ifndef C10_PUBLIC_ONLY
struct PO : public utility::ParameterizedObject {
  using ParameterizedObject::findParam;
  using ParameterizedObject::params_begin;
  using ParameterizedObject::params_end;
};
#else
// fallback build (-DC10_PUBLIC_ONLY), used when the build above no longer compiles against the tree (a protected member or
// a Param field was renamed / removed): public interface only - results of every call plus WHICH names are present
// (hasParam over the name alphabet); no order, stored values or query flags in the dump, no `add` operation
typedef utility::ParameterizedObject PO;
#endif
// names 1..4 form a prefix chain ("a", "aa", "aaa", "aaaa": every name is a proper prefix of the later ones, so a
// lookup that compares prefixes instead of whole names is visible); larger numbers give long heap-allocated names
static long nameDec(const std::string &s) { return s[0] == 'a' ? (long)s.size() : std::stol(s.substr(1)); }
static std::string nameEnc(long v) { return v <= 4 ? std::string((size_t)v, 'a') : "n" + std::to_string(v) + std::string(v % 25, 'z'); }
static std::string strEnc(long v) { return "s" + std::to_string(v) + std::string(v % 33, 'w'); }

// ---- setParam argument FORMS whose static type differs from what the Any stores (Model.store_of):
//   4 string literal (const char[N], several N)   5 char array variable (char[8])   6 const char* variable
//   7/8/9 a utility::Any holding int / float / std::string     10 an empty utility::Any
//   11 short   12 enum   (0..3: int, float, std::string, vec3f as before)
// stored-type tags for getParam<T> / the dump: 0 int 1 float 2 std::string 3 vec3f 4 const char* 5 short 6 enum
enum C10Enum : int { C10_E0 = 0, C10_EMAX = 1000 };
static char g_txt[256][8];      // static storage: the pointers stored in the Any stay valid
static void initTxt() { for (int i = 0; i < 256; ++i) snprintf(g_txt[i], sizeof g_txt[i], "%d", i); }
static const long LITS[4] = {7, 41, 305, 4096};

// ParameterizedObject float values: code 90 <-> +0.0f, 91 <-> -0.0f, 92 / 93 the two NaNs, otherwise v + 0.5f
static float pfEnc(long v) { return v == 90 ? floatEnc(0) : (v >= 91 && v <= 93) ? floatEnc(v) : (float)v + 0.5f; }
static long pfDec(const float &f) { long c = floatDec(f); return (c == 0 && f == 0.0f) ? 90 : c; }

static void setLiteral(utility::ParameterizedObject &po, const std::string &n, long v)
{
  switch (v) {                       // real literals of different array types at the call site
  case 7: po.setParam(n, "7"); break;              // const char[2]
  case 41: po.setParam(n, "41"); break;            // const char[3]
  case 305: po.setParam(n, "305"); break;          // const char[4]
  default: po.setParam(n, "4096"); break;          // const char[5]
  }
}

// one operation on one object (result text into o)
static void applyP(PO &po, const std::vector<std::string> &f, std::ostringstream &o)
{
  if (f[0] == "has") o << (po.hasParam(nameEnc(std::stol(f[1]))) ? "true" : "false");
  else if (f[0] == "set") {
    long t = std::stol(f[2]), v = std::stol(f[3]); std::string n = nameEnc(std::stol(f[1]));
    if (t == 0) po.setParam<int>(n, (int)v);
    else if (t == 1) po.setParam<float>(n, pfEnc(v));
    else if (t == 2) po.setParam<std::string>(n, strEnc(v));
    else if (t == 3) po.setParam<vec3f>(n, vec3f((float)v, (float)v + 1, (float)v + 2));
    else if (t == 4) setLiteral(po, n, v);
    else if (t == 5) po.setParam(n, g_txt[v & 255]);                                   // T deduced char[8]
    else if (t == 6) { const char *ptr = g_txt[v & 255]; po.setParam(n, ptr); }          // T = const char*
    else if (t == 7) { utility::Any a = (int)v; po.setParam(n, a); }                     // T = Any
    else if (t == 8) { utility::Any a = pfEnc(v); po.setParam(n, a); }
    else if (t == 9) { utility::Any a = strEnc(v); po.setParam(n, a); }
    else if (t == 10) { utility::Any a; po.setParam(n, a); }
    else if (t == 11) po.setParam(n, (short)v);
    else if (t == 12) po.setParam(n, (C10Enum)v);
    else po.setParam(n, Codec<Shadow>::enc(v));                                         // 13: key-only operator==
    o << "ok";
  } else if (f[0] == "get") {
    long t = std::stol(f[2]), d = std::stol(f[3]); std::string n = nameEnc(std::stol(f[1]));
    if (t == 0) o << "val=" << po.getParam<int>(n, (int)d);
    else if (t == 1) o << "val=" << pfDec(po.getParam<float>(n, pfEnc(d)));
    else if (t == 2) o << "val=" << std::stol(po.getParam<std::string>(n, strEnc(d)).substr(1));
    else if (t == 3) o << "val=" << (long)po.getParam<vec3f>(n, vec3f((float)d, (float)d + 1, (float)d + 2)).x;
    else if (t == 4) o << "val=" << std::strtol(po.getParam<const char *>(n, (const char *)g_txt[d & 255]), nullptr, 10);
    else if (t == 5) o << "val=" << (long)po.getParam<short>(n, (short)d);
    else if (t == 6) o << "val=" << (long)po.getParam<C10Enum>(n, (C10Enum)d);
    else o << "val=" << Codec<Shadow>::dec(po.getParam<Shadow>(n, Codec<Shadow>::enc(d)));
  } else if (f[0] == "rm") { po.removeParam(nameEnc(std::stol(f[1]))); o << "ok"; }
  else if (f[0] == "reset") { po.resetAllParamQueryStatus(); o << "ok"; }
#ifndef C10_PUBLIC_ONLY
  else if (f[0] == "add") { po.findParam(nameEnc(std::stol(f[1])), true); o << "ok"; }
#endif
  else o << "badop";
}

#ifdef C10_PUBLIC_ONLY
static void dumpP(PO &po, std::ostringstream &o)
{
  o << "[";
  bool f1 = true;
  for (long n = 1; n <= 7; ++n)
    if (po.hasParam(nameEnc(n))) { o << (f1 ? "" : " ") << n; f1 = false; }
  o << "]";
}
#else
static void dumpP(PO &po, std::ostringstream &o)
{
  o << "[";
  bool f1 = true;
  for (auto it = po.params_begin(); it != po.params_end(); ++it) {
    auto &p = **it;
    o << (f1 ? "" : " ") << nameDec(p.name) << "=";
    if (!p.data.valid()) o << "none";
    else if (p.data.is<int>()) o << "0:" << p.data.get<int>();
    else if (p.data.is<float>()) o << "1:" << pfDec(p.data.get<float>());
    else if (p.data.is<Shadow>()) o << "7:" << Codec<Shadow>::dec(p.data.get<Shadow>());
    else if (p.data.is<std::string>()) o << "2:" << std::stol(p.data.get<std::string>().substr(1));
    else if (p.data.is<const char *>()) o << "4:" << std::strtol(p.data.get<const char *>(), nullptr, 10);
    else if (p.data.is<short>()) o << "5:" << (long)p.data.get<short>();
    else if (p.data.is<C10Enum>()) o << "6:" << (long)p.data.get<C10Enum>();
    else if (p.data.is<vec3f>()) { auto v = p.data.get<vec3f>(); o << "3:" << (long)v.x; if (v.y != v.x + 1 || v.z != v.x + 2) o << "!VEC"; }
    else o << "?";
    if (p.query) o << "q";
    f1 = false;
  }
  o << "]";
}
#endif

static std::string runP(const std::vector<std::string> &ops)
{
  PO po;
  std::ostringstream out;
  bool first = true;
  for (auto &tok : ops) {
    auto f = split(tok, ':');
    std::ostringstream o;
    try { applyP(po, f, o); } catch (const std::exception &e) { o.str(""); o << "throw"; }
    o << "|";
    dumpP(po, o);
    out << (first ? "" : " ; ") << o.str();
    first = false;
  }
  return out.str();
}

// two objects and copies between them: "a:<op>" / "b:<op>" act on one object, "cab" copies a into b (copy constructor of a
// temporary + copy assignment), "cba" copies b into a through std::move (there is no move: the source must stay intact).
// The implicit copy shares the Param objects (shared_ptr) and copies the list.
static std::string runQ(const std::vector<std::string> &ops)
{
  PO a, b;
  std::ostringstream out;
  bool first = true;
  for (auto &tok : ops) {
    std::ostringstream o;
    try {
      if (tok == "cab") { PO tmp(a); b = tmp; o << "ok"; }
      else if (tok == "cba") {
        std::ostringstream before, after;
        dumpP(b, before);
        PO tmp(std::move(b)); a = std::move(tmp);
        dumpP(b, after);
        o << (before.str() == after.str() ? "ok" : "!MOVE");
      } else {
        auto f = split(tok.substr(2), ':');
        applyP(tok[0] == 'a' ? a : b, f, o);
      }
    } catch (const std::exception &e) { o.str(""); o << "throw"; }
    o << "|";
    dumpP(a, o); o << "#"; dumpP(b, o);
    out << (first ? "" : " ; ") << o.str();
    first = false;
  }
  return out.str();
}

#endif  // C10_NO_PO

int main(int argc, char **argv)
{
  std::string mode = argc > 1 ? argv[1] : "ii";
#ifndef C10_NO_PO
  initTxt();
#endif
#if !defined(C10_NO_FM) && !defined(C10_FM_MIN)
  if (argc > 2 && std::string(argv[2]) == "--table") {
    if (mode == "fd") std::cout << Wide<float, KeyFD>::table() << "\n";
    else if (mode == "hi") std::cout << Wide<short, KeyHI>::table() << "\n";
    else if (mode == "ui") std::cout << Wide<unsigned char, KeyUI>::table() << "\n";
    else if (mode == "sc") std::cout << Wide<std::string, KeySC>::table() << "\n";
    return 0;
  }
  if (argc > 2 && std::string(argv[2]) == "--pool") { std::cout << KeySW::table() << "\n"; return 0; }
#endif
  std::string line;
  while (std::getline(std::cin, line)) {
    std::istringstream is(line);
    std::string kind; is >> kind;
    std::vector<std::string> ops; std::string t;
    while (is >> t) ops.push_back(t);
    if (false) {
    }
#ifndef C10_NO_FM
    else if (kind == "F") {
      if (mode == "ii") std::cout << runF<int, int, KeyI>(ops) << "\n";
#ifndef C10_FM_MIN      // fallback build: FlatMap<int,int> only, when another instantiation no longer compiles
      else if (mode == "ss") std::cout << runF<std::string, std::string, KeyS>(ops) << "\n";
      else if (mode == "iw") std::cout << runF<int, int, KeyIW>(ops) << "\n";
      else if (mode == "sw") std::cout << runF<std::string, int, KeySW>(ops) << "\n";
      else if (mode == "if") std::cout << runF<int, float, KeyI>(ops) << "\n";
      else if (mode == "ih") std::cout << runF<int, Shadow, KeyI>(ops) << "\n";
      else std::cout << runF<std::string, std::vector<int>, KeyS>(ops) << "\n";
#else
      else std::cout << "\n";
#endif
    }
#ifndef C10_FM_MIN
    else if (kind == "C") {          // "C <table> ops": the first token is the conversion table (for the model)
      if (!ops.empty()) ops.erase(ops.begin());
      if (mode == "fd") std::cout << runF<float, int, Wide<float, KeyFD>>(ops) << "\n";
      else if (mode == "hi") std::cout << runF<short, int, Wide<short, KeyHI>>(ops) << "\n";
      else if (mode == "ui") std::cout << runF<unsigned char, int, Wide<unsigned char, KeyUI>>(ops) << "\n";
      else if (mode == "sc") std::cout << runF<std::string, int, Wide<std::string, KeySC>>(ops) << "\n";
      else std::cout << "\n";
    }
#endif
#endif
#ifndef C10_NO_PO
    else if (kind == "P") std::cout << runP(ops) << "\n";
    else if (kind == "Q") std::cout << runQ(ops) << "\n";
#endif
    else std::cout << "\n";
  }
  return 0;
}
