// C15 harness: runs typed value sequences, raw reader ops, fixed-writer ops and raw
// writer ops on the real rkcommon/networking/DataStreaming code.
// Input / output: see ocaml/C15/driver.ml (identical canonical form).
//   T <ty> <value tokens> <ty> <value tokens> ...      typed sequence
//   R <bufhex> <op>...        ops: rd:<size>:<m>  vw:<count>  end
//   F <cap> <op>...           ops: w:<hex>  wn:<size>  rs:<size>  rf:<hex>
//   W <op>...                 ops: w:<hex>  wn:<size>
#include <unistd.h>
#include <cstdint>
#include <cstring>
#include <functional>
#include <iostream>
#include <map>
#include <memory>
#include <sstream>
#include <stdexcept>
#include <string>
#include <vector>
#include "rkcommon/math/vec.h"
#include "rkcommon/networking/DataStreaming.h"

using namespace rkcommon;
using namespace rkcommon::networking;
using namespace rkcommon::utility;

static const uint8_t BG = 0xEE;

struct TS
{
  std::vector<std::string> t;
  size_t i = 0;
  bool more() const { return i < t.size(); }
  std::string next()
  {
    if (i >= t.size()) throw std::logic_error("harness: missing token");
    return t[i++];
  }
};

static std::string hex(const void *p, size_t n)
{
  if (n == 0) return "-";
  static const char *d = "0123456789abcdef";
  std::string s;
  s.reserve(2 * n);
  const uint8_t *b = (const uint8_t *)p;
  for (size_t k = 0; k < n; ++k) { s.push_back(d[b[k] >> 4]); s.push_back(d[b[k] & 15]); }
  return s;
}
static int hv(char c) { return c <= '9' ? c - '0' : c - 'a' + 10; }
static std::vector<uint8_t> unhex(const std::string &h)
{
  std::vector<uint8_t> r;
  if (h == "-") return r;
  for (size_t k = 0; k + 1 < h.size(); k += 2) r.push_back((uint8_t)(hv(h[k]) * 16 + hv(h[k + 1])));
  return r;
}

// structs without padding (the value of a struct is all of its bytes)
struct P3 { uint8_t a, b, c; };
struct P12 { uint32_t a; uint8_t b[4]; float c; };
struct P24 { double d; uint64_t q; uint16_t h[4]; };
static_assert(sizeof(P3) == 3 && sizeof(P12) == 12 && sizeof(P24) == 24 && sizeof(math::vec3f) == 12, "layout");

// ---- codecs: parse a value of static type T in place from tokens, show it in the same syntax
template <typename T>
struct C
{
  static void parse(TS &ts, T &v)
  {
    auto b = unhex(ts.next());
    if (b.size() != sizeof(T)) throw std::logic_error("harness: raw size");
    std::memcpy((void *)&v, b.data(), sizeof(T));
  }
  static void show(const T &v, std::ostream &o) { o << hex(&v, sizeof(T)); }
};
template <>
struct C<std::string>
{
  static void parse(TS &ts, std::string &v) { auto b = unhex(ts.next()); v.assign(b.begin(), b.end()); }
  static void show(const std::string &v, std::ostream &o) { o << hex(v.data(), v.size()); }
};
template <typename T>
struct C<std::vector<T>>
{
  static void parse(TS &ts, std::vector<T> &v)
  {
    size_t n = std::stoull(ts.next());
    v.resize(n);
    for (size_t k = 0; k < n; ++k) C<T>::parse(ts, v[k]);
  }
  static void show(const std::vector<T> &v, std::ostream &o)
  {
    o << v.size();
    for (auto &x : v) { o << " "; C<T>::show(x, o); }
  }
};

// ---- stale destinations: what a destination object holds BEFORE a value is read into it.
// mode 0: the written value itself (equal size)   mode 1: larger (extra stale elements / characters)
// mode 2: smaller but never empty.  PODs get stale bytes.  Nested elements are made stale too.
template <typename T>
struct Stale
{
  static void fill(T &d, const T &, int mode) { std::memset((void *)&d, 0xA5 ^ mode, sizeof(T)); }
};
template <>
struct Stale<std::string>
{
  static void fill(std::string &d, const std::string &v, int mode)
  {
    if (mode == 0) d = v;
    else if (mode == 1) d = v + "STALE";
    else { d = v.substr(0, v.size() / 2); if (d.empty()) d = "s"; }
  }
};
template <typename T>
struct Stale<std::vector<T>>
{
  static void fill(std::vector<T> &d, const std::vector<T> &v, int mode)
  {
    d = v;
    if (mode == 2) d.resize(v.size() / 2);
    for (size_t i = 0; i < d.size(); ++i) Stale<T>::fill(d[i], v[i], mode);
    if (mode == 1 || d.empty()) {
      for (int k = 0; k < (mode == 1 ? 2 : 1); ++k) {
        T e = T();
        Stale<T>::fill(e, v.empty() ? T() : v[0], 1);
        d.push_back(e);
      }
    }
  }
};

struct Item
{
  std::string ty;
  virtual ~Item() {}
  virtual void put(WriteStream &w) = 0;
  virtual void getShow(BufferReader &r, std::ostream &o, int variant) = 0;
  // reading into a destination that already holds something (pre-filled or reused)
  virtual void prefill(int mode) = 0;
  virtual void getInto(BufferReader &r, std::ostream &o) = 0;
  virtual void showValue(std::ostream &o) = 0;   // the value that was written
  // the same value as the FIRST operand of a chain on each stream class through that class's OWN static
  // type (put() above goes through the WriteStream& base), and read through the ReadStream& base
  // (getShow() above goes through BufferReader's own type): overload resolution may differ
  virtual void putOwn(WriteSizeCalculator &s) = 0;
  virtual void putOwn(BufferWriter &s) = 0;
  virtual void putOwn(FixedBufferWriter &s) = 0;
  virtual void getBase(ReadStream &r, std::ostream &o) = 0;
};

template <typename T>
struct VItem : Item
{
  T v;
  T dst;
  VItem(TS &ts) : dst() { C<T>::parse(ts, v); }
  void put(WriteStream &w) override { w << v; }
  void getShow(BufferReader &r, std::ostream &o, int) override
  {
    T x;
    r >> x;
    C<T>::show(x, o);
  }
  void prefill(int mode) override { Stale<T>::fill(dst, v, mode); }
  void getInto(BufferReader &r, std::ostream &o) override
  {
    r >> dst;
    C<T>::show(dst, o);
  }
  void showValue(std::ostream &o) override { C<T>::show(v, o); }
  void putOwn(WriteSizeCalculator &s) override { s << v; }
  void putOwn(BufferWriter &s) override { s << v; }
  void putOwn(FixedBufferWriter &s) override { s << v; }
  void getBase(ReadStream &r, std::ostream &o) override
  {
    T x = T();
    r >> x;
    C<T>::show(x, o);
  }
};

// const char* overload on the writing side, std::string on the reading side
struct CSItem : Item
{
  std::string v;
  std::string dst;
  CSItem(TS &ts) { C<std::string>::parse(ts, v); }
  void put(WriteStream &w) override { const char *p = v.c_str(); w << p; }
  void getShow(BufferReader &r, std::ostream &o, int) override
  {
    std::string x;
    r >> x;
    C<std::string>::show(x, o);
  }
  void prefill(int mode) override { Stale<std::string>::fill(dst, v, mode); }
  void getInto(BufferReader &r, std::ostream &o) override
  {
    r >> dst;
    C<std::string>::show(dst, o);
  }
  void showValue(std::ostream &o) override { C<std::string>::show(v, o); }
  void putOwn(WriteSizeCalculator &s) override { const char *p = v.c_str(); s << p; }
  void putOwn(BufferWriter &s) override { const char *p = v.c_str(); s << p; }
  void putOwn(FixedBufferWriter &s) override { const char *p = v.c_str(); s << p; }
  void getBase(ReadStream &r, std::ostream &o) override
  {
    std::string x;
    r >> x;
    C<std::string>::show(x, o);
  }
};

// ---- element types that have their OWN operator<< overload, as vector elements: the vector writer must go
// through the per-element overload (const char* -> length + characters, bool -> one byte, array wrapper ->
// count + elements).  Written through one type, read back through the corresponding OWNING type RT.
#define C15_OWNING_ITEM_COMMON(RT)                                                              \
  RT v, dst;                                                                                    \
  void put(WriteStream &w) override { emitT(w); }                                               \
  void putOwn(WriteSizeCalculator &s) override { emitT(s); }                                    \
  void putOwn(BufferWriter &s) override { emitT(s); }                                           \
  void putOwn(FixedBufferWriter &s) override { emitT(s); }                                      \
  void getShow(BufferReader &r, std::ostream &o, int) override { RT x; r >> x; C<RT>::show(x, o); } \
  void prefill(int mode) override { Stale<RT>::fill(dst, v, mode); }                            \
  void getInto(BufferReader &r, std::ostream &o) override { r >> dst; C<RT>::show(dst, o); }    \
  void showValue(std::ostream &o) override { C<RT>::show(v, o); }                               \
  void getBase(ReadStream &r, std::ostream &o) override { RT x; r >> x; C<RT>::show(x, o); }

struct VCSItem : Item   // std::vector<const char *>, read back as std::vector<std::string>
{
  C15_OWNING_ITEM_COMMON(std::vector<std::string>)
  VCSItem(TS &ts) { C<std::vector<std::string>>::parse(ts, v); }
  template <typename S>
  void emitT(S &s)
  {
    std::vector<const char *> p;
    for (auto &x : v) p.push_back(x.c_str());
    s << p;
  }
};
struct VVCSItem : Item  // std::vector<std::vector<const char *>>
{
  C15_OWNING_ITEM_COMMON(std::vector<std::vector<std::string>>)
  VVCSItem(TS &ts) { C<std::vector<std::vector<std::string>>>::parse(ts, v); }
  template <typename S>
  void emitT(S &s)
  {
    std::vector<std::vector<const char *>> p(v.size());
    for (size_t i = 0; i < v.size(); ++i)
      for (auto &x : v[i]) p[i].push_back(x.c_str());
    s << p;
  }
};
struct VBItem : Item    // std::vector<bool> (there is no operator>> that compiles for it), read back as vector<uint8_t>
{
  C15_OWNING_ITEM_COMMON(std::vector<uint8_t>)
  VBItem(TS &ts) { C<std::vector<uint8_t>>::parse(ts, v); }
  template <typename S>
  void emitT(S &s)
  {
    std::vector<bool> b;
    for (auto x : v) b.push_back(x != 0);
    s << b;
  }
};
template <typename E>
struct VAItem : Item    // std::vector<OwnedArray<E>>: count, then each array as count + elements
{
  std::vector<std::vector<E>> data;
  std::vector<std::vector<uint8_t>> dst;
  VAItem(TS &ts)
  {
    size_t n = std::stoull(ts.next());
    data.resize(n);
    for (size_t k = 0; k < n; ++k) {
      size_t c = std::stoull(ts.next());
      auto b = unhex(ts.next());
      if (b.size() != c * sizeof(E)) throw std::logic_error("harness: array size");
      data[k].resize(c);
      if (c) std::memcpy((void *)data[k].data(), b.data(), b.size());
    }
  }
  template <typename S>
  void emitT(S &s)
  {
    std::vector<OwnedArray<E>> arrs;
    for (auto &d : data) arrs.emplace_back(d);
    s << arrs;
  }
  void put(WriteStream &w) override { emitT(w); }
  void putOwn(WriteSizeCalculator &s) override { emitT(s); }
  void putOwn(BufferWriter &s) override { emitT(s); }
  void putOwn(FixedBufferWriter &s) override { emitT(s); }
  void readShow(ReadStream &r, std::ostream &o)
  {
    size_t n;
    r >> n;
    if (n > (size_t(1) << 20)) throw std::runtime_error("harness: count longer than any stream");
    o << n;
    dst.assign(n, std::vector<uint8_t>());
    for (size_t k = 0; k < n; ++k) {
      size_t c;
      r >> c;
      size_t bytes = c * sizeof(E);
      if (bytes > (size_t(1) << 26)) throw std::runtime_error("harness: array longer than any stream");
      dst[k].resize(bytes + 1);
      r.read(dst[k].data(), bytes);
      o << " " << c << " " << hex(dst[k].data(), bytes);
    }
  }
  void getShow(BufferReader &r, std::ostream &o, int) override { readShow(r, o); }
  void prefill(int mode) override { dst.assign(mode + 1, std::vector<uint8_t>(3, 0xA5)); }
  void getInto(BufferReader &r, std::ostream &o) override { readShow(r, o); }
  void getBase(ReadStream &r, std::ostream &o) override { readShow(r, o); }
  void showValue(std::ostream &o) override
  {
    o << data.size();
    for (auto &d : data) o << " " << d.size() << " " << hex(d.data(), d.size() * sizeof(E));
  }
};

// array wrappers: W = 0 OwnedArray, 1 FixedArray, 2 ArrayView, 3 FixedArrayView
template <typename E, int W>
struct AItem : Item
{
  std::vector<E> data;
  bool derived;
  AItem(TS &ts, bool d) : derived(d)
  {
    size_t n = std::stoull(ts.next());
    auto b = unhex(ts.next());
    if (b.size() != n * sizeof(E)) throw std::logic_error("harness: array size");
    data.resize(n);
    if (n) std::memcpy((void *)data.data(), b.data(), b.size());
  }
  template <typename S, typename A>
  void emit(S &w, const A &a)
  {
    if (derived) w << a;                                   // static type = the wrapper type
    else { const AbstractArray<E> &base = a; w << base; }  // static type = AbstractArray<E>
  }
  void put(WriteStream &w) override { putT(w); }
  void putOwn(WriteSizeCalculator &s) override { putT(s); }
  void putOwn(BufferWriter &s) override { putT(s); }
  void putOwn(FixedBufferWriter &s) override { putT(s); }
  void getBase(ReadStream &r, std::ostream &o) override
  {
    size_t n;
    r >> n;
    size_t bytes = n * sizeof(E);
    if (bytes > (size_t(1) << 26)) throw std::runtime_error("harness: array longer than any stream");
    std::vector<uint8_t> d(bytes + 1);
    r.read(d.data(), bytes);
    o << n << " " << hex(d.data(), bytes);
  }
  template <typename S>
  void putT(S &w)
  {
    if (W == 0) { OwnedArray<E> a(data); emit(w, a); }
    else if (W == 1) { FixedArray<E> a(data); emit(w, a); }
    else if (W == 2) { ArrayView<E> a(data); emit(w, a); }
    else {
      // view of the middle of a larger FixedArray
      std::vector<E> padded(data.size() + 2);
      std::memset((void *)padded.data(), 0x5a, padded.size() * sizeof(E));
      if (!data.empty()) std::memcpy((void *)(padded.data() + 1), data.data(), data.size() * sizeof(E));
      auto fa = std::make_shared<FixedArray<E>>(padded);
      FixedArrayView<E> a(fa, 1, data.size());
      emit(w, a);
    }
  }
  // there is no operator>> for arrays: read the count, then the bytes by view or by read()
  void getShow(BufferReader &r, std::ostream &o, int variant) override
  {
    size_t n;
    r >> n;
    size_t bytes = n * sizeof(E);
    if ((variant + W) % 2 == 0) {
      auto v = r.getView<uint8_t>(bytes);
      o << n << " " << hex(v->data(), v->size());
    } else {
      size_t room = r.buffer->size();
      std::unique_ptr<uint8_t[]> dst(new uint8_t[bytes <= room ? bytes : 0]);  // exact: ASan sees an overrun
      r.read(dst.get(), bytes);
      o << n << " " << hex(dst.get(), bytes);
    }
  }
  // destination = an OwnedArray that already holds stale bytes; the reading idiom is
  // count, resize to the byte size, read() into it
  OwnedArray<uint8_t> dstArr;
  void prefill(int mode) override
  {
    size_t bytes = data.size() * sizeof(E);
    size_t n = mode == 0 ? bytes : mode == 1 ? bytes + 5 : bytes / 2 + 1;
    dstArr.resize(0, 0);
    dstArr.resize(n, (uint8_t)(0xA5 ^ mode));
  }
  void getInto(BufferReader &r, std::ostream &o) override
  {
    size_t n;
    r >> n;
    size_t bytes = n * sizeof(E);
    if (bytes > r.buffer->size()) throw std::runtime_error("harness: array longer than the stream");
    dstArr.resize(bytes, 0);
    r.read(dstArr.data(), bytes);
    o << n << " " << hex(dstArr.data(), dstArr.size());
  }
  void showValue(std::ostream &o) override { o << data.size() << " " << hex(data.data(), data.size() * sizeof(E)); }
};

typedef std::function<Item *(TS &)> Maker;
static std::map<std::string, Maker> &registry()
{
  static std::map<std::string, Maker> m;
  return m;
}
template <typename T>
static void reg(const std::string &ty)
{
  registry()[ty] = [](TS &ts) -> Item * { return new VItem<T>(ts); };
}
template <typename E>
static void regArr(const std::string &e)
{
  static const char *wn[4] = {"own", "fix", "view", "fview"};
  for (int d = 0; d < 2; ++d) {
    std::string suf = std::string(":") + e + (d ? ":d" : ":b");
    bool dd = d != 0;
    registry()[std::string("a:") + wn[0] + suf] = [dd](TS &ts) -> Item * { return new AItem<E, 0>(ts, dd); };
    registry()[std::string("a:") + wn[1] + suf] = [dd](TS &ts) -> Item * { return new AItem<E, 1>(ts, dd); };
    registry()[std::string("a:") + wn[2] + suf] = [dd](TS &ts) -> Item * { return new AItem<E, 2>(ts, dd); };
    registry()[std::string("a:") + wn[3] + suf] = [dd](TS &ts) -> Item * { return new AItem<E, 3>(ts, dd); };
  }
}
template <typename T>
static void regAll(const std::string &ty)  // T, vector<T>, vector<vector<T>>
{
  reg<T>(ty);
  reg<std::vector<T>>("v:" + ty);
  reg<std::vector<std::vector<T>>>("v:v:" + ty);
}
static void initRegistry()
{
  regAll<uint8_t>("u8");
  regAll<uint32_t>("u32");
  regAll<uint64_t>("u64");
  regAll<float>("f32");
  regAll<double>("f64");
  regAll<P3>("p3");
  regAll<P12>("p12");
  regAll<P24>("p24");
  regAll<math::vec3f>("v3f");
  regAll<std::string>("s");
  reg<std::vector<std::vector<std::vector<uint8_t>>>>("v:v:v:u8");
  reg<std::vector<std::vector<std::vector<std::string>>>>("v:v:v:s");
  registry()["cs"] = [](TS &ts) -> Item * { return new CSItem(ts); };
  reg<bool>("b");
  registry()["v:b"] = [](TS &ts) -> Item * { return new VBItem(ts); };
  registry()["v:cs"] = [](TS &ts) -> Item * { return new VCSItem(ts); };
  registry()["v:v:cs"] = [](TS &ts) -> Item * { return new VVCSItem(ts); };
  registry()["v:a:own:u8:d"] = [](TS &ts) -> Item * { return new VAItem<uint8_t>(ts); };
  registry()["v:a:own:u32:d"] = [](TS &ts) -> Item * { return new VAItem<uint32_t>(ts); };
  regArr<uint8_t>("u8");
  regArr<uint32_t>("u32");
  regArr<float>("f32");
  regArr<uint64_t>("u64");
  regArr<P3>("p3");
  regArr<P12>("p12");
}

static std::string runT(TS &ts)
{
  std::vector<std::unique_ptr<Item>> items;
  while (ts.more()) {
    std::string ty = ts.next();
    auto it = registry().find(ty);
    if (it == registry().end()) return "badtype:" + ty;
    items.emplace_back(it->second(ts));
    items.back()->ty = ty;
  }
  std::ostringstream out;
  std::string reuse, statics, copies, moved;
  // ---- encode with the real BufferWriter, size with the real WriteSizeCalculator
  BufferWriter bw;
  try {
    for (auto &it : items) it->put(bw);
  } catch (const std::exception &) {
    return "enc=throw";
  }
  std::vector<uint8_t> enc(bw.buffer->begin(), bw.buffer->end());
  out << "enc=" << hex(enc.data(), enc.size());
  {
    WriteSizeCalculator wc;
    for (auto &it : items) it->put(wc);
    out << " calc=" << wc.writtenSize;
  }
  if (std::getenv("C15_ENCODE_ONLY")) return out.str();   // used to show what was WRITTEN for a case whose read-back kills the harness
  // ---- decode from the writer's own buffer; end() before and after every value
  {
    std::shared_ptr<AbstractArray<uint8_t>> buf = bw.buffer;
    BufferReader r(buf);
    std::string ends;
    std::ostringstream dec;
    ends.push_back(r.end() ? '1' : '0');
    size_t k = 0;
    try {
      for (; k < items.size(); ++k) {
        std::ostringstream one;
        items[k]->getShow(r, one, (int)k);
        dec << (k ? " " : "") << items[k]->ty << " " << one.str();
        ends.push_back(r.end() ? '1' : '0');
      }
      out << " dec=" << (items.empty() ? "-" : dec.str());
    } catch (const std::exception &) {
      out << " dec=throw@" << k;
    }
    out << " end=" << ends << " cur=" << r.cursor;
  }
#ifndef C15_CORE_ONLY
  // ---- the same stream decoded into PRE-FILLED destinations (stale content of equal / larger / smaller
  // size, nested elements stale too) and then once more into the SAME destination objects (reuse):
  // every destination must equal the written value exactly, the stream must be consumed exactly
  {
    std::string res;
    std::shared_ptr<AbstractArray<uint8_t>> buf = bw.buffer;
    for (int mode = 0; mode < 3 && res.empty(); ++mode) {
      for (auto &it : items) it->prefill(mode);
      for (int pass = 0; pass < 2 && res.empty(); ++pass) {
        BufferReader r(buf);
        size_t k = 0;
        try {
          for (; k < items.size() && res.empty(); ++k) {
            std::ostringstream got, want;
            items[k]->getInto(r, got);
            items[k]->showValue(want);
            if (got.str() != want.str()) {
              std::string g = got.str();
              for (auto &c : g) if (c == ' ') c = ',';
              res = "stale" + std::to_string(mode) + "/pass" + std::to_string(pass) + "/item" + std::to_string(k) + ":" + g;
            }
          }
          if (res.empty() && !r.end()) res = "stale" + std::to_string(mode) + "/pass" + std::to_string(pass) + "/notAtEnd";
        } catch (const std::exception &) {
          res = "stale" + std::to_string(mode) + "/pass" + std::to_string(pass) + "/throw@" + std::to_string(k);
        }
      }
    }
    reuse = res.empty() ? "ok" : res;
  }
#else
  reuse = "skip";
#endif
#ifndef C15_CORE_ONLY
  // ---- every stream class through its OWN static type (each item as the first operand of a chain) and
  // the reader through the ReadStream& base: same bytes, same prediction, same values
  {
    std::string res;
    try {
      std::vector<size_t> wrote;
      {
        BufferWriter b2;
        size_t prev = 0;
        for (auto &it : items) { it->put(b2); wrote.push_back(b2.buffer->size() - prev); prev = b2.buffer->size(); }
      }
      WriteSizeCalculator total;
      for (size_t k = 0; k < items.size() && res.empty(); ++k) {
        WriteSizeCalculator one;
        items[k]->putOwn(one);
        if (one.writtenSize != wrote[k])
          res = "calcOwn/item" + std::to_string(k) + ":predicted" + std::to_string(one.writtenSize) + "/written" + std::to_string(wrote[k]);
        items[k]->putOwn(total);
      }
      if (res.empty() && total.writtenSize != enc.size())
        res = "calcOwnTotal:predicted" + std::to_string(total.writtenSize) + "/written" + std::to_string(enc.size());
      if (res.empty()) {
        BufferWriter bo;
        for (auto &it : items) it->putOwn(bo);
        if (bo.buffer->size() != enc.size() || (!enc.empty() && std::memcmp(bo.buffer->begin(), enc.data(), enc.size()) != 0))
          res = "writerOwn:" + hex(bo.buffer->begin(), bo.buffer->size());
      }
      if (res.empty()) {
        FixedBufferWriter fo(enc.size());
        for (auto &it : items) it->putOwn(fo);
        auto v = fo.getWrittenView();
        if (v->size() != enc.size() || (!enc.empty() && std::memcmp(v->begin(), enc.data(), enc.size()) != 0))
          res = "fixedOwn:" + hex(v->begin(), v->size());
      }
      if (res.empty()) {
        std::shared_ptr<AbstractArray<uint8_t>> buf = bw.buffer;
        BufferReader r(buf);
        ReadStream &rs = r;
        for (size_t k = 0; k < items.size() && res.empty(); ++k) {
          std::ostringstream got, want;
          items[k]->getBase(rs, got);
          items[k]->showValue(want);
          if (got.str() != want.str()) {
            std::string g = got.str();
            for (auto &c : g) if (c == ' ') c = ',';
            res = "readBase/item" + std::to_string(k) + ":" + g;
          }
        }
        if (res.empty() && !r.end()) res = "readBase/notAtEnd";
      }
    } catch (const std::exception &) {
      res = "throw";
    }
    statics = res.empty() ? "ok" : res;
  }
#else
  statics = "skip";
#endif
#ifndef C15_CORE_ONLY
  // ---- implicitly-declared special members and flush(): copies / moves / assignments of each stream class.
  // A copy of a writer SHARES the buffer object (shared_ptr member); a copy of a reader shares the buffer and
  // continues from the same cursor, independently; WriteSizeCalculator copies count independently.
  {
    std::string res;
    auto differs = [&](const uint8_t *p, size_t n) { return n != enc.size() || (n && std::memcmp(p, enc.data(), n) != 0); };
    try {
      {
        BufferWriter a;
        for (auto &it : items) it->put(a);
        BufferWriter b(a);
        if (b.buffer != a.buffer) res = "BufferWriter(copy):notShared";
        a.flush();
        WriteStream &ws = a;
        ws.flush();
        uint8_t z = 0x5a;
        b.write(&z, 1);
        if (res.empty() && (a.buffer->size() != enc.size() + 1 || a.buffer->begin()[enc.size()] != 0x5a || differs(a.buffer->begin(), enc.size())))
          res = "BufferWriter(copy):writeNotVisible";
        BufferWriter c;
        c = a;
        BufferWriter m(std::move(c));
        BufferWriter m2;
        m2 = std::move(m);
        if (res.empty() && m2.buffer != a.buffer) res = "BufferWriter(assign/move):notShared";
      }
      {
        WriteSizeCalculator a;
        for (auto &it : items) it->put(a);
        WriteSizeCalculator b(a);
        b.write(nullptr, 3);
        b.flush();
        WriteSizeCalculator c;
        c = b;
        WriteSizeCalculator m(std::move(c));
        WriteSizeCalculator m2;
        m2 = std::move(m);
        if (res.empty() && (a.writtenSize != enc.size() || b.writtenSize != enc.size() + 3 || m2.writtenSize != enc.size() + 3))
          res = "WriteSizeCalculator(copy):" + std::to_string(a.writtenSize) + "/" + std::to_string(m2.writtenSize);
      }
      {
        FixedBufferWriter a(enc.size() + 2);
        std::memset(a.buffer->begin(), BG, enc.size() + 2);
        for (auto &it : items) it->put(a);
        FixedBufferWriter b(a);
        if (res.empty() && (b.cursor != a.cursor || b.buffer != a.buffer || b.available() != a.available() || b.capacity() != a.capacity()))
          res = "FixedBufferWriter(copy):state";
        uint8_t z = 0x5a;
        b.write(&z, 1);
        a.flush();
        auto v = b.getWrittenView();
        if (res.empty() && (a.cursor != enc.size() || b.cursor != enc.size() + 1 || v->size() != enc.size() + 1 ||
                            v->begin()[enc.size()] != 0x5a || differs(v->begin(), enc.size()) || a.available() != 2 || b.available() != 1))
          res = "FixedBufferWriter(copy):write";
        FixedBufferWriter c;          // default-constructed: only assigned to / destroyed
        c = a;
        FixedBufferWriter m(std::move(c));
        FixedBufferWriter m2;
        m2 = std::move(m);
        if (res.empty() && (m2.cursor != enc.size() || m2.buffer != a.buffer || m2.capacity() != enc.size() + 2)) res = "FixedBufferWriter(assign/move):state";
      }
      {
        std::shared_ptr<AbstractArray<uint8_t>> buf = bw.buffer;
        BufferReader r(buf);
        std::ostringstream sink;
        if (!items.empty()) items[0]->getShow(r, sink, 0);
        size_t c0 = r.cursor;
        BufferReader r2(r);
        if (res.empty() && (r2.cursor != c0 || r2.buffer != r.buffer)) res = "BufferReader(copy):state";
        for (size_t k = 1; k < items.size() && res.empty(); ++k) {
          std::ostringstream got, want;
          items[k]->getShow(r2, got, (int)k);
          items[k]->showValue(want);
          if (got.str() != want.str()) res = "BufferReader(copy):item" + std::to_string(k);
        }
        BufferReader r3(std::move(r2));
        if (res.empty() && (r.cursor != c0 || !r3.end() || (items.size() > 1) == r.end())) res = "BufferReader(copy):independence";
      }
    } catch (const std::exception &) {
      res = "throw";
    }
    copies = res.empty() ? "ok" : res;
  }
#else
  copies = "skip";
#endif
#ifndef C15_CORE_ONLY
  // ---- array wrappers that were moved from / reset / self-assigned / copied, then serialised:
  // a moved-from or reset OwnedArray is EMPTY (count 0, no payload); self-assignment and copies change nothing
  {
    std::string res;
    try {
      std::vector<uint8_t> D(enc.begin(), enc.begin() + std::min<size_t>(enc.size(), 9));
      auto ser = [](const AbstractArray<uint8_t> &a) { BufferWriter w; w << a; return hex(w.buffer->begin(), w.buffer->size()); };
      std::vector<uint8_t> cnt(8, 0);
      cnt[0] = (uint8_t)D.size();
      std::string full = hex(cnt.data(), 8), empty = "0000000000000000";
      if (!D.empty()) full += hex(D.data(), D.size());
      {
        OwnedArray<uint8_t> a(D);
        OwnedArray<uint8_t> b(std::move(a));
        if (ser(a) != empty || a.size() != 0) res = "OwnedArray(moved-from):" + ser(a);
        else if (ser(b) != full) res = "OwnedArray(move-constructed):" + ser(b);
        OwnedArray<uint8_t> c;
        c = std::move(b);
        if (res.empty() && (ser(b) != empty || ser(c) != full)) res = "OwnedArray(move-assigned):" + ser(b) + "/" + ser(c);
        OwnedArray<uint8_t> &cr = c;
        c = cr;
        c = std::move(cr);
        if (res.empty() && ser(c) != full) res = "OwnedArray(self-assigned):" + ser(c);
        OwnedArray<uint8_t> d(c);
        c.reset();
        if (res.empty() && (ser(c) != empty || ser(d) != full)) res = "OwnedArray(reset/copy):" + ser(c) + "/" + ser(d);
        WriteSizeCalculator wc;
        wc << a;
        if (res.empty() && wc.writtenSize != 8) res = "OwnedArray(moved-from):calc" + std::to_string(wc.writtenSize);
      }
      {
        FixedArray<uint8_t> a(D);
        FixedArray<uint8_t> b(a);
        FixedArray<uint8_t> &ar = a;
        a = ar;
        if (res.empty() && (ser(a) != full || ser(b) != full)) res = "FixedArray(copy/self-assigned):" + ser(a);
        ArrayView<uint8_t> v(D);
        ArrayView<uint8_t> v2(v);
        ArrayView<uint8_t> &vr = v;
        v = vr;
        if (res.empty() && (ser(v) != full || ser(v2) != full)) res = "ArrayView(copy/self-assigned):" + ser(v);
        auto fa = std::make_shared<FixedArray<uint8_t>>(D);
        FixedArrayView<uint8_t> fv(fa, 0, D.size());
        FixedArrayView<uint8_t> fv2(fv);
        FixedArrayView<uint8_t> &fr = fv;
        fv = fr;
        if (res.empty() && (ser(fv) != full || ser(fv2) != full)) res = "FixedArrayView(copy/self-assigned):" + ser(fv);
      }
    } catch (const std::exception &) {
      res = "throw";
    }
    moved = res.empty() ? "ok" : res;
  }
#else
  moved = "skip";
#endif
  // ---- every truncation point: exact-size heap copy of the first t bytes, reading must throw
  {
    std::string res;
    for (size_t t = 0; t < enc.size() && res.empty(); ++t) {
      auto tb = std::make_shared<FixedArray<uint8_t>>(enc.data(), t);
      std::shared_ptr<AbstractArray<uint8_t>> ab = tb;
      BufferReader r(ab);
      std::ostringstream sink;
      try {
        for (size_t k = 0; k < items.size(); ++k) items[k]->getShow(r, sink, (int)(k + t));
        res = "noThrow@" + std::to_string(t);
      } catch (const std::exception &) {
      }
    }
    out << " trunc=" << (res.empty() ? "ok:" + std::to_string(enc.size()) : res);
  }
  // ---- the same sequence into FixedBufferWriters of capacity len-1, len, len+1
  out << " fix=";
  for (int d = -1; d <= 1; ++d) {
    if (d > -1) out << ",";
    if (d < 0 && enc.empty()) { out << "-"; continue; }
    size_t cap = enc.size() + d;
    FixedBufferWriter fw(cap);
    if (cap) std::memset(fw.buffer->begin(), BG, cap);
    try {
      for (auto &it : items) it->put(fw);
      auto v = fw.getWrittenView();
      bool same = v->size() == enc.size() && fw.cursor <= cap &&
                  (enc.empty() || std::memcmp(v->begin(), enc.data(), enc.size()) == 0);
      out << "K:" << fw.cursor << ":" << fw.available() << ":" << (same ? "same" : "diff");
    } catch (const std::exception &) {
      out << "T";
    }
    if (fw.capacity() != cap) out << "!cap";
  }
  out << " re=" << reuse << " st=" << statics << " cp=" << copies << " mv=" << moved;
  return out.str();
}

static std::vector<std::string> split(const std::string &s, char d)
{
  std::vector<std::string> r;
  std::string t;
  std::istringstream is(s);
  while (std::getline(is, t, d)) r.push_back(t);
  return r;
}

static std::string runR(TS &ts)
{
  auto data = unhex(ts.next());
  auto fa = std::make_shared<FixedArray<uint8_t>>(data.data(), data.size());
  std::shared_ptr<AbstractArray<uint8_t>> buf = fa;
  BufferReader r(buf);
  std::ostringstream out;
  bool first = true;
  while (ts.more()) {
    auto f = split(ts.next(), ':');
    std::ostringstream o;
    try {
      if (f[0] == "rd") {
        size_t size = std::stoull(f[1]);
        bool m = f[2] == "1" && size <= (1u << 20);
        std::unique_ptr<uint8_t[]> dst(new uint8_t[m ? size : 0]);
        r.read(m ? dst.get() : nullptr, size);
        o << "ok:" << (m ? hex(dst.get(), size) : "-");
      } else if (f[0] == "vw") {
        size_t count = std::stoull(f[1]);
        size_t before = r.cursor;
        auto v = r.getView<uint8_t>(count);
        if (v->size() == 0) o << "view:-:0:-";
        else {
          size_t off = (size_t)(v->data() - buf->begin());
          bool inb = off == before && off <= data.size() && v->size() <= data.size() - off;
          o << "view:" << off << ":" << v->size() << ":" << (inb ? hex(v->data(), v->size()) : "OOB");
        }
      } else if (f[0] == "end") o << "end=" << (r.end() ? 1 : 0);
      else o << "badop";
    } catch (const std::exception &) {
      o.str("");
      o << "throw";
    }
    out << (first ? "" : " ; ") << o.str() << "|" << r.cursor;
    first = false;
  }
  return out.str();
}

static std::string runF(TS &ts)
{
  size_t cap = std::stoull(ts.next());
  FixedBufferWriter fw(cap);
  if (cap) std::memset(fw.buffer->begin(), BG, cap);
  static uint8_t dummy = 0;
  std::ostringstream out;
  bool first = true;
  while (ts.more()) {
    auto f = split(ts.next(), ':');
    std::ostringstream o;
    try {
      if (f[0] == "w") {
        auto d = unhex(f[1]);
        fw.write(d.empty() ? &dummy : d.data(), d.size());
        o << "ok";
      } else if (f[0] == "wn") {
        fw.write(nullptr, std::stoull(f[1]));
        o << "ok";
      } else if (f[0] == "rs" || f[0] == "rf") {
        std::vector<uint8_t> d;
        size_t size;
        if (f[0] == "rf") { d = unhex(f[1]); size = d.size(); }
        else size = std::stoull(f[1]);
        uint8_t *p = (uint8_t *)fw.reserve(size);
        o << "ptr=" << (size_t)(p - fw.buffer->begin());
        if (!d.empty()) std::memcpy(p, d.data(), d.size());  // the caller fills what it reserved
      } else o << "badop";
    } catch (const std::exception &) {
      o.str("");
      o << "throw";
    }
    o << "|" << fw.cursor << "|" << fw.available() << "|" << fw.capacity() << "|";
    auto v = fw.getWrittenView();
    if (v->size() != fw.cursor) o << "!viewsize";
    if (fw.cursor <= cap && v->size() <= cap) o << hex(v->begin(), v->size());  // through the view itself
    else o << "OOB";
    if (fw.cursor <= cap && v->size() && v->begin() != fw.buffer->begin()) o << "!viewptr";
    out << (first ? "" : " ; ") << o.str();
    first = false;
  }
  return out.str();
}

#ifndef C15_CORE_ONLY
// L <cap> <op>... : lifetime of the views handed out by getWrittenView().
//   w:<hex> wn:<n> rs:<n> rf:<hex>   as in F         view   take getWrittenView() and KEEP it
//   kill    destroy the FixedBufferWriter            reseat:<n>  *writer.buffer = vector(n, 0x77); cursor = 0
//   chk     read every byte of every view held, directly and through a BufferReader
// after the last op the writer is destroyed (if still alive) and every view is read once more.
static std::string runL(TS &ts)
{
  size_t cap = std::stoull(ts.next());
  std::unique_ptr<FixedBufferWriter> fw(new FixedBufferWriter(cap));
  if (cap) std::memset(fw->buffer->begin(), BG, cap);
  std::vector<std::shared_ptr<FixedArray<uint8_t>::View>> views;
  static uint8_t dummy = 0;
  auto chk = [&]() -> std::string {
    if (views.empty()) return "none";
    std::string s;
    for (size_t k = 0; k < views.size(); ++k) {
      auto &v = views[k];
      std::string direct = hex(v->begin(), v->size());          // every byte, through the view itself
      std::shared_ptr<AbstractArray<uint8_t>> ab = v;
      BufferReader r(ab);
      std::vector<uint8_t> tmp(v->size() + 1);
      r.read(tmp.data(), v->size());                            // ... and through a BufferReader
      bool same = hex(tmp.data(), v->size()) == direct && r.end();
      s += (k ? "," : "") + direct + (same ? "" : "!reader");
    }
    return s;
  };
  std::ostringstream out;
  bool first = true;
  while (ts.more()) {
    auto f = split(ts.next(), ':');
    std::ostringstream o;
    try {
      if (f[0] == "chk") o << "chk=" << chk();
      else if (!fw) o << "dead";
      else if (f[0] == "w") {
        auto d = unhex(f[1]);
        fw->write(d.empty() ? &dummy : d.data(), d.size());
        o << "ok";
      } else if (f[0] == "wn") {
        fw->write(nullptr, std::stoull(f[1]));
        o << "ok";
      } else if (f[0] == "rs" || f[0] == "rf") {
        std::vector<uint8_t> d;
        size_t size;
        if (f[0] == "rf") { d = unhex(f[1]); size = d.size(); }
        else size = std::stoull(f[1]);
        uint8_t *p = (uint8_t *)fw->reserve(size);
        o << "ptr=" << (size_t)(p - fw->buffer->begin());
        if (!d.empty()) std::memcpy(p, d.data(), d.size());
      } else if (f[0] == "view") {
        views.push_back(fw->getWrittenView());
        o << "view=" << views.back()->size();
      } else if (f[0] == "kill") {
        fw.reset();
        o << "done";
      } else if (f[0] == "reseat") {
        std::vector<uint8_t> nv(std::stoull(f[1]), 0x77);
        *fw->buffer = nv;
        fw->cursor = 0;
        o << "done";
      } else o << "badop";
    } catch (const std::exception &) {
      o.str("");
      o << "throw";
    }
    if (fw) o << "|" << fw->cursor << "|" << fw->available() << "|" << fw->capacity();
    else o << "|-";
    out << (first ? "" : " ; ") << o.str();
    first = false;
  }
  fw.reset();
  out << (first ? "" : " ; ") << "final=" << chk();
  return out.str();
}

// H <op>... : readers and a writer interleaved over ONE shared buffer (BufferWriter::buffer).
//   w:<hex> wn:<n>          writer.write                           new            BufferReader r_k(writer.buffer)
//   rd:<k>:<size>:<m>       r_k.read (m = 1: into memory, shown)    vw:<k>:<count> r_k.getView<uint8_t>(count), read at once
//   end:<k>                 r_k.end()                               cp:<k>         BufferReader copy of r_k
//   hand / handa            move the writer's buffer out (ctor / assignment), keep writing     reset / self   buffer->reset() / self-assignment
//   chkm:<j>                read handed-off message j through a fresh BufferReader
static std::string runH(TS &ts)
{
  BufferWriter bw;
  std::vector<std::unique_ptr<BufferReader>> rs;
  std::vector<std::shared_ptr<OwnedArray<uint8_t>>> msgs;
  static uint8_t dummy = 0;
  std::ostringstream out;
  bool first = true;
  while (ts.more()) {
    auto f = split(ts.next(), ':');
    std::ostringstream o;
    try {
      if (f[0] == "w") {
        auto d = unhex(f[1]);
        bw.write(d.empty() ? &dummy : d.data(), d.size());
        o << "ok|" << bw.buffer->size();
      } else if (f[0] == "wn") {
        bw.write(nullptr, std::stoull(f[1]));
        o << "ok|" << bw.buffer->size();
      } else if (f[0] == "hand" || f[0] == "handa") {
        // handoff: the finished message is MOVED out of the writer's buffer (move construction / move
        // assignment of OwnedArray); the writer keeps writing into the same (now empty) buffer object
        std::shared_ptr<OwnedArray<uint8_t>> m;
        if (f[0] == "hand") m = std::make_shared<OwnedArray<uint8_t>>(std::move(*bw.buffer));
        else { m = std::make_shared<OwnedArray<uint8_t>>(); *m = std::move(*bw.buffer); }
        msgs.push_back(m);
        o << "msg=" << msgs.size() - 1 << ":" << m->size() << "|" << bw.buffer->size();
      } else if (f[0] == "reset") {
        bw.buffer->reset();
        o << "ok|" << bw.buffer->size();
      } else if (f[0] == "self") {
        OwnedArray<uint8_t> &b = *bw.buffer;
        b = b;                      // self copy assignment
        b = std::move(b);           // self move assignment
        o << "ok|" << bw.buffer->size();
      } else if (f[0] == "chkm") {  // a reader over handed-off message j: all its bytes, then end()
        size_t j = std::stoull(f[1]);
        if (j >= msgs.size()) o << "bad";
        else {
          std::shared_ptr<AbstractArray<uint8_t>> b = msgs[j];
          BufferReader r(b);
          std::vector<uint8_t> tmp(b->size() + 1);
          r.read(tmp.data(), b->size());
          o << "msg:" << hex(tmp.data(), b->size()) << (r.end() ? "" : "!notAtEnd");
        }
      } else if (f[0] == "new") {
        std::shared_ptr<AbstractArray<uint8_t>> b = bw.buffer;
        rs.emplace_back(new BufferReader(b));
        o << "reader=" << rs.size() - 1;
      } else if (f[0] == "cp") {                      // BufferReader(const BufferReader &): same buffer, same cursor
        size_t k = std::stoull(f[1]);
        if (k >= rs.size()) o << "bad";
        else {
          rs.emplace_back(new BufferReader(*rs[k]));
          o << "reader=" << rs.size() - 1 << "|" << rs.back()->cursor;
        }
      } else {
        size_t k = std::stoull(f[1]);
        if (k >= rs.size()) o << "bad";
        else {
          BufferReader &r = *rs[k];
          try {
            if (f[0] == "rd") {
              size_t size = std::stoull(f[2]);
              bool m = f[3] == "1" && size <= (1u << 20);
              std::unique_ptr<uint8_t[]> dst(new uint8_t[m ? size : 0]);
              r.read(m ? dst.get() : nullptr, size);
              o << "ok:" << (m ? hex(dst.get(), size) : "-");
            } else if (f[0] == "vw") {
              size_t count = std::stoull(f[2]);
              auto v = r.getView<uint8_t>(count);
              size_t total = bw.buffer->size();
              if (v->size() == 0) o << "view:-:0:-";
              else {
                size_t off = (size_t)(v->data() - bw.buffer->begin());   // relative to the CURRENT storage
                bool inb = off <= total && v->size() <= total - off;
                o << "view:" << off << ":" << v->size() << ":" << (inb ? hex(v->data(), v->size()) : "OOB");
              }
            } else if (f[0] == "end") o << "end=" << (r.end() ? 1 : 0);
            else o << "badop";
          } catch (const std::exception &) {
            o << "throw";
          }
          o << "|" << r.cursor;
        }
      }
    } catch (const std::exception &) {
      o.str("");
      o << "throw";
    }
    out << (first ? "" : " ; ") << o.str();
    first = false;
  }
  return out.str();
}

#endif
static std::string runW(TS &ts)
{
  BufferWriter bw;
  WriteSizeCalculator wc;
  static uint8_t dummy = 0;
  std::string sizes;
  while (ts.more()) {
    auto f = split(ts.next(), ':');
    if (f[0] == "w") {
      auto d = unhex(f[1]);
      bw.write(d.empty() ? &dummy : d.data(), d.size());
      wc.write(d.empty() ? &dummy : d.data(), d.size());
    } else if (f[0] == "wn") {
      size_t n = std::stoull(f[1]);
      bw.write(nullptr, n);
      wc.write(nullptr, n);
    }
    sizes += (sizes.empty() ? "" : ",") + std::to_string(bw.buffer->size());
  }
  std::ostringstream out;
  out << "buf=" << hex(bw.buffer->begin(), bw.buffer->size()) << " sizes=" << (sizes.empty() ? "-" : sizes)
      << " calc=" << wc.writtenSize;
  return out.str();
}

int main()
{
  initRegistry();
  std::string line;
  while (std::getline(std::cin, line)) {
    alarm(20);   // watchdog: a case that does not finish (e.g. a garbage length decoded by a broken
                 // reader) kills the harness; the check reports the case and resumes behind it
    TS ts;
    std::istringstream is(line);
    std::string kind, t;
    is >> kind;
    while (is >> t) ts.t.push_back(t);
    std::string res;
    try {
      if (kind == "T") res = runT(ts);
      else if (kind == "R") res = runR(ts);
      else if (kind == "F") res = runF(ts);
      else if (kind == "W") res = runW(ts);
#ifndef C15_CORE_ONLY
      else if (kind == "L") res = runL(ts);
      else if (kind == "H") res = runH(ts);
#endif
    } catch (const std::logic_error &e) {
      res = std::string("harness-error:") + e.what();
    }
    std::cout << res << "\n" << std::flush;
  }
  return 0;
}
