// C19 harness: runs Observable/Observer histories and TimeStamp programs on the real classes.
//
//   harness lines            read cases on stdin, one output line per case
//   harness threads N ITERS  N threads x ITERS rounds of TimeStamp creation/renewal/copy
//   harness static           (needs -DC19_STATIC_INIT) the history $C19_PRE was executed by a static object's constructor
//                            before main() (together with namespace-scope TimeStamp/Observable/Observer objects); main
//                            continues it with $C19_POST and prints the usual H line, then " ## pre:... main:..." for the
//                            namespace-scope objects (expected "pre:increasing,010 main:increasing,101010")
//   harness counter START N ITERS   (needs -DC19_PRIV -DC19_COUNTER) store START into the private static counter
//                            TimeStamp::global first, then the same run: probes the counter around
//                            2^31, 2^32, 2^63 (a narrowed counter repeats or decreases there)
//
// Case lines (same canonical form as ocaml/C19/driver.ml):
//   H op op ...      ops: nb:B  db:B  no:O:B  do:O  n:B  p:O
//                    (new/delete Observable B, new Observer O on B, delete Observer O,
//                     B->notifyObservers(), O->wasNotified())
//   T it it ...      it = t.f:X | t.r:X | t.cc:X:T2:Y | t.ca:X:T2:Y | t.mc:X:T2:Y | t.ma:X:T2:Y
//                    (virtual thread t: construct / renew / copy-construct / copy-assign /
//                     move-construct / move-assign TimeStamp variable X [from thread T2's Y];
//                     executed sequentially in the order given)
// Output per case: steps joined by " ; ", then " ## " and the stamp offsets per step (informational).
//   H step:  out|b0 b1|o0 o1 o2 o3      b = '-' (dead) or [registered observer slots in vector order]
//                                       o = '-' (dead) or <observee slot|n><'+' pending | '.' not>
//            'X' marks a pointer that designates no live object (dangling)
//   T step:  t.x=rank ...               dense ranks of the values of all existing variables
// With -DC19_PRIV the private members are read (structure dump); without it only results are printed.
#include <algorithm>
#include <atomic>
#include <cstdio>
#include <cstdlib>
#include <iostream>
#include <map>
#include <sstream>
#include <string>
#include <thread>
#include <vector>
#include <cmath>
#include <cassert>
#include <cstring>
#include <fstream>
#include <iomanip>
#include <memory>
#include <stdexcept>
#include <unistd.h>
#ifdef C19_PRIV
#define private public
#endif
#include "rkcommon/utility/Observer.h"
#include "rkcommon/utility/TimeStamp.h"
#ifdef C19_PRIV
#undef private
#endif

using rkcommon::utility::Observable;
using rkcommon::utility::Observer;
using rkcommon::utility::TimeStamp;

static std::vector<std::string> split(const std::string &s, char d)
{
  std::vector<std::string> r; std::string t; std::istringstream is(s);
  while (std::getline(is, t, d)) r.push_back(t);
  return r;
}

static const int NB = 2, NO = 4;
static size_t g_maxSeen = 0;   // largest stamp value seen so far in this process
static bool g_any = false;

static bool freshCheck(size_t v)
{
  bool ok = !g_any || v > g_maxSeen;
  if (!g_any || v > g_maxSeen) g_maxSeen = v;
  g_any = true;
  return ok;
}

// one history, executed token by token (the static-initialisation scenario runs a prefix before main())
struct HRun
{
  Observable *B[NB];
  Observer *O[NO];
  std::ostringstream hard, soft;
  size_t base;
  bool first;
  HRun() : first(true)
  {
    for (int b = 0; b < NB; ++b) B[b] = nullptr;
    for (int o = 0; o < NO; ++o) O[o] = nullptr;
    TimeStamp probe;
    base = size_t(probe) + 1;
    freshCheck(size_t(probe));
  }
  void step(const std::string &tok)
  {
    auto f = split(tok, ':');
    std::string out = "ok";
    bool fresh = true;
    if (f[0] == "nb") {
      int b = std::stoi(f[1]); B[b] = new Observable();
#ifdef C19_PRIV
      fresh = freshCheck(size_t(B[b]->lastNotified));
#endif
    } else if (f[0] == "db") {
      int b = std::stoi(f[1]); delete B[b]; B[b] = nullptr;
    } else if (f[0] == "no") {
      int o = std::stoi(f[1]), b = std::stoi(f[2]); O[o] = new Observer(*B[b]);
#ifdef C19_PRIV
      fresh = freshCheck(size_t(O[o]->lastObserved));
#endif
    } else if (f[0] == "do") {
      int o = std::stoi(f[1]); delete O[o]; O[o] = nullptr;
    } else if (f[0] == "n") {
      int b = std::stoi(f[1]); B[b]->notifyObservers();
#ifdef C19_PRIV
      fresh = freshCheck(size_t(B[b]->lastNotified));
#endif
    } else if (f[0] == "p") {
      int o = std::stoi(f[1]); out = O[o]->wasNotified() ? "true" : "false";
#ifdef C19_PRIV
      freshCheck(size_t(O[o]->lastObserved));
#endif
    } else {
      out = "badop";
    }
    if (!first) { hard << " ; "; soft << " ; "; }
    first = false;
    hard << out;
    if (!fresh) hard << "!notfresh";
#ifdef C19_PRIV
    hard << "|";
    for (int b = 0; b < NB; ++b) {
      if (b) { hard << " "; }
      if (!B[b]) { hard << "-"; soft << "-,"; continue; }
      hard << "[";
      bool c = false;
      for (Observer *p : B[b]->observers) {
        if (c) hard << ",";
        c = true;
        int id = -1;
        for (int o = 0; o < NO; ++o) if (O[o] && O[o] == p) id = o;
        if (id < 0) hard << "X"; else hard << id;
      }
      hard << "]";
      soft << (long long)(size_t(B[b]->lastNotified) - base) << ",";
    }
    hard << "|";
    soft << "|";
    for (int o = 0; o < NO; ++o) {
      if (o) hard << " ";
      if (!O[o]) { hard << "-"; soft << "-,"; continue; }
      Observable *p = O[o]->observee;
      soft << (long long)(size_t(O[o]->lastObserved) - base) << ",";
      if (!p) { hard << "n."; continue; }
      int id = -1;
      for (int b = 0; b < NB; ++b) if (B[b] && B[b] == p) id = b;
      if (id < 0) { hard << "X."; continue; }
      hard << id << (size_t(O[o]->lastObserved) < size_t(B[id]->lastNotified) ? "+" : ".");
    }
#endif
  }
  std::string finish()
  {
    for (int o = 0; o < NO; ++o) delete O[o];   // observers first, then observables
    for (int b = 0; b < NB; ++b) delete B[b];
    return hard.str() + " ## " + soft.str();
  }
};

static std::string runH(const std::vector<std::string> &ops)
{
  HRun r;
  for (auto &tok : ops) r.step(tok);
  return r.finish();
}

#ifdef C19_STATIC_INIT
// ---------------------------------------------------------------- static initialisation scenario
// Objects with static storage duration and a history prefix executed BEFORE main(): namespace-scope TimeStamps, an
// Observable with two Observers, and a static object whose constructor runs the tokens of $C19_PRE.  Built twice:
// this file before TimeStamp.cpp in link order and after it (static initialisers of different translation units run
// in link order), so that the counter is used before / after its own translation unit was initialised.
static TimeStamp gS0;
static Observable gHub;
static Observer gLookA(gHub);
static Observer gLookB(gHub);
static TimeStamp gS1;
struct PreMain
{
  HRun *run;
  std::string glob;     // what the namespace-scope objects did before main
  PreMain() : run(nullptr)
  {
    bool inc = freshCheck(size_t(gS0));
#ifdef C19_PRIV
    inc = freshCheck(size_t(gHub.lastNotified)) && inc;
    inc = freshCheck(size_t(gLookA.lastObserved)) && inc;
    inc = freshCheck(size_t(gLookB.lastObserved)) && inc;
#endif
    inc = freshCheck(size_t(gS1)) && inc;
    bool a0 = gLookA.wasNotified();
    gHub.notifyObservers();
    bool a1 = gLookA.wasNotified(), a2 = gLookA.wasNotified();
    std::ostringstream g;
    g << "pre:" << (inc ? "increasing" : "NOT-increasing") << "," << a0 << a1 << a2;
    glob = g.str();
    run = new HRun();
    const char *pre = getenv("C19_PRE");
    if (pre) { for (auto &tok : split(pre, ' ')) if (!tok.empty()) run->step(tok); }
  }
};
static PreMain gPre;

static int mainStatic()
{
  const char *post = getenv("C19_POST");
  if (post) { for (auto &tok : split(post, ' ')) if (!tok.empty()) gPre.run->step(tok); }
  std::string line = gPre.run->finish();
  // the namespace-scope objects again, now inside main: B was never polled, so it has the pre-main notification pending;
  // then one more notification reaches both observers exactly once; a fresh stamp is larger than everything before
  bool b1 = gLookB.wasNotified(), b2 = gLookB.wasNotified();
  gHub.notifyObservers();
  gHub.notifyObservers();
  bool a3 = gLookA.wasNotified(), a4 = gLookA.wasNotified(), b3 = gLookB.wasNotified(), b4 = gLookB.wasNotified();
  TimeStamp fresh;
  bool inc = freshCheck(size_t(fresh));
  gS1.renew();
  inc = freshCheck(size_t(gS1)) && inc;
  std::cout << line << " ## " << gPre.glob << " main:" << (inc ? "increasing" : "NOT-increasing") << "," << b1 << b2 << a3 << a4 << b3 << b4
            << std::endl;
  return 0;
}
#endif

static std::string runT(const std::vector<std::string> &items)
{
  std::map<std::pair<int, int>, TimeStamp *> V;
  std::ostringstream hard, soft;
  TimeStamp probe;
  size_t base = size_t(probe) + 1;
  freshCheck(size_t(probe));
  bool first = true;
  for (auto &it : items) {
    size_t dot = it.find('.');
    int t = std::stoi(it.substr(0, dot));
    auto f = split(it.substr(dot + 1), ':');
    int x = std::stoi(f[1]);
    auto key = std::make_pair(t, x);
    bool fresh = true;
    std::string err;
    if (f[0] == "f") {
      delete V[key]; V[key] = new TimeStamp(); fresh = freshCheck(size_t(*V[key]));
    } else if (f[0] == "r") {
      V[key]->renew(); fresh = freshCheck(size_t(*V[key]));
    } else {
      auto skey = std::make_pair(std::stoi(f[2]), std::stoi(f[3]));
      TimeStamp *src = V[skey];
      size_t before = size_t(*src);
      if (f[0] == "cc") { TimeStamp *n = new TimeStamp(*src); delete V[key]; V[key] = n; }
      else if (f[0] == "mc") { TimeStamp *n = new TimeStamp(std::move(*src)); delete V[key]; V[key] = n; }
      else if (f[0] == "ca") { *V[key] = *src; }
      else if (f[0] == "ma") { *V[key] = std::move(*src); }
      else err = "badop";
      if (size_t(*V[skey]) != before) err = "!srcchanged";
      freshCheck(std::max(size_t(*V[key]), size_t(*V[skey])));
    }
    if (!first) { hard << " ; "; soft << " ; "; }
    first = false;
    std::vector<size_t> vals;
    for (auto &kv : V) if (kv.second) vals.push_back(size_t(*kv.second));
    std::sort(vals.begin(), vals.end());
    vals.erase(std::unique(vals.begin(), vals.end()), vals.end());
    bool c = false;
    for (auto &kv : V) {
      if (!kv.second) continue;
      if (c) { hard << " "; soft << " "; }
      c = true;
      size_t v = size_t(*kv.second);
      size_t rank = std::lower_bound(vals.begin(), vals.end(), v) - vals.begin();
      hard << kv.first.first << "." << kv.first.second << "=" << rank;
      soft << (long long)(v - base);
    }
    if (!fresh) hard << " !notfresh";
    hard << err;
  }
  for (auto &kv : V) delete kv.second;
  return hard.str() + " ## " + soft.str();
}

// ---------------------------------------------------------------- threads test
static std::atomic<int> g_ready{0};
static std::atomic<bool> g_go{false};

struct ThreadResult
{
  std::vector<size_t> fresh;   // values of freshly created / renewed stamps, in program order
  std::string err;
};

static void worker(int nthreads, long iters, ThreadResult *res)
{
  res->fresh.reserve((size_t)iters * 3 + 8);
  g_ready.fetch_add(1);
  while (!g_go.load()) {}
  TimeStamp keep;
  res->fresh.push_back(size_t(keep));
  for (long i = 0; i < iters; ++i) {
    keep.renew();
    size_t kv = size_t(keep);
    res->fresh.push_back(kv);
    TimeStamp local;                       // fresh creation
    size_t lv = size_t(local);
    res->fresh.push_back(lv);
    TimeStamp copy(keep);                  // copy construction
    if (size_t(copy) != kv) res->err = "copy-constructed stamp differs from its source";
    if (size_t(keep) != kv) res->err = "copy construction changed the source";
    TimeStamp moved(std::move(local));     // move construction
    if (size_t(moved) != lv) res->err = "move-constructed stamp differs from its source";
    if ((i & 3) == 0) {
      TimeStamp other;
      size_t ov = size_t(other);
      res->fresh.push_back(ov);
      other = keep;                        // copy assignment
      if (size_t(other) != kv) res->err = "copy-assigned stamp differs from its source";
      other = std::move(moved);            // move assignment
      if (size_t(other) != lv) res->err = "move-assigned stamp differs from its source";
    }
  }
}

static int runThreads(int nthreads, long iters)
{
  std::vector<ThreadResult> res(nthreads);
  std::vector<std::thread> th;
  for (int t = 0; t < nthreads; ++t) th.emplace_back(worker, nthreads, iters, &res[t]);
  while (g_ready.load() < nthreads) {}
  g_go.store(true);
  for (auto &t : th) t.join();
  std::vector<size_t> all;
  for (int t = 0; t < nthreads; ++t) {
    if (!res[t].err.empty()) { std::cout << "FAIL thread=" << t << " " << res[t].err << "\n"; return 0; }
    auto &v = res[t].fresh;
    for (size_t i = 1; i < v.size(); ++i)
      if (!(v[i - 1] < v[i])) {
        std::cout << "FAIL thread=" << t << " not-increasing index=" << i << " prev=" << v[i - 1] << " cur=" << v[i] << "\n";
        return 0;
      }
    all.insert(all.end(), v.begin(), v.end());
  }
  std::sort(all.begin(), all.end());
  for (size_t i = 1; i < all.size(); ++i)
    if (all[i - 1] == all[i]) {
      std::cout << "FAIL duplicate value=" << all[i] << " threads=" << nthreads << " iters=" << iters << "\n";
      return 0;
    }
  std::cout << "OK threads=" << nthreads << " values=" << all.size() << " min=" << all.front() << " max=" << all.back() << "\n";
  return 0;
}

int main(int argc, char **argv)
{
  std::string mode = argc > 1 ? argv[1] : "lines";
#ifdef C19_STATIC_INIT
  if (mode == "static") return mainStatic();
#endif
  if (mode == "counter") {
#if defined(C19_PRIV) && defined(C19_COUNTER)
    unsigned long long start = argc > 2 ? std::strtoull(argv[2], nullptr, 10) : 0;
    int n = argc > 3 ? std::atoi(argv[3]) : 1;
    long iters = argc > 4 ? std::atol(argv[4]) : 16;
    TimeStamp::global.store((size_t)start);
    TimeStamp first;
    if (size_t(first) < (size_t)start) {
      std::cout << "FAIL first stamp after the counter was set to " << start << " is " << size_t(first) << " (smaller than the counter)\n";
      return 0;
    }
    return runThreads(n, iters);
#else
    std::cout << "SKIP no access to the private counter\n";
    return 0;
#endif
  }
  if (mode == "threads") {
    int n = argc > 2 ? std::atoi(argv[2]) : 4;
    long iters = argc > 3 ? std::atol(argv[3]) : 100000;
    return runThreads(n, iters);
  }
  std::ios::sync_with_stdio(false);
  std::string line;
  while (std::getline(std::cin, line)) {
    auto toks = split(line, ' ');
    toks.erase(std::remove(toks.begin(), toks.end(), std::string()), toks.end());
    if (toks.empty()) { std::cout << "\n"; continue; }
    std::vector<std::string> ops(toks.begin() + 1, toks.end());
    if (toks[0] == "H") std::cout << runH(ops) << std::endl;
    else if (toks[0] == "T") std::cout << runT(ops) << std::endl;
    else std::cout << "\n";
  }
  std::cout.flush();
  return 0;
}
