// C01/C02 pipe harness: the REAL enki::LockLessMultiReadPipe template of the repository working tree
// (rkcommon/tasking/detail/enkiTS/LockLessMultiReadPipe.h, header only; TaskScheduler.cpp uses
// LockLessMultiReadPipe<8, SubTaskSet>), instantiated with cSizeLog2 = 1, 2, 3, 8.
//
// modes
//   seq [nowatchdog <progressfile>]
//       stdin: one case per line   <id> <k> <preset v> <op> ...     ops: w<x> f r e c
//       stdout: one line per case  <id> <tok> ... | W=<W> RC=<RC> RI=<RI> FL=<letter per slot: W R I ?>
//       tokens  w<x>=T|F   f=T:<item>|f=F   r=T:<item>|r=F   e=T|F   c
//       (the same line ocaml/C01/pipe_driver.ml prints from the Coq model).
//       The three indices are PRE-ADVANCED to v before the first op (m_WriteIndex = m_ReadCount =
//       m_ReadIndex = v; same as Pipe.preset) so that index wrap-around is reachable.
//       Watchdog: an operation that burns more than 300 ms of CPU time (ITIMER_VIRTUAL: robust against a
//       loaded machine) is abandoned by siglongjmp out of the signal handler; its token is <op>=HANG and the
//       case ends there (state line printed as it is); after 25 such cases the remaining ones are answered
//       `<id> SKIPPED-after-25-hanging-cases` without being run.  With `nowatchdog <file>` nothing is abandoned: the
//       progress (tokens so far) is appended to <file> and flushed before every op so that the caller,
//       who kills the process after its own timeout, can see which op never returned.
//   stress <k> <readers 1..7> <items> <seed> [preset [max_seconds=12]]
//       1 owner thread (random mix of WriterTryWriteFront of fresh ids / WriterTryReadFront, then drain) and N
//       threads calling ReaderTryReadBack on one pipe of 16-byte payloads {id, ~id, id*2654435761, magic}.
//       After all threads joined: every accepted id delivered exactly once, nothing else delivered, every payload
//       intact, (W - RC) mod 2^32 == number of CAN_READ flags == 0, no flag other than CAN_WRITE.
//       prints  OK ...   or   FAIL <reason> item=<id> count=<n> ...
//
// NOTE on sanitizers: built with ASan+UBSan (-O1) and plain -O2.  A TSan build is NOT meaningful: the pipe
// synchronises through volatile accesses + compiler barriers + __sync builtins, which TSan does not treat
// as synchronisation, so it would flag every access.
#include <stdint.h>
#include <stdio.h>
#include <stdlib.h>
#include <string.h>
#include <signal.h>
#include <setjmp.h>
#include <sched.h>
#include <unistd.h>
#include <sys/time.h>
#include <time.h>
#include <pthread.h>
#include <string>
#include <vector>
#include <sstream>
#include <iostream>
#include <atomic>
#include <thread>
#include <chrono>
#include <assert.h>

#define private public
#include "rkcommon/tasking/detail/enkiTS/LockLessMultiReadPipe.h"
#undef private

using namespace enki;

// ------------------------------------------------------------------------------------------- seq
static sigjmp_buf g_jmp;
static volatile sig_atomic_t g_armed = 0;
static void on_vtalrm(int) { if (g_armed) { g_armed = 0; siglongjmp(g_jmp, 1); } }
static void arm(long ms) {
    struct itimerval it; memset(&it, 0, sizeof it);
    it.it_value.tv_sec = ms / 1000; it.it_value.tv_usec = (ms % 1000) * 1000;
    g_armed = ms != 0;
    setitimer(ITIMER_VIRTUAL, &it, NULL);
}

static bool g_watchdog = true;
static int g_hangs = 0;
static FILE* g_progress = NULL;

static void progress(const std::string& s) {
    if (g_progress) { fputs(s.c_str(), g_progress); fputc('\n', g_progress); fflush(g_progress); }
}

template <uint8_t K> static char flag_letter(uint32_t f) {
    typedef LockLessMultiReadPipe<K, uint32_t> P;
    return f == P::FLAG_CAN_WRITE ? 'W' : f == P::FLAG_CAN_READ ? 'R' : f == P::FLAG_INVALID ? 'I' : '?';
}

template <uint8_t K> static std::string seq_case(const std::string& id, uint32_t v, const std::vector<std::string>& ops) {
    typedef LockLessMultiReadPipe<K, uint32_t> P;
    static P* pipe = NULL;                 // heap: siglongjmp must not skip a destructor frame
    delete pipe; pipe = new P();
    pipe->m_WriteIndex = v; pipe->m_ReadCount = v; pipe->m_ReadIndex = v;
    static std::string out;                // static: survives the siglongjmp
    out = id;
    static size_t i; static char cur;
    for (i = 0; i < ops.size(); ++i) {
        const std::string& o = ops[i];
        cur = o[0];
        if (g_progress) progress(out + " @" + o);
        if (g_watchdog) {
            if (sigsetjmp(g_jmp, 1)) { out += std::string(" ") + (cur == 'w' ? ops[i] : std::string(1, cur)) + "=HANG"; ++g_hangs; break; }
            arm(300);
        }
        char buf[64];
        switch (cur) {
        case 'w': { uint32_t x = (uint32_t)strtoul(o.c_str() + 1, NULL, 10);
                    bool b = pipe->WriterTryWriteFront(x); arm(0);
                    snprintf(buf, sizeof buf, " w%u=%c", x, b ? 'T' : 'F'); break; }
        case 'f': { uint32_t x = 0; bool b = pipe->WriterTryReadFront(&x); arm(0);
                    if (b) snprintf(buf, sizeof buf, " f=T:%u", x); else snprintf(buf, sizeof buf, " f=F"); break; }
        case 'r': { uint32_t x = 0; bool b = pipe->ReaderTryReadBack(&x); arm(0);
                    if (b) snprintf(buf, sizeof buf, " r=T:%u", x); else snprintf(buf, sizeof buf, " r=F"); break; }
        case 'e': { bool b = pipe->IsPipeEmpty(); arm(0); snprintf(buf, sizeof buf, " e=%c", b ? 'T' : 'F'); break; }
        case 'c': { pipe->Clear(); arm(0); snprintf(buf, sizeof buf, " c"); break; }
        default: arm(0); snprintf(buf, sizeof buf, " ?"); break;
        }
        out += buf;
    }
    arm(0);
    char st[128];
    snprintf(st, sizeof st, " | W=%u RC=%u RI=%u FL=", (unsigned)pipe->m_WriteIndex, (unsigned)pipe->m_ReadCount, (unsigned)pipe->m_ReadIndex);
    out += st;
    for (uint32_t j = 0; j < P::ms_cSize; ++j) out += flag_letter<K>(pipe->m_Flags[j]);
    return out;
}

static int mode_seq(int argc, char** argv) {
    if (argc >= 4 && std::string(argv[2]) == "nowatchdog") { g_watchdog = false; g_progress = fopen(argv[3], "a"); }
    struct sigaction sa; memset(&sa, 0, sizeof sa); sa.sa_handler = on_vtalrm; sigemptyset(&sa.sa_mask);
    sigaction(SIGVTALRM, &sa, NULL);
    std::string line;
    while (std::getline(std::cin, line)) {
        std::istringstream is(line);
        std::string id; int k; unsigned long long v; std::vector<std::string> ops; std::string o;
        if (!(is >> id >> k >> v)) { puts("bad-case"); fflush(stdout); continue; }
        while (is >> o) ops.push_back(o);
        std::string r;
        // every abandoned operation costs 300 ms of CPU: on a tree where many cases hang, stop running cases after 25 of them
        if (g_hangs >= 25) { puts((id + " SKIPPED-after-25-hanging-cases").c_str()); fflush(stdout); continue; }
        switch (k) {
        case 1: r = seq_case<1>(id, (uint32_t)v, ops); break;
        case 2: r = seq_case<2>(id, (uint32_t)v, ops); break;
        case 3: r = seq_case<3>(id, (uint32_t)v, ops); break;
        case 8: r = seq_case<8>(id, (uint32_t)v, ops); break;
        default: r = id + " bad-k";
        }
        puts(r.c_str()); fflush(stdout);
        if (g_progress) progress(r);
    }
    return 0;
}

// ------------------------------------------------------------------------------------------- stress
struct Payload {                       // 16 bytes like SubTaskSet {pTask, {start,end}}: a torn copy is visible
    uint32_t id, nid, mix, magic;
};
static const uint32_t MAGIC = 0xC0FFEE11u;
static inline Payload mk(uint32_t id) { Payload p; p.id = id; p.nid = ~id; p.mix = id * 2654435761u; p.magic = MAGIC; return p; }
static inline bool intact(const Payload& p) { return p.nid == ~p.id && p.mix == p.id * 2654435761u && p.magic == MAGIC; }

struct Rng { uint64_t s; explicit Rng(uint64_t x) : s(x * 0x9E3779B97F4A7C15ull + 0x1234567ull) {}
             uint32_t next() { s ^= s << 13; s ^= s >> 7; s ^= s << 17; return (uint32_t)(s >> 16); } };

static inline void jitter(Rng& r) {
    uint32_t x = r.next() & 63;
    if (x == 0) sched_yield();
    else if (x < 8) { for (volatile uint32_t i = 0; i < (x * 13u); ++i) {} }
}

template <uint8_t K> struct Stress {
    typedef LockLessMultiReadPipe<K, Payload> P;
    P pipe;
    uint32_t items;
    uint32_t nthreads;
    std::vector<std::atomic<uint32_t> > delivered;     // per id
    std::atomic<uint32_t> total, torn, foreign, stop;
    std::atomic<uint32_t> first_torn, first_foreign;
    std::atomic<uint32_t> by[8];                       // deliveries per thread (coverage: did the readers take part?)
    std::atomic<uint32_t> ready;
    std::atomic<uint32_t> phase[8];                    // what each thread is doing (for the hang report)
    std::atomic<uint32_t> accepted;

    explicit Stress(uint32_t n) : items(n), delivered(n + 2), total(0), torn(0), foreign(0), stop(0), first_torn(0), first_foreign(0), accepted(0) {
        for (size_t i = 0; i < delivered.size(); ++i) delivered[i] = 0;
        for (int i = 0; i < 8; ++i) { phase[i] = 0; by[i] = 0; }
        ready = 0;
    }
    void got(const Payload& p, int t) {
        by[t]++;
        if (!intact(p)) { if (torn++ == 0) first_torn = p.id; total++; return; }
        if (p.id == 0 || p.id > items) { if (foreign++ == 0) first_foreign = p.id; total++; return; }
        if (++delivered[p.id] > 1) stop = 1;           // a duplicate: stop at once, the accounting below reports it
        total++;
    }
    void owner(uint64_t seed) {
        Rng r(seed);
        ready++; while (ready < nthreads) {}
        uint32_t next = 1;
        // a varying write bias makes the pipe oscillate between empty and full
        while (accepted < items && !stop) {
            uint32_t bias = 40 + ((next >> 6) % 5) * 12;           // 40..88 % writes
            if (r.next() % 100 < bias) {
                phase[0] = 1;
                if (pipe.WriterTryWriteFront(mk(next))) { ++accepted; ++next; }
            } else {
                Payload p; phase[0] = 2;
                if (pipe.WriterTryReadFront(&p)) got(p, 0);
            }
            phase[0] = 0;
            jitter(r);
        }
        // drain
        while (total < items && !stop) {
            Payload p;
            phase[0] = 3; if (pipe.WriterTryReadFront(&p)) got(p, 0);
            phase[0] = 4; if (pipe.ReaderTryReadBack(&p)) got(p, 0);
            phase[0] = 0;
            jitter(r);
        }
        phase[0] = 9;
    }
    void reader(int t, uint64_t seed) {
        Rng r(seed);
        ready++; while (ready < nthreads) {}
        while (!stop) {
            Payload p; phase[t] = 1;
            if (pipe.ReaderTryReadBack(&p)) got(p, t);
            phase[t] = 0;
            jitter(r);
        }
        phase[t] = 9;
    }
    std::string state() {
        char b[160]; unsigned cr = 0, inv = 0, oth = 0;
        for (uint32_t j = 0; j < P::ms_cSize; ++j) {
            uint32_t f = pipe.m_Flags[j];
            if (f == P::FLAG_CAN_READ) ++cr; else if (f == P::FLAG_INVALID) ++inv; else if (f != P::FLAG_CAN_WRITE) ++oth;
        }
        snprintf(b, sizeof b, "W=%u RC=%u RI=%u can_read=%u invalid=%u otherflag=%u", (unsigned)pipe.m_WriteIndex,
                 (unsigned)pipe.m_ReadCount, (unsigned)pipe.m_ReadIndex, cr, inv, oth);
        return b;
    }
    int run(int readers, uint64_t seed, uint32_t preset, const char* cmdline, double max_seconds) {
        nthreads = readers + 1;
        pipe.m_WriteIndex = preset; pipe.m_ReadCount = preset; pipe.m_ReadIndex = preset;
        std::vector<std::thread> th;
        std::atomic<int> done(0);
        th.push_back(std::thread([&] { owner(seed); done++; }));
        for (int t = 1; t <= readers; ++t) th.push_back(std::thread([&, t] { reader(t, seed * 7919 + t); done++; }));
        // watchdog: the owner finishes when every accepted item was delivered; a lost item, or a thread spinning
        // inside the pipe on inconsistent indices, shows as a stall
        auto t0 = std::chrono::steady_clock::now();
        uint32_t last = 0; auto tlast = t0;
        bool stalled = false, hang = false;
        while (phase[0] != 9) {
            std::this_thread::sleep_for(std::chrono::milliseconds(2));
            auto now = std::chrono::steady_clock::now();
            uint32_t cur = total + accepted;
            if (cur != last) { last = cur; tlast = now; }
            else if (std::chrono::duration<double>(now - tlast).count() > 3.0) { stalled = true; break; }
            // overall deadline (a normal run takes 1-2 s): e.g. a lost m_ReadCount increment does not stop the pipe, it makes
            // every WriterTryReadFront walk an ever longer stretch of dead indices
            // The deadline is measured in CPU time of this process (all threads), scaled by the number of worker threads, not in
            // wall time: on an idle machine the two agree (every thread spins), on a loaded machine a starved run is just slow
            // and must not be reported (observed false alarm: 20 busy loops + other checks, 141492/400000 items after 12 s wall,
            // indices consistent, everything accepted was delivered).
            {
                struct timespec ts; clock_gettime(CLOCK_PROCESS_CPUTIME_ID, &ts);
                double cpu = (double)ts.tv_sec + 1e-9 * (double)ts.tv_nsec;
                if (cpu > max_seconds * (double)(readers + 1)) { stalled = true; break; }
            }
        }
        stop = 1;
        {
            auto tj = std::chrono::steady_clock::now();
            while (done < readers + 1) {
                std::this_thread::sleep_for(std::chrono::milliseconds(1));
                if (std::chrono::duration<double>(std::chrono::steady_clock::now() - tj).count() > 3.0) { hang = true; break; }
            }
        }
        if (hang) {
            // a thread does not come back from a pipe operation although nobody else touches the pipe any more
            uint32_t lost = 0, dup = 0;
            for (uint32_t id = 1; id <= accepted && id <= items; ++id) { if (delivered[id] == 0 && !lost) lost = id; if (delivered[id] > 1 && !dup) dup = id; }
            uint32_t it = dup ? dup : lost;
            printf("FAIL hang item=%u count=%u accepted=%u delivered_total=%u first_duplicate=%u first_undelivered=%u torn=%u %s phases=", it,
                   it ? (unsigned)delivered[it] : 0u, (unsigned)accepted, (unsigned)total, dup, lost, (unsigned)torn, state().c_str());
            for (int t = 0; t <= readers; ++t) printf("%u", (unsigned)phase[t]);
            printf(" [a thread spins inside a pipe operation for 3 s; phase 1=write/readback 2,3=front 4=owner readback 9=finished] cmd=%s\n", cmdline);
            fflush(stdout);
            _exit(1);
        }
        for (size_t i = 0; i < th.size(); ++i) th[i].join();
        // quiescent now: sequential final drain (an item still queued here was not lost, a duplicate made total reach items early)
        Payload p; uint32_t late = 0;
        while (late < items + 8) {
            bool any = false;           // (with no CAN_READ flag left a read on corrupt indices could spin: do not call it)
            for (uint32_t j = 0; j < P::ms_cSize; ++j) any = any || pipe.m_Flags[j] == P::FLAG_CAN_READ;
            if (!any || !pipe.ReaderTryReadBack(&p)) break;
            got(p, 0); ++late;
        }
        if (torn) { printf("FAIL torn-payload item=%u count=%u %s cmd=%s\n", (unsigned)first_torn, (unsigned)torn, state().c_str(), cmdline); return 1; }
        if (foreign) { printf("FAIL delivered-not-accepted item=%u count=%u %s cmd=%s\n", (unsigned)first_foreign, (unsigned)foreign, state().c_str(), cmdline); return 1; }
        for (uint32_t id = 1; id <= items; ++id) {
            uint32_t c = delivered[id];
            bool acc = id <= accepted;
            if (acc && c != 1) { printf("FAIL %s item=%u count=%u accepted=%u delivered_total=%u %s cmd=%s\n", c == 0 ? "lost" : "duplicate", id, c, (unsigned)accepted, (unsigned)total, state().c_str(), cmdline); return 1; }
            if (!acc && c != 0) { printf("FAIL delivered-not-accepted item=%u count=%u %s cmd=%s\n", id, c, state().c_str(), cmdline); return 1; }
        }
        unsigned cr = 0, bad = 0;
        for (uint32_t j = 0; j < P::ms_cSize; ++j) { uint32_t f = pipe.m_Flags[j]; if (f == P::FLAG_CAN_READ) ++cr; else if (f != P::FLAG_CAN_WRITE) ++bad; }
        uint32_t diff = (uint32_t)pipe.m_WriteIndex - (uint32_t)pipe.m_ReadCount;
        if (diff != 0 || cr != 0 || bad != 0 || !pipe.IsPipeEmpty()) {
            printf("FAIL quiescent-state item=0 count=0 W-RC=%u %s cmd=%s\n", diff, state().c_str(), cmdline); return 1; }
        if (stalled) { printf("FAIL stall item=0 count=0 accepted=%u delivered_total=%u %s [no progress for 3 s, or not finished within the deadline] cmd=%s\n", (unsigned)accepted, (unsigned)total, state().c_str(), cmdline); return 1; }
        printf("OK k=%d readers=%d items=%u late=%u %s by=", (int)K, readers, (unsigned)accepted, late, state().c_str());
        for (int t = 0; t <= readers; ++t) printf("%s%u", t ? ":" : "", (unsigned)by[t]);
        printf("\n");
        return 0;
    }
};

static int mode_stress(int argc, char** argv) {
    if (argc < 6) { fprintf(stderr, "stress <k> <readers> <items> <seed> [preset [max_seconds]]\n"); return 2; }
    int k = atoi(argv[2]), readers = atoi(argv[3]); uint32_t items = (uint32_t)strtoul(argv[4], NULL, 10);
    uint64_t seed = strtoull(argv[5], NULL, 10); uint32_t preset = argc > 6 ? (uint32_t)strtoul(argv[6], NULL, 10) : 0;
    double max_s = argc > 7 ? atof(argv[7]) : 12.0;
    if (readers < 1 || readers > 7) return 2;
    std::string cmd;
    for (int i = 1; i < argc; ++i) { if (i > 1) cmd += " "; cmd += argv[i]; }
    switch (k) {
    case 1: { Stress<1>* s = new Stress<1>(items); return s->run(readers, seed, preset, cmd.c_str(), max_s); }
    case 2: { Stress<2>* s = new Stress<2>(items); return s->run(readers, seed, preset, cmd.c_str(), max_s); }
    case 3: { Stress<3>* s = new Stress<3>(items); return s->run(readers, seed, preset, cmd.c_str(), max_s); }
    case 8: { Stress<8>* s = new Stress<8>(items); return s->run(readers, seed, preset, cmd.c_str(), max_s); }
    }
    return 2;
}

int main(int argc, char** argv) {
    if (argc >= 2 && std::string(argv[1]) == "seq") return mode_seq(argc, argv);
    if (argc >= 2 && std::string(argv[1]) == "stress") return mode_stress(argc, argv);
    fprintf(stderr, "usage: pipe_harness seq [nowatchdog <progressfile>] | stress <k> <readers> <items> <seed> [preset]\n");
    return 2;
}
