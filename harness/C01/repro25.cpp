// C01, defect 25 through the public API only (internal backend; built WITHOUT sanitizers because
// tasking::schedule() on this backend has its own use-after-free, property C02, which ASan would stop at).
//   initTaskingSystem(3); park both workers in two scheduled spinning closures; schedule 300 trivial
//   closures (fills the caller's 256-slot pipe); parallel_for(n, f) for n in argv[1..].
// Unrepaired tree: n = 13 -> f(13) is called and the loop never terminates.
// prints "<n> cnt=<k> ok" per n, or "EXTRA n=<n> index=<i>" / "HANG n=<n>" (exit 4 / 3).
#include <atomic>
#include <chrono>
#include <cstdio>
#include <cstdlib>
#include <thread>
#include <vector>
#include <unistd.h>
#include "rkcommon/tasking/parallel_for.h"
#include "rkcommon/tasking/schedule.h"
#include "rkcommon/tasking/tasking_system_init.h"
using namespace rkcommon::tasking;

static std::atomic<int> g_cur(-1);
static std::atomic<long long> g_deadline(0);
static long long now_ms()
{
  return std::chrono::duration_cast<std::chrono::milliseconds>(std::chrono::steady_clock::now().time_since_epoch()).count();
}
int main(int argc, char **argv)
{
  std::thread([] {
    for (;;) {
      std::this_thread::sleep_for(std::chrono::milliseconds(20));
      long long d = g_deadline.load();
      if (d && now_ms() > d) { char b[64]; int k = snprintf(b, sizeof b, "HANG n=%d\n", g_cur.load()); if (write(1, b, k) < 0) {} _exit(3); }
    }
  }).detach();
  initTaskingSystem(3);
  std::atomic<int> parked(0), release(0), ran(0);
  std::atomic<int> *pp = &parked, *pr = &release, *pn = &ran;
  g_deadline = now_ms() + 8000;
  for (int k = 0; k < 2; ++k) schedule([=] { pp->fetch_add(1); while (!pr->load()) std::this_thread::yield(); });
  while (parked.load() < 2) std::this_thread::yield();
  for (int a = 1; a < argc; ++a) {
    int n = atoi(argv[a]);
    g_cur = n;
    for (int k = 0; k < 300; ++k) schedule([=] { pn->fetch_add(1); });
    std::vector<int> seen(n > 0 ? n : 0, 0);
    g_deadline = now_ms() + 8000;
    parallel_for(n, [&](int i) {
      if (i < 0 || i >= n) { char b[96]; int k = snprintf(b, sizeof b, "EXTRA n=%d index=%d\n", n, i); fflush(stdout); if (write(1, b, k) < 0) {} _exit(4); }
      seen[i]++;
    });
    int bad = 0, cnt = 0;
    for (int i = 0; i < n; ++i) { cnt += seen[i]; if (seen[i] != 1) bad++; }
    printf("%d cnt=%d %s\n", n, cnt, bad ? "BAD" : "ok");
    fflush(stdout);
  }
  release = 1;
  g_deadline = 0;
  fflush(stdout);
  _exit(0);
}
