// C01 harness: parallel_for / parallel_in_blocks_of / parallel_foreach on the backend selected at
// compile time (RKCOMMON_TASKING_TBB | _OMP | _INTERNAL | none = Debug).
// usage: harness <numThreads> [watchdog_ms]      cases on stdin, one observation line per case.
//   F <id> <type> <n> <cost> <depth>   parallel_for<type>(n) at nesting depth 0..2 (inside 3-wide int loops)
//   B <id> <type> <n> <B>              parallel_in_blocks_of<B,type>(n)
//   E <id> <count> <a> <b>             parallel_foreach over vector<long>(count) [begin+a, end-b)
//   H <id> <step> <step> ...          a HISTORY of loops in this process; steps (see do_H): ordinary loops that must be
//                                      complete, loops whose body throws (caller catches), nested loops with a failing inner loop
//   S <id> <nlo> <nhi> <box_ms>        join stress: short loops of trivial bodies for box_ms; every index must have run when the call returns
//   G <id> <type> <n> <B>              giant loop (B = 0: parallel_for, 64: parallel_in_blocks_of<64>) (top binades of a 32-bit index type), trivial body, exact oracle: shared bitmap
//   M <id> <distance>                  parallel_foreach over <distance> unsigned chars of an untouched NORESERVE mapping
//   T <id> <n> <prefill> <park>        (internal backend only) recorded ITaskSet(n) added through the enkiTS
//                                      API with <prefill> trivial sets already in the caller's pipe and, if
//                                      park=1, all workers parked in spinning sets
// The body records into plain (non-atomic) memory that the caller reads right after the loop returns,
// WITHOUT further synchronisation: a missing join shows as missing indices (and as a TSan report).
// A call with an index outside [0,n) prints "EXTRA ..." and exits 4 at once (the unrepaired internal backend
// would otherwise run 4e9 iterations or never terminate); a loop exceeding the watchdog prints "HANG .." (exit 3).
#include <atomic>
#include <chrono>
#include <cstdio>
#include <cstdlib>
#include <cstring>
#include <string>
#include <sstream>
#include <stdexcept>
#include <thread>
#include <vector>
#include <algorithm>
#include <unistd.h>
#include <sys/mman.h>
#include <signal.h>

#include "rkcommon/tasking/parallel_for.h"
#include "rkcommon/tasking/parallel_foreach.h"
#include "rkcommon/tasking/tasking_system_init.h"
#ifdef RKCOMMON_TASKING_INTERNAL
#include "rkcommon/tasking/detail/TaskSys.h"
#endif

using namespace rkcommon::tasking;
typedef unsigned long long u64;
typedef long long i64;

// ------------------------------------------------------------------ watchdog / fatal reports
static std::atomic<long long> g_deadline_ms(0);   // 0 = no loop running
static char g_case[256] = "?";
static std::atomic<int> g_fatal(0);
static long long now_ms()
{
  return std::chrono::duration_cast<std::chrono::milliseconds>(std::chrono::steady_clock::now().time_since_epoch()).count();
}
static void fatal_line(int code, const char *kind, const char *detail)
{
  if (g_fatal.exchange(1)) { for (;;) pause(); }
  char buf[600];
  int k = snprintf(buf, sizeof buf, "%s %s %s\n", kind, g_case, detail);
  fflush(stdout);
  if (write(1, buf, k) < 0) {}
  _exit(code);
}
static void watchdog_main()
{
  for (;;) {
    std::this_thread::sleep_for(std::chrono::milliseconds(20));
    long long d = g_deadline_ms.load();
    if (d && now_ms() > d) fatal_line(3, "HANG", "loop did not return before the watchdog expired");
  }
}
static long long g_wd_ms = 20000;
struct Armed {
  explicit Armed(int mult = 1) { g_deadline_ms = now_ms() + g_wd_ms * mult; }
  ~Armed() { g_deadline_ms = 0; }
};

// ------------------------------------------------------------------ per-thread plain counters
struct alignas(64) Slot { long long cnt; u64 sum; };
static Slot g_slots[1024];
static std::atomic<int> g_next_slot(0);
static thread_local int tl_slot = -1;
static inline Slot &my_slot()
{
  if (tl_slot < 0) { tl_slot = g_next_slot.fetch_add(1); if (tl_slot >= 1024) tl_slot = 1023; }
  return g_slots[tl_slot];
}
static void reset_slots() { for (auto &s : g_slots) { s.cnt = 0; s.sum = 0; } }

static void spin_us(int us)
{
  auto t = std::chrono::steady_clock::now() + std::chrono::microseconds(us);
  while (std::chrono::steady_clock::now() < t) {}
}

// ------------------------------------------------------------------ F: parallel_for
static const u64 CAP = 4000000ULL;       // above this only counters are kept (no per-index array)
struct Inst {
  std::vector<unsigned char> seen;       // plain counts per index
  std::vector<unsigned short> who;       // slot of the thread that ran it
  long long bad_first = -1;              // result of the check done right after the loop returned
  long long nbad = 0;
  int threads = 0;
};
struct FCase { u64 npos; int cost; bool big; };

static void extra_index(const FCase &c, long long si, u64 ui)
{
  char d[128];
  snprintf(d, sizeof d, "index=%lld (as u64 %llu) called but the range is [0,%llu)", si, ui, c.npos);
  fatal_line(4, "EXTRA", d);
}
static void record(const FCase &c, Inst &in, u64 k)
{
  Slot &s = my_slot();
  s.cnt++;
  s.sum += k;
  if (!c.big) {
    in.seen[(size_t)k]++;
    in.who[(size_t)k] = (unsigned short)tl_slot;
  }
  if (c.cost) {
    if (k + 1 == c.npos) std::this_thread::sleep_for(std::chrono::milliseconds(3));   // slow last index
    else if (k == 0) std::this_thread::sleep_for(std::chrono::milliseconds(1));
    else if (((k * 2654435761ULL) >> 7) % 251 == 0) spin_us(20);
  }
}
template <typename I>
static inline void body(const FCase &c, Inst &in, I i)
{
  bool inrange = !(i < I(0)) && (u64)i < c.npos;
  if (!inrange) extra_index(c, (i64)i, (u64)i);
  record(c, in, (u64)i);
}
static void post_check(const FCase &c, Inst &in)
{
  if (c.big) return;
  std::vector<char> th(1024, 0);
  for (u64 k = 0; k < c.npos; ++k) {
    if (in.seen[k] != 1) { if (in.bad_first < 0) in.bad_first = (long long)k; in.nbad++; }
    else th[in.who[k] % 1024] = 1;
  }
  for (char x : th) in.threads += x;
}
template <typename I>
static void run_inst(const FCase &c, Inst &in, I n)
{
  parallel_for(n, [&](I i) { body<I>(c, in, i); });
  post_check(c, in);           // immediately after return, no extra synchronisation
}
template <typename I>
static void nest(const FCase &c, std::vector<Inst> &insts, int depth, int base, I n)
{
  if (depth == 0) { run_inst<I>(c, insts[base], n); return; }
  parallel_for(3, [&](int o) { nest<I>(c, insts, depth - 1, base * 3 + o, n); });
}
static void report_F(const char *id, const FCase &c, std::vector<Inst> &insts, int ninst)
{
  long long cnt = 0; u64 sum = 0;
  for (auto &s : g_slots) { cnt += s.cnt; sum += s.sum; }
  long long nbad = 0, first = -1; int thr = 0;
  for (auto &in : insts) { nbad += in.nbad; if (first < 0) first = in.bad_first; thr = std::max(thr, in.threads); }
  bool even = (cnt % ninst) == 0;
  if (nbad == 0 && even && (c.big || (u64)(cnt / ninst) == c.npos))
    printf("%s cnt=%lld ok # thr=%d\n", id, cnt / ninst, thr);
  else
    printf("%s cnt=%lld BAD instances=%d total_calls=%lld wrong_indices=%lld first_wrong=%lld (count seen there: %d)\n", id,
           even ? cnt / ninst : -1, ninst, cnt, nbad, first,
           (first >= 0 && !c.big) ? (int)insts[0].seen[(size_t)first] : -1);
  fflush(stdout);
  (void)sum;
}
template <typename I>
static void do_F(const char *id, const char *nstr, int cost, int depth, bool is_signed)
{
  I n;
  u64 npos;
  if (is_signed) { i64 v = strtoll(nstr, 0, 10); n = (I)v; npos = v > 0 ? (u64)v : 0; }
  else { u64 v = strtoull(nstr, 0, 10); n = (I)v; npos = v; }
  FCase c{npos, cost, npos > CAP};
  int ninst = depth == 0 ? 1 : depth == 1 ? 3 : 9;
  std::vector<Inst> insts(ninst);
  if (!c.big) for (auto &in : insts) { in.seen.assign(npos + 1, 0); in.who.assign(npos + 1, 0); }
  reset_slots();
  {
    Armed a;
    nest<I>(c, insts, depth, 0, n);
  }
  report_F(id, c, insts, ninst);
}

// ------------------------------------------------------------------ B: parallel_in_blocks_of
struct Blk { u64 b, e; };
struct alignas(64) BSlot { std::vector<Blk> v; };
static BSlot g_bslots[1024];
static void extra_block(long long sb, long long se, u64 ub, u64 ue, const char *nstr, int bs)
{
  char d[160];
  snprintf(d, sizeof d, "block [%lld,%lld) (as u64 [%llu,%llu)) passed to f for n=%s B=%d", sb, se, ub, ue, nstr, bs);
  fatal_line(4, "EXTRA", d);
}
static void record_block(u64 b, u64 e) { my_slot(); g_bslots[tl_slot].v.push_back(Blk{b, e}); }
static void report_B(const char *id, bool is_signed, int bits)
{
  std::vector<Blk> all;
  for (auto &s : g_bslots) all.insert(all.end(), s.v.begin(), s.v.end());
  std::sort(all.begin(), all.end(), [](const Blk &x, const Blk &y) { return x.b < y.b || (x.b == y.b && x.e < y.e); });
  std::string out = std::string(id) + " nb=" + std::to_string(all.size());
  auto show = [&](const Blk &k) {
    char t[64];
    if (is_signed) snprintf(t, sizeof t, " [%lld,%lld)", bits == 32 ? (i64)(int)k.b : (i64)k.b, bits == 32 ? (i64)(int)k.e : (i64)k.e);
    else snprintf(t, sizeof t, " [%llu,%llu)", k.b, k.e);
    out += t;
  };
  if (all.size() <= 40) { for (auto &k : all) show(k); }
  else {
    // digest: first two, last two, chain flag, longest block
    bool chain = all[0].b == 0; u64 mx = 0;
    for (size_t k = 0; k < all.size(); ++k) {
      if (k + 1 < all.size() && all[k].e != all[k + 1].b) chain = false;
      if (all[k].e <= all[k].b) chain = false;
      mx = std::max(mx, all[k].e - all[k].b);
    }
    show(all[0]); show(all[1]); out += " .."; show(all[all.size() - 2]); show(all[all.size() - 1]);
    out += std::string(" chain=") + (chain ? "1" : "0") + " maxlen=" + std::to_string(mx);
  }
  printf("%s\n", out.c_str());
  fflush(stdout);
}
template <int BS, typename I>
static void do_B1(const char *id, const char *nstr, bool is_signed)
{
  I n;
  if (is_signed) n = (I)strtoll(nstr, 0, 10); else n = (I)strtoull(nstr, 0, 10);
  for (auto &s : g_bslots) s.v.clear();
  {
    Armed a;
    parallel_in_blocks_of<BS>(n, [&](I b, I e) {
      // a block must be a non-empty piece of [0,n) of at most BS indices
      if (!(n > I(0)) || b < I(0) || !(b < e) || (u64)e > (u64)n || (u64)e - (u64)b > (u64)BS)
        extra_block((i64)b, (i64)e, (u64)b, (u64)e, nstr, BS);
      record_block((u64)b, (u64)e);
    });
  }
  report_B(id, is_signed, (int)sizeof(I) * 8);
}
template <typename I>
static void do_B(const char *id, const char *nstr, int bs, bool is_signed)
{
  switch (bs) {
  case 1: do_B1<1, I>(id, nstr, is_signed); break;
  case 3: do_B1<3, I>(id, nstr, is_signed); break;
  case 4: do_B1<4, I>(id, nstr, is_signed); break;
  case 64: do_B1<64, I>(id, nstr, is_signed); break;
  case 1024: do_B1<1024, I>(id, nstr, is_signed); break;
  default: printf("%s unsupported-block-size\n", id); fflush(stdout);
  }
}

// ------------------------------------------------------------------ E: parallel_foreach
static void do_E(const char *id, long count, long a, long b)
{
  std::vector<long> v;
  v.reserve(count + 1);            // non-null data() also for count == 0 (see report: &*begin of an empty vector)
  v.assign(count, 7);
  std::vector<unsigned char> seen(count + 1, 0);
  long lo = std::min(a, count), hi = std::max(lo, count - b);
  long *base = v.data();
  reset_slots();
  {
    Armed arm;
    auto f = [&](long &x) {
      long k = &x - base;
      if (k < lo || k >= hi) {
        char d[96]; snprintf(d, sizeof d, "element offset=%ld passed to f but the range is [%ld,%ld)", k, lo, hi);
        fatal_line(4, "EXTRA", d);
      }
      x += 1; seen[k]++; my_slot().cnt++;
    };
    if (a == 0 && b == 0) parallel_foreach(v, f);
    else parallel_foreach(v.begin() + lo, v.begin() + hi, f);
  }
  long long cnt = 0; for (auto &s : g_slots) cnt += s.cnt;
  long nbad = 0, first = -1;
  for (long k = 0; k < count; ++k) {
    bool in = k >= lo && k < hi;
    if (v[k] != (in ? 8 : 7) || seen[k] != (in ? 1 : 0)) { nbad++; if (first < 0) first = k; }
  }
  if (nbad == 0 && cnt == hi - lo) printf("%s cnt=%lld ok\n", id, cnt);
  else printf("%s cnt=%lld BAD wrong_elements=%ld first_wrong=%ld\n", id, cnt, nbad, first);
  fflush(stdout);
}

// ------------------------------------------------------------------ H: histories of loops
// An exception may leave a loop body only where that is defined: tbb::parallel_for propagates it to the caller and the
// Debug backend is a plain serial loop.  An exception escaping an OpenMP structured block or an enkiTS worker is
// terminate()/undefined, so there the failing body handles its own exception ("s" semantics).
#if defined(RKCOMMON_TASKING_TBB) || (!defined(RKCOMMON_TASKING_OMP) && !defined(RKCOMMON_TASKING_INTERNAL))
#define C01_PROPAGATES 1
#else
#define C01_PROPAGATES 0
#endif
struct LoopFailure : std::runtime_error { LoopFailure() : std::runtime_error("cannot process this item") {} };

static std::string sum_check(const FCase &c, Inst &in, long long want_cnt)
{
  long long cnt = 0; for (auto &s : g_slots) cnt += s.cnt;
  if (in.nbad == 0 && cnt == want_cnt) return "ok";
  char b[160]; snprintf(b, sizeof b, "BAD(calls=%lld,wrong_indices=%lld,first_wrong=%lld,n=%llu)", cnt, in.nbad, in.bad_first, c.npos);
  return b;
}
// ordinary loop: every index exactly once, visible right after return
template <typename I> static std::string h_plain(u64 npos, I n)
{
  FCase c{npos, 0, false}; Inst in; in.seen.assign(npos + 1, 0); in.who.assign(npos + 1, 0);
  reset_slots();
  bool threw = false;
  try { Armed a; run_inst<I>(c, in, n); } catch (...) { threw = true; }
  if (threw) return "BAD(unexpected-exception,calls=" + std::to_string([&] { long long k = 0; for (auto &s : g_slots) k += s.cnt; return k; }()) + ")";
  return sum_check(c, in, (long long)npos);
}
// loop whose body fails at index bad.  propagate: the exception leaves the body (caller catches);
// otherwise the body handles it itself.  Required: propagate -> the caller sees the exception, no index twice, bad was
// run; handled -> the loop is complete.
template <typename I> static std::string h_failing(u64 npos, I n, u64 bad, bool propagate)
{
  FCase c{npos, 0, false}; Inst in; in.seen.assign(npos + 1, 0); in.who.assign(npos + 1, 0);
  reset_slots();
  bool threw = false;
  try {
    Armed a;
    parallel_for(n, [&](I i) {
      body<I>(c, in, i);
      if ((u64)i == bad) {
        if (propagate) throw LoopFailure();
        try { throw LoopFailure(); } catch (const LoopFailure &) {}
      }
    });
  } catch (const LoopFailure &) { threw = true; }
  if (!propagate || bad >= npos) { post_check(c, in); return threw ? "BAD(unexpected-exception)" : sum_check(c, in, (long long)npos); }
  u64 twice = 0; for (u64 k = 0; k < npos; ++k) twice += in.seen[k] > 1;
  if (!threw) return "BAD(exception-lost)";
  if (twice || in.seen[bad] != 1) return "BAD(index-twice-or-failing-index-not-run)";
  return "caught";
}
// outer loop of n0 items; every item runs an inner loop of n1; in item bad0 the inner body fails at bad1 and the item
// catches (propagating backends) or the inner body handles it.  Required: every outer item once, every inner loop of
// the other items complete, and the failing item's inner loop ran no index twice.
static std::string h_nested(int n0, int n1, int bad0, int bad1)
{
  std::vector<std::vector<unsigned char>> seen(n0, std::vector<unsigned char>(n1 + 1, 0));
  std::vector<unsigned char> outer(n0 + 1, 0), caught(n0 + 1, 0), complete(n0 + 1, 0);
  bool threw = false;
  try {
    Armed a;
    parallel_for(n0, [&](int o) {
      try {
        parallel_for(n1, [&](int j) {
          if (o < 0 || o >= n0 || j < 0 || j >= n1) fatal_line(4, "EXTRA", "nested index out of range");
          seen[o][j]++;
          if (o == bad0 && j == bad1) {
            if (C01_PROPAGATES) throw LoopFailure();
            try { throw LoopFailure(); } catch (const LoopFailure &) {}
          }
        });
      } catch (const LoopFailure &) { caught[o] = 1; }
      // right after the inner loop returned, inside the item
      bool all = true; for (int j = 0; j < n1; ++j) all = all && seen[o][j] == 1;
      complete[o] = all;
      outer[o]++;
    });
  } catch (...) { threw = true; }
  if (threw) return "BAD(exception-escaped-the-outer-loop)";
  for (int o = 0; o < n0; ++o) {
    if (outer[o] != 1) return "BAD(outer-item-" + std::to_string(o) + "-ran-" + std::to_string((int)outer[o]) + "-times)";
    bool failing = C01_PROPAGATES && o == bad0 && bad1 >= 0 && bad1 < n1;
    if (!failing && (!complete[o] || caught[o])) return "BAD(inner-loop-of-item-" + std::to_string(o) + "-incomplete)";
    if (failing) {
      if (!caught[o]) return "BAD(inner-exception-lost)";
      for (int j = 0; j < n1; ++j) if (seen[o][j] > 1) return "BAD(inner-index-twice)";
    }
  }
  return "ok";
}
static std::string h_foreach(long count, long bad)   // bad < 0: ordinary
{
  std::vector<long> v; v.reserve(count + 1); v.assign(count, 7);
  bool threw = false; bool prop = C01_PROPAGATES && bad >= 0 && bad < count;
  try {
    Armed a;
    parallel_foreach(v, [&](long &x) {
      long k = &x - v.data();
      x += 1;
      if (k == bad) { if (C01_PROPAGATES) throw LoopFailure(); try { throw LoopFailure(); } catch (const LoopFailure &) {} }
    });
  } catch (const LoopFailure &) { threw = true; }
  long wrong = 0; for (long k = 0; k < count; ++k) wrong += prop ? (v[k] > 8) : (v[k] != 8);
  if (prop) return !threw ? "BAD(exception-lost)" : wrong ? "BAD(element-twice)" : "caught";
  return threw ? "BAD(unexpected-exception)" : wrong ? "BAD(wrong_elements=" + std::to_string(wrong) + ")" : "ok";
}
template <int BS> static std::string h_blocks(int n, int badblock)   // badblock < 0: ordinary
{
  std::vector<unsigned char> cover(n > 0 ? n : 0, 0);
  int nb = n > 0 ? (n + BS - 1) / BS : 0;
  bool threw = false; bool prop = C01_PROPAGATES && badblock >= 0 && badblock < nb;
  try {
    Armed a;
    parallel_in_blocks_of<BS>(n, [&](int b, int e) {
      if (b < 0 || e > n || b >= e || e - b > BS) fatal_line(4, "EXTRA", "history: malformed block");
      for (int k = b; k < e; ++k) cover[k]++;
      if (b / BS == badblock) { if (C01_PROPAGATES) throw LoopFailure(); try { throw LoopFailure(); } catch (const LoopFailure &) {} }
    });
  } catch (const LoopFailure &) { threw = true; }
  long wrong = 0; for (int k = 0; k < n; ++k) wrong += prop ? (cover[k] > 1) : (cover[k] != 1);
  if (prop) return !threw ? "BAD(exception-lost)" : wrong ? "BAD(index-twice)" : "caught";
  return threw ? "BAD(unexpected-exception)" : wrong ? "BAD(uncovered_or_twice=" + std::to_string(wrong) + ")" : "ok";
}
template <typename I> static std::string h_loop(const std::vector<std::string> &f, bool is_signed, bool failing, bool propagate)
{
  I n; u64 npos;
  if (is_signed) { i64 v = strtoll(f[2].c_str(), 0, 10); n = (I)v; npos = v > 0 ? (u64)v : 0; }
  else { u64 v = strtoull(f[2].c_str(), 0, 10); n = (I)v; npos = v; }
  if (!failing) return h_plain<I>(npos, n);
  return h_failing<I>(npos, n, strtoull(f[3].c_str(), 0, 10), propagate);
}
// steps:  f:<ty>:<n>            ordinary parallel_for<ty>(n)                       -> ok
//         x:<ty>:<n>:<bad>      body throws at bad, caller catches (TBB, Debug)    -> caught
//         s:<ty>:<n>:<bad>      body throws and handles it itself at bad           -> ok
//         n:<n0>:<n1>:<b0>:<b1> nested, inner loop of item b0 fails at b1          -> ok
//         e:<count>  xe:<count>:<bad>   parallel_foreach, ordinary / failing      -> ok / caught (ok if handled in the body)
//         b:<n>:<B>  xb:<n>:<B>:<blk>   parallel_in_blocks_of<B>(int n), B in {4,64}
static void do_H(const char *id, const std::vector<std::string> &steps)
{
  std::string out = id;
  for (size_t k = 0; k < steps.size(); ++k) {
    std::vector<std::string> f; { std::stringstream ss(steps[k]); std::string t; while (std::getline(ss, t, ':')) f.push_back(t); }
    std::string r = "BAD(step-syntax)";
    const std::string &op = f[0];
    if ((op == "f" && f.size() == 3) || ((op == "x" || op == "s") && f.size() == 4)) {
      bool failing = op != "f", prop = op == "x" && C01_PROPAGATES;
      const std::string &ty = f[1];
      if (ty == "i") r = h_loop<int>(f, true, failing, prop);
      else if (ty == "sz") r = h_loop<size_t>(f, false, failing, prop);
      else if (ty == "uc") r = h_loop<unsigned char>(f, false, failing, prop);
      else if (ty == "l") r = h_loop<long>(f, true, failing, prop);
    } else if (op == "n" && f.size() == 5) r = h_nested(atoi(f[1].c_str()), atoi(f[2].c_str()), atoi(f[3].c_str()), atoi(f[4].c_str()));
    else if (op == "e" && f.size() == 2) r = h_foreach(atol(f[1].c_str()), -1);
    else if (op == "xe" && f.size() == 3) r = h_foreach(atol(f[1].c_str()), atol(f[2].c_str()));
    else if ((op == "b" && f.size() == 3) || (op == "xb" && f.size() == 4)) {
      int n = atoi(f[1].c_str()), B = atoi(f[2].c_str()), blk = op == "xb" ? atoi(f[3].c_str()) : -1;
      r = B == 4 ? h_blocks<4>(n, blk) : h_blocks<64>(n, blk);
    }
    out += " " + std::to_string(k) + "=" + r;
  }
  printf("%s\n", out.c_str());
  fflush(stdout);
}

// ------------------------------------------------------------------ G: giant loops with an exact oracle that scales
// n up to the maximum of a 32-bit index type.  One bit per index in a shared bitmap, set with an atomic fetch_or whose
// old value tells whether the index had already been run (duplicate); after the return the population count tells
// how many are missing.  n/8 bytes of memory (512 MB at 2^32-1), ~1 ns per index and thread.
template <typename I, int BS>
static void do_G(const char *id, const char *nstr, bool is_signed)
{
  I n; u64 npos;
  if (is_signed) { i64 v = strtoll(nstr, 0, 10); n = (I)v; npos = v > 0 ? (u64)v : 0; }
  else { u64 v = strtoull(nstr, 0, 10); n = (I)v; npos = v; }
  size_t words = (size_t)(npos / 64 + 1);
  std::atomic<u64> *bm = (std::atomic<u64> *)calloc(words, sizeof(u64));
  if (!bm) { printf("%s no-memory\n", id); fflush(stdout); return; }
  reset_slots();
  FCase c{npos, 0, true};
  {
    Armed a(8);
    auto mark = [&](I i) {
      u64 k = (u64)i;
      if (i < I(0) || k >= npos) extra_index(c, (i64)i, k);
      u64 bit = 1ULL << (k & 63);
      u64 old = bm[k >> 6].fetch_or(bit, std::memory_order_relaxed);
      Slot &s = my_slot();
      s.cnt++;
      if (old & bit) s.sum++;          // this index had already been run
    };
    if (BS == 0) parallel_for(n, mark);
    else parallel_in_blocks_of<(BS ? BS : 1)>(n, [&](I b, I e) {
      if (b < I(0) || !(b < e) || (u64)e > npos || (u64)e - (u64)b > (u64)BS) extra_block((i64)b, (i64)e, (u64)b, (u64)e, nstr, BS);
      for (I k = b; k < e; ++k) mark(k);
    });
  }
  u64 cnt = 0, dup = 0, have = 0; long long first_missing = -1;
  for (auto &s : g_slots) { cnt += (u64)s.cnt; dup += s.sum; }
  for (size_t w = 0; w < words; ++w) {
    u64 v = bm[w].load(std::memory_order_relaxed);
    have += (u64)__builtin_popcountll(v);
    if (first_missing < 0 && v != ~0ULL) {
      for (int b = 0; b < 64; ++b) { u64 k = (u64)w * 64 + b; if (k < npos && !(v >> b & 1)) { first_missing = (long long)k; break; } }
    }
  }
  free((void *)bm);
  if (cnt == npos && dup == 0 && have == npos) printf("%s cnt=%llu ok\n", id, cnt);
  else printf("%s cnt=%llu BAD indices_run_twice=%llu indices_never_run=%llu first_never_run=%lld n=%llu\n", id, cnt, dup, npos - have, first_missing, npos);
  fflush(stdout);
}

// ------------------------------------------------------------------ S: join stress (aimed at oversubscribed internal backend)
// Thousands of short loops with a trivial body in a time box.  Round r writes r into a HEAP array slot per index; when
// parallel_for returns every slot of [0,n) must hold r (plain reads, no further synchronisation): a slot still holding an
// older round is an index that had not run when the call returned.  After a miss the slots are read again after a pause:
// slots that changed meanwhile are writes by late workers after the return.  State-based: no timing threshold.
static volatile int g_s_round = 0, g_s_n = 0, g_s_T = 0;
static void stress_crash_handler(int sig)
{
  // a late worker ran on the caller's dead stack frame (the loop had returned): report the configuration, async-signal-safe
  char b[200];
  int k = snprintf(b, sizeof b, "%s BAD threads=%d n=%d round=%d crashed_with_signal=%d (work still running after parallel_for returned)\n",
                   g_case, g_s_T, g_s_n, g_s_round, sig);
  if (write(1, b, k) < 0) {}
  _exit(5);
}
static void do_S(const char *id, int nlo, int nhi, int box_ms, int T)
{
  g_s_T = T;
  signal(SIGSEGV, stress_crash_handler); signal(SIGBUS, stress_crash_handler); signal(SIGILL, stress_crash_handler);
  signal(SIGFPE, stress_crash_handler); signal(SIGABRT, stress_crash_handler);
  std::vector<unsigned> mark((size_t)nhi + 1, 0);
  unsigned round = 0;
  u64 x = 88172645463325252ULL ^ (u64)T ^ ((u64)nlo << 20) ^ (u64)now_ms();
  long long end = now_ms() + box_ms;
  while (now_ms() < end) {
    for (int rep = 0; rep < 32; ++rep) {
      ++round;
      x ^= x << 13; x ^= x >> 7; x ^= x << 17;
      int n = nlo + (int)(x % (u64)(nhi - nlo + 1));
      unsigned *m = mark.data();
      const unsigned r = round;
      g_s_round = (int)round; g_s_n = n;
      {
        Armed a;
        parallel_for(n, [m, r](int i) { m[i] = r; });
      }
      int missing = 0, first = -1;
      for (int i = 0; i < n; ++i) if (m[i] != r) { if (first < 0) first = i; missing++; }
      if (missing) {
        std::vector<int> miss; for (int i = 0; i < n; ++i) if (m[i] != r) miss.push_back(i);
        std::this_thread::sleep_for(std::chrono::milliseconds(50));
        int late = 0; for (int i : miss) late += m[i] == r;
        printf("%s BAD threads=%d n=%d round=%u indices_not_run_at_return=%d first=%d written_after_return=%d\n", id, T, n, round, missing, first, late);
        fflush(stdout);
        _exit(0);      // late workers may still hold the dead stack frame's task: stop here
      }
    }
  }
  printf("%s rounds=%u ok\n", id, round);
  fflush(stdout);
}

// ------------------------------------------------------------------ M: parallel_foreach over a huge sparse range
// d elements of unsigned char in a MAP_NORESERVE mapping; the body only takes the element's address (no page is
// touched) except for the last 64 elements, which it writes: a distance above INT_MAX costs no memory.
static void do_M(const char *id, u64 d)
{
  void *p = mmap(nullptr, (size_t)d + 4096, PROT_READ | PROT_WRITE, MAP_PRIVATE | MAP_ANONYMOUS | MAP_NORESERVE, -1, 0);
  if (p == MAP_FAILED) { printf("%s mmap-failed\n", id); fflush(stdout); return; }
  unsigned char *base = (unsigned char *)p;
  u64 tail = d < 64 ? d : 64;
  reset_slots();
  {
    Armed a(20);
    parallel_foreach(base, base + d, [&](unsigned char &x) {
      u64 k = (u64)(&x - base);
      if (k >= d) {
        char m[96]; snprintf(m, sizeof m, "element offset=%llu passed to f but the range has %llu elements", k, d);
        fatal_line(4, "EXTRA", m);
      }
      my_slot().cnt++;
      if (k >= d - tail) x = (unsigned char)(x + 1);
    });
  }
  u64 cnt = 0; for (auto &s : g_slots) cnt += (u64)s.cnt;
  u64 tailok = 0; for (u64 k = d - tail; k < d; ++k) tailok += base[k] == 1;
  if (cnt == d && tailok == tail) printf("%s cnt=%llu ok\n", id, cnt);
  else printf("%s cnt=%llu BAD last_elements_visited_once=%llu/%llu\n", id, cnt, tailok, tail);
  fflush(stdout);
  munmap(p, (size_t)d + 4096);
}

// ------------------------------------------------------------------ T: recorded task set (internal backend)
#ifdef RKCOMMON_TASKING_INTERNAL
struct Piece { uint32_t t, lo, hi; };
struct RecSet : public enki::ITaskSet {
  uint32_t n;
  std::vector<std::vector<Piece>> per;
  RecSet(uint32_t n_, int T) : enki::ITaskSet(n_), n(n_), per(T) {}
  void ExecuteRange(enki::TaskSetPartition tp, uint32_t threadnum) override
  {
    if (tp.end > n || tp.start >= tp.end || threadnum >= per.size()) {
      char d[128]; snprintf(d, sizeof d, "ExecuteRange([%u,%u), thread %u) outside the set [0,%u)", tp.start, tp.end, threadnum, n);
      fatal_line(4, "EXTRA", d);
    }
    per[threadnum].push_back(Piece{threadnum, tp.start, tp.end});
  }
};
struct SpinSet : public enki::ITaskSet {
  std::atomic<int> *parked; std::atomic<int> *release;
  SpinSet(std::atomic<int> *p, std::atomic<int> *r) : enki::ITaskSet(1), parked(p), release(r) {}
  void ExecuteRange(enki::TaskSetPartition, uint32_t) override { parked->fetch_add(1); while (!release->load()) std::this_thread::yield(); }
};
struct NopSet : public enki::ITaskSet {
  std::atomic<int> *ran;
  NopSet(std::atomic<int> *r) : enki::ITaskSet(1), ran(r) {}
  void ExecuteRange(enki::TaskSetPartition, uint32_t) override { ran->fetch_add(1); }
};
static void do_T(const char *id, uint32_t n, int prefill, int park, int T)
{
  std::atomic<int> parked(0), release(0), ran(0);
  std::vector<std::unique_ptr<SpinSet>> spins;
  std::vector<std::unique_ptr<NopSet>> nops;
  RecSet rec(n, T);
  {
    Armed arm;
    if (park && T > 1) {
      for (int k = 0; k < T - 1; ++k) { spins.emplace_back(new SpinSet(&parked, &release)); detail::scheduleTaskInternal(spins.back().get()); }
      while (parked.load() < T - 1) std::this_thread::yield();
    }
    for (int k = 0; k < prefill; ++k) { nops.emplace_back(new NopSet(&ran)); detail::scheduleTaskInternal(nops.back().get()); }
    detail::scheduleTaskInternal(&rec);
    detail::waitInternal(&rec);
    // snapshot of the record right after the wait returned (no further synchronisation)
    std::string out = std::string(id) + " T=" + std::to_string(T) + " n=" + std::to_string(n) + " pieces";
    for (auto &v : rec.per) for (auto &q : v) out += " " + std::to_string(q.t) + ":" + std::to_string(q.lo) + "-" + std::to_string(q.hi);
    release = 1;
    for (auto &s : spins) detail::waitInternal(s.get());
    for (auto &s : nops) detail::waitInternal(s.get());
    printf("%s\n", out.c_str());
    fflush(stdout);
  }
}
#endif

// ------------------------------------------------------------------ main
int main(int argc, char **argv)
{
  int T = argc > 1 ? atoi(argv[1]) : 1;
  if (argc > 2) g_wd_ms = atoll(argv[2]);
  std::thread(watchdog_main).detach();
  initTaskingSystem(T);
  static char line[8192];
  while (fgets(line, sizeof line, stdin)) {
    if (line[0] == 'H' && line[1] == ' ') {
      std::stringstream ss(line); std::string t, hid; std::vector<std::string> steps;
      ss >> t >> hid; while (ss >> t) steps.push_back(t);
      snprintf(g_case, sizeof g_case, "%s", hid.c_str());
      do_H(hid.c_str(), steps);
      continue;
    }
    char kind[8], id[64], a[64], b[64], c[64], d[64];
    a[0] = b[0] = c[0] = d[0] = 0;
    int k = sscanf(line, "%7s %63s %63s %63s %63s %63s", kind, id, a, b, c, d);
    if (k < 2) continue;
    snprintf(g_case, sizeof g_case, "%s", id);
    if (kind[0] == 'F') {
      std::string ty = a; int cost = atoi(c), depth = atoi(d);
      if (ty == "uc") do_F<unsigned char>(id, b, cost, depth, false);
      else if (ty == "sh") do_F<short>(id, b, cost, depth, true);
      else if (ty == "i") do_F<int>(id, b, cost, depth, true);
      else if (ty == "u") do_F<unsigned>(id, b, cost, depth, false);
      else if (ty == "l") do_F<long>(id, b, cost, depth, true);
      else if (ty == "ll") do_F<long long>(id, b, cost, depth, true);
      else if (ty == "ull") do_F<unsigned long long>(id, b, cost, depth, false);
      else if (ty == "sz") do_F<size_t>(id, b, cost, depth, false);
      else { printf("%s bad-type\n", id); fflush(stdout); }
    } else if (kind[0] == 'B') {
      std::string ty = a; int bs = atoi(c);
      if (ty == "i") do_B<int>(id, b, bs, true);
      else if (ty == "u") do_B<unsigned>(id, b, bs, false);
      else if (ty == "l") do_B<long>(id, b, bs, true);
      else if (ty == "ll") do_B<long long>(id, b, bs, true);
      else if (ty == "ull") do_B<unsigned long long>(id, b, bs, false);
      else if (ty == "sz") do_B<size_t>(id, b, bs, false);
      else { printf("%s bad-type\n", id); fflush(stdout); }
    } else if (kind[0] == 'E') {
      do_E(id, atol(a), atol(b), atol(c));
    } else if (kind[0] == 'G') {
      // time box for the whole family in this process (d = budget in ms, counted from the first G case): the loops are
      // CPU-bound, on a loaded machine the later (larger) ones are skipped rather than waited for
      static long long g_first = 0; if (!g_first) g_first = now_ms();
      long long budget = atoll(d);
      if (budget > 0 && now_ms() - g_first > budget) { printf("%s skipped-timebox\n", id); fflush(stdout); continue; }
      std::string ty = a; int bs = atoi(c);
      if (ty == "i" && bs == 0) do_G<int, 0>(id, b, true);
      else if (ty == "u" && bs == 0) do_G<unsigned, 0>(id, b, false);
      else if (ty == "i" && bs == 64) do_G<int, 64>(id, b, true);
      else if (ty == "u" && bs == 64) do_G<unsigned, 64>(id, b, false);
      else { printf("%s bad-type\n", id); fflush(stdout); }
    } else if (kind[0] == 'S') {
      do_S(id, atoi(a), atoi(b), atoi(c), T);
    } else if (kind[0] == 'M') {
      do_M(id, strtoull(a, 0, 10));
    } else if (kind[0] == 'T') {
#ifdef RKCOMMON_TASKING_INTERNAL
      do_T(id, (uint32_t)strtoul(a, 0, 10), atoi(b), atoi(c), T);
#else
      printf("%s not-internal\n", id); fflush(stdout);
#endif
    }
  }
  fflush(stdout);
  _exit(0);      // skip static destruction of the tasking system (not part of this property)
}
