// C17 harness: runs the index maps, for_each, the index-sequence iterators and the Array3D classes of the
// repository's working tree on the cases read from stdin; one canonical observation line per case.
// Case and output formats: see ocaml/C17/driver.ml (identical canonical form; one reading).
// Built twice by props/C17/check.py: plain (-fwrapv, arithmetic cases: a narrowed intermediate shows as a
// wrong number, not as a trap) and ASan+UBSan (loops and arrays: an out-of-bounds access is reported).
#include <sys/mman.h>
#include <cstdint>
#include <cstdio>
#include <iostream>
#include <memory>
#include <sstream>
#include <stdexcept>
#include <string>
#include <vector>
// narrower fallback builds (props/C17/check.py retries with these when the full harness does not compile against the tree):
//   -DC17_NO_RP        without Array3DRepeater;  -DC17_NO_ADAPTORS  without any adaptor;  -DC17_NO_ARRAYS  index maps, for_each, iterators only
#ifdef C17_NO_ARRAYS
#define C17_NO_ADAPTORS
#endif
#ifdef C17_NO_ADAPTORS
#define C17_NO_RP
#endif
#ifndef C17_NO_ARRAYS
#include "rkcommon/array3D/Array3D.h"
#endif
#include "rkcommon/array3D/for_each.h"
#include "rkcommon/math/box.h"
#include "rkcommon/utility/multidim_index_sequence.h"

using namespace rkcommon;
using namespace rkcommon::math;
using namespace rkcommon::array3D;

typedef unsigned long long u64;
typedef long long i64;

static std::string su(size_t v) { return std::to_string((u64)v); }
static std::string si(i64 v) { return std::to_string(v); }
static std::string s3(const vec3i &v) { return si(v.x) + "." + si(v.y) + "." + si(v.z); }
static std::string s3u(const vec_t<size_t, 3> &v) { return su(v.x) + "." + su(v.y) + "." + su(v.z); }
static std::string s2u(const vec_t<size_t, 2> &v) { return su(v.x) + "." + su(v.y); }
static std::string join(const std::vector<std::string> &v)
{
  if (v.empty()) return "-";
  std::string r;
  for (size_t i = 0; i < v.size(); ++i) { if (i) r += ","; r += v[i]; }
  return r;
}
static int value(int seed, int i)
{
  u64 h = ((u64)(i + 1) * (u64)(seed + 7) * 2654435761ULL) & 0xFFFFFFFFULL;
  return (int)((h >> 16) % 23) - 11;
}
#ifndef C17_NO_ARRAYS
template <typename T, typename F>
static std::shared_ptr<ActualArray3D<T>> filled(const vec3i &d, F f)
{
  auto a = std::make_shared<ActualArray3D<T>>(d);
  a->clear(T(0));
  for (int z = 0; z < d.z; ++z)
    for (int y = 0; y < d.y; ++y)
      for (int x = 0; x < d.x; ++x)
        a->set(vec3i(x, y, z), T(f(x + d.x * (y + d.y * z))));
  return a;
}
// G: get at every coordinate inside size() (the documented domain of the adaptors); GM (split only): the margin around it
template <typename A>
static std::string show_arr(const A &a, int ax, int bx, int ay, int by, int az, int bz, bool split)
{
  std::vector<std::string> g, gm;
  const vec3i s = a.size();
  for (int z = az; z < bz; ++z)
    for (int y = ay; y < by; ++y)
      for (int x = ax; x < bx; ++x) {
        const bool inside = x >= 0 && y >= 0 && z >= 0 && x < s.x && y < s.y && z < s.z;
        (split && !inside ? gm : g).push_back(si((i64)a.get(vec3i(x, y, z))));
      }
  return "S " + s3(a.size()) + " N " + su(a.numElements()) + " G " + join(g) + (split ? " GM " + join(gm) : "");
}

template <typename A>
static std::string show_range(const A &arr, const vec3i &b, const vec3i &e)
{
  auto r = arr.getValueRange(b, e);
  std::vector<std::string> g;
  for_each(b, e, [&](const vec3i &idx) { g.push_back(si((i64)arr.get(idx))); });
  std::string res = r.empty() ? std::string("R empty") : "R " + si((i64)r.lower) + " " + si((i64)r.upper);
  res += " G " + join(g);
  if (b == vec3i(0) && e == arr.size()) {       // the no-argument overload is getValueRange(vec3i(0), size())
    auto f = arr.getValueRange();
    if (f.empty() != r.empty() || (!f.empty() && (f.lower != r.lower || f.upper != r.upper))) res += " full-overload-differs";
  }
  return res;
}
template <typename A>
static std::string set_throws(A &arr)
{
  try { arr.set(vec3i(0), 1); } catch (const std::runtime_error &) { return ""; }
  return " set-does-not-throw";
}

#endif

int main()
{
  std::string line;
  while (std::getline(std::cin, line)) {
    std::istringstream in(line);
    std::string k;
    in >> k;
    std::ostringstream out;
    if (k == "F2") {
      u64 dx, dy;
      in >> dx >> dy;
      index_sequence_2D seq(vec_t<size_t, 2>(dx, dy));
      std::vector<std::string> f, r;
      for (u64 y = 0; y < dy; ++y)
        for (u64 x = 0; x < dx; ++x)
          f.push_back(su(seq.flatten(vec_t<size_t, 2>(x, y))));
      for (u64 i = 0; i < dx * dy; ++i)
        r.push_back(s2u(seq.reshape(i)));
      out << "T " << su(seq.total_indices()) << " F " << join(f) << " R " << join(r);
    } else if (k == "F3") {
      int dx, dy, dz;
      in >> dx >> dy >> dz;
      index_sequence_3D seq(vec_t<size_t, 3>(dx, dy, dz));
      const vec3i d(dx, dy, dz);
      std::vector<std::string> f, r, l, c;
      for (int z = 0; z < dz; ++z)
        for (int y = 0; y < dy; ++y)
          for (int x = 0; x < dx; ++x) {
            f.push_back(su(seq.flatten(vec_t<size_t, 3>(x, y, z))));
            l.push_back(su(longIndex(vec3i(x, y, z), d)));
          }
      for (int i = 0; i < dx * dy * dz; ++i) {
        r.push_back(s3u(seq.reshape(i)));
        c.push_back(s3(coordsOf(i, d)));
      }
      out << "T " << su(seq.total_indices()) << " P " << su(longProduct(d)) << " F " << join(f) << " R " << join(r)
          << " L " << join(l) << " C " << join(c);
    } else if (k == "P3" || k == "Q3") {
      u64 dx, dy, dz, x, y, z, i;
      in >> dx >> dy >> dz >> x >> y >> z >> i;
      index_sequence_3D seq(vec_t<size_t, 3>(dx, dy, dz));
      out << "T " << su(seq.total_indices()) << " F " << su(seq.flatten(vec_t<size_t, 3>(x, y, z))) << " R "
          << s3u(seq.reshape(i));
      if (k == "P3") {
        const vec3i d((int)dx, (int)dy, (int)dz), c((int)x, (int)y, (int)z);
        out << " P " << su(longProduct(d)) << " L " << su(longIndex(c, d)) << " C " << s3(coordsOf(i, d));
      }
    } else if (k == "P2") {
      u64 dx, dy, x, y, i;
      in >> dx >> dy >> x >> y >> i;
      index_sequence_2D seq(vec_t<size_t, 2>(dx, dy));
      out << "T " << su(seq.total_indices()) << " F " << su(seq.flatten(vec_t<size_t, 2>(x, y))) << " R "
          << s2u(seq.reshape(i));
    } else if (k == "FE") {
      vec3i lo, hi;
      in >> lo.x >> lo.y >> lo.z >> hi.x >> hi.y >> hi.z;
      std::vector<std::string> a, b, c;
      for_each(lo, hi, [&](const vec3i &idx) { a.push_back(s3(idx)); });
      for_each(box3i(lo, hi), [&](const vec3i &idx) { b.push_back(s3(idx)); });
      std::string res = join(a);
      if (join(b) != res) res += " box-overload-differs:" + join(b);
      if (lo == vec3i(0)) {
        for_each(hi, [&](const vec3i &idx) { c.push_back(s3(idx)); });
        if (join(c) != res) res += " size-overload-differs:" + join(c);
      }
      out << res;
    } else if (k == "IT3") {
      u64 dx, dy, dz;
      in >> dx >> dy >> dz;
      index_sequence_3D seq(vec_t<size_t, 3>(dx, dy, dz));
      const u64 cap = dx * dy * dz + 5;
      std::vector<std::string> post, pre, rf;
      u64 n = 0;
      for (auto it = seq.begin(); it != seq.end() && n < cap; it++, n++) post.push_back(s3u(*it));
      if (n >= cap) post.push_back("runaway");
      n = 0;
      for (auto it = seq.begin(); it != seq.end() && n < cap; ++it, n++) pre.push_back(s3u(*it));
      if (n >= cap) pre.push_back("runaway");
      n = 0;
      for (auto c : seq) { rf.push_back(s3u(c)); if (++n >= cap) { rf.push_back("runaway"); break; } }
      auto it = seq.begin();
      auto ret = ++it;
      out << "post " << join(post) << " pre " << join(pre) << " rf " << join(rf) << " ret " << su(it.current()) << "."
          << su(ret.current());
    } else if (k == "IT2") {
      u64 dx, dy;
      in >> dx >> dy;
      index_sequence_2D seq(vec_t<size_t, 2>(dx, dy));
      const u64 cap = dx * dy + 5;
      std::vector<std::string> post, pre, rf;
      u64 n = 0;
      for (auto it = seq.begin(); it != seq.end() && n < cap; it++, n++) post.push_back(s2u(*it));
      if (n >= cap) post.push_back("runaway");
      n = 0;
      for (auto it = seq.begin(); it != seq.end() && n < cap; ++it, n++) pre.push_back(s2u(*it));
      if (n >= cap) pre.push_back("runaway");
      n = 0;
      for (auto c : seq) { rf.push_back(s2u(c)); if (++n >= cap) { rf.push_back("runaway"); break; } }
      auto it = seq.begin();
      auto ret = ++it;
      out << "post " << join(post) << " pre " << join(pre) << " rf " << join(rf) << " ret " << su(it.current()) << "."
          << su(ret.current());
    } else if (k == "IO3" || k == "IO2") {
      // the remaining iterator / sequence members: 1-argument constructor, jump_to, current, + - (offset and iterator),
      // postfix-signature and prefix --, ==, dimensions().  "IO3 dx dy dz a b" with b <= a - 2 (no unsigned underflow)
      u64 dx, dy, dz = 1, a, b;
      in >> dx >> dy;
      if (k == "IO3") in >> dz;
      in >> a >> b;
      std::vector<std::string> c;
      std::string dimtxt, eqtxt;
      if (k == "IO3") {
        const vec_t<size_t, 3> d(dx, dy, dz);
        index_sequence_3D seq(d);
        dimtxt = s3u(seq.dimensions());
        multidim_index_iterator<3> it(d);
        c.push_back(su(it.current()));
        it.jump_to(a); c.push_back(su(it.current()));
        it + (size_t)b; c.push_back(su(it.current()));
        multidim_index_iterator<3> other(d, b);
        it + other; c.push_back(su(it.current()));
        it - other; c.push_back(su(it.current()));
        it - (size_t)b; c.push_back(su(it.current()));
        it--; c.push_back(su(it.current()));
        auto r = --it; c.push_back(su(it.current())); c.push_back(su(r.current()));
        eqtxt = std::string(it == multidim_index_iterator<3>(d, it.current()) ? "1" : "0") + (it == other ? "1" : "0")
            + (it == multidim_index_iterator<3>(vec_t<size_t, 3>(dx + 1, dy, dz), it.current()) ? "1" : "0")
            + (it != multidim_index_iterator<3>(d, it.current()) ? "1" : "0");
      } else {
        const vec_t<size_t, 2> d(dx, dy);
        index_sequence_2D seq(d);
        dimtxt = s2u(seq.dimensions());
        multidim_index_iterator<2> it(d);
        c.push_back(su(it.current()));
        it.jump_to(a); c.push_back(su(it.current()));
        it + (size_t)b; c.push_back(su(it.current()));
        multidim_index_iterator<2> other(d, b);
        it + other; c.push_back(su(it.current()));
        it - other; c.push_back(su(it.current()));
        it - (size_t)b; c.push_back(su(it.current()));
        it--; c.push_back(su(it.current()));
        auto r = --it; c.push_back(su(it.current())); c.push_back(su(r.current()));
        eqtxt = std::string(it == multidim_index_iterator<2>(d, it.current()) ? "1" : "0") + (it == other ? "1" : "0")
            + (it == multidim_index_iterator<2>(vec_t<size_t, 2>(dx + 1, dy), it.current()) ? "1" : "0")
            + (it != multidim_index_iterator<2>(d, it.current()) ? "1" : "0");
      }
      out << "D " << dimtxt << " C " << join(c) << " E " << eqtxt;
#ifndef C17_NO_ARRAYS
    } else if (k == "AR") {
      vec3i d;
      int n;
      in >> d.x >> d.y >> d.z >> n;
      ActualArray3D<int> a(d);
      a.clear(0);
      for (int j = 0; j < n; ++j) {
        vec3i c;
        int v;
        in >> c.x >> c.y >> c.z >> v;
        a.set(c, v);
      }
      std::vector<std::string> g, x;
      for (int z = -2; z < d.z + 2; ++z)
        for (int y = -2; y < d.y + 2; ++y)
          for (int xx = -2; xx < d.x + 2; ++xx)
            g.push_back(si(a.get(vec3i(xx, y, z))));
      for (int z = 0; z < d.z; ++z)
        for (int y = 0; y < d.y; ++y)
          for (int xx = 0; xx < d.x; ++xx)
            x.push_back(su(a.indexOf(vec3i(xx, y, z))));
      out << "N " << su(a.numElements()) << " G " << join(g) << " X " << join(x);
#endif
#ifndef C17_NO_ADAPTORS
    } else if (k == "SH") {
      vec3i d, s;
      in >> d.x >> d.y >> d.z >> s.x >> s.y >> s.z;
      auto base = filled<int>(d, [](int i) { return 1 + i; });
      IndexShiftedArray3D<int> sh(base, s);
      out << show_arr(sh, -2, d.x + 2, -2, d.y + 2, -2, d.z + 2, true) << set_throws(sh);
#endif
#ifndef C17_NO_RP
    } else if (k == "RP") {
      vec3i d, r;
      in >> d.x >> d.y >> d.z >> r.x >> r.y >> r.z;
      std::shared_ptr<Array3D<int>> base = filled<int>(d, [](int i) { return 1 + i; });
      Array3DRepeater<int> rp(base, r);
      out << show_arr(rp, -2, 2 * r.x + 2, -2, 2 * r.y + 2, -2, 2 * r.z + 2, true);
#endif
#ifndef C17_NO_ADAPTORS
    } else if (k == "SB") {
      vec3i d, lo, hi;
      in >> d.x >> d.y >> d.z >> lo.x >> lo.y >> lo.z >> hi.x >> hi.y >> hi.z;
      auto base = filled<int>(d, [](int i) { return 1 + i; });
      SubBoxArray3D<int> sb(base, box3i(lo, hi));
      out << show_arr(sb, -2, hi.x - lo.x + 2, -2, hi.y - lo.y + 2, -2, hi.z - lo.z + 2, true) << set_throws(sb);
#endif
#ifndef C17_NO_ADAPTORS
    } else if (k == "AC") {
      vec3i d;
      int seed;
      in >> d.x >> d.y >> d.z >> seed;
      auto base = filled<int>(d, [seed](int i) { return value(seed, i) * 37 - 1000; });
      Array3DAccessor<int, float> af(base);
      Array3DAccessor<int, unsigned char> ab(base);
      std::vector<std::string> gf, gb;
      for (int z = -2; z < d.z + 2; ++z)
        for (int y = -2; y < d.y + 2; ++y)
          for (int x = -2; x < d.x + 2; ++x) {
            gf.push_back(si((i64)af.get(vec3i(x, y, z))));
            gb.push_back(si((i64)ab.get(vec3i(x, y, z))));
          }
      out << "S " << s3(af.size()) << " N " << su(af.numElements()) << " GF " << join(gf) << " GB " << join(gb);
      if (!(ab.size() == af.size()) || ab.numElements() != af.numElements()) out << " accessor-size-differs";
#endif
#ifndef C17_NO_ADAPTORS
    } else if (k == "MS") {
      int dx, dy, dzs, n, seed;
      in >> dx >> dy >> dzs >> n >> seed;
      std::vector<std::shared_ptr<Array3D<int>>> slices;
      for (int s = 0; s < n; ++s)
        slices.push_back(filled<int>(vec3i(dx, dy, dzs), [seed, s](int i) { return value(seed + s, i); }));
      MultiSliceArray3D<int> ms(slices);
      out << show_arr(ms, 0, dx, 0, dy, -2, n + 2, false) << set_throws(ms);
#endif
#ifndef C17_NO_ARRAYS
    } else if (k == "VR") {
      vec3i d, b, e;
      int seed;
      in >> d.x >> d.y >> d.z >> seed >> b.x >> b.y >> b.z >> e.x >> e.y >> e.z;
      auto base = filled<int>(d, [seed](int i) { return value(seed, i); });
      range_t<int> r = base->getValueRange(b, e);
      if (r.empty()) out << "empty";
      else out << si(r.lower) << " " << si(r.upper);
      if (b == vec3i(0) && e == d) {
        range_t<int> f = base->getValueRange();
        if (f.empty() != r.empty() || (!f.empty() && (f.lower != r.lower || f.upper != r.upper))) out << " full-overload-differs";
      }
#endif
#ifndef C17_NO_ADAPTORS
    } else if (k == "VA") {
      // getValueRange THROUGH an adaptor, together with the adaptor's own get() over the same region:
      // "VA kind dx dy dz seed p0..p5 bx by bz ex ey ez" -> "R lo hi|empty G v,v,..."
      std::string kind;
      vec3i d, b, e;
      int seed, p[6];
      in >> kind >> d.x >> d.y >> d.z >> seed;
      for (int j = 0; j < 6; ++j) in >> p[j];
      in >> b.x >> b.y >> b.z >> e.x >> e.y >> e.z;
      auto cell = [seed](int i) { return value(seed, i) * 37 - 100; };
      std::shared_ptr<Array3D<int>> base = filled<int>(d, cell);
      if (kind == "AB") { Array3DAccessor<int, unsigned char> a(base); out << show_range(a, b, e); }
      else if (kind == "AS") { Array3DAccessor<int, char> a(base); out << show_range(a, b, e); }
      else if (kind == "AI") { Array3DAccessor<int, float> a(base); out << show_range(a, b, e); }
      else if (kind == "AF") {
        std::shared_ptr<Array3D<float>> fb = filled<float>(d, [cell](int i) { return cell(i) / 4.0f; });
        Array3DAccessor<float, int> a(fb);
        out << show_range(a, b, e);
      }
      else if (kind == "SH") { IndexShiftedArray3D<int> a(base, vec3i(p[0], p[1], p[2])); out << show_range(a, b, e); }
      else if (kind == "SB") { SubBoxArray3D<int> a(base, box3i(vec3i(p[0], p[1], p[2]), vec3i(p[3], p[4], p[5]))); out << show_range(a, b, e); }
#ifndef C17_NO_RP
      else if (kind == "RP") { Array3DRepeater<int> a(base, vec3i(p[0], p[1], p[2])); out << show_range(a, b, e); }
#endif
      else if (kind == "MS") {
        std::vector<std::shared_ptr<Array3D<int>>> slices;
        for (int s2 = 0; s2 < p[0]; ++s2)
          slices.push_back(filled<int>(d, [seed, s2](int i) { return value(seed + s2, i) * 37 - 100; }));
        MultiSliceArray3D<int> a(slices);
        out << show_range(a, b, e);
      }
      else out << "unsupported-in-this-build";
#endif
#ifndef C17_NO_ARRAYS
    } else if (k == "BG") {
      // a >2^32-cell array of bytes in untouched (lazily zero) virtual memory: nothing is allocated
      // until a page is written.  "BG dx dy dz x y z v idx": set(c, v); observe get(c), the raw byte at
      // the expected linear index idx, numElements, indexOf.
      vec3i d, c;
      int v;
      u64 idx;
      in >> d.x >> d.y >> d.z >> c.x >> c.y >> c.z >> v >> idx;
      const u64 bytes = (u64)d.x * (u64)d.y * (u64)d.z;
      void *mem = mmap(nullptr, bytes, PROT_READ | PROT_WRITE, MAP_PRIVATE | MAP_ANONYMOUS | MAP_NORESERVE, -1, 0);
      if (mem == MAP_FAILED) {
        out << "nomap";
      } else {
        {
          ActualArray3D<unsigned char> a(d, mem);
          a.set(c, (unsigned char)v);
          out << "N " << su(a.numElements()) << " X " << su(a.indexOf(c)) << " G " << si(a.get(c)) << " RAW "
              << si(((unsigned char *)mem)[idx]) << " G0 " << si(a.get(vec3i(-3, -3, -3)));
        }
        munmap(mem, bytes);
      }
#endif
    } else {
      out << "unsupported-in-this-build";
    }
    std::cout << out.str() << std::endl;   // flushed per case: after a crash the last complete line identifies the failing case
  }
  return 0;
}
