// C03 stress families that use ONLY the public interface of rkcommon::tasking::AsyncLoop (no private state, no
// scheduling hooks): they build and run whatever shape the class's internals have.
//
//   stress tight <THREAD|TASK|AUTO> <nthreads> <max_cycles> <seed> <budget_ms>
//   stress long  <THREAD|TASK|AUTO> <nthreads> <max_body_us> <seed> <budget_ms>
//
// "long": body durations spanning decades (1 us ... max_body_us, a handful of long ones); stop() -- and, for a loop that
// owns its thread, the destructor -- is called while the body is INSIDE (the body publishes that in its own atomic).
// Oracle, on state only: when stop() / ~AsyncLoop() returns, the body's own flag says it is NOT inside and the invocation
// that was in flight has finished (its exit counter moved); the timestamps of body exit and of the return are reported.
//
// "tight": the body is (almost) empty -- it increments an atomic counter -- so the loop thread spends nearly all its
// time in AsyncLoop's own flag handling, and start()/stop() are called in tight cycles with random tiny pauses.
// This reaches races whose window lies INSIDE one statement of the loop thread (e.g. a non-atomic read-modify-write
// of a merged flag word), which no schedule over the scheduling points can.
//
// Oracles (by counters, decided on state, never on elapsed time):
//   * after stop() has returned the counter does not change until start() is called again: sampled right after the
//     return, again after a short pause, and again just before the next start();  an observed change is re-sampled
//     (the counter keeps moving / moved) and is a fact about the run, not a timing judgement;
//   * after start() has returned the counter advances;  "lost" only if the loop thread is seen BLOCKED in the kernel
//     (state S, CPU time not advancing) on 50 consecutive samples although it should run.
// Time-boxed: runs until max_cycles or budget_ms, reports the cycles done.  A watchdog declares a hang only after
// 30 s (x C03_PATIENCE) without any progress of the cycle / body counters and dumps the thread states.
#include <atomic>
#include <chrono>
#include <cstdio>
#include <cstdlib>
#include <cstring>
#include <string>
#include <thread>
#include <dirent.h>
#include <sys/syscall.h>
#include <unistd.h>

#include "rkcommon/tasking/AsyncLoop.h"
#include "rkcommon/tasking/tasking_system_init.h"

using rkcommon::tasking::AsyncLoop;

static int g_patience = 1;
static long now_ms()
{
  return (long)std::chrono::duration_cast<std::chrono::milliseconds>(std::chrono::steady_clock::now().time_since_epoch()).count();
}
static int my_tid()
{
  return (int)syscall(SYS_gettid);
}
struct TStat
{
  bool ok;
  char state;
  unsigned long long cpu;
};
static TStat tstat(int tid)
{
  TStat r{false, '?', 0};
  char path[64], buf[1024];
  snprintf(path, sizeof path, "/proc/self/task/%d/stat", tid);
  FILE *f = fopen(path, "r");
  if (!f)
    return r;
  size_t n = fread(buf, 1, sizeof buf - 1, f);
  fclose(f);
  buf[n]  = 0;
  char *q = strrchr(buf, ')');
  unsigned long long ut = 0, st = 0;
  char c = '?';
  if (q && sscanf(q + 2, "%c %*d %*d %*d %*d %*d %*u %*u %*u %*u %*u %llu %llu", &c, &ut, &st) == 3) {
    r.ok    = true;
    r.state = c;
    r.cpu   = ut + st;
  }
  return r;
}
struct BlockWatch
{
  int tid = 0, consec = 0;
  unsigned long long cpu0 = ~0ULL;
  bool sample(int need)
  {
    if (tid <= 0)
      return false;
    TStat s = tstat(tid);
    if (!s.ok)
      return false;
    if (s.state == 'S' && s.cpu == cpu0)
      consec++;
    else {
      consec = 0;
      cpu0   = s.cpu;
    }
    return consec >= need;
  }
};
static void dump_threads(const char *why)
{
  printf("THREAD-DUMP (%s):", why);
  if (DIR *d = opendir("/proc/self/task")) {
    while (struct dirent *e = readdir(d)) {
      int tid = atoi(e->d_name);
      if (tid > 0) {
        TStat s = tstat(tid);
        printf(" tid=%d state=%c cpu=%llu;", tid, s.state, s.cpu);
      }
    }
    closedir(d);
  }
  printf("\n");
}
static void busy_us(unsigned us)
{
  auto t0 = std::chrono::steady_clock::now();
  while (std::chrono::steady_clock::now() - t0 < std::chrono::microseconds(us)) {
  }
}

// start-progress oracle: after start() has returned, wait until `moved()`; however long a STARVED (runnable) loop thread
// needs.  Returns false -- a lost wake-up -- only when the loop thread is seen BLOCKED in the kernel (state S, CPU time not
// advancing) on 50 (x patience) consecutive samples 40 ms apart although it should run (or, while its tid is still unknown
// because the body has never run, after 60 s x patience).
template <class F>
static bool wait_progress(F moved, std::atomic<int> &ltid, long *samples = nullptr)
{
  BlockWatch w;
  long ts = now_ms(), t0 = ts, n = 0;
  while (!moved()) {
    busy_us(10);
    long now = now_ms();
    if (now - ts >= 40) {
      ts    = now;
      n++;
      w.tid = ltid.load();
      if (w.sample(50 * g_patience) || (w.tid <= 0 && now - t0 > 60000L * g_patience)) {
        if (samples)
          *samples = n;
        return false;
      }
    }
  }
  if (samples)
    *samples = n;
  return true;
}

static std::atomic<long> g_progress{0};
static std::atomic<int> g_phase{0};
static std::atomic<long> g_cycle{0};

static int tight(const char *mname, int method, int nthreads, long max_cycles, unsigned seed, long budget_ms)
{
  std::atomic<long> counter{0};
  std::atomic<int> ltid{0};
  long ran_after_stop = 0, first_bad = -1, bad_at_stop = 0, bad_later = 0, bad_resample = 0, lost = 0, done = 0;
  long first_lost = -1, lost_counter = 0, b2b_checked = 0;
  bool lost_b2b = false;
  const char *bad_where = "";
  long t_start = now_ms();
  {
    AsyncLoop loop(
        [&] {
          long c = counter.fetch_add(1, std::memory_order_relaxed);
          if (c < 2)
            ltid.store(my_tid(), std::memory_order_relaxed);
        },
        (AsyncLoop::LaunchMethod)method);
    g_phase    = 1;
    unsigned x = seed * 2654435761u + 977u;
    for (long c = 0; c < max_cycles && (c < 50 || now_ms() - t_start < budget_ms); c++) {
      g_cycle = c;
      x       = x * 1664525u + 1013904223u;
      long c0 = counter.load();
      loop.start();
      if ((x >> 7) % 5 == 0)
        loop.start();  // redundant
      // style of this cycle: back-to-back (the stop() of this cycle is followed by the next start() with NO pause and no
      // sampling in between; start-progress is checked in every such cycle) or paced (pauses, stop-oracle sampling)
      bool b2b = (x >> 3) % 2 == 0;
      if (b2b || c % 8 == 0) {
        // progress after start(): the counter must advance
        if (!wait_progress([&] { return counter.load() != c0; }, ltid)) {
          lost++;
          if (first_lost < 0) {
            first_lost    = c;
            lost_counter  = counter.load();
            lost_b2b      = b2b;
          }
          break;  // the loop thread sleeps for good: nothing more to learn from this object
        }
        b2b_checked += b2b;
      } else
        busy_us((x >> 12) % 24);
      loop.stop();
      if (b2b) {
        done++;
        g_progress++;
        continue;                        // next start() immediately
      }
      long c1 = counter.load();          // stop() has returned: no body invocation may begin from here on ...
      if ((x >> 20) % 5 == 0)
        loop.stop();  // redundant
      busy_us(1 + (x >> 24) % 40);
      long c2 = counter.load();
      if (c % 16 == 0)
        std::this_thread::yield();
      long c3 = counter.load();          // ... until the next start() (top of the next iteration)
      if (c2 != c1 || c3 != c1) {
        // re-sample: does it keep moving?  (a fact about this run, recorded with the counters)
        busy_us(200);
        long c4 = counter.load();
        ran_after_stop++;
        if (first_bad < 0) {
          first_bad    = c;
          bad_at_stop  = c1;
          bad_later    = c3;
          bad_resample = c4;
          bad_where    = c2 != c1 ? "within the first pause after stop() returned" : "before the next start()";
        }
        if (ran_after_stop >= 5)
          break;
      }
      done++;
      g_progress++;
    }
    g_phase = 2;
  }  // destructor
  g_phase = 3;
  printf("TIGHT method=%s nthreads=%d num_tasking_threads=%d cycles_done=%ld body_runs=%ld ran_after_stop=%ld first_bad_cycle=%ld "
         "counter_when_stop_returned=%ld counter_before_next_start=%ld counter_resampled=%ld where=[%s] lost_wakeups=%ld wall_ms=%ld "
         "back_to_back_checked=%ld first_lost_cycle=%ld lost_after_back_to_back=%d counter_stuck_at=%ld\n",
         mname, nthreads, rkcommon::tasking::numTaskingThreads(), done, counter.load(), ran_after_stop, first_bad, bad_at_stop, bad_later,
         bad_resample, bad_where, lost, now_ms() - t_start, b2b_checked, first_lost, (int)lost_b2b, lost_counter);
  return 0;
}

static long now_us()
{
  return (long)std::chrono::duration_cast<std::chrono::microseconds>(std::chrono::steady_clock::now().time_since_epoch()).count();
}

struct LongBody
{
  std::atomic<bool> inside{false};
  std::atomic<long> enters{0}, exits{0}, t_exit_us{0}, dur_us{1};
  std::atomic<int> ltid{0};
  void operator()()
  {
    long d = dur_us.load();
    if (!ltid.load(std::memory_order_relaxed))
      ltid = my_tid();
    enters++;
    inside = true;
    if (d >= 1000)
      std::this_thread::sleep_for(std::chrono::microseconds(d));   // long bodies sleep: no CPU needed, immune to load
    else
      busy_us((unsigned)d);
    t_exit_us = now_us();
    inside    = false;
    exits++;
    g_progress++;
  }
};

static int long_body(const char *mname, int method, int nthreads, long max_body_us, unsigned seed, long budget_ms)
{
  static const long decades[] = {1, 10, 100, 1000, 10000, 100000, 400000, 1200000};
  long t_start = now_ms();
  long tested = 0, mid_body = 0, bad_stop = 0, bad_dtor = 0, dtor_tested = 0;
  long bad_dur = -1, bad_late_us = 0, lost_start = 0, lost_dur = -1;
  const char *bad_what = "";
  bool owns = method == (int)AsyncLoop::THREAD || (method == (int)AsyncLoop::AUTO && rkcommon::tasking::numTaskingThreads() <= 4);
  (void)seed;
  g_phase = 1;
  // ---- stop() in the middle of a body invocation
  {
    LongBody b;
    AsyncLoop loop([&b] { b(); }, (AsyncLoop::LaunchMethod)method);
    for (long d : decades) {
      if (d > max_body_us || (now_ms() - t_start > budget_ms && d > 1000))
        continue;
      g_cycle = d;
      b.dur_us = d;
      long e0 = b.enters.load();
      loop.start();
      // wait until an invocation with this duration is inside (short bodies: inside only in passing) -- or the start is lost
      if (!wait_progress([&] { return (b.enters.load() != e0 && b.inside.load()) || (b.enters.load() > e0 + 3 && d < 1000); }, b.ltid)) {
        lost_start++;
        if (lost_dur < 0)
          lost_dur = d;
        break;
      }
      bool was_inside = b.inside.load();
      long x0 = b.exits.load();
      loop.stop();
      long t_ret     = now_us();
      bool inside_now = b.inside.load();                    // THE oracle: a fact, not a time measurement
      long x1 = b.exits.load();
      tested++;
      g_progress++;
      if (was_inside)
        mid_body++;
      if (inside_now) {
        bad_stop++;
        while (b.inside.load())                             // let the invocation finish; how late was it?
          busy_us(50);
        if (bad_dur < 0) {
          bad_dur     = d;
          bad_late_us = b.t_exit_us.load() - t_ret;
          bad_what    = "stop() returned while the body invocation was still inside";
        }
      } else if (was_inside && x1 == x0 && d >= 1000) {
        // it was inside when stop() was called and is not now, yet no invocation finished: cannot happen
        bad_stop++;
        if (bad_dur < 0) {
          bad_dur  = d;
          bad_what = "inconsistent: inside before stop(), not inside after, no invocation finished";
        }
      }
    }
    g_phase = 2;
  }
  // ---- destructor in the middle of a body invocation (only constrained when the loop owns its thread)
  if (owns)
    for (long d : {1000L, 100000L, 400000L}) {
      if (d > max_body_us || now_ms() - t_start > 2 * budget_ms)
        continue;
      LongBody *b = new LongBody;        // leaked on purpose if the destructor fails to wait (the thread may still use it)
      b->dur_us   = d;
      {
        AsyncLoop loop([b] { (*b)(); }, (AsyncLoop::LaunchMethod)method);
        loop.start();
        if (!wait_progress([&] { return b->inside.load(); }, b->ltid)) {
          lost_start++;
          if (lost_dur < 0)
            lost_dur = d;
        }
      }  // ~AsyncLoop() while the body is inside, no stop() before
      long t_ret = now_us();
      dtor_tested++;
      g_progress++;
      if (b->inside.load()) {
        bad_dtor++;
        while (b->inside.load())
          busy_us(50);
        if (bad_dur < 0) {
          bad_dur     = d;
          bad_late_us = b->t_exit_us.load() - t_ret;
          bad_what    = "~AsyncLoop() returned while the body invocation was still inside";
        }
      } else
        delete b;
    }
  g_phase = 3;
  printf("LONG method=%s nthreads=%d num_tasking_threads=%d owns_thread=%d durations_tested=%ld stop_called_mid_body=%ld "
         "stop_returned_while_inside=%ld dtor_tested=%ld dtor_returned_while_inside=%ld first_bad_body_us=%ld body_exit_after_return_us=%ld "
         "what=[%s] wall_ms=%ld lost_wakeups=%ld lost_at_body_us=%ld\n",
         mname, nthreads, rkcommon::tasking::numTaskingThreads(), (int)owns, tested, mid_body, bad_stop, dtor_tested, bad_dtor, bad_dur,
         bad_late_us, bad_what, now_ms() - t_start, lost_start, lost_dur);
  return 0;
}

int main(int argc, char **argv)
{
  if (const char *e = getenv("C03_PATIENCE"))
    g_patience = atoi(e) > 0 ? atoi(e) : 1;
  if (argc < 8 || strcmp(argv[1], "stress") || (strcmp(argv[2], "tight") && strcmp(argv[2], "long"))) {
    fprintf(stderr, "usage: stress stress tight|long <THREAD|TASK|AUTO> <nthreads> <max_cycles|max_body_us> <seed> <budget_ms>\n");
    return 2;
  }
  const char *mname = argv[3];
  int method = !strcmp(mname, "AUTO") ? (int)AsyncLoop::AUTO : !strcmp(mname, "THREAD") ? (int)AsyncLoop::THREAD : (int)AsyncLoop::TASK;
  int n      = atoi(argv[4]);
  if (n > 0)
    rkcommon::tasking::initTaskingSystem(n);
  if (getenv("C03_HEARTBEAT"))
    std::thread([] {
      for (;;) {
        fprintf(stderr, "HB %ld %ld\n", now_ms(), g_progress.load());
        fflush(stderr);
        std::this_thread::sleep_for(std::chrono::seconds(1));
      }
    }).detach();
  std::thread([] {
    long last = -1, since = now_ms();
    for (;;) {
      std::this_thread::sleep_for(std::chrono::milliseconds(250));
      if (g_phase.load() == 3)
        return;
      long p = g_progress.load() + g_phase.load();
      if (p != last) {
        last  = p;
        since = now_ms();
      } else if (now_ms() - since > 30000L * g_patience) {
        printf("STRESS-HANG no progress for %ld s: phase=%d (0 construct 1 cycling 2 destroying) cycle=%ld\n", (now_ms() - since) / 1000,
               g_phase.load(), g_cycle.load());
        dump_threads("tight stress");
        fflush(stdout);
        _exit(5);
      }
    }
  }).detach();
  if (!strcmp(argv[2], "long"))
    return long_body(mname, method, n, atol(argv[5]), (unsigned)atol(argv[6]), atol(argv[7]));
  return tight(mname, method, n, atol(argv[5]), (unsigned)atol(argv[6]), atol(argv[7]));
}
