// C03 harness: forces model-chosen schedules on the real rkcommon::tasking::AsyncLoop.
//
//   harness probe                         -> "HOOKS=0|1"
//   harness replay        (stdin: lines "R <T|K> tok tok ...")   one observation line per input line
//   harness explore <T|K> [maxstates]     breadth-first exploration of the IMPLEMENTATION's own state graph
//                                         under the scheduling controller, with the property oracles
//   harness stress <T|K> <cycles> <seed> <inject 0|1>            unforced start/stop cycles
//
// tokens: L loop thread runs to its next point | W spurious wake-up of the sleeping loop thread |
//         s p d  controller calls start()/stop()/destroys the AsyncLoop | C controller runs to its next point
//
// Observation after every step (same text as ocaml/C03/driver.ml prints for the model):
//   L:<point> C:<point> a=<alive> r=<running> i=<inside> act=<body active> sr=<stop returned> st=<start returned> dr=<dtor returned>
// followed by " !VIOL:<kind>" when the independent oracle sees the property violated on the real code.
#include <atomic>
#include <chrono>
#include <condition_variable>
#include <cstdio>
#include <cstdlib>
#include <cstring>
#include <deque>
#include <functional>
#include <iostream>
#include <map>
#include <memory>
#include <mutex>
#include <set>
#include <sstream>
#include <string>
#include <thread>
#include <vector>
#include <unistd.h>

#include "rkcommon/traits/rktraits.h"
#include "rkcommon/tasking/schedule.h"
#include "rkcommon/tasking/tasking_system_init.h"
#if defined(__has_include)
#if __has_include("rkcommon/verif_hook.h")
#include "rkcommon/verif_hook.h"
#endif
#endif

// ---------------------------------------------------------------------------------------------
// std::atomic wrapper used ONLY for the members of AsyncLoop (textual substitution while its header
// is read): lets the un-hooked fallback inject short random delays right after every atomic access.
static std::atomic<int> g_inject{0};
static void c03_inject()
{
  if (!g_inject.load(std::memory_order_relaxed))
    return;
  static thread_local unsigned long long x = 0;
  if (x == 0)
    x = 88172645463325252ULL ^ (unsigned long long)std::hash<std::thread::id>()(std::this_thread::get_id()) ^
        (unsigned long long)g_inject.load();
  x ^= x << 13;
  x ^= x >> 7;
  x ^= x << 17;
  unsigned r = (unsigned)(x >> 33);
  if (r % 4 == 0)
    std::this_thread::sleep_for(std::chrono::microseconds(1 + (r >> 4) % 60));
  else if (r % 4 == 1)
    std::this_thread::yield();
}
namespace std {
  template <class T>
  struct verif_atomic : public atomic<T>
  {
    verif_atomic() noexcept = default;
    constexpr verif_atomic(T v) noexcept : atomic<T>(v) {}
    T operator=(T v) noexcept
    {
      store(v);
      return v;
    }
    operator T() const noexcept
    {
      return load();
    }
    T load(memory_order m = memory_order_seq_cst) const noexcept
    {
      T v = atomic<T>::load(m);
      c03_inject();
      return v;
    }
    void store(T v, memory_order m = memory_order_seq_cst) noexcept
    {
      atomic<T>::store(v, m);
      c03_inject();
    }
  };
}  // namespace std

#define private public
#define atomic verif_atomic
#include "rkcommon/tasking/AsyncLoop.h"
#undef atomic
#undef private

#ifdef RKCOMMON_VERIF_SCOPE
#define HAVE_HOOKS 1
#else
#define HAVE_HOOKS 0
#endif

using rkcommon::tasking::AsyncLoop;
typedef AsyncLoop::AsyncLoopData Data;
template <class A>
static bool rd(const A &a)
{
  return static_cast<const std::atomic<bool> &>(a).load();
}
static long now_ms()
{
  return (long)std::chrono::duration_cast<std::chrono::milliseconds>(
             std::chrono::steady_clock::now().time_since_epoch())
      .count();
}

// ---------------------------------------------------------------------------------------------
// Load-robust timing.  No decision of this harness is taken on elapsed wall time alone: a thread that
// has not reached its next point is either RUNNABLE (starved by other load: keep waiting) or BLOCKED
// in the kernel (state S in /proc/self/task/<tid>/stat, CPU time not advancing) on consecutive samples.
// C03_PATIENCE (default 1) multiplies every sample count / budget; the check re-runs anything suspicious
// with C03_PATIENCE=4 before it reports.
#include <dirent.h>
#include <sys/syscall.h>
static int g_patience = 1;
// progress counter for the check's supervisor (C03_HEARTBEAT=1: "HB <ms> <count>" on stderr every second):
// a child killed at its deadline is judged by whether this counter was still moving, not by elapsed time
static std::atomic<long> g_hb{0};
static int my_tid()
{
  return (int)syscall(SYS_gettid);
}
struct TStat
{
  bool ok;
  char state;
  unsigned long long cpu;  // utime + stime, clock ticks
};
static TStat tstat(int tid)
{
  TStat r{false, '?', 0};
  char path[64], buf[1024];
  snprintf(path, sizeof path, "/proc/self/task/%d/stat", tid);
  FILE *f = fopen(path, "r");
  if (!f)
    return r;
  size_t n = fread(buf, 1, sizeof buf - 1, f);
  fclose(f);
  buf[n]  = 0;
  char *q = strrchr(buf, ')');
  unsigned long long ut = 0, st = 0;
  char c = '?';
  if (q && sscanf(q + 2, "%c %*d %*d %*d %*d %*d %*u %*u %*u %*u %*u %llu %llu", &c, &ut, &st) == 3) {
    r.ok    = true;
    r.state = c;
    r.cpu   = ut + st;
  }
  return r;
}
// consecutive samples "sleeping in the kernel and not consuming CPU"
struct BlockWatch
{
  int tid = 0, consec = 0, gone = 0;
  unsigned long long cpu0 = ~0ULL;
  explicit BlockWatch(int t = 0) : tid(t) {}
  bool sample(int need)
  {
    if (tid <= 0)
      return false;
    TStat s = tstat(tid);
    if (!s.ok) {  // thread has exited
      gone++;
      return gone >= need;
    }
    if (s.state == 'S' && s.cpu == cpu0)
      consec++;
    else {
      consec = 0;
      cpu0   = s.cpu;
    }
    return consec >= need;
  }
};
static void dump_threads(const char *why)
{
  printf("THREAD-DUMP (%s):", why);
  DIR *d = opendir("/proc/self/task");
  if (d) {
    while (struct dirent *e = readdir(d)) {
      int tid = atoi(e->d_name);
      if (tid <= 0)
        continue;
      TStat s = tstat(tid);
      printf(" tid=%d state=%c cpu=%llu;", tid, s.state, s.cpu);
    }
    closedir(d);
  }
  printf("\n");
}
static const int SAMPLE_MS = 40;

// ---------------------------------------------------------------------------------------------
// scheduling controller
enum
{
  RL = 0,
  RC = 1
};
struct Slot
{
  bool parked = false, go = false;
  std::string point;
  int value = -1;
  unsigned long arrivals = 0;
  int tid = 0;
};
static std::atomic<const char *> last_point[2];  // also maintained when running freely (hang dumps)
static std::atomic<int> last_tid[2];
static std::mutex G;
static std::condition_variable GCV;
static Slot slot[2];
static std::atomic<bool> free_run{true};
static std::atomic<bool> loop_exited{false};

static void park(int r, const char *name, int value)  // called by loop / controller thread
{
  std::unique_lock<std::mutex> lk(G);
  Slot &s   = slot[r];
  s.point   = name;
  s.value   = value;
  s.tid     = my_tid();
  s.parked  = true;
  s.arrivals++;
  GCV.notify_all();
  GCV.wait(lk, [&] { return s.go || free_run.load(); });
  s.go     = false;
  s.parked = false;
}
static void hook_fn(const char *name, int value)
{
  bool is_exit = !strcmp(name, "loop.exit");
  bool is_loop = !strncmp(name, "loop.", 5) || !strncmp(name, "body.", 5);
  last_point[is_loop ? RL : RC].store(name, std::memory_order_relaxed);
  if (!free_run.load()) {
    park(is_loop ? RL : RC, name, value);
  } else if (last_tid[is_loop ? RL : RC].load(std::memory_order_relaxed) == 0)
    last_tid[is_loop ? RL : RC].store(my_tid(), std::memory_order_relaxed);
  if (is_exit)
    loop_exited = true;
}

// requested launch method / size of the tasking system for this process (C03_METHOD, C03_NTHREADS);
// g_method < 0: take THREAD / TASK from the schedule line's launch letter
static int g_method   = -1;
static int g_nthreads = 0;

struct Run
{
  bool thread_launch;   // the launch the MODEL prescribes (resolve method nthreads): what the oracles require
  bool joinable = true; // what the real object did: owns a joinable thread
  AsyncLoop *al = nullptr;
  std::shared_ptr<Data> data;
  std::thread ctl;
  // ghost / observation state
  std::atomic<bool> active{false}, stop_ret{false}, start_ret{false}, dtor_ret{false};
  std::atomic<long> enters{0}, exits{0}, enter_after_stop{0};
  // controller thread mailbox (under G)
  char pending = 0;
  bool quit    = false;
  std::atomic<bool> ctl_exited{false};
  bool destroyed = false;
  // scheduler's view of the loop thread
  enum
  {
    RUNNING,
    ASLEEP,
    WOKEN,
    DONE
  } lmode = RUNNING;
  std::string stuck, late_disabled, hang_detail;

  void body()
  {
    enters++;
    if (stop_ret.load())
      enter_after_stop++;
    active = true;
    hook_fn("body.inside", -1);
    if (stop_ret.load())
      enter_after_stop++;
    active = false;
    exits++;
  }

  void controller_main()
  {
    for (;;) {
      char op;
      {
        std::unique_lock<std::mutex> lk(G);
        Slot &s  = slot[RC];
        s.point  = destroyed ? "ctl.dead" : "ctl.idle";
        s.value  = -1;
        s.tid    = my_tid();
        s.parked = true;
        s.arrivals++;
        GCV.notify_all();
        GCV.wait(lk, [&] { return s.go || quit; });
        if (!s.go && quit) {
          s.parked = false;
          break;
        }
        s.go     = false;
        s.parked = false;
        op       = pending;
      }
      if (op == 's') {
        stop_ret = false;
        al->start();
        start_ret = true;
      } else if (op == 'p') {
        start_ret = false;
        al->stop();
        stop_ret = true;
      } else if (op == 'd') {
        start_ret = false;
        delete al;
        al        = nullptr;
        destroyed = true;
        dtor_ret  = true;
      }
    }
    if (al) {  // free-running clean-up
      delete al;
      al = nullptr;
    }
    ctl_exited = true;
  }

  bool wait_arrival(int r, unsigned long prev, int timeout_ms)
  {
    std::unique_lock<std::mutex> lk(G);
    return GCV.wait_for(lk, std::chrono::milliseconds(timeout_ms),
                        [&] { return slot[r].arrivals > prev && slot[r].parked; });
  }
  int tid_of(int r)
  {
    std::lock_guard<std::mutex> lk(G);
    return slot[r].tid;
  }
  // 1 = arrived; 0 = the thread is BLOCKED in the kernel (not merely starved) / has exited; -1 = gave up
  // after a very long time although the thread was runnable all along
  int wait_arrival_robust(int r, unsigned long prev, int need_samples = 10)
  {
    BlockWatch w(tid_of(r));
    long t0 = now_ms();
    for (;;) {
      if (wait_arrival(r, prev, SAMPLE_MS))
        return 1;
      if (w.tid <= 0)
        w.tid = tid_of(r);
      if (w.sample(need_samples * g_patience))
        return wait_arrival(r, prev, 0) ? 1 : 0;
      if (now_ms() - t0 > 600000L)
        return -1;
    }
  }
  unsigned long arrivals(int r)
  {
    std::lock_guard<std::mutex> lk(G);
    return slot[r].arrivals;
  }
  bool parked(int r)
  {
    std::lock_guard<std::mutex> lk(G);
    return slot[r].parked;
  }
  std::string point(int r)
  {
    std::lock_guard<std::mutex> lk(G);
    return slot[r].point;
  }
  int value(int r)
  {
    std::lock_guard<std::mutex> lk(G);
    return slot[r].value;
  }
  void grant(int r)
  {
    std::lock_guard<std::mutex> lk(G);
    slot[r].go = true;
    GCV.notify_all();
  }
  bool mutex_free()
  {
    if (data->runningMutex.try_lock()) {
      data->runningMutex.unlock();
      return true;
    }
    return false;
  }
  static bool holds_mutex_point(const std::string &p)
  {
    return p.find(".locked") != std::string::npos || p.find(".after_set") != std::string::npos ||
           p.find(".after_clear") != std::string::npos;
  }

  explicit Run(bool thr) : thread_launch(thr)
  {
    {
      std::lock_guard<std::mutex> lk(G);
      slot[0] = Slot();
      slot[1] = Slot();
    }
    loop_exited = false;
    free_run    = false;
    al          = new AsyncLoop([this] { body(); }, g_method >= 0 ? (AsyncLoop::LaunchMethod)g_method
                                                                 : (thr ? AsyncLoop::THREAD : AsyncLoop::TASK));
    data        = al->loop;
    joinable    = al->backgroundThread.joinable();
    ctl         = std::thread([this] { controller_main(); });
    // thread start-up (std::thread / detached thread of the tasking backend) can be slow on a loaded
    // machine; the threads have no tid yet, so this is the one purely time-based wait: 10 minutes
    if (!wait_arrival(RC, 0, 600000))
      stuck = "controller thread did not start";
    if (!wait_arrival(RL, 0, 600000))
      stuck = "loop thread did not reach its first scheduling point";
  }

  // after a controller step: the loop thread may have been notified and re-lock on its own
  void settle_wake()
  {
    if (lmode != WOKEN)
      return;
    // the notified thread is runnable now; it parks at the predicate unless it blocks on the mutex
    // (held by the controller): wait for one of the two, however long a starved thread needs
    if (holds_mutex_point(point(RC)))
      return;
    wait_arrival_robust(RL, arrivals_at_sleep);
  }
  unsigned long arrivals_at_sleep = 0;

  // ---- enabledness as the harness sees it
  bool enabled(char tok, std::string *why = nullptr, bool *unforcible = nullptr)
  {
    std::string w;
    bool en = false;
    if (tok == 'L') {
      if (lmode == DONE)
        w = "loop thread finished";
      else if (lmode == ASLEEP)
        w = "loop thread asleep, not notified";
      else if (lmode == WOKEN) {
        en = parked(RL);
        if (!en)
          w = "woken loop thread still blocked on the mutex";
      } else {
        if (point(RL) == "loop.before_lock" && !mutex_free())
          w = "mutex busy";
        else
          en = true;
      }
    } else if (tok == 'W') {
      en = (lmode == ASLEEP) && mutex_free();
      if (!en)
        w = "no sleeping un-notified loop thread (or mutex busy)";
    } else if (tok == 's' || tok == 'p' || tok == 'd') {
      en = point(RC) == "ctl.idle";
      if (!en)
        w = "controller not idle";
    } else if (tok == 'C') {
      std::string p = point(RC);
      if (p == "ctl.idle" || p == "ctl.dead")
        w = "controller idle";
      else if ((p == "start.after_check" || p == "dtor.before_lock") && !mutex_free()) {
        w = "mutex busy";
        if (lmode == WOKEN && unforcible)
          *unforcible = true;
      } else if (p == "dtor.after_notify" && joinable && lmode != DONE)
        w = "join: loop thread has not finished";
      else
        en = true;
    }
    if (why)
      *why = w;
    return en;
  }

  // ---- execute one token (must be enabled)
  bool exec(char tok)
  {
    g_hb++;
    if (tok == 'L') {
      if (lmode == WOKEN) {
        lmode = RUNNING;  // it re-locked by itself and is parked at the predicate
        return true;
      }
      std::string p    = point(RL);
      int v            = value(RL);
      unsigned long a0 = arrivals(RL);
      grant(RL);
      if (p == "loop.exit") {
        lmode = DONE;
        BlockWatch w(tid_of(RL));
        long ts = now_ms();
        while (!loop_exited.load()) {
          std::this_thread::sleep_for(std::chrono::microseconds(100));
          if (now_ms() - ts >= SAMPLE_MS) {
            ts = now_ms();
            if (w.sample(10 * g_patience))
              break;
          }
        }
        return true;
      }
      if (p == "loop.pred_evaluated" && v == 0) {
        BlockWatch w(tid_of(RL));
        long t0 = now_ms(), ts = t0;
        for (;;) {
          if (arrivals(RL) > a0 && parked(RL))
            return true;  // (did not sleep -- some other code shape)
          if (mutex_free()) {  // released atomically with going to sleep
            lmode             = ASLEEP;
            arrivals_at_sleep = arrivals(RL);
            return true;
          }
          std::this_thread::sleep_for(std::chrono::microseconds(100));
          if (now_ms() - ts >= SAMPLE_MS) {
            ts = now_ms();
            if (w.sample(25 * g_patience) || ts - t0 > 600000L)
              break;
          }
        }
        stuck = "loop thread blocked without releasing the mutex after a false predicate";
        return false;
      }
      if (wait_arrival_robust(RL, a0, 25) != 1) {
        if (p.compare(0, 9, "loop.pred") == 0 && mutex_free()) {
          lmode             = ASLEEP;
          arrivals_at_sleep = arrivals(RL);
          return true;
        }
        stuck = "loop thread did not reach a scheduling point after " + p;
        return false;
      }
      return true;
    }
    if (tok == 'W') {
      unsigned long a0 = arrivals(RL);
      data->runningCond.notify_one();
      if (wait_arrival_robust(RL, a0, 25) != 1) {
        stuck = "sleeping loop thread did not wake on notify";
        return false;
      }
      lmode = RUNNING;
      return true;
    }
    // controller
    unsigned long a0 = arrivals(RC);
    bool busy        = !mutex_free();  // a step that then blocks was not announced by a *.before_lock point
    {
      std::lock_guard<std::mutex> lk(G);
      if (tok != 'C')
        pending = tok;
      slot[RC].go = true;
      GCV.notify_all();
    }
    if (wait_arrival_robust(RC, a0, busy ? 10 : 25) != 1) {
      if (busy && !mutex_free()) {
        late_disabled = "controller blocks on the mutex after leaving " + point(RC);
        return false;
      }
      stuck = "controller did not reach a scheduling point after " + point(RC);
      return false;
    }
    std::string q = point(RC);
    if (q.size() > 13 && q.compare(q.size() - 13, 13, ".after_notify") == 0 && lmode == ASLEEP)
      lmode = WOKEN;
    settle_wake();
    return true;
  }

  std::string lname()
  {
    if (lmode == DONE)
      return "done";
    if (lmode == ASLEEP)
      return "asleep";
    if (lmode == WOKEN)
      return "woken";
    std::string p = point(RL);
    int v         = value(RL);
    if (v >= 0)
      p += "=" + std::to_string(v);
    return p;
  }
  std::string obs()
  {
    char buf[512];
    snprintf(buf, sizeof buf, "L:%s C:%s a=%d r=%d i=%d act=%d sr=%d st=%d dr=%d", lname().c_str(),
             point(RC).c_str(), (int)rd(data->threadShouldBeAlive), (int)rd(data->shouldBeRunning),
             (int)rd(data->insideLoopBody), (int)active.load(), (int)stop_ret.load(), (int)start_ret.load(),
             (int)dtor_ret.load());
    return buf;
  }
  // independent oracle on the real code's own state
  std::string oracle()
  {
    if (joinable != thread_launch)
      return "launch";  // the object did not take the launch method the constructor's resolution prescribes
    if (stop_ret.load() && active.load())
      return "stop_safe";
    if (enter_after_stop.load() > 0)
      return "stop_safe";
    if (thread_launch && dtor_ret.load() && (active.load() || lmode != DONE))
      return "dtor_safe";
    return "";
  }
  bool is_final()
  {
    return point(RC) == "ctl.dead" && lmode == DONE;
  }

  // let everything run freely and tear down; false = something hangs
  bool finish()
  {
    free_run = true;
    {
      std::lock_guard<std::mutex> lk(G);
      quit = true;
      GCV.notify_all();
    }
    // A hang is declared only on evidence that does not depend on the machine's load:
    //   - every unfinished thread is blocked in the kernel on 50 consecutive samples (2 s), or
    //   - an unfinished thread has burnt 1.5 s of CPU time in a tear-down that needs microseconds (livelock)
    long t0 = now_ms(), ts = t0, tforced = 0;
    bool forced = false, hung = false;
    BlockWatch wc(tid_of(RC)), wl(tid_of(RL));
    TStat c0 = tstat(wc.tid), l0 = tstat(wl.tid);
    bool bc = false, bl = false;
    for (;;) {
      bool cdone = ctl_exited.load(), ldone = loop_exited.load();
      if (cdone && ldone)
        break;
      long now = now_ms();
      if (!forced && now - ts >= SAMPLE_MS) {
        ts = now;
        bc = cdone || wc.sample(50 * g_patience);
        bl = ldone || wl.sample(50 * g_patience);
        TStat c1 = tstat(wc.tid), l1 = tstat(wl.tid);
        unsigned long long budget = 150ULL * g_patience;
        bool spin = (!cdone && c0.ok && c1.ok && c1.cpu - c0.cpu > budget) || (!ldone && l0.ok && l1.ok && l1.cpu - l0.cpu > budget);
        if ((bc && bl) || spin || now - t0 > 900000L) {
          forced  = true;  // emergency release so that the process can go on
          hung    = true;
          tforced = now;
          const char *pl = last_point[RL].load(), *pc = last_point[RC].load();
          hang_detail = std::string(spin ? "livelock" : "all threads blocked") + ": loop thread last point " + (pl ? pl : "?") +
                        ", controller last point " + (pc ? pc : "?");
        }
      }
      if (forced) {
        static_cast<std::atomic<bool> &>(data->threadShouldBeAlive).store(false);
        // alternate shouldBeRunning: true wakes a sleeper whose predicate ignores the alive flag, false ends
        // a loop that spins on it
        static_cast<std::atomic<bool> &>(data->shouldBeRunning).store(((now - tforced) / 4) % 2 == 0);
        static_cast<std::atomic<bool> &>(data->insideLoopBody).store(false);
        data->runningCond.notify_all();
        if (now - tforced > 20000L * g_patience) {
          dump_threads("clean-up");
          printf("HANG-IN-CLEANUP %s\n", hang_detail.c_str());
          fflush(stdout);
          _exit(4);
        }
      }
      std::this_thread::sleep_for(std::chrono::microseconds(forced ? 2000 : (now - t0 < 20 ? 50 : 500)));
    }
    ctl.join();
    return !hung;
  }
};

#if HAVE_HOOKS
static void install()
{
  rkcommon::verif::controller().store(&hook_fn);
}
#else
static void install() {}
#endif

static std::vector<std::string> split(const std::string &s)
{
  std::istringstream is(s);
  std::vector<std::string> v;
  std::string t;
  while (is >> t)
    v.push_back(t);
  return v;
}

// replay one schedule; returns the joined observation line. *final_run is finished here.
struct Outcome
{
  std::vector<std::string> obs;
  std::string viol;       // oracle kind, if any
  size_t viol_step = 0;   // number of tokens executed when it fired
  bool stuck = false, disabled = false, unforcible = false, cleanup_hang = false;
  std::string why;
  std::string enabled;    // tokens enabled in the final state
  std::string key;        // state key of the final state
  bool final_state = false;
  bool c_in_dtor = false, c_in_stop_wait = false, start_ret = false, active = false, inside = false, c_enabled = false;
};

static Outcome replay(bool thr, const std::string &toks)
{
  Outcome o;
  g_hb++;
  Run r(thr);
  if (!r.stuck.empty()) {
    o.stuck = true;
    o.why   = r.stuck;
  }
  for (size_t i = 0; i < toks.size() && !o.stuck; i++) {
    std::string why;
    bool unf = false;
    if (!r.enabled(toks[i], &why, &unf)) {
      if (unf)
        o.unforcible = true;
      else
        o.disabled = true;
      o.why = why;
      break;
    }
    if (!r.exec(toks[i])) {
      if (!r.late_disabled.empty()) {
        o.disabled = true;
        o.why      = r.late_disabled;
      } else {
        o.stuck = true;
        o.why   = r.stuck;
      }
      break;
    }
    std::string ob = r.obs();
    std::string v  = r.oracle();
    if (!v.empty() && o.viol.empty()) {
      o.viol      = v;
      o.viol_step = i + 1;
    }
    if (!v.empty())
      ob += " !VIOL:" + v;
    o.obs.push_back(ob);
  }
  if (!o.stuck) {
    for (char t : std::string("LWspdC"))
      if (r.enabled(t))
        o.enabled += t;
    o.key            = r.obs() + (r.mutex_free() ? " m=0" : " m=1");
    o.final_state    = r.is_final();
    std::string cp   = r.point(RC);
    o.c_in_dtor      = cp.compare(0, 5, "dtor.") == 0;
    o.c_in_stop_wait = cp == "stop.after_clear" || cp == "stop.spin";
    o.start_ret      = r.start_ret.load();
    o.active         = r.active.load();
    o.inside         = rd(r.data->insideLoopBody);
    o.c_enabled      = r.enabled('C');
  }
  o.cleanup_hang = !r.finish();
  if (o.cleanup_hang)
    o.why = r.hang_detail;
  return o;
}

static std::string join_obs(const Outcome &o)
{
  std::string s;
  for (size_t i = 0; i < o.obs.size(); i++)
    s += (i ? " ; " : "") + o.obs[i];
  auto add = [&](const std::string &x) { s += (s.empty() ? "" : " ; ") + x; };
  if (o.unforcible)
    add("UNFORCIBLE");
  else if (o.disabled)
    add("DISABLED");
  if (o.stuck)
    add("STUCK:" + o.why);
  if (o.cleanup_hang)
    add("CLEANUP-HANG:" + o.why);
  return s;
}

static std::string spaced(const std::string &toks)
{
  std::string s;
  for (size_t i = 0; i < toks.size(); i++)
    s += (i ? " " : "") + std::string(1, toks[i]);
  return s;
}

static int do_replay()
{
  std::string line;
  int bad = 0;
  while (std::getline(std::cin, line)) {
    std::vector<std::string> t = split(line);
    if (t.size() < 2 || t[0] != "R") {
      printf("BAD-LINE\n");
      continue;
    }
    std::string toks;
    for (size_t i = 2; i < t.size(); i++)
      toks += t[i];
    if (bad >= 3) {  // every further schedule would wait for the same time-outs
      printf("SKIPPED\n");
      continue;
    }
    Outcome o = replay(t[1] == "T", toks);
    if (o.stuck || o.cleanup_hang)
      bad++;
    printf("%s\n", join_obs(o).c_str());
    fflush(stdout);
  }
  return 0;
}

static long g_budget_ms = 600000;
// breadth-first exploration of the implementation under the controller
static int do_explore(bool thr, size_t maxstates, int K)
{
  struct Node
  {
    std::string path, enabled;
  };
  std::deque<Node> q;
  std::set<std::string> seen;
  std::map<std::string, std::string> viol;  // kind -> schedule
  size_t edges = 0, replays = 0, progress_checks = 0;
  int slow = 0;  // schedules that ran into a time-out
  auto report = [&](const std::string &kind, const std::string &path, const std::string &detail) {
    if (viol.count(kind))
      return;
    viol[kind] = path;
    printf("XVIOL %s | %s | %s\n", kind.c_str(), spaced(path).c_str(), detail.c_str());
    fflush(stdout);
  };
  // progress oracle: from the state reached by `path`, the loop thread alone (no spurious wake-ups)
  auto progress = [&](const std::string &path, const Outcome &o) {
    int kind = o.start_ret ? 1 : 0;
    bool dt = o.c_in_dtor && !o.c_enabled, sw = o.c_in_stop_wait && o.inside;
    if (!(o.start_ret && !o.active) && !dt && !sw)
      return;
    (void)kind;
    std::string p = path;
    for (int k = 0; k <= K; k++) {
      Outcome x = k == 0 ? o : replay(thr, p);
      if (k)
        replays++;
      progress_checks++;
      bool need_body = o.start_ret && !x.active, need_c = dt && !x.c_enabled, need_in = sw && x.inside;
      if (k && (x.stuck || x.cleanup_hang)) {
        report(x.cleanup_hang ? "hang" : "stuck", p, x.why);
        return;
      }
      if (!need_body && !need_c && !need_in)
        return;
      if (k == K || x.enabled.find('L') == std::string::npos) {
        std::string why = x.enabled.find('L') == std::string::npos ? "the loop thread cannot move (" + x.key + ")"
                                                                   : "not within " + std::to_string(K) + " loop steps";
        if (need_body)
          report("start_progress", p, "start() has returned but the body is not reached: " + why);
        else if (need_c)
          report("dtor_terminates", p, "the destructor stays blocked: " + why);
        else
          report("stop_terminates", p, "stop() keeps spinning: " + why);
        return;
      }
      p += 'L';
    }
  };
  Outcome o0 = replay(thr, "");
  replays++;
  if (o0.stuck) {
    printf("XSTUCK %s\n", o0.why.c_str());
    return 0;
  }
  seen.insert(o0.key);
  q.push_back(Node{"", o0.enabled});
  long t0 = now_ms();
  while (!q.empty() && seen.size() < maxstates && now_ms() - t0 < g_budget_ms) {
    Node n = q.front();
    q.pop_front();
    for (char t : n.enabled) {
      std::string p = n.path + t;
      Outcome o     = replay(thr, p);
      replays++;
      edges++;
      if (o.disabled && !o.stuck) {
        edges--;
        continue;
      }
      if (o.stuck || o.unforcible) {
        report("stuck", p, o.why);
        if (++slow >= 3)
          goto out;
        continue;
      }
      if (!o.viol.empty())
        report(o.viol, p.substr(0, o.viol_step), o.obs[o.viol_step - 1]);
      if (o.cleanup_hang) {
        report("hang", p, "after this schedule the pending call never returns: " + o.why);
        if (++slow >= 3)
          goto out;
      }
      if (seen.insert(o.key).second) {
        if (o.enabled.empty() && !o.final_state)
          report("deadlock", p, o.key);
        progress(p, o);
        q.push_back(Node{p, o.enabled});
      }
    }
  }
out:
  printf("XDONE states=%zu edges=%zu replays=%zu progress_checks=%zu complete=%d violations=%zu\n", seen.size(), edges,
         replays, progress_checks, (int)(q.empty() && slow < 3), viol.size());
  return 0;
}

// unforced stress: start/stop cycles against a body that checks "stop has returned".
// Time-boxed (runs until max_cycles are done or budget_ms has elapsed and reports how many were done).
// Hang detection is progress-based: a watchdog samples a counter that every cycle and every body run
// advances; only >= 30 s (x patience) of wall time without ANY progress is a hang, and then the state
// of every thread is dumped.  "Lost wake-up" is decided on the loop thread's kernel state (blocked on the
// condition variable although start() has returned), not on elapsed time.
static void busy_us(unsigned us)
{
  auto t0 = std::chrono::steady_clock::now();
  while (std::chrono::steady_clock::now() - t0 < std::chrono::microseconds(us)) {
  }
}
static std::atomic<long> st_progress{0};
static std::atomic<int> st_phase{0};  // 0 construct, 1 cycling, 2 destroying, 3 done
static std::atomic<long> st_cycle{0};
static int do_stress(bool thr, long max_cycles, unsigned seed, int inject, long budget_ms)
{
  free_run = true;
  std::atomic<bool> stopped{true};
  std::atomic<long> enters{0}, bad{0};
  std::atomic<int> loop_tid{0};
  std::thread([] {
    long last = -1, since = now_ms();
    for (;;) {
      std::this_thread::sleep_for(std::chrono::milliseconds(250));
      long p = st_progress.load() + st_phase.load();
      if (st_phase.load() == 3)
        return;
      if (p != last) {
        last  = p;
        since = now_ms();
      } else if (now_ms() - since > 30000L * g_patience) {
        const char *pl = last_point[RL].load(), *pc = last_point[RC].load();
        printf("STRESS-HANG no progress for %ld s: phase=%d (0 construct 1 cycling 2 destroying) cycle=%ld loop-thread last point=%s caller last point=%s\n",
               (now_ms() - since) / 1000, st_phase.load(), st_cycle.load(), pl ? pl : "?", pc ? pc : "?");
        dump_threads("stress");
        fflush(stdout);
        _exit(5);
      }
    }
  }).detach();
  g_inject = inject ? (int)(seed * 2 + 1) : 0;
  long lost = 0, done = 0;
  long t_start = now_ms();
  {
    AsyncLoop loop(
        [&] {
          if (stopped.load())
            bad++;
          if (!loop_tid.load(std::memory_order_relaxed))
            loop_tid = my_tid();
          enters++;
          st_progress++;
          g_hb++;
          if (stopped.load())
            bad++;
        },
        thr ? AsyncLoop::THREAD : AsyncLoop::TASK);
    st_phase = 1;
    unsigned x = seed * 2654435761u + 12345u;
    for (long c = 0; c < max_cycles && (c < 20 || now_ms() - t_start < budget_ms); c++) {
      st_cycle = c;
      x = x * 1664525u + 1013904223u;
      long e0 = enters.load();
      stopped = false;
      loop.start();
      if ((x >> 8) % 3 == 0)
        loop.start();  // redundant
      unsigned spins = (x >> 12) % 200;
      if (c % 50 == 0) {
        // the body must run again after start() returned.  Lost = the loop thread sits blocked in the
        // kernel (condition variable) with its CPU time not advancing on 50 consecutive samples (2 s),
        // while shouldBeRunning is set; a merely starved thread is runnable and is waited for.
        BlockWatch w(loop_tid.load());
        long ts = now_ms(), t0 = ts;
        while (enters.load() == e0) {
          std::this_thread::sleep_for(std::chrono::microseconds(200));
          long now = now_ms();
          if (now - ts >= SAMPLE_MS) {
            ts = now;
            if (w.tid <= 0)
              w.tid = loop_tid.load();
            if (w.sample(50 * g_patience) || (w.tid <= 0 && now - t0 > 60000L * g_patience)) {
              lost++;
              break;
            }
          }
        }
      } else
        busy_us(spins / 4);  // 0..50 us; not yield(): on a loaded machine every yield costs a whole time slice
      loop.stop();
      stopped = true;
      if ((x >> 20) % 3 == 0)
        loop.stop();  // redundant
      busy_us((x >> 24) % 8);
      done++;
      st_progress++;
    }
    stopped  = true;
    st_phase = 2;
  }  // destructor
  st_phase = 3;
  g_inject = 0;
  printf("STRESS launch=%s cycles=%ld inject=%d body_runs=%ld body_while_stopped=%ld lost_wakeups=%ld wall_ms=%ld\n",
         thr ? "T" : "K", done, inject, enters.load(), bad.load(), lost, now_ms() - t_start);
  return 0;
}

// "destroy while a body invocation is in flight", no stop() before: which launch did the object take, and
// does ~AsyncLoop wait for the in-flight body when it owns its thread?  Nothing here depends on timing: the
// body is held until the destructor has returned or its thread is seen BLOCKED (in join) by the kernel.
static int do_launch(const char *mname)
{
  free_run = true;
  int N = rkcommon::tasking::numTaskingThreads();
  std::atomic<bool> entered{false}, release{false}, finished{false}, dtor_returned{false};
  std::atomic<long> begins{0}, begins_at_dtor{-1};
  std::atomic<int> fin_at_dtor{-1}, dtid{0}, ltid{0};
  // C03_NOHOLD=1 (memory-safety variant, run under ASan): the harness keeps NO reference to the shared state, so
  // a loop task that outlives the object touches freed memory if it does not co-own that state
  bool nohold = getenv("C03_NOHOLD") && atoi(getenv("C03_NOHOLD")) > 0;
  AsyncLoop *al = new AsyncLoop(
      [&] {
        long b = begins++;
        g_hb++;
        if (!ltid.load(std::memory_order_relaxed))
          ltid = my_tid();
        if (b == 0) {
          entered = true;
          while (!release.load())
            std::this_thread::sleep_for(std::chrono::microseconds(50));
          finished = true;
        }
      },
      (AsyncLoop::LaunchMethod)g_method);
  std::shared_ptr<Data> data = nohold ? std::shared_ptr<Data>() : al->loop;
  bool joinable              = al->backgroundThread.joinable();
  al->start();
  long t0 = now_ms();
  while (!entered.load() && now_ms() - t0 < 600000L)
    std::this_thread::sleep_for(std::chrono::microseconds(100));
  if (!entered.load()) {
    printf("LAUNCH-STUCK method=%s num_tasking_threads=%d joinable=%d: the body never ran after start()\n", mname, N, (int)joinable);
    fflush(stdout);
    _exit(6);
  }
  std::thread D([&] {
    dtid = my_tid();
    delete al;
    fin_at_dtor    = finished.load() ? 1 : 0;
    begins_at_dtor = begins.load();
    dtor_returned  = true;
  });
  BlockWatch w;
  long ts = now_ms();
  t0      = ts;
  bool blocked = false;
  while (!dtor_returned.load()) {
    std::this_thread::sleep_for(std::chrono::microseconds(200));
    long now = now_ms();
    if (now - ts >= SAMPLE_MS) {
      ts = now;
      if (w.tid <= 0)
        w.tid = dtid.load();
      if (w.sample(25 * g_patience) || now - t0 > 600000L) {
        blocked = true;  // the destructor waits (join) for the loop thread
        break;
      }
    }
  }
  release = true;
  g_hb++;
  {
    // the destructor must return now.  Hang = its thread AND the loop thread are both blocked in the kernel for 2 s,
    // or the loop thread has burnt 1.5 s of CPU since the body was released (it spins instead of exiting)
    BlockWatch wd(dtid.load()), wl(ltid.load());
    TStat l0 = tstat(wl.tid);
    ts       = now_ms();
    while (!dtor_returned.load()) {
      std::this_thread::sleep_for(std::chrono::microseconds(200));
      long now = now_ms();
      if (now - ts < SAMPLE_MS)
        continue;
      ts       = now;
      bool bd  = wd.sample(50 * g_patience), bl = wl.sample(50 * g_patience);
      TStat l1 = tstat(wl.tid);
      bool spin = l0.ok && l1.ok && l1.cpu - l0.cpu > 150ULL * g_patience;
      if ((bd && bl) || (bd && spin)) {
        const char *pl = last_point[RL].load(), *pc = last_point[RC].load();
        printf("LAUNCH-HANG method=%s num_tasking_threads=%d joinable=%d: ~AsyncLoop does not return after the in-flight body finished "
               "(%s; loop thread last point %s, destructor last point %s)\n",
               mname, N, (int)joinable, spin ? "loop thread keeps spinning" : "all threads blocked", pl ? pl : "?", pc ? pc : "?");
        dump_threads("launch");
        fflush(stdout);
        _exit(7);
      }
    }
  }
  D.join();
  g_hb++;
  t0 = now_ms();
  if (nohold) {
    // keep the process alive while the loop task winds down (>= 200 ms, or until it is seen to exit)
    while (now_ms() - t0 < 200 || (HAVE_HOOKS && !loop_exited.load() && now_ms() - t0 < 3000))
      std::this_thread::sleep_for(std::chrono::microseconds(200));
  } else
    while (data.use_count() > 1 && now_ms() - t0 < 600000L)  // the loop thread / task still holds the shared state
      std::this_thread::sleep_for(std::chrono::microseconds(100));
  printf("LAUNCH method=%s requested_threads=%d num_tasking_threads=%d joinable=%d dtor_waited=%d body_finished_when_dtor_returned=%d "
         "body_begins_after_dtor=%ld loop_gone=%d\n",
         mname, g_nthreads, N, (int)joinable, (int)blocked, fin_at_dtor.load(), begins.load() - begins_at_dtor.load(),
         nohold ? -1 : (int)(data.use_count() == 1));
  return 0;
}

int main(int argc, char **argv)
{
  std::string mode = argc > 1 ? argv[1] : "";
  const char *mname = getenv("C03_METHOD");
  if (mname && *mname)
    g_method = !strcmp(mname, "AUTO") ? (int)AsyncLoop::AUTO : !strcmp(mname, "THREAD") ? (int)AsyncLoop::THREAD : (int)AsyncLoop::TASK;
  if (const char *e = getenv("C03_NTHREADS"))
    g_nthreads = atoi(e);
  if (g_nthreads > 0)
    rkcommon::tasking::initTaskingSystem(g_nthreads);
  if (const char *e = getenv("C03_PATIENCE"))
    g_patience = atoi(e) > 0 ? atoi(e) : 1;
  if (getenv("C03_HEARTBEAT"))
    std::thread([] {
      for (;;) {
        fprintf(stderr, "HB %ld %ld\n", now_ms(), g_hb.load() + st_progress.load());
        fflush(stderr);
        std::this_thread::sleep_for(std::chrono::seconds(1));
      }
    }).detach();
  if (mode == "probe") {
    printf("HOOKS=%d\n", HAVE_HOOKS);
    return 0;
  }
  if (mode == "launch" && g_method >= 0) {
    if (HAVE_HOOKS)
      install();
    return do_launch(mname);
  }
  if (mode == "stress" && argc >= 6) {
    if (HAVE_HOOKS)
      install();  // free-running: the points only record the last point reached (for hang dumps)
    return do_stress(std::string(argv[2]) == "T", atol(argv[3]), (unsigned)atol(argv[4]), atoi(argv[5]),
                     argc > 6 ? atol(argv[6]) : 3600000L);
  }
  if (!HAVE_HOOKS) {
    printf("NO-HOOKS\n");
    return 0;
  }
  install();
  if (mode == "replay")
    return do_replay();
  if (mode == "explore" && argc >= 3) {
    if (argc > 4)
      g_budget_ms = atol(argv[4]);
    return do_explore(std::string(argv[2]) == "T", argc > 3 ? (size_t)atol(argv[3]) : 5000, 12);
  }
  fprintf(stderr, "usage: harness probe|replay|explore|stress ...\n");
  return 2;
}
