// C09 harness: runs Optional<T> / Any histories on the real code.
// usage: harness <family>      family: trk | str | vec | over | int      (payload types of the Optional histories)
//        harness facts         prints alignof/sizeof facts of Optional<T> for every family
// -DC09_PREFIXED: every Optional lives in  struct { char c; Optional<X> o; }  at an aligned base, i.e. at
// offset alignof(Optional<X>) -- an odd address when Optional<X> has alignment 1 (UBSan sees the payload).
// Input / output format: see ocaml/C09/driver.ml ("full" form for trk, "plain" form for the others).
#include <cstddef>
#include <cstdint>
#include <cmath>
#include <cstring>
#include <limits>
#include <iostream>
#include <set>
#include <sstream>
#include <string>
#include <vector>
#include "rkcommon/math/vec.h"
// fallback builds: -DC09_NO_ANY / -DC09_NO_ENV leave out the part that uses Any.h / getEnvVar.h, so that the Optional
// histories still run (judged by the oracle) when one of those headers no longer compiles against the harness
#ifndef C09_NO_ANY
#include "rkcommon/utility/Any.h"
#endif
#include "rkcommon/utility/Optional.h"
#ifndef C09_NO_ENV
#include "rkcommon/utility/getEnvVar.h"
#endif

#ifndef C09_NO_ANY
using rkcommon::utility::Any;
#endif
using rkcommon::utility::Optional;
using rkcommon::math::vec3f;

static const int NSLOTS = 4;
static const size_t SLOTSZ = 256;

// ------------------------------------------------------------------ slots and the lifetime registry
struct Slot {
  alignas(64) unsigned char buf[SLOTSZ];
  int kind;  // 0 = no wrapper alive, 1 = Optional<T>, 2 = Optional<U>   (Any histories: 1 = alive)
};
static Slot g_slots[NSLOTS];
alignas(64) static unsigned char g_varbuf[2][SLOTSZ];   // storage of the named payload variables (outside the wrapper slots)

static int slot_of(const void *p)
{
  const unsigned char *q = static_cast<const unsigned char *>(p);
  for (int i = 0; i < NSLOTS; ++i)
    if (q >= g_slots[i].buf && q < g_slots[i].buf + SLOTSZ) return i;
  return -1;
}

struct Registry {
  std::set<const void *> live;  // addresses that currently hold a live instrumented object
  long constructs = 0, destroys = 0;
  std::vector<std::string> atoms;   // canonical events on wrapper storage during the current step
  std::vector<std::string> misuse;  // operations applied to storage in the wrong lifetime state
  bool quiet = false;               // dump in progress: check, do not log
  bool implicit_end = false;        // payload kind without destructor: a lifetime ends by storage reuse / with the wrapper
  bool track = true;                // payload kind with trivial copies: objects appear without a constructor call we can see
  void atom(char k, const void *p)
  {
    int s = slot_of(p);
    if (s >= 0 && !quiet) atoms.push_back(std::string(1, k) + std::to_string(s));
  }
  void bad(const char *what, const void *p)
  {
    int s = slot_of(p);
    misuse.push_back(std::string("!") + what + "@" + (s >= 0 ? std::to_string(s) : std::string("tmp")));
  }
  void construct(const void *p, char k)
  {
    if (!track) { atom(k, p); return; }
    if (live.count(p) && !implicit_end) bad("new-on-live", p);
    live.insert(p);
    ++constructs;
    atom(k, p);
  }
  void destroy(const void *p)
  {
    if (!track) { ++destroys; atom('X', p); return; }
    if (!live.count(p)) bad("dtor-on-raw", p);
    else { live.erase(p); ++destroys; }
    atom('X', p);
  }
  bool read(const void *p, bool mv)
  {
    bool ok = live.count(p) != 0;
    if (!ok) bad("read-raw", p);
    atom(mv ? 'M' : 'R', p);
    return ok;
  }
  void assign(const void *p)
  {
    if (!live.count(p)) bad("assign-to-raw", p);
    atom('A', p);
  }
  // the wrapper in slot s is gone: nothing instrumented may still be alive inside its bytes
  void wrapper_gone(int s)
  {
    for (auto it = live.begin(); it != live.end();) {
      if (slot_of(*it) == s) { if (!implicit_end) bad("leak", *it); it = live.erase(it); ++destroys; }
      else ++it;
    }
  }
  std::string take_atoms()
  {
    std::string r;
    for (size_t i = 0; i < atoms.size(); ++i) r += (i ? "," : "") + atoms[i];
    atoms.clear();
    return r;
  }
  std::string take_misuse()
  {
    std::string r;
    for (auto &m : misuse) r += m;
    misuse.clear();
    return r;
  }
};
static Registry G;

struct Code { long v; };

// EXCEPTIONS from payload operations: th:n plants a countdown for the NEXT history step - the n-th payload construction
// or assignment performed AT A WRAPPER SLOT (Any histories: anywhere, holders live on the heap) throws before it does
// anything; the step reports "throw" and the history goes on with whatever state the wrapper was left in.
struct PayloadThrow {};
static int g_throw_in = 0;
static bool g_throw_any = false;
static void maybe_throw(const void *p)
{
  if (g_throw_in > 0 && (g_throw_any || slot_of(p) >= 0) && --g_throw_in == 0) throw PayloadThrow();
}
// instrumented payload: every special member checks the live set.  Trk<1> is constructible from Trk<0>.
template <int K>
struct Trk {
  long code;
  Trk() : code(0) { maybe_throw(this); G.construct(this, 'D'); }
  Trk(Code c) : code(c.v) { maybe_throw(this); G.construct(this, 'C'); }
  Trk(const Trk &o) : code(-1) { maybe_throw(this); code = G.read(&o, false) ? o.code : -1; G.construct(this, 'C'); }
  Trk(Trk &&o) : code(-1)
  {
    maybe_throw(this);
    if (G.read(&o, true)) { code = o.code; o.code = 0; }
    G.construct(this, 'C');
  }
  template <int J, typename = typename std::enable_if<J == 0 && K == 1>::type>
  Trk(const Trk<J> &o) : code(-1) { maybe_throw(this); code = G.read(&o, false) ? o.code : -1; G.construct(this, 'C'); }
  template <int J, typename = typename std::enable_if<J == 0 && K == 1>::type>
  Trk(Trk<J> &&o) : code(-1)
  {
    maybe_throw(this);
    if (G.read(&o, true)) { code = o.code; o.code = 0; }
    G.construct(this, 'C');
  }
  Trk &operator=(const Trk &o)
  {
    maybe_throw(this);
    long c = G.read(&o, false) ? o.code : -1;
    G.assign(this);
    code = c;
    return *this;
  }
  Trk &operator=(Trk &&o)
  {
    maybe_throw(this);
    long c = -1;
    if (G.read(&o, true)) { c = o.code; if (&o != this) o.code = 0; }
    G.assign(this);
    code = c;
    return *this;
  }
  ~Trk() { G.destroy(this); }
};
template <int K, int J> static long cmp3(const Trk<K> &a, const Trk<J> &b)
{
  bool la = G.read(&a, false), lb = G.read(&b, false);
  long x = la ? a.code : -1, y = lb ? b.code : -1;
  return x < y ? -1 : (x > y ? 1 : 0);
}
template <int K, int J> bool operator==(const Trk<K> &a, const Trk<J> &b) { return cmp3(a, b) == 0; }
template <int K, int J> bool operator!=(const Trk<K> &a, const Trk<J> &b) { return cmp3(a, b) != 0; }
template <int K, int J> bool operator<(const Trk<K> &a, const Trk<J> &b) { return cmp3(a, b) < 0; }
template <int K, int J> bool operator<=(const Trk<K> &a, const Trk<J> &b) { return cmp3(a, b) <= 0; }
template <int K, int J> bool operator>(const Trk<K> &a, const Trk<J> &b) { return cmp3(a, b) > 0; }
template <int K, int J> bool operator>=(const Trk<K> &a, const Trk<J> &b) { return cmp3(a, b) >= 0; }

// payload kinds along the trait lattice (besides Trk: everything user-provided, and the trivially copyable int/Over/KS2/double)
// Tnd: TRIVIALLY DESTRUCTIBLE, but user-provided copy/move constructors and assignments that matter: the object keeps
//      a pointer to itself (a bytewise copy would alias the source) and every special member is logged, so the trace
//      shows exactly which payload operation each wrapper operation ran.  is_trivially_destructible is true,
//      is_trivially_copyable is false.
template <int K>
struct Tnd {
  long code;
  const Tnd *self;
  Tnd() : code(0), self(this) { G.construct(this, 'D'); }
  Tnd(Code c) : code(c.v), self(this) { G.construct(this, 'C'); }
  Tnd(const Tnd &o) : code(G.read(&o, false) ? o.code : -1), self(this) { G.construct(this, 'C'); }
  Tnd(Tnd &&o) : code(-1), self(this)
  {
    if (G.read(&o, true)) { code = o.code; o.code = 0; }
    G.construct(this, 'C');
  }
  template <int J, typename = typename std::enable_if<J == 0 && K == 1>::type>
  Tnd(const Tnd<J> &o) : code(G.read(&o, false) ? o.code : -1), self(this) { G.construct(this, 'C'); }
  template <int J, typename = typename std::enable_if<J == 0 && K == 1>::type>
  Tnd(Tnd<J> &&o) : code(-1), self(this)
  {
    if (G.read(&o, true)) { code = o.code; o.code = 0; }
    G.construct(this, 'C');
  }
  Tnd &operator=(const Tnd &o)
  {
    long c = G.read(&o, false) ? o.code : -1;
    G.assign(this);
    code = c;
    return *this;
  }
  Tnd &operator=(Tnd &&o)
  {
    long c = -1;
    if (G.read(&o, true)) { c = o.code; if (&o != this) o.code = 0; }
    G.assign(this);
    code = c;
    return *this;
  }
};
static_assert(std::is_trivially_destructible<Tnd<1>>::value && !std::is_trivially_copy_constructible<Tnd<1>>::value, "Tnd kind");
template <int K, int J> static long cmp3(const Tnd<K> &a, const Tnd<J> &b)
{
  bool la = G.read(&a, false), lb = G.read(&b, false);
  long x = la ? a.code / 4 : -1, y = lb ? b.code / 4 : -1;
  return x < y ? -1 : (x > y ? 1 : 0);
}
template <int K, int J> bool operator==(const Tnd<K> &a, const Tnd<J> &b) { return cmp3(a, b) == 0; }
template <int K, int J> bool operator!=(const Tnd<K> &a, const Tnd<J> &b) { return cmp3(a, b) != 0; }
template <int K, int J> bool operator<(const Tnd<K> &a, const Tnd<J> &b) { return cmp3(a, b) < 0; }
template <int K, int J> bool operator<=(const Tnd<K> &a, const Tnd<J> &b) { return cmp3(a, b) <= 0; }
template <int K, int J> bool operator>(const Tnd<K> &a, const Tnd<J> &b) { return cmp3(a, b) > 0; }
template <int K, int J> bool operator>=(const Tnd<K> &a, const Tnd<J> &b) { return cmp3(a, b) >= 0; }
// Dto: user-provided default constructor and DESTRUCTOR only; copies are the implicit (trivial) ones, so objects appear
//      without a visible constructor call: only default constructions and destructions are counted.
template <int K>
struct Dto {
  long code;
  Dto() : code(0) { G.construct(this, 'D'); }
  Dto(Code c) : code(c.v) {}
  template <int J, typename = typename std::enable_if<J == 0 && K == 1>::type>
  Dto(const Dto<J> &o) : code(o.code) {}
  ~Dto() { G.destroy(this); }
};
static_assert(!std::is_trivially_destructible<Dto<1>>::value, "Dto kind");
template <int K, int J> bool operator==(const Dto<K> &a, const Dto<J> &b) { return a.code / 4 == b.code / 4; }
template <int K, int J> bool operator!=(const Dto<K> &a, const Dto<J> &b) { return a.code / 4 != b.code / 4; }
template <int K, int J> bool operator<(const Dto<K> &a, const Dto<J> &b) { return a.code / 4 < b.code / 4; }
template <int K, int J> bool operator<=(const Dto<K> &a, const Dto<J> &b) { return a.code / 4 <= b.code / 4; }
template <int K, int J> bool operator>(const Dto<K> &a, const Dto<J> &b) { return a.code / 4 > b.code / 4; }
template <int K, int J> bool operator>=(const Dto<K> &a, const Dto<J> &b) { return a.code / 4 >= b.code / 4; }

// ------------------------------------------------------------------ payload families
// enc is order preserving; code 0 is the value-initialised payload (and what a move leaves behind where mvz)
static std::string str_enc(long v)
{
  if (v == 0) return std::string();
  char b[32];
  snprintf(b, sizeof b, "%06ld", v);
  return std::string(b) + std::string(24 + v % 7, 'x');  // always beyond the SSO buffer
}
static long str_dec(const std::string &s) { return s.empty() ? 0 : std::stol(s.substr(0, 6)); }
static std::vector<int> vec_enc(long v)
{
  std::vector<int> r;
  if (v) for (long i = 0; i <= v % 5; ++i) r.push_back((int)(v + i));
  return r;
}
static long vec_dec(const std::vector<int> &s) { return s.empty() ? 0 : s[0]; }

struct StrU {
  std::string s;
  operator std::string() const & { return s; }
  operator std::string() && { return std::move(s); }
};
struct VecU {
  std::vector<int> v;
  operator std::vector<int>() const & { return v; }
  operator std::vector<int>() && { return std::move(v); }
};
#define MIXED_CMP(TT, UU, F)                                                             \
  static bool operator==(const TT &a, const UU &b) { return a == b.F; }                  \
  static bool operator!=(const TT &a, const UU &b) { return a != b.F; }                  \
  static bool operator<(const TT &a, const UU &b) { return a < b.F; }                    \
  static bool operator<=(const TT &a, const UU &b) { return a <= b.F; }                  \
  static bool operator>(const TT &a, const UU &b) { return a > b.F; }                    \
  static bool operator>=(const TT &a, const UU &b) { return a >= b.F; }                  \
  static bool operator==(const UU &a, const TT &b) { return a.F == b; }                  \
  static bool operator!=(const UU &a, const TT &b) { return a.F != b; }                  \
  static bool operator<(const UU &a, const TT &b) { return a.F < b; }                    \
  static bool operator<=(const UU &a, const TT &b) { return a.F <= b; }                  \
  static bool operator>(const UU &a, const TT &b) { return a.F > b; }                    \
  static bool operator>=(const UU &a, const TT &b) { return a.F >= b; }                  \
  static bool operator==(const UU &a, const UU &b) { return a.F == b.F; }                \
  static bool operator!=(const UU &a, const UU &b) { return a.F != b.F; }                \
  static bool operator<(const UU &a, const UU &b) { return a.F < b.F; }                  \
  static bool operator<=(const UU &a, const UU &b) { return a.F <= b.F; }                \
  static bool operator>(const UU &a, const UU &b) { return a.F > b.F; }                  \
  static bool operator>=(const UU &a, const UU &b) { return a.F >= b.F; }
MIXED_CMP(std::string, StrU, s)
MIXED_CMP(std::vector<int>, VecU, v)

struct alignas(32) Over {
  int code;
  char pad[28];
  Over() : code(0) { std::memset(pad, 0, sizeof pad); }
  Over(int c) : code(c) { std::memset(pad, 0x5a, sizeof pad); }
};
static bool operator==(const Over &a, const Over &b) { return a.code == b.code; }
static bool operator!=(const Over &a, const Over &b) { return a.code != b.code; }
static bool operator<(const Over &a, const Over &b) { return a.code < b.code; }
static bool operator<=(const Over &a, const Over &b) { return a.code <= b.code; }
static bool operator>(const Over &a, const Over &b) { return a.code > b.code; }
static bool operator>=(const Over &a, const Over &b) { return a.code >= b.code; }

struct FamTrk {
  using T = Trk<1>; using U = Trk<0>;
  static const bool inst = true;
  static const char *name() { return "trk"; }
  static T encT(long v) { return T(Code{v}); }
  static U encU(long v) { return U(Code{v}); }
  static long decT(const T &x) { return G.read(&x, false) ? x.code : -1; }   // a logged read
  static long decU(const U &x) { return G.read(&x, false) ? x.code : -1; }
  static std::string peekT(const T &x) { return G.live.count(&x) ? std::to_string(x.code) + "L" : std::string("XR"); }
  static std::string peekU(const U &x) { return G.live.count(&x) ? std::to_string(x.code) + "L" : std::string("XR"); }
  static bool liveAt(const void *p) { return G.live.count(p) != 0; }
};
struct FamTnd {
  using T = Tnd<1>; using U = Tnd<0>;
  static const bool inst = true;
  static const char *name() { return "tnd"; }
  static T encT(long v) { return T(Code{v}); }
  static U encU(long v) { return U(Code{v}); }
  static long decT(const T &x) { return G.read(&x, false) ? x.code : -1; }
  static long decU(const U &x) { return G.read(&x, false) ? x.code : -1; }
  // the object must have been produced by a constructor call at this address, and point to itself
  template <typename X> static std::string peek(const X &x)
  {
    if (!G.live.count(&x)) return "XR!NOT-CONSTRUCTED";
    return std::to_string(x.code) + "L" + (x.self == &x ? "" : "!SELFPTR");
  }
  static std::string peekT(const T &x) { return peek(x); }
  static std::string peekU(const U &x) { return peek(x); }
};
struct FamDto {
  using T = Dto<1>; using U = Dto<0>;
  static const bool inst = true;
  static const char *name() { return "dto"; }
  static T encT(long v) { return T(Code{v}); }
  static U encU(long v) { return U(Code{v}); }
  static long decT(const T &x) { return x.code; }
  static long decU(const U &x) { return x.code; }
  static std::string peekT(const T &x) { return std::to_string(x.code) + "L"; }
  static std::string peekU(const U &x) { return std::to_string(x.code) + "L"; }
};
struct FamStr {
  using T = std::string; using U = StrU;
  static const bool inst = false;
  static const char *name() { return "str"; }
  static T encT(long v) { return str_enc(v); }
  static U encU(long v) { return StrU{str_enc(v)}; }
  static long decT(const T &x) { return str_dec(x); }
  static long decU(const U &x) { return str_dec(x.s); }
  static std::string peekT(const T &x) { return std::to_string(str_dec(x)); }
  static std::string peekU(const U &x) { return std::to_string(str_dec(x.s)); }
};
struct FamVec {
  using T = std::vector<int>; using U = VecU;
  static const bool inst = false;
  static const char *name() { return "vec"; }
  static T encT(long v) { return vec_enc(v); }
  static U encU(long v) { return VecU{vec_enc(v)}; }
  static long decT(const T &x) { return vec_dec(x); }
  static long decU(const U &x) { return vec_dec(x.v); }
  static std::string peekT(const T &x) { return std::to_string(vec_dec(x)); }
  static std::string peekU(const U &x) { return std::to_string(vec_dec(x.v)); }
};
struct FamOver {
  using T = Over; using U = int;
  static const bool inst = false;
  static const char *name() { return "over"; }
  static T encT(long v) { return Over((int)v); }
  static U encU(long v) { return (int)v; }
  static long decT(const T &x) { return x.code; }
  static long decU(const U &x) { return x; }
  static std::string peekT(const T &x) { return std::to_string(x.code); }
  static std::string peekU(const U &x) { return std::to_string(x); }
};
static bool operator==(const Over &a, const int &b) { return a.code == b; }
static bool operator!=(const Over &a, const int &b) { return a.code != b; }
static bool operator<(const Over &a, const int &b) { return a.code < b; }
static bool operator<=(const Over &a, const int &b) { return a.code <= b; }
static bool operator>(const Over &a, const int &b) { return a.code > b; }
static bool operator>=(const Over &a, const int &b) { return a.code >= b; }
static bool operator==(const int &a, const Over &b) { return a == b.code; }
static bool operator!=(const int &a, const Over &b) { return a != b.code; }
static bool operator<(const int &a, const Over &b) { return a < b.code; }
static bool operator<=(const int &a, const Over &b) { return a <= b.code; }
static bool operator>(const int &a, const Over &b) { return a > b.code; }
static bool operator>=(const int &a, const Over &b) { return a >= b.code; }
struct FamInt {
  using T = int; using U = short;
  static const bool inst = false;
  static const char *name() { return "int"; }
  static T encT(long v) { return (int)v; }
  static U encU(long v) { return (short)v; }
  static long decT(const T &x) { return x; }
  static long decU(const U &x) { return x; }
  static std::string peekT(const T &x) { return std::to_string(x); }
  static std::string peekU(const U &x) { return std::to_string(x); }
};

// payload families whose comparison operators are coarser than identity: a code is 4 * key + shadow
//   ks : {int key; int shadow;} compared on key only (U: a struct convertible to it)
//   dbl: double / float with code 0 = +0.0, 1 = -0.0 (equal, sign bit differs), 4k = k
struct KS2 { int key; int shadow; };
struct KSU { int key; int shadow; operator KS2() const { return KS2{key, shadow}; } };
static int keyof(const KS2 &a) { return a.key; }
static int keyof(const KSU &a) { return a.key; }
#define KEY_CMP(A, B)                                                                 \
  static bool operator==(const A &a, const B &b) { return keyof(a) == keyof(b); }     \
  static bool operator!=(const A &a, const B &b) { return keyof(a) != keyof(b); }     \
  static bool operator<(const A &a, const B &b) { return keyof(a) < keyof(b); }       \
  static bool operator<=(const A &a, const B &b) { return keyof(a) <= keyof(b); }     \
  static bool operator>(const A &a, const B &b) { return keyof(a) > keyof(b); }       \
  static bool operator>=(const A &a, const B &b) { return keyof(a) >= keyof(b); }
KEY_CMP(KS2, KS2) KEY_CMP(KS2, KSU) KEY_CMP(KSU, KS2) KEY_CMP(KSU, KSU)
struct FamKS {
  using T = KS2; using U = KSU;
  static const bool inst = false;
  static const char *name() { return "ks"; }
  static T encT(long v) { return KS2{(int)(v / 4), (int)(v % 4)}; }
  static U encU(long v) { return KSU{(int)(v / 4), (int)(v % 4)}; }
  static long decT(const T &x) { return 4L * x.key + x.shadow; }      // the full stored state
  static long decU(const U &x) { return 4L * x.key + x.shadow; }
  static std::string peekT(const T &x) { return std::to_string(decT(x)); }
  static std::string peekU(const U &x) { return std::to_string(decU(x)); }
};
template <typename F> static F fp_enc(long v) { return v == 0 ? (F)0.0 : v == 1 ? (F)-0.0 : (F)(v / 4); }
template <typename F> static long fp_dec(F x)                          // bit-exact: the sign of a zero is state
{
  if (x != x) return -2;
  if (x == (F)0) return std::signbit(x) ? 1 : 0;
  long k = (long)x;
  return ((F)k == x) ? 4 * k : -7;
}
struct FamDbl {
  using T = double; using U = float;
  static const bool inst = false;
  static const char *name() { return "dbl"; }
  static T encT(long v) { return fp_enc<double>(v); }
  static U encU(long v) { return fp_enc<float>(v); }
  static long decT(const T &x) { return fp_dec<double>(x); }
  static long decU(const U &x) { return fp_dec<float>(x); }
  static std::string peekT(const T &x) { return std::to_string(decT(x)); }
  static std::string peekU(const U &x) { return std::to_string(decU(x)); }
};

static std::vector<std::string> split(const std::string &s, char d)
{
  std::vector<std::string> r; std::string t; std::istringstream is(s);
  while (std::getline(is, t, d)) r.push_back(t);
  return r;
}

template <typename X> struct Prefixed { char c; Optional<X> o; };
template <typename X> static size_t place_offset()
{
#ifdef C09_PREFIXED
  return offsetof(Prefixed<X>, o);
#else
  return 0;
#endif
}
template <typename X> static void *addr(int i) { return g_slots[i].buf + place_offset<X>(); }
template <typename X> static Optional<X> &at(int i) { return *reinterpret_cast<Optional<X> *>(addr<X>(i)); }

// ------------------------------------------------------------------ getEnvVar.h
// es:name:sid sets C09_VAR_<name> to the C string with id sid, rendered for the family's kind; eu:name unsets it;
// gv:slot:kind:name constructs the wrapper in the slot from getEnvVar<K>(name).  id 0 is the empty string.
static std::string env_name(long n) { return "C09_VAR_" + std::to_string(n); }
template <typename F> struct EnvGet {
  static const int kind = -1;
  static std::string render(long) { return std::string(); }
  static int go(int, const std::string &) { return 0; }
};
#ifndef C09_NO_ENV
template <> struct EnvGet<FamInt> {
  static const int kind = 0;
  static std::string render(long sid)      // atoi(render(sid)) == 4 * sid, through blanks, a sign, trailing junk
  {
    if (sid == 0) return std::string();
    std::string d = std::to_string(4 * sid);
    switch (sid % 4) { case 0: return d; case 1: return "  \t" + d + " "; case 2: return d + "abc.5"; default: return "+" + d; }
  }
  static int go(int i, const std::string &n) { new (addr<int>(i)) Optional<int>(rkcommon::utility::getEnvVar<int>(n)); return 1; }
};
template <> struct EnvGet<FamStr> {
  static const int kind = 2;
  static std::string render(long sid) { return str_enc(sid); }     // "" for id 0, otherwise 30+ characters
  static int go(int i, const std::string &n)
  {
    new (addr<std::string>(i)) Optional<std::string>(rkcommon::utility::getEnvVar<std::string>(n));
    return 1;
  }
};
template <> struct EnvGet<FamDbl> {
  static const int kind = 1;
  static std::string render(long sid)      // (float)atof(render(sid)) has code 4 * sid; id 1 is "-0.0" (code 1), id 0 is ""
  {
    if (sid == 0) return std::string();
    if (sid == 1) return "-0.0";
    return sid % 2 ? std::to_string(sid) + ".0" : " " + std::to_string(sid) + "e0x";
  }
  static int go(int i, const std::string &n) { new (addr<float>(i)) Optional<float>(rkcommon::utility::getEnvVar<float>(n)); return 2; }
};
#endif

template <typename A, typename B> static bool docmp(const std::string &c, const Optional<A> &a, const Optional<B> &b)
{
  if (c == "eq") return a == b;
  if (c == "ne") return a != b;
  if (c == "lt") return a < b;
  if (c == "le") return a <= b;
  if (c == "gt") return a > b;
  return a >= b;
}

// how the live-address registry treats a payload kind: 0 = every lifetime event is visible (Trk),
// 1 = no destructor: a lifetime ends implicitly when the wrapper disengages / its storage is reused (Tnd),
// 2 = trivial copies: objects appear without a visible constructor call, only 'D' and 'X' are counted (Dto)
template <typename F> struct RegMode { static const int v = 0; };
template <> struct RegMode<FamTnd> { static const int v = 1; };
template <> struct RegMode<FamDto> { static const int v = 2; };

template <typename F> struct Run {
  using T = typename F::T; using U = typename F::U;
  using OT = Optional<T>; using OU = Optional<U>;

  static void scrub(int i) { std::memset(g_slots[i].buf, 0xA5, SLOTSZ); }
  static T *vars[2];

  template <typename X> static std::string misal(const Optional<X> &o)
  {
    // address of the payload storage = what value() returns a reference to
    const X *p = o.operator->();
    return (reinterpret_cast<uintptr_t>(p) % alignof(X)) ? "!MISALIGNED" : "";
  }
  static std::string dump()
  {
    std::string r;
    G.quiet = true;
    for (int i = 0; i < NSLOTS; ++i) {
      if (i) r += ",";
      int k = g_slots[i].kind;
      if (k == 0) { r += "-"; continue; }
      if (k == 1) {
        const OT &o = at<T>(i);
        r += "T";
        if (RegMode<F>::v == 1 && !o.has_value()) G.live.erase(o.operator->());   // lifetime ended without a destructor
        if (o.has_value()) r += "v" + F::peekT(*o);
        else r += std::string("e") + live_suffix(o.operator->());
        r += misal(o);
      } else {
        const OU &o = at<U>(i);
        r += "U";
        if (RegMode<F>::v == 1 && !o.has_value()) G.live.erase(o.operator->());
        if (o.has_value()) r += "v" + F::peekU(*o);
        else r += std::string("e") + live_suffix(o.operator->());
        r += misal(o);
      }
    }
    G.quiet = false;
    return r;
  }
  static std::string live_suffix(const void *p) { return F::inst ? (G.live.count(p) ? "L" : "R") : ""; }

  static std::string step(const std::string &tok)
  {
    auto f = split(tok, ':');
    const std::string &c = f[0];
    std::ostringstream o;
    int i = f.size() > 1 ? std::stoi(f[1]) : 0;
    auto num = [&](size_t k) { return std::stol(f[k]); };
    // value operations whose argument is a NAMED payload variable of the harness, in each value category
    // (0 prvalue: a temporary copy, 1 xvalue: std::move(var), 2 const lvalue, 3 non-const lvalue); the variable is
    // inspected afterwards (vr) and reused.  member: 0 Optional(const T&), 1 emplace, 2 operator=(U&&), 3 make_optional
    if (c == "sv") {
      int k = i;
      T t = F::encT(num(2));
      if (vars[k]) *vars[k] = t; else vars[k] = new (g_varbuf[k]) T(t);       // (over-aligned payloads: no plain new in C++11)
      return "ok";
    }
    if (c == "vr") {
      if (!vars[i]) return "val=none";
      G.quiet = true;
      long v = F::decT(*vars[i]);
      G.quiet = false;
      return "val=" + std::to_string(v);
    }
    if (c == "vu") {
      int m = i, slot = (int)num(2), k = (int)num(4), cat = (int)num(5);
      if (num(3) != 0) return "badop";
      if (!vars[k]) return "ill";
      T &v = *vars[k];
      const T &cv = v;
      int ks = g_slots[slot].kind;
      if (m == 0 || m == 3) {
        if (ks != 0) return "ill";
        scrub(slot);
        if (m == 0) {
          if (cat == 0) new (addr<T>(slot)) OT(T(v));
          else if (cat == 1) new (addr<T>(slot)) OT(std::move(v));
          else if (cat == 2) new (addr<T>(slot)) OT(cv);
          else new (addr<T>(slot)) OT(v);
        } else {
          if (cat == 0) new (addr<T>(slot)) OT(rkcommon::utility::make_optional<T>(T(v)));
          else if (cat == 1) new (addr<T>(slot)) OT(rkcommon::utility::make_optional<T>(std::move(v)));
          else if (cat == 2) new (addr<T>(slot)) OT(rkcommon::utility::make_optional<T>(cv));
          else new (addr<T>(slot)) OT(rkcommon::utility::make_optional<T>(v));
        }
        g_slots[slot].kind = 1;
        return "ok";
      }
      if (ks != 1) return "ill";
      OT &w = at<T>(slot);
      if (m == 1) {
        if (cat == 0) w.emplace(T(v));
        else if (cat == 1) w.emplace(std::move(v));
        else if (cat == 2) w.emplace(cv);
        else w.emplace(v);
      } else {
        if (cat == 0) w = T(v);
        else if (cat == 1) w = std::move(v);
        else if (cat == 2) w = cv;
        else w = v;
      }
      return "ok";
    }
    if (c == "es" || c == "eu") {
      if (EnvGet<F>::kind < 0) return "badop";
      if (c == "es") setenv(env_name(i).c_str(), EnvGet<F>::render(num(2)).c_str(), 1);
      else unsetenv(env_name(i).c_str());
      return "ok";
    }
    int ki = g_slots[i].kind;
    if (c == "gv") {
      if (EnvGet<F>::kind < 0 || num(2) != EnvGet<F>::kind) return "badop";
      if (ki != 0) return "ill";
      scrub(i);
      g_slots[i].kind = EnvGet<F>::go(i, env_name(num(3)));
      return "ok";
    }
    if (c == "cd" || c == "cv" || c == "mk") {
      bool u = num(2) == 1;
      if (ki != 0) return "ill";
      scrub(i);
      if (c == "cd") { if (u) new (addr<U>(i)) OU(); else new (addr<T>(i)) OT(); }
      else if (c == "cv") {
        if (u) { U t = F::encU(num(3)); new (addr<U>(i)) OU(t); }
        else { T t = F::encT(num(3)); new (addr<T>(i)) OT(t); }
      } else {
        if (u) { U t = F::encU(num(3)); new (addr<U>(i)) OU(rkcommon::utility::make_optional<U>(t)); }
        else { T t = F::encT(num(3)); new (addr<T>(i)) OT(rkcommon::utility::make_optional<T>(t)); }
      }
      g_slots[i].kind = u ? 2 : 1;
      return "ok";
    }
    if (c == "cc" || c == "cm" || c == "xc" || c == "xm") {
      int j = (int)num(2), kj = g_slots[j].kind;
      if (ki != 0 || kj == 0) return "ill";
      bool conv = c[0] == 'x', mv = c[1] == 'm';
      if (conv && kj != 2) return "ill";
      scrub(i);
      if (conv) {
        if (mv) new (addr<T>(i)) OT(std::move(at<U>(j)));
        else new (addr<T>(i)) OT(static_cast<const OU &>(at<U>(j)));
        g_slots[i].kind = 1;
      } else if (kj == 1) {
        if (mv) new (addr<T>(i)) OT(std::move(at<T>(j)));
        else new (addr<T>(i)) OT(static_cast<const OT &>(at<T>(j)));
        g_slots[i].kind = 1;
      } else {
        if (mv) new (addr<U>(i)) OU(std::move(at<U>(j)));
        else new (addr<U>(i)) OU(static_cast<const OU &>(at<U>(j)));
        g_slots[i].kind = 2;
      }
      return "ok";
    }
    if (ki == 0) return "ill";
    if (c == "d") {
      if (ki == 1) at<T>(i).~OT(); else at<U>(i).~OU();
      g_slots[i].kind = 0;
      G.wrapper_gone(i);
      scrub(i);
      return "ok";
    }
    if (c == "av") {
      bool fromU = num(3) == 1;
      if (ki == 1) {
        if (fromU) { U t = F::encU(num(2)); at<T>(i) = t; }
        else { T t = F::encT(num(2)); at<T>(i) = t; }
      } else { U t = F::encU(num(2)); at<U>(i) = t; }
      return "ok";
    }
    if (c == "ac" || c == "am" || c == "xac" || c == "xam") {
      int j = (int)num(2), kj = g_slots[j].kind;
      if (kj == 0) return "ill";
      bool conv = c[0] == 'x', mv = c[c.size() - 1] == 'm';
      if (conv) {
        if (ki != 1 || kj != 2) return "ill";
        if (mv) at<T>(i) = std::move(at<U>(j));
        else at<T>(i) = static_cast<const OU &>(at<U>(j));
      } else {
        if (ki != kj || (mv && i == j)) return "ill";
        if (ki == 1) { if (mv) at<T>(i) = std::move(at<T>(j)); else at<T>(i) = static_cast<const OT &>(at<T>(j)); }
        else { if (mv) at<U>(i) = std::move(at<U>(j)); else at<U>(i) = static_cast<const OU &>(at<U>(j)); }
      }
      return "ok";
    }
    if (c == "adr" || c == "edr") {
      // the argument is the payload of ANOTHER wrapper, *j (mv: std::move(*j)): c = *a goes to operator=(U&&), not to the
      // wrapper assignment; the source wrapper is inspected by every dump
      int j = (int)num(2), kj = g_slots[j].kind;
      bool mv = num(3) == 1;
      if (kj == 0 || ki != kj) return "ill";
      if (ki == 1) {
        if (!at<T>(j).has_value() || (c == "edr" && i == j)) return "ill";
        if (c == "adr") { if (mv) at<T>(i) = std::move(*at<T>(j)); else at<T>(i) = *at<T>(j); }
        else { if (mv) at<T>(i).emplace(std::move(*at<T>(j))); else at<T>(i).emplace(*at<T>(j)); }
      } else {
        if (!at<U>(j).has_value() || (c == "edr" && i == j)) return "ill";
        if (c == "adr") { if (mv) at<U>(i) = std::move(*at<U>(j)); else at<U>(i) = *at<U>(j); }
        else { if (mv) at<U>(i).emplace(std::move(*at<U>(j))); else at<U>(i).emplace(*at<U>(j)); }
      }
      return "ok";
    }
    if (c == "em") {
      if (ki == 1) { T t = F::encT(num(2)); T &r = at<T>(i).emplace(t); if (&r != &at<T>(i).value()) return "ok!EMPLACE-REF"; }
      else { U t = F::encU(num(2)); at<U>(i).emplace(t); }
      return "ok";
    }
    if (c == "rs") { if (ki == 1) at<T>(i).reset(); else at<U>(i).reset(); return "ok"; }
    if (c == "hv") {
      bool a = ki == 1 ? at<T>(i).has_value() : at<U>(i).has_value();
      bool b = ki == 1 ? (bool)at<T>(i) : (bool)at<U>(i);
      return a != b ? "!BOOL" : (a ? "true" : "false");
    }
    if (c == "val") {
      if (ki == 1) {
        OT &w = at<T>(i); const OT &cw = w;
        if (!w) return "val=none";
        if (&*w != &w.value() || w.operator->() != &*w || &*cw != &cw.value() || cw.operator->() != &*w) return "!ACCESSORS";
        return "val=" + std::to_string(F::decT(*cw));
      } else {
        OU &w = at<U>(i);
        if (!w) return "val=none";
        return "val=" + std::to_string(F::decU(*w));
      }
    }
    if (c == "vo") {
      if (ki == 1) { T d = F::encT(num(2)); T r = at<T>(i).value_or(d); return "val=" + std::to_string(F::decT(r)); }
      else { U d = F::encU(num(2)); U r = at<U>(i).value_or(d); return "val=" + std::to_string(F::decU(r)); }
    }
    if (c == "str") {
      std::string s = ki == 1 ? at<T>(i).toString() : at<U>(i).toString();
      return s.empty() ? "str!EMPTY" : "str";
    }
    if (c == "eq" || c == "ne" || c == "lt" || c == "le" || c == "gt" || c == "ge") {
      int j = (int)num(2), kj = g_slots[j].kind;
      if (kj == 0) return "ill";
      bool r;
      if (ki == 1 && kj == 1) r = docmp(c, static_cast<const OT &>(at<T>(i)), static_cast<const OT &>(at<T>(j)));
      else if (ki == 1 && kj == 2) r = docmp(c, static_cast<const OT &>(at<T>(i)), static_cast<const OU &>(at<U>(j)));
      else if (ki == 2 && kj == 1) r = docmp(c, static_cast<const OU &>(at<U>(i)), static_cast<const OT &>(at<T>(j)));
      else r = docmp(c, static_cast<const OU &>(at<U>(i)), static_cast<const OU &>(at<U>(j)));
      return r ? "true" : "false";
    }
    return "badop";
  }

  static std::string fmt(const std::string &out, const std::string &atoms, const std::string &d)
  {
    return F::inst ? out + "|" + atoms + "|" + d : out + "|" + d;
  }

  static std::string history(const std::vector<std::string> &ops)
  {
    for (int i = 0; i < NSLOTS; ++i) { g_slots[i].kind = 0; scrub(i); unsetenv(env_name(i).c_str()); }
    unsetenv(env_name(7).c_str());          // the name that is never set
    G = Registry();
    G.implicit_end = RegMode<F>::v == 1;
    G.track = RegMode<F>::v != 2;
    std::string line;
    g_throw_any = false;
    int planted = 0;
    for (auto &tok : ops) {
      std::string out;
      if (tok.compare(0, 3, "th:") == 0) { planted = std::stoi(tok.substr(3)); out = "ok"; }
      else {
        g_throw_in = planted; planted = 0;
        try { out = step(tok); } catch (const PayloadThrow &) { out = "throw"; }
        g_throw_in = 0;
      }
      std::string at = G.take_atoms();   // events caused by the operation itself
      std::string d = dump();
      out += G.take_misuse();
      line += fmt(out, at, d) + " ; ";
    }
    for (int i = 0; i < NSLOTS; ++i)
      if (g_slots[i].kind) step("d:" + std::to_string(i));
    for (int k = 0; k < 2; ++k) { if (vars[k]) vars[k]->~T(); vars[k] = nullptr; }
    std::string at = G.take_atoms();
    std::string out = "end" + G.take_misuse();
    if (RegMode<F>::v == 0 && (!G.live.empty() || G.constructs != G.destroys))
      out += "!UNBALANCED(" + std::to_string(G.constructs) + "/" + std::to_string(G.destroys) + ")";
    line += fmt(out, at, dump());
    return line;
  }
};

template <typename F> typename F::T *Run<F>::vars[2] = {nullptr, nullptr};

// ------------------------------------------------------------------ move-only payload
// Mov: copy constructor and copy assignment deleted; everything else user-provided and logged.  Only the members of
// Optional that do not copy the payload can be instantiated: default ctor, make_optional(T&&), emplace(T&&), move
// ctor, move assignment, reset, dtor, observers by reference, comparisons, toString.
struct Mov {
  long code;
  Mov() : code(0) { G.construct(this, 'D'); }
  Mov(Code c) : code(c.v) { G.construct(this, 'C'); }
  Mov(const Mov &) = delete;
  Mov &operator=(const Mov &) = delete;
  Mov(Mov &&o) : code(-1)
  {
    if (G.read(&o, true)) { code = o.code; o.code = 0; }
    G.construct(this, 'C');
  }
  Mov &operator=(Mov &&o)
  {
    long c = -1;
    if (G.read(&o, true)) { c = o.code; if (&o != this) o.code = 0; }
    G.assign(this);
    code = c;
    return *this;
  }
  ~Mov() { G.destroy(this); }
};
static long mcmp(const Mov &a, const Mov &b)
{
  bool la = G.read(&a, false), lb = G.read(&b, false);
  long x = la ? a.code / 4 : -1, y = lb ? b.code / 4 : -1;
  return x < y ? -1 : (x > y ? 1 : 0);
}
static bool operator==(const Mov &a, const Mov &b) { return mcmp(a, b) == 0; }
static bool operator!=(const Mov &a, const Mov &b) { return mcmp(a, b) != 0; }
static bool operator<(const Mov &a, const Mov &b) { return mcmp(a, b) < 0; }
static bool operator<=(const Mov &a, const Mov &b) { return mcmp(a, b) <= 0; }
static bool operator>(const Mov &a, const Mov &b) { return mcmp(a, b) > 0; }
static bool operator>=(const Mov &a, const Mov &b) { return mcmp(a, b) >= 0; }
struct RunMov {
  typedef Optional<Mov> OM;
  static std::string dump()
  {
    std::string r;
    G.quiet = true;
    for (int i = 0; i < NSLOTS; ++i) {
      if (i) r += ",";
      if (!g_slots[i].kind) { r += "-"; continue; }
      const OM &o = at<Mov>(i);
      const Mov *p = o.operator->();
      r += "T";
      if (o.has_value()) r += "v" + (G.live.count(p) ? std::to_string(p->code) + "L" : std::string("XR"));
      else r += std::string("e") + (G.live.count(p) ? "L" : "R");
      if (reinterpret_cast<uintptr_t>(p) % alignof(Mov)) r += "!MISALIGNED";
    }
    G.quiet = false;
    return r;
  }
  static std::string step(const std::string &tok)
  {
    auto f = split(tok, ':');
    const std::string &c = f[0];
    int i = std::stoi(f[1]);
    auto num = [&](size_t k) { return std::stol(f[k]); };
    int ki = g_slots[i].kind;
    if (c == "cd" || c == "mk") {
      if (num(2) != 0) return "badop";
      if (ki) return "ill";
      std::memset(g_slots[i].buf, 0xA5, SLOTSZ);
      if (c == "cd") new (addr<Mov>(i)) OM();
      else { Mov t(Code{num(3)}); new (addr<Mov>(i)) OM(rkcommon::utility::make_optional<Mov>(std::move(t))); }
      g_slots[i].kind = 1;
      return "ok";
    }
    if (c == "cm") {
      int j = (int)num(2);
      if (ki || !g_slots[j].kind) return "ill";
      std::memset(g_slots[i].buf, 0xA5, SLOTSZ);
      new (addr<Mov>(i)) OM(std::move(at<Mov>(j)));
      g_slots[i].kind = 1;
      return "ok";
    }
    if (!ki) return "ill";
    OM &w = at<Mov>(i);
    if (c == "d") { w.~OM(); g_slots[i].kind = 0; G.wrapper_gone(i); std::memset(g_slots[i].buf, 0xA5, SLOTSZ); return "ok"; }
    if (c == "am") {
      int j = (int)num(2);
      if (!g_slots[j].kind || i == j) return "ill";
      w = std::move(at<Mov>(j));
      return "ok";
    }
    if (c == "em") { Mov t(Code{num(2)}); w.emplace(std::move(t)); return "ok"; }
    if (c == "rs") { w.reset(); return "ok"; }
    if (c == "hv") return w.has_value() ? "true" : "false";
    if (c == "val") {
      if (!w) return "val=none";
      const Mov &m = *static_cast<const OM &>(w);
      return "val=" + std::to_string(G.read(&m, false) ? m.code : -1);
    }
    if (c == "str") return w.toString().empty() ? "str!EMPTY" : "str";
    if (c == "eq" || c == "ne" || c == "lt" || c == "le" || c == "gt" || c == "ge") {
      int j = (int)num(2);
      if (!g_slots[j].kind) return "ill";
      return docmp(c, static_cast<const OM &>(w), static_cast<const OM &>(at<Mov>(j))) ? "true" : "false";
    }
    return "badop";
  }
  static std::string history(const std::vector<std::string> &ops)
  {
    for (int i = 0; i < NSLOTS; ++i) { g_slots[i].kind = 0; std::memset(g_slots[i].buf, 0xA5, SLOTSZ); }
    G = Registry();
    std::string line;
    for (auto &tok : ops) {
      std::string out = step(tok);
      std::string at = G.take_atoms();
      std::string d = dump();
      out += G.take_misuse();
      line += out + "|" + at + "|" + d + " ; ";
    }
    for (int i = 0; i < NSLOTS; ++i)
      if (g_slots[i].kind) step("d:" + std::to_string(i));
    std::string at = G.take_atoms();
    std::string out = "end" + G.take_misuse();
    if (!G.live.empty() || G.constructs != G.destroys)
      out += "!UNBALANCED(" + std::to_string(G.constructs) + "/" + std::to_string(G.destroys) + ")";
    line += out + "|" + at + "|" + dump();
    return line;
  }
};

// ------------------------------------------------------------------ Any histories
#ifndef C09_NO_ANY
struct NoEq { Trk<2> t; };                 // a payload type without operator==
typedef Trk<3> ATrk;
// payload types whose operator== is coarser than identity (or not reflexive):
//   tag 6: double, code 0 = +0.0, 1 = -0.0, 2 = quiet NaN, k >= 3 -> k + 0.25
//   tag 7: KS {key, shadow} compared on key only, code = 16 * key + shadow
static const long NTAGS = 8;
struct KS { int key; int shadow; bool operator==(const KS &o) const { return key == o.key; } };
static double dbl_enc(long c)
{
  if (c == 0) return 0.0;
  if (c == 1) return -0.0;
  if (c == 2) return std::numeric_limits<double>::quiet_NaN();
  return (double)c + 0.25;
}
static long dbl_dec(double x)   // the FULL stored state: sign bit of zero and NaN-ness are part of it
{
  if (std::isnan(x)) return 2;
  if (x == 0.0) return std::signbit(x) ? 1 : 0;
  long c = (long)x;
  return (x == (double)c + 0.25 && c >= 3) ? c : -7;
}
static KS ks_enc(long c) { return KS{(int)(c / 16), (int)(c % 16)}; }
static long ks_dec(const KS &k) { return 16L * k.key + k.shadow; }
static Any &any_at(int i) { return *reinterpret_cast<Any *>(g_slots[i].buf); }
static std::string astr(long v) { return "s" + std::to_string(v) + std::string(20 + v % 9, 'w'); }
static vec3f avec(long v) { return vec3f((float)v, (float)v + 1, (float)v + 2); }

static Any any_make(long t, long v)
{
  switch (t) {
  case 0: return Any((int)v);
  case 1: return Any((float)v + 0.5f);
  case 2: return Any(astr(v));
  case 3: return Any(avec(v));
  case 4: return Any(NoEq{Trk<2>(Code{v})});
  case 6: return Any(dbl_enc(v));
  case 7: return Any(ks_enc(v));
  default: return Any(ATrk(Code{v}));
  }
}
static void any_assign_value(Any &a, long t, long v)
{
  switch (t) {
  case 0: a = (int)v; break;
  case 1: a = (float)v + 0.5f; break;
  case 2: a = astr(v); break;
  case 3: a = avec(v); break;
  case 4: a = NoEq{Trk<2>(Code{v})}; break;
  case 6: a = dbl_enc(v); break;
  case 7: a = ks_enc(v); break;
  default: a = ATrk(Code{v}); break;
  }
}
static long any_get(const Any &a, long t)   // throws std::runtime_error on a type mismatch / empty
{
  switch (t) {
  case 0: return a.get<int>();
  case 1: return (long)a.get<float>();
  case 2: return std::stol(a.get<std::string>().substr(1));
  case 3: { const vec3f &v = a.get<vec3f>(); if (v.y != v.x + 1 || v.z != v.x + 2) return -7; return (long)v.x; }
  case 4: { const NoEq &n = a.get<NoEq>(); return G.live.count(&n.t) ? n.t.code : -1; }
  case 6: return dbl_dec(a.get<double>());
  case 7: return ks_dec(a.get<KS>());
  default: { const ATrk &n = a.get<ATrk>(); return G.live.count(&n) ? n.code : -1; }
  }
}
static void any_set(Any &a, long t, long v)
{
  switch (t) {
  case 0: a.get<int>() = (int)v; break;
  case 1: a.get<float>() = (float)v + 0.5f; break;
  case 2: a.get<std::string>() = astr(v); break;
  case 3: a.get<vec3f>() = avec(v); break;
  case 4: a.get<NoEq>().t.code = v; break;
  case 6: a.get<double>() = dbl_enc(v); break;
  case 7: a.get<KS>() = ks_enc(v); break;
  default: a.get<ATrk>().code = v; break;
  }
}
static bool any_is(const Any &a, long t)
{
  switch (t) {
  case 0: return a.is<int>();
  case 1: return a.is<float>();
  case 2: return a.is<std::string>();
  case 3: return a.is<vec3f>();
  case 4: return a.is<NoEq>();
  case 6: return a.is<double>();
  case 7: return a.is<KS>();
  default: return a.is<ATrk>();
  }
}
static const char *any_tname(long t)
{
  static const char *n[] = {"int", "float", "basic_string", "vec_t", "NoEq", "Trk", "double", "KS"};
  return n[t];
}
static std::string any_dump()
{
  std::string r;
  for (int i = 0; i < NSLOTS; ++i) {
    if (i) r += ",";
    if (!g_slots[i].kind) { r += "-"; continue; }
    const Any &a = any_at(i);
    if (!a.valid()) { r += "e"; continue; }
    int n = 0; long tag = -1;
    for (long t = 0; t < NTAGS; ++t) if (any_is(a, t)) { ++n; tag = t; }
    if (n != 1) { r += "!TAGS" + std::to_string(n); continue; }
    r += std::to_string(tag) + ":" + std::to_string(any_get(a, tag));
  }
  return r;
}
static std::string any_step(const std::string &tok)
{
  auto f = split(tok, ':');
  const std::string &c = f[0];
  int i = std::stoi(f[1]);
  auto num = [&](size_t k) { return std::stol(f[k]); };
  int ki = g_slots[i].kind;
  if (c == "cd" || c == "cv" || c == "cc" || c == "mc") {
    if (ki) return "ill";
    if (c == "cc" || c == "mc") {
      int j = (int)num(2);
      if (!g_slots[j].kind) return "ill";
      // Any declares no move constructor (its copy operations and destructor suppress the implicit one):
      // construction from an rvalue and from a non-const lvalue both select Any(const Any &), not the template Any(T)
      if (c == "mc") new (g_slots[i].buf) Any(std::move(any_at(j)));
      else if (j % 2) new (g_slots[i].buf) Any(any_at(j));
      else new (g_slots[i].buf) Any(static_cast<const Any &>(any_at(j)));
    } else if (c == "cd") new (g_slots[i].buf) Any();
    else if (num(3) % 2 && (num(2) == 2 || num(2) == 5)) {
      // value category: Any(T) takes its argument BY VALUE - a named non-const lvalue must come back unchanged
      if (num(2) == 2) { std::string s = astr(num(3)); new (g_slots[i].buf) Any(s); g_slots[i].kind = 1; if (s != astr(num(3))) return "ok!SRC-MODIFIED"; }
      else { ATrk k(Code{num(3)}); new (g_slots[i].buf) Any(k); g_slots[i].kind = 1; if (k.code != num(3)) return "ok!SRC-MODIFIED"; }
      return "ok";
    }
    else new (g_slots[i].buf) Any(any_make(num(2), num(3)));
    g_slots[i].kind = 1;
    return "ok";
  }
  if (!ki) return "ill";
  Any &a = any_at(i);
  const Any &ca = a;
  if (c == "d") { a.~Any(); g_slots[i].kind = 0; return "ok"; }
  if (c == "av") {
    if (num(3) % 2 && (num(2) == 2 || num(2) == 5)) {      // operator=(T) from a named non-const lvalue
      if (num(2) == 2) { std::string s = astr(num(3)); a = s; if (s != astr(num(3))) return "ok!SRC-MODIFIED"; }
      else { ATrk k(Code{num(3)}); a = k; if (k.code != num(3)) return "ok!SRC-MODIFIED"; }
      return "ok";
    }
    any_assign_value(a, num(2), num(3));
    return "ok";
  }
  if (c == "ac" || c == "ma" || c == "eq" || c == "ne") {
    int j = (int)num(2);
    if (!g_slots[j].kind) return "ill";
    const Any &b = any_at(j);
    if (c == "ma") { a = std::move(any_at(j)); return "ok"; }      // no move assignment either: copies
    if (c == "ac") { if (j % 2) a = any_at(j); else a = b; return "ok"; }
    if (c == "eq") return (ca == b) ? "true" : "false";
    return (ca != b) ? "true" : "false";
  }
  if (c == "get") {
    try { return "val=" + std::to_string(any_get(ca, num(2))); } catch (const std::runtime_error &) { return "throw"; }
  }
  if (c == "set") {
    try { any_set(a, num(2), num(3)); return "ok"; } catch (const std::runtime_error &) { return "throw"; }
  }
  if (c == "is") return any_is(ca, num(2)) ? "true" : "false";
  if (c == "valid") return ca.valid() ? "true" : "false";
  if (c == "str") {
    std::string s = ca.toString();
    if (!ca.valid()) return "str=empty";
    for (long t = 0; t < NTAGS; ++t)
      if (any_is(ca, t)) return s.find(any_tname(t)) != std::string::npos ? "str=" + std::to_string(t) : "str=?" + s;
    return "str=?";
  }
  return "badop";
}
static std::string any_history(const std::vector<std::string> &ops)
{
  for (int i = 0; i < NSLOTS; ++i) g_slots[i].kind = 0;
  G = Registry();
  G.quiet = true;
  std::string line;
  g_throw_any = true;
  int planted = 0;
  for (auto &tok : ops) {
    std::string out;
    if (tok.compare(0, 3, "th:") == 0) { planted = std::stoi(tok.substr(3)); out = "ok"; }
    else {
      g_throw_in = planted; planted = 0;
      try { out = any_step(tok); } catch (const PayloadThrow &) { out = "throw"; }
      g_throw_in = 0;
    }
    std::string d = any_dump();
    out += G.take_misuse();
    line += out + "|" + d + " ; ";
  }
  for (int i = 0; i < NSLOTS; ++i)
    if (g_slots[i].kind) any_step("d:" + std::to_string(i));
  line += "end" + G.take_misuse() + "|" + any_dump() + "|outstanding=" + std::to_string((long)G.live.size());
  return line;
}

#endif  // C09_NO_ANY

template <typename F> static void facts()
{
  typedef typename F::T T;
  std::cout << F::name() << " alignT=" << alignof(T) << " sizeT=" << sizeof(T) << " align=" << alignof(Optional<T>)
            << " size=" << sizeof(Optional<T>) << " prefixed_offset=" << offsetof(Prefixed<T>, o) << "\n";
}

template <typename T> static void fact(const char *name)
{
  std::cout << name << " alignT=" << alignof(T) << " sizeT=" << sizeof(T) << " align=" << alignof(Optional<T>)
            << " size=" << sizeof(Optional<T>) << " prefixed_offset=" << offsetof(Prefixed<T>, o) << "\n";
}
struct alignas(64) CacheLine { char c[64]; };
struct Packed3 { char c[3]; };

int main(int argc, char **argv)
{
  std::string mode = argc > 1 ? argv[1] : "trk";
  if (mode == "facts") {
    facts<FamTrk>(); facts<FamStr>(); facts<FamVec>(); facts<FamOver>(); facts<FamInt>(); facts<FamKS>();
    fact<char>("char"); fact<short>("short"); fact<double>("double"); fact<long double>("longdouble");
    fact<void *>("ptr"); fact<vec3f>("vec3f"); fact<rkcommon::math::vec4f>("vec4f"); fact<CacheLine>("cacheline");
    fact<Packed3>("packed3"); fact<Optional<double>>("optdouble");
    return 0;
  }
  std::string line;
  while (std::getline(std::cin, line)) {
    std::istringstream is(line);
    std::string kind; is >> kind;
    std::vector<std::string> ops; std::string t;
    while (is >> t) ops.push_back(t);
    std::string r;
    if (kind == "O") {
      if (mode == "trk") r = Run<FamTrk>::history(ops);
      else if (mode == "tnd") r = Run<FamTnd>::history(ops);
      else if (mode == "mov") r = RunMov::history(ops);
      else if (mode == "dto") r = Run<FamDto>::history(ops);
      else if (mode == "str") r = Run<FamStr>::history(ops);
      else if (mode == "vec") r = Run<FamVec>::history(ops);
      else if (mode == "over") r = Run<FamOver>::history(ops);
      else if (mode == "ks") r = Run<FamKS>::history(ops);
      else if (mode == "dbl") r = Run<FamDbl>::history(ops);
      else r = Run<FamInt>::history(ops);
    }
#ifndef C09_NO_ANY
    else if (kind == "A") r = any_history(ops);
#endif
    std::cout << r << std::endl;
  }
  return 0;
}
