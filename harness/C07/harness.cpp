// C07 — case harness.  Reads "<fn> <arg> ..." (decimal integers; floats as their
// bit patterns) on stdin and prints one observation line per case, in the same
// canonical form as the Coq binary32 model (fn 1..13, evaluated with vm_compute)
// and the extracted Z model (fn 20..27).  Built from the working tree in the
// default (SIMD) and the -DRKCOMMON_NO_SIMD configuration.
#include <cmath>
#include <cstdint>
#include <cstdio>
#include <cstdlib>
#include <cstring>
#include <iostream>
#include <sstream>
#include <string>
#include <vector>

#include "rkcommon/math/rkmath.h"
#include "rkcommon/math/vec.h"
// the distribution keeps its generator private; fn 17 plants a chosen generator state (std headers are all included above)
#define private public
#include "rkcommon/utility/random.h"
#undef private

using namespace rkcommon;
using namespace rkcommon::math;

static inline float f_of(long long b) { uint32_t u = (uint32_t)b; float f; std::memcpy(&f, &u, 4); return f; }
static inline long long b_of(float f) {
  if (f != f) return 0x7FC00000ll;   // canonical NaN
  uint32_t b; std::memcpy(&b, &f, 4); return b;
}

// a pcg32 whose NEXT output is k: state with rotation field 0 solving ((s ^ (s >> 18)) >> 27) == k, loaded through
// the engine's public stream extraction (multiplier, increment, state)
static pcg32 pcg_with_next_output(uint32_t k) {
  uint64_t s = 0;
  for (int i = 58; i >= 27; i--) {
    const uint64_t xi = (k >> (i - 27)) & 1u;
    const uint64_t hi = (i + 18 <= 58) ? ((s >> (i + 18)) & 1u) : 0u;
    s |= (xi ^ hi) << i;
  }
  std::ostringstream os;
  os << "6364136223846793005 1 " << s;
  std::istringstream is(os.str());
  pcg32 g;
  is >> g;
  return g;
}
// generator stub for uniform_real_distribution: returns a chosen value, same min/max as pcg32
struct StubGen {
  uint32_t v;
  static constexpr uint32_t min() { return 0u; }
  static constexpr uint32_t max() { return 0xFFFFFFFFu; }
  uint32_t operator()() { return v; }
};

static inline double d_of(unsigned long long b) { double d; std::memcpy(&d, &b, 8); return d; }
static inline unsigned long long b_of64(double d) {
  if (d != d) return 0x7FF8000000000000ull;   // canonical NaN
  unsigned long long b; std::memcpy(&b, &d, 8); return b;
}

int main() {
  std::string line;
  while (std::getline(std::cin, line)) {
    std::istringstream is(line);
    long long fn; is >> fn;
    std::vector<long long> a; std::vector<unsigned long long> ua; std::string tok;
    while (is >> tok) { a.push_back(std::strtoll(tok.c_str(), 0, 10)); ua.push_back(std::strtoull(tok.c_str(), 0, 10)); }
    std::ostringstream o;
    switch (fn) {
      case 1: o << b_of(rcp(f_of(a[0]))); break;
      case 2: o << b_of(rcp_safe(f_of(a[0]))); break;
      case 3: o << b_of(rsqrt(f_of(a[0]))); break;
      case 4: o << b_of(clamp(f_of(a[0]), f_of(a[1]), f_of(a[2]))); break;
      case 5: o << b_of(deg2rad(f_of(a[0]))); break;
      case 6: o << b_of(madd(f_of(a[0]), f_of(a[1]), f_of(a[2]))); break;
      case 7: o << b_of(lerp(f_of(a[0]), f_of(a[1]), f_of(a[2]))); break;
      case 8: o << b_of(sign(f_of(a[0]))); break;
      case 9: o << (long long)cvt_uint32(f_of(a[0])); break;
      case 10: o << (long long)cvt_uint32(vec4f(f_of(a[0]), f_of(a[1]), f_of(a[2]), f_of(a[3]))); break;
      case 11: {   // pcg32_biased_float_distribution(seed, sequence, lower, upper): value number n
        utility::pcg32_biased_float_distribution d1((int)a[0], (int)a[1], f_of(a[2]), f_of(a[3]));
        utility::pcg32_biased_float_distribution d2((int)a[0], (int)a[1], f_of(a[2]), f_of(a[3]));
        float r1 = 0, r2 = 0; bool same = true;
        for (long long i = 0; i <= a[4]; i++) { r1 = d1(); r2 = d2(); same = same && b_of(r1) == b_of(r2); }
        o << b_of(r1); if (!same) o << " NONREPRO";
        break;
      }
      case 12: {   // uniform_real_distribution<float>(l,u) drawing from pcg32 seeded (seed, sequence)
        pcg32 g1, g2; g1.seed((int)a[0], (int)a[1]); g2.seed((int)a[0], (int)a[1]);
        utility::uniform_real_distribution<float> u1(f_of(a[2]), f_of(a[3])), u2(f_of(a[2]), f_of(a[3]));
        float r1 = 0, r2 = 0; bool same = true;
        for (long long i = 0; i <= a[4]; i++) { r1 = u1(g1); r2 = u2(g2); same = same && b_of(r1) == b_of(r2); }
        o << b_of(r1); if (!same) o << " NONREPRO";
        break;
      }
      case 13: {   // makeRandomColor(i): the channel whose modulus is a[1]
        vec3f c = utility::makeRandomColor((unsigned)a[0]);
        o << b_of(a[1] == 13 * 17 * 43 ? c.x : a[1] == 11 * 29 ? c.y : c.z);
        break;
      }
      case 17: {   // pcg32_biased_float_distribution(lower, upper) with the generator's next output forced to a[2]
        utility::pcg32_biased_float_distribution d(1, 1, f_of(a[0]), f_of(a[1]));
        d.rng = pcg_with_next_output((uint32_t)a[2]);
        pcg32 probe = d.rng;
        if (probe() != (uint32_t)a[2]) { o << "STATEFAIL"; break; }
        o << b_of(d());
        break;
      }
      case 18: {   // uniform_real_distribution<float>(l,u) over a generator returning a[2]
        StubGen g{(uint32_t)a[2]};
        utility::uniform_real_distribution<float> u(f_of(a[0]), f_of(a[1]));
        o << b_of(u(g));
        break;
      }
      case 14: o << b_of(linear_to_srgb(f_of(a[0]))); break;                       // oracle only (libm pow)
      case 15: o << (long long)linear_to_srgba8(vec4f(f_of(a[0]), f_of(a[1]), f_of(a[2]), f_of(a[3]))); break;
      case 28: {   // linear_to_srgba(vec4f): the four result channels
        const vec4f r = linear_to_srgba(vec4f(f_of(a[0]), f_of(a[1]), f_of(a[2]), f_of(a[3])));
        o << b_of(r.x) << " " << b_of(r.y) << " " << b_of(r.z) << " " << b_of(r.w);
        break;
      }
      // ---- double instantiations / overloads of rkmath.h (arguments and results are binary64 bit patterns)
      case 40: o << b_of64(rcp(d_of(ua[0]))); break;
      case 41: o << b_of64(rcp_safe(d_of(ua[0]))); break;
      case 42: o << b_of64(rsqrt(d_of(ua[0]))); break;
      case 43: o << b_of64(clamp(d_of(ua[0]), d_of(ua[1]), d_of(ua[2]))); break;
      case 44: o << b_of64(deg2rad(d_of(ua[0]))); break;
      case 45: o << b_of64(madd(d_of(ua[0]), d_of(ua[1]), d_of(ua[2]))); break;
      case 46: o << b_of64(lerp(f_of(a[0]), d_of(ua[1]), d_of(ua[2]))); break;      // factor is a float
      case 47: o << (unsigned long long)clamp<unsigned>((unsigned)ua[0], (unsigned)ua[1], (unsigned)ua[2]); break;
      case 16: {   // deg2rad constant as compiled
        o << b_of(float(1.745329251994329576923690768489e-2)); break;
      }
      case 20: o << (long long)divRoundUp<int>((int)a[0], (int)a[1]); break;
      case 21: o << (long long)divRoundUp<unsigned>((unsigned)a[0], (unsigned)a[1]); break;
      case 22: o << (unsigned long long)divRoundUp<size_t>((size_t)ua[0], (size_t)ua[1]); break;
      case 23: o << (long long)divRoundUp<int64_t>((int64_t)a[0], (int64_t)a[1]); break;
      case 24: o << (long long)clamp<int>((int)a[0], (int)a[1], (int)a[2]); break;
      case 29:     // (same observation as 25; the model side evaluates the REGENERATED engine)
      case 25: {   // raw pcg32 stream: n outputs after seed(seed, sequence)
        pcg32 g; g.seed((int)a[0], (int)a[1]);
        for (long long i = 0; i < a[2]; i++) { if (i) o << ","; o << (unsigned long long)g(); }
        break;
      }
      case 26: {   // packing of four exact channel values k/255
        o << (long long)cvt_uint32(vec4f(a[0] / 255.f, a[1] / 255.f, a[2] / 255.f, a[3] / 255.f));
        break;
      }
      case 27: o << (long long)clamp<int64_t>((int64_t)a[0], (int64_t)a[1], (int64_t)a[2]); break;
      default: o << "?";
    }
    std::cout << o.str() << "\n";
  }
  return 0;
}
