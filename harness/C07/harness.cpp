// C07 — case harness.  Reads "<fn> <arg> ..." (decimal integers; floats as their
// bit patterns) on stdin and prints one observation line per case, in the same
// canonical form as the Coq binary32 model (fn 1..13, evaluated with vm_compute)
// and the extracted Z model (fn 20..27).  Built from the working tree in the
// default (SIMD) and the -DRKCOMMON_NO_SIMD configuration.
#include <cmath>
#include <cstdint>
#include <cstdio>
#include <cstdlib>
#include <cstring>
#include <iostream>
#include <random>
#include <sstream>
#include <string>
#include <vector>

#include "rkcommon/math/rkmath.h"
#include "rkcommon/math/vec.h"
// the distribution keeps its generator private; fn 17 plants a chosen generator state (std headers are all included above)
#define private public
#include "rkcommon/utility/random.h"
#undef private

using namespace rkcommon;
using namespace rkcommon::math;

static inline float f_of(long long b) { uint32_t u = (uint32_t)b; float f; std::memcpy(&f, &u, 4); return f; }
static inline long long b_of(float f) {
  if (f != f) return 0x7FC00000ll;   // canonical NaN
  uint32_t b; std::memcpy(&b, &f, 4); return b;
}

// a pcg32 whose NEXT output is k: state with rotation field 0 solving ((s ^ (s >> 18)) >> 27) == k, loaded through
// the engine's public stream extraction (multiplier, increment, state)
static pcg32 pcg_with_next_output(uint32_t k) {
  uint64_t s = 0;
  for (int i = 58; i >= 27; i--) {
    const uint64_t xi = (k >> (i - 27)) & 1u;
    const uint64_t hi = (i + 18 <= 58) ? ((s >> (i + 18)) & 1u) : 0u;
    s |= (xi ^ hi) << i;
  }
  std::ostringstream os;
  os << "6364136223846793005 1 " << s;
  std::istringstream is(os.str());
  pcg32 g;
  is >> g;
  return g;
}
// generator stub for uniform_real_distribution: returns a chosen value, same min/max as pcg32
struct StubGen {
  uint32_t v;
  static constexpr uint32_t min() { return 0u; }
  static constexpr uint32_t max() { return 0xFFFFFFFFu; }
  uint32_t operator()() { return v; }
};

static inline double d_of(unsigned long long b) { double d; std::memcpy(&d, &b, 8); return d; }
static inline unsigned long long b_of64(double d) {
  if (d != d) return 0x7FF8000000000000ull;   // canonical NaN
  unsigned long long b; std::memcpy(&b, &d, 8); return b;
}

// generator family for uniform_real_distribution (generic in G): result type R, range [MIN, MAX], returns the planted value
template <class R, R MIN, R MAX>
struct GenStub {
  typedef R result_type;
  R v;
  static constexpr R min() { return MIN; }
  static constexpr R max() { return MAX; }
  R operator()() { return v; }
};
template <class T, class G>
static T draw_uniform(T l, T u, G g) { utility::uniform_real_distribution<T> d(l, u); return d(g); }
template <class T>
static T uniform_with_gen(int gen, T l, T u, unsigned long long k) {
  switch (gen) {
    case 0: return draw_uniform(l, u, GenStub<uint32_t, 0u, 0xFFFFFFFFu>{(uint32_t)k});
    case 1: return draw_uniform(l, u, GenStub<uint32_t, 1u, 2147483646u>{(uint32_t)k});
    case 2: return draw_uniform(l, u, GenStub<uint32_t, 1u, 6u>{(uint32_t)k});
    case 3: return draw_uniform(l, u, GenStub<uint64_t, 0ull, 0xFFFFFFFFFFFFFFFFull>{(uint64_t)k});
    case 4: return draw_uniform(l, u, GenStub<uint64_t, 1ull, 2305843009213693950ull>{(uint64_t)k});
    case 5: return draw_uniform(l, u, GenStub<uint32_t, 5u, 1005u>{(uint32_t)k});
    default: return draw_uniform(l, u, GenStub<uint64_t, 1000000007ull, 1000000262ull>{(uint64_t)k});
  }
}
// the standard engines (first draw after seeding)
template <class T>
static T uniform_with_std(int eng, unsigned long long seed, T l, T u) {
  utility::uniform_real_distribution<T> d(l, u);
  switch (eng) {
    case 0: { std::minstd_rand0 g((std::minstd_rand0::result_type)seed); return d(g); }
    case 1: { std::minstd_rand g((std::minstd_rand::result_type)seed); return d(g); }
    case 2: { std::mt19937 g((std::mt19937::result_type)seed); return d(g); }
    case 3: { std::mt19937_64 g(seed); return d(g); }
    default: { std::knuth_b g((std::knuth_b::result_type)seed); return d(g); }
  }
}

// consuming a result BY REFERENCE: `auto&& r = f(temporaries...)`, other stack activity, then r is read in a LATER statement.
// For a function returning by value the temporary's lifetime is extended; a function that hands back a reference to one
// of its (temporary / defaulted) arguments leaves r dangling: ASan reports stack-use-after-scope, -O2 reads garbage.
static void __attribute__((noinline)) scribble() {
  volatile unsigned char buf[512];
  for (int i = 0; i < 512; i++) buf[i] = (unsigned char)(0xA5 ^ i);
}
#define OUTR(conv, e)                                            \
  do {                                                           \
    if (byref) { auto &&r_ = e; scribble(); o << conv(r_); }     \
    else o << conv(e);                                           \
  } while (0)

int main() {
  std::string line;
  while (std::getline(std::cin, line)) {
    std::istringstream is(line);
    long long fn; is >> fn;
    std::vector<long long> a; std::vector<unsigned long long> ua; std::string tok;
    while (is >> tok) { a.push_back(std::strtoll(tok.c_str(), 0, 10)); ua.push_back(std::strtoull(tok.c_str(), 0, 10)); }
    bool byref = false;
    if (fn == 60 && !a.empty()) {   // "60 <fn> args...": the same call, result kept by reference and read later
      byref = true; fn = a[0]; a.erase(a.begin()); ua.erase(ua.begin());
    }
    std::ostringstream o;
    switch (fn) {
      case 1: OUTR(b_of, rcp(f_of(a[0]))); break;
      case 2: OUTR(b_of, rcp_safe(f_of(a[0]))); break;
      case 3: OUTR(b_of, rsqrt(f_of(a[0]))); break;
      case 4: OUTR(b_of, clamp(f_of(a[0]), f_of(a[1]), f_of(a[2]))); break;
      case 5: OUTR(b_of, deg2rad(f_of(a[0]))); break;
      case 6: OUTR(b_of, madd(f_of(a[0]), f_of(a[1]), f_of(a[2]))); break;
      case 7: OUTR(b_of, lerp(f_of(a[0]), f_of(a[1]), f_of(a[2]))); break;
      case 8: OUTR(b_of, sign(f_of(a[0]))); break;
      case 9: o << (long long)cvt_uint32(f_of(a[0])); break;
      case 10: o << (long long)cvt_uint32(vec4f(f_of(a[0]), f_of(a[1]), f_of(a[2]), f_of(a[3]))); break;
      case 11: {   // pcg32_biased_float_distribution(seed, sequence, lower, upper): value number n
        utility::pcg32_biased_float_distribution d1((int)a[0], (int)a[1], f_of(a[2]), f_of(a[3]));
        utility::pcg32_biased_float_distribution d2((int)a[0], (int)a[1], f_of(a[2]), f_of(a[3]));
        float r1 = 0, r2 = 0; bool same = true;
        for (long long i = 0; i <= a[4]; i++) { r1 = d1(); r2 = d2(); same = same && b_of(r1) == b_of(r2); }
        o << b_of(r1); if (!same) o << " NONREPRO";
        break;
      }
      case 12: {   // uniform_real_distribution<float>(l,u) drawing from pcg32 seeded (seed, sequence)
        pcg32 g1, g2; g1.seed((int)a[0], (int)a[1]); g2.seed((int)a[0], (int)a[1]);
        utility::uniform_real_distribution<float> u1(f_of(a[2]), f_of(a[3])), u2(f_of(a[2]), f_of(a[3]));
        float r1 = 0, r2 = 0; bool same = true;
        for (long long i = 0; i <= a[4]; i++) { r1 = u1(g1); r2 = u2(g2); same = same && b_of(r1) == b_of(r2); }
        o << b_of(r1); if (!same) o << " NONREPRO";
        break;
      }
      case 13: {   // makeRandomColor(i): the channel whose modulus is a[1]
        vec3f c = utility::makeRandomColor((unsigned)a[0]);
        o << b_of(a[1] == 13 * 17 * 43 ? c.x : a[1] == 11 * 29 ? c.y : c.z);
        break;
      }
      case 17: {   // pcg32_biased_float_distribution(lower, upper) with the generator's next output forced to a[2]
        utility::pcg32_biased_float_distribution d(1, 1, f_of(a[0]), f_of(a[1]));
        d.rng = pcg_with_next_output((uint32_t)a[2]);
        pcg32 probe = d.rng;
        if (probe() != (uint32_t)a[2]) { o << "STATEFAIL"; break; }
        o << b_of(d());
        break;
      }
      case 18: {   // uniform_real_distribution<float>(l,u) over a generator returning a[2]
        StubGen g{(uint32_t)a[2]};
        utility::uniform_real_distribution<float> u(f_of(a[0]), f_of(a[1]));
        o << b_of(u(g));
        break;
      }
      case 14: OUTR(b_of, linear_to_srgb(f_of(a[0]))); break;                       // oracle only (libm pow)
      case 15: o << (long long)linear_to_srgba8(vec4f(f_of(a[0]), f_of(a[1]), f_of(a[2]), f_of(a[3]))); break;
      case 28: {   // linear_to_srgba(vec4f): the four result channels
        const vec4f r = linear_to_srgba(vec4f(f_of(a[0]), f_of(a[1]), f_of(a[2]), f_of(a[3])));
        o << b_of(r.x) << " " << b_of(r.y) << " " << b_of(r.z) << " " << b_of(r.w);
        break;
      }
      case 70:     // divRoundUp<T> at every standard integer width: a[0] = 0..7 = int8 uint8 int16 uint16 int32 uint32 int64 uint64
        switch (a[0]) {
          case 0: OUTR((long long), divRoundUp<int8_t>((int8_t)a[1], (int8_t)a[2])); break;
          case 1: OUTR((long long), divRoundUp<uint8_t>((uint8_t)a[1], (uint8_t)a[2])); break;
          case 2: OUTR((long long), divRoundUp<int16_t>((int16_t)a[1], (int16_t)a[2])); break;
          case 3: OUTR((long long), divRoundUp<uint16_t>((uint16_t)a[1], (uint16_t)a[2])); break;
          case 4: OUTR((long long), divRoundUp<int32_t>((int32_t)a[1], (int32_t)a[2])); break;
          case 5: OUTR((long long), divRoundUp<uint32_t>((uint32_t)a[1], (uint32_t)a[2])); break;
          case 6: OUTR((long long), divRoundUp<int64_t>((int64_t)a[1], (int64_t)a[2])); break;
          default: OUTR((unsigned long long), divRoundUp<uint64_t>((uint64_t)ua[1], (uint64_t)ua[2])); break;
        }
        break;
      case 71:     // clamp<T> at the same widths
        switch (a[0]) {
          case 0: OUTR((long long), clamp<int8_t>((int8_t)a[1], (int8_t)a[2], (int8_t)a[3])); break;
          case 1: OUTR((long long), clamp<uint8_t>((uint8_t)a[1], (uint8_t)a[2], (uint8_t)a[3])); break;
          case 2: OUTR((long long), clamp<int16_t>((int16_t)a[1], (int16_t)a[2], (int16_t)a[3])); break;
          case 3: OUTR((long long), clamp<uint16_t>((uint16_t)a[1], (uint16_t)a[2], (uint16_t)a[3])); break;
          case 4: OUTR((long long), clamp<int32_t>((int32_t)a[1], (int32_t)a[2], (int32_t)a[3])); break;
          case 5: OUTR((long long), clamp<uint32_t>((uint32_t)a[1], (uint32_t)a[2], (uint32_t)a[3])); break;
          case 6: OUTR((long long), clamp<int64_t>((int64_t)a[1], (int64_t)a[2], (int64_t)a[3])); break;
          default: OUTR((unsigned long long), clamp<uint64_t>((uint64_t)ua[1], (uint64_t)ua[2], (uint64_t)ua[3])); break;
        }
        break;
      case 48: OUTR(b_of, clamp(f_of(a[0]))); break;        // defaulted bounds T(zero), T(one)
      case 49: OUTR(b_of64, clamp(d_of(ua[0]))); break;
      case 50:     // uniform_real_distribution<T> over generator a[0] of the family, T = float (a[1]==32) / double, sample a[4]
        if (a[1] == 32) o << b_of(uniform_with_gen<float>((int)a[0], f_of(a[2]), f_of(a[3]), ua[4]));
        else o << b_of64(uniform_with_gen<double>((int)a[0], d_of(ua[2]), d_of(ua[3]), ua[4]));
        break;
      case 51:     // ... over the standard engine a[0] seeded with a[2] (first draw)
        if (a[1] == 32) o << b_of(uniform_with_std<float>((int)a[0], ua[2], f_of(a[3]), f_of(a[4])));
        else o << b_of64(uniform_with_std<double>((int)a[0], ua[2], d_of(ua[3]), d_of(ua[4])));
        break;
      // ---- double instantiations / overloads of rkmath.h (arguments and results are binary64 bit patterns)
      case 40: OUTR(b_of64, rcp(d_of(ua[0]))); break;
      case 41: OUTR(b_of64, rcp_safe(d_of(ua[0]))); break;
      case 42: OUTR(b_of64, rsqrt(d_of(ua[0]))); break;
      case 43: OUTR(b_of64, clamp(d_of(ua[0]), d_of(ua[1]), d_of(ua[2]))); break;
      case 44: OUTR(b_of64, deg2rad(d_of(ua[0]))); break;
      case 45: OUTR(b_of64, madd(d_of(ua[0]), d_of(ua[1]), d_of(ua[2]))); break;
      case 46: OUTR(b_of64, lerp(f_of(a[0]), d_of(ua[1]), d_of(ua[2]))); break;      // factor is a float
      case 47: OUTR((unsigned long long), clamp<unsigned>((unsigned)ua[0], (unsigned)ua[1], (unsigned)ua[2])); break;
      case 16: {   // deg2rad constant as compiled
        o << b_of(float(1.745329251994329576923690768489e-2)); break;
      }
      case 20: OUTR((long long), divRoundUp<int>((int)a[0], (int)a[1])); break;
      case 21: OUTR((long long), divRoundUp<unsigned>((unsigned)a[0], (unsigned)a[1])); break;
      case 22: OUTR((unsigned long long), divRoundUp<size_t>((size_t)ua[0], (size_t)ua[1])); break;
      case 23: OUTR((long long), divRoundUp<int64_t>((int64_t)a[0], (int64_t)a[1])); break;
      case 24: OUTR((long long), clamp<int>((int)a[0], (int)a[1], (int)a[2])); break;
      case 29:     // (same observation as 25; the model side evaluates the REGENERATED engine)
      case 25: {   // raw pcg32 stream: n outputs after seed(seed, sequence)
        pcg32 g; g.seed((int)a[0], (int)a[1]);
        for (long long i = 0; i < a[2]; i++) { if (i) o << ","; o << (unsigned long long)g(); }
        break;
      }
      case 26: {   // packing of four exact channel values k/255
        o << (long long)cvt_uint32(vec4f(a[0] / 255.f, a[1] / 255.f, a[2] / 255.f, a[3] / 255.f));
        break;
      }
      case 27: OUTR((long long), clamp<int64_t>((int64_t)a[0], (int64_t)a[1], (int64_t)a[2])); break;
      default: o << "?";
    }
    std::cout << o.str() << "\n";
  }
  return 0;
}
