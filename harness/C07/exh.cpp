// C07 — exhaustive sweep over all 2^32 float bit patterns (multi-threaded).
// Built twice from the working tree: default (SIMD) and -DRKCOMMON_NO_SIMD.
// Prints "key value..." lines; props/C07/check.py judges them.
//
//  rcp      : every x with 2^-126 <= |x| < 2^126: |rcp(x)*x - 1| (exact in double) <= 2^-20
//  rsqrt    : every such x > 0:                    |rsqrt(x)*sqrt(x) - 1|        <= 2^-20
//  rcp_safe : every finite x (zeros, subnormals, FLT_MAX): result finite, not of opposite sign
//  NO_SIMD  : rcp/rcp_safe/rsqrt additionally bit-equal to the correctly rounded reference
//             (double division then one rounding; innocuous for p=24 / P=53)
//  cvt      : cvt_uint32 over every non-NaN float in increasing order: monotone, range, saturation
//  estimates: (SIMD build) _mm_rcp_ss / _mm_rsqrt_ss max error — validates the Coq section hypotheses
//  srgb     : linear_to_srgb monotone on a strided sweep of all non-negative floats
#include <cmath>
#include <cstdint>
#include <cstdio>
#include <cstdlib>
#include <cstring>
#include <limits>
#include <thread>
#include <vector>
#include <xmmintrin.h>
#include <emmintrin.h>

#include "rkcommon/math/rkmath.h"
#include "rkcommon/math/vec.h"

using namespace rkcommon::math;

static inline float f_of(uint32_t b) { float f; std::memcpy(&f, &b, 4); return f; }
static inline uint32_t b_of(float f) { uint32_t b; std::memcpy(&b, &f, 4); return b; }

struct Acc {           // accuracy statistic
  uint64_t n = 0, viol = 0;
  double maxerr = 0; uint32_t worst = 0, worst_out = 0;
  uint32_t first_viol = 0, first_out = 0;
  void add(double err, uint32_t x, uint32_t y, double bound) {
    n++;
    if (!(err <= maxerr)) { maxerr = err; worst = x; worst_out = y; }   // NaN err lands here too
    if (!(err <= bound)) { if (!viol) { first_viol = x; first_out = y; } viol++; }
  }
  void merge(const Acc &o) {
    n += o.n;
    if (!(o.maxerr <= maxerr)) { maxerr = o.maxerr; worst = o.worst; worst_out = o.worst_out; }
    if (o.viol) { if (!viol) { first_viol = o.first_viol; first_out = o.first_out; } viol += o.viol; }
  }
};
struct Cnt {           // boolean clause statistic
  uint64_t n = 0, viol = 0; uint32_t first_viol = 0, first_out = 0;
  void add(bool ok, uint32_t x, uint32_t y) { n++; if (!ok) { if (!viol) { first_viol = x; first_out = y; } viol++; } }
  void merge(const Cnt &o) { n += o.n; if (o.viol) { if (!viol) { first_viol = o.first_viol; first_out = o.first_out; } viol += o.viol; } }
};
struct Stats {
  Acc rcp, rsqrt, est_rcp, est_rsqrt;
  Cnt safe, rcp_ref, safe_ref, rsqrt_ref, est_rcp_big, cvt_mono, cvt_range, cvt_sat, srgb_mono, srgb_nonneg;
  uint64_t safe_tiny = 0, safe_neg = 0;
};

static const double B20 = 1.0 / 1048576.0;           // 2^-20
static const float P126 = 8.50705917302346158658e37f; // 2^126
static const float FMIN = std::numeric_limits<float>::min();

// position in the total order of non-NaN floats -> bit pattern
// idx 0 = -inf ... idx 0x7F800000 = -0, idx 0x7F800001 = +0 ... idx 0xFF000001 = +inf
static inline uint32_t ordered_bits(uint64_t idx) {
  if (idx <= 0x7F800000ull) return 0x80000000u | (uint32_t)(0x7F800000ull - idx);
  return (uint32_t)(idx - 0x7F800001ull);
}
static const uint64_t N_ORDERED = 0xFF000002ull;

static void sweep(uint64_t lo, uint64_t hi, Stats *st) {
  for (uint64_t i = lo; i < hi; i++) {
    const uint32_t xb = (uint32_t)i;
    const float x = f_of(xb);
    const float ax = std::fabs(x);
    const bool fin = ((xb >> 23) & 0xFF) != 0xFF;
    if (!fin) continue;
    const bool inrange = ax >= FMIN && ax < P126;
    if (inrange) {
      const float y = rcp(x);
      st->rcp.add(std::fabs((double)y * (double)x - 1.0), xb, b_of(y), B20);
#ifdef RKCOMMON_NO_SIMD
      st->rcp_ref.add(b_of(y) == b_of((float)(1.0 / (double)x)), xb, b_of(y));
#else
      const float r = _mm_cvtss_f32(_mm_rcp_ss(_mm_set_ss(x)));
      st->est_rcp.add(std::fabs((double)r * (double)x - 1.0), xb, b_of(r), 3.0 / 8192.0);
#endif
      if (x > 0) {
        const float q = rsqrt(x);
        st->rsqrt.add(std::fabs((double)q * std::sqrt((double)x) - 1.0), xb, b_of(q), B20);
#ifdef RKCOMMON_NO_SIMD
        const float sq = (float)std::sqrt((double)x);
        st->rsqrt_ref.add(b_of(q) == b_of((float)(1.0 / (double)sq)), xb, b_of(q));
#else
        const float rr = _mm_cvtss_f32(_mm_rsqrt_ss(_mm_set_ss(x)));
        st->est_rsqrt.add(std::fabs((double)rr * std::sqrt((double)x) - 1.0), xb, b_of(rr), 3.0 / 8192.0);
#endif
      }
    }
#ifndef RKCOMMON_NO_SIMD
    else if (ax >= P126) {   // hypothesis used by rcp_safe_finite_sign for huge arguments
      const float r = _mm_cvtss_f32(_mm_rcp_ss(_mm_set_ss(x)));
      const double u = (double)r * (double)x;
      st->est_rcp_big.add(u >= 0.0 && u <= 1.0 + 3.0 / 8192.0, xb, b_of(r));
    }
#endif
    {
      const float y = rcp_safe(x);
      const bool ok = std::isfinite(y) && !(x > 0 && y < 0) && !(x < 0 && y > 0);
      st->safe.add(ok, xb, b_of(y));
      if (ax < FMIN) st->safe_tiny++;
      if (x < 0) st->safe_neg++;
#ifdef RKCOMMON_NO_SIMD
      const float a = ax < FMIN ? (x >= 0.f ? FMIN : -FMIN) : x;
      st->safe_ref.add(b_of(y) == b_of((float)(1.0 / (double)a)), xb, b_of(y));
#endif
    }
  }
}

static void sweep_cvt(uint64_t lo, uint64_t hi, Stats *st) {
  uint32_t prev = lo ? cvt_uint32(f_of(ordered_bits(lo - 1))) : 0;
  for (uint64_t i = lo; i < hi; i++) {
    const uint32_t xb = ordered_bits(i);
    const float f = f_of(xb);
    const uint32_t c = cvt_uint32(f);
    st->cvt_mono.add(c >= prev, xb, c);
    st->cvt_range.add(c <= 255u, xb, c);
    if (f <= 0.f) st->cvt_sat.add(c == 0u, xb, c);
    else if (f >= 1.f) st->cvt_sat.add(c == 255u, xb, c);
    prev = c;
  }
}

static void sweep_srgb(uint64_t lo, uint64_t hi, uint64_t stride, Stats *st) {
  // non-negative finite floats in increasing order = increasing bit pattern
  bool have = false; float prev = 0;
  uint64_t start = lo - (lo % stride);
  if (start >= stride) { prev = linear_to_srgb(f_of((uint32_t)(start - stride))); have = true; }
  for (uint64_t i = start; i < hi; i += stride) {
    const float y = linear_to_srgb(f_of((uint32_t)i));
    st->srgb_nonneg.add(y >= 0.f, (uint32_t)i, b_of(y));
    if (have) st->srgb_mono.add(y >= prev, (uint32_t)i, b_of(y));
    prev = y; have = true;
  }
}

static void pacc(const char *k, const Acc &a) {
  std::printf("%s n=%llu viol=%llu maxerr=%.17g worst=0x%08X worst_out=0x%08X first=0x%08X first_out=0x%08X\n", k,
              (unsigned long long)a.n, (unsigned long long)a.viol, a.maxerr, a.worst, a.worst_out, a.first_viol, a.first_out);
}
static void pcnt(const char *k, const Cnt &c) {
  std::printf("%s n=%llu viol=%llu first=0x%08X first_out=0x%08X\n", k, (unsigned long long)c.n, (unsigned long long)c.viol,
              c.first_viol, c.first_out);
}

int main(int argc, char **argv) {
  const int T = argc > 1 ? std::atoi(argv[1]) : 16;
  const uint64_t stride = argc > 2 ? std::strtoull(argv[2], 0, 10) : 64;
  // replay mode: exh one <hexbits>  -> prints the kernels' outputs for that input
  if (argc > 2 && !std::strcmp(argv[1], "one")) {
    const uint32_t xb = (uint32_t)std::strtoul(argv[2], 0, 16);
    const float x = f_of(xb);
    std::printf("x=0x%08X (%.9g) rcp=0x%08X (%.9g) rcp_safe=0x%08X (%.9g) rsqrt=0x%08X (%.9g) cvt=%u\n", xb, x, b_of(rcp(x)), rcp(x),
                b_of(rcp_safe(x)), rcp_safe(x), b_of(rsqrt(x)), rsqrt(x), x == x ? cvt_uint32(x) : 0u);
    return 0;
  }
  if (_mm_getcsr() & 0x8040) std::printf("mxcsr FTZ/DAZ set\n");
  std::vector<Stats> st(T);
  std::vector<std::thread> th;
  for (int t = 0; t < T; t++)
    th.emplace_back([&, t]() {
      const uint64_t N = 1ull << 32;
      sweep(N * t / T, N * (t + 1) / T, &st[t]);
      sweep_cvt(N_ORDERED * t / T, N_ORDERED * (t + 1) / T, &st[t]);
      const uint64_t NS = 0x7F800000ull;   // +0 .. FLT_MAX
      sweep_srgb(NS * t / T, NS * (t + 1) / T, stride, &st[t]);
    });
  for (auto &x : th) x.join();
  Stats s;
  for (int t = 0; t < T; t++) {
    s.rcp.merge(st[t].rcp); s.rsqrt.merge(st[t].rsqrt); s.est_rcp.merge(st[t].est_rcp); s.est_rsqrt.merge(st[t].est_rsqrt);
    s.safe.merge(st[t].safe); s.rcp_ref.merge(st[t].rcp_ref); s.safe_ref.merge(st[t].safe_ref); s.rsqrt_ref.merge(st[t].rsqrt_ref);
    s.est_rcp_big.merge(st[t].est_rcp_big); s.cvt_mono.merge(st[t].cvt_mono); s.cvt_range.merge(st[t].cvt_range);
    s.cvt_sat.merge(st[t].cvt_sat); s.srgb_mono.merge(st[t].srgb_mono); s.srgb_nonneg.merge(st[t].srgb_nonneg);
    s.safe_tiny += st[t].safe_tiny; s.safe_neg += st[t].safe_neg;
  }
#ifdef RKCOMMON_NO_SIMD
  std::printf("build NO_SIMD\n");
#else
  std::printf("build SIMD\n");
#endif
  pacc("rcp", s.rcp); pacc("rsqrt", s.rsqrt); pcnt("rcp_safe", s.safe);
  std::printf("rcp_safe_classes tiny=%llu negative=%llu\n", (unsigned long long)s.safe_tiny, (unsigned long long)s.safe_neg);
#ifdef RKCOMMON_NO_SIMD
  pcnt("rcp_ref", s.rcp_ref); pcnt("rcp_safe_ref", s.safe_ref); pcnt("rsqrt_ref", s.rsqrt_ref);
#else
  pacc("est_rcp", s.est_rcp); pacc("est_rsqrt", s.est_rsqrt); pcnt("est_rcp_big", s.est_rcp_big);
#endif
  pcnt("cvt_mono", s.cvt_mono); pcnt("cvt_range", s.cvt_range); pcnt("cvt_sat", s.cvt_sat);
  pcnt("srgb_mono", s.srgb_mono); pcnt("srgb_nonneg", s.srgb_nonneg);
  std::printf("done\n");
  return 0;
}
