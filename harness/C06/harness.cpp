// C06 harness: runs the real rkcommon LinearSpace / AffineSpace / Quaternion templates on the cases read from stdin
// and prints every result as exact decimal (%.17g of the value widened to double).
//   harness f   : vec2f / vec3f / quaternionf            (float, plain vectors)
//   harness fa  : vec3fa (padded, aligned) linear+affine  (float, padded vectors)
//   harness d   : quaterniond, LinearSpace2<vec2d>::orthogonal (double)
//   harness dd  : LinearSpace2<vec2d>, LinearSpace3<vec3d>, AffineSpaceT<...> of those (double linear / affine)
// One case per line:  <kind> <numbers...>   -> one output line "<kind> n1 n2 ..." (same layout as ocaml/C06/driver.ml)
#include <cstdio>
#include <cstdlib>
#include <cstring>
#include <string>
#include <vector>
#include <sstream>
#include <iostream>
#include "rkcommon/math/AffineSpace.h"

using namespace rkcommon::math;

static std::vector<double> out;
template <typename V2> static void p2(const V2 &v) { out.push_back(v.x); out.push_back(v.y); }
template <typename V3> static void p3(const V3 &v) { out.push_back(v.x); out.push_back(v.y); out.push_back(v.z); }
template <typename M> static void pm2(const M &m) { p2(m.vx); p2(m.vy); }
template <typename M> static void pm3(const M &m) { p3(m.vx); p3(m.vy); p3(m.vz); }
template <typename A> static void pa3(const A &a) { pm3(a.l); p3(a.p); }
template <typename A> static void pa2(const A &a) { pm2(a.l); p2(a.p); }
static void pb(bool b) { out.push_back(b ? 1.0 : 0.0); }
template <typename Q> static void pq(const Q &q) { out.push_back(q.r); out.push_back(q.i); out.push_back(q.j); out.push_back(q.k); }

static void pnums(const std::string &txt)
{ // every number that appears in an operator<< output, in order
  const char *p = txt.c_str();
  while (*p) {
    if ((*p >= '0' && *p <= '9') || ((*p == '-' || *p == '+') && p[1] >= '0' && p[1] <= '9')) { char *e; out.push_back(strtod(p, &e)); p = e; }
    else ++p;
  }
}

struct In {
  std::vector<double> v; size_t k = 0;
  double n() { if (k >= v.size()) { fprintf(stderr, "short case\n"); exit(3); } return v[k++]; }
};

template <typename V> struct OtherOf;
template <> struct OtherOf<vec3f> { typedef vec3fa type; };
template <> struct OtherOf<vec3fa> { typedef vec3f type; };
template <> struct OtherOf<vec3d> { typedef vec3f type; };
template <> struct OtherOf<vec2f> { typedef vec2d type; };
template <> struct OtherOf<vec2d> { typedef vec2f type; };

template <typename V3>
struct Lin3 {
  typedef typename V3::scalar_t T;
  typedef LinearSpace3<V3> L;
  typedef AffineSpaceT<L> A;
  typedef QuaternionT<T> Q;
  static V3 v3(In &in) { T x = T(in.n()), y = T(in.n()), z = T(in.n()); return V3(x, y, z); }
  static L m3(In &in) { V3 a = v3(in), b = v3(in), c = v3(in); return L(a, b, c); }
  static A a3(In &in) { L l = m3(in); V3 p = v3(in); return A(l, p); }
  static Q q4(In &in) { T r = T(in.n()), i = T(in.n()), j = T(in.n()), k = T(in.n()); return Q(r, i, j, k); }

  static bool run(const std::string &kind, In &in)
  {
    if (kind == "l3") {
      L a = m3(in), b = m3(in); V3 v = v3(in);
      out.push_back(a.det()); pm3(a.adjoint()); pm3(a.inverse()); pm3(a.transposed());
      p3(a.row0()); p3(a.row1()); p3(a.row2());
      pm3(a * b); p3(a * v); pm3(L::scale(v));
      p3(xfmPoint(a, v)); p3(xfmVector(a, v)); p3(xfmNormal(a, v));
      return true;
    }
    if (kind == "a3") {
      A a = a3(in), b = a3(in); V3 p = v3(in);
      pa3(a * b); pa3(rcp(a)); p3(xfmPoint(a, p)); p3(xfmVector(a, p)); p3(xfmNormal(a, p));
      p3(xfmPoint(a * b, p)); pa3(A::translate(p)); pa3(A::scale(p));
      return true;
    }
    if (kind == "rot") {
      V3 u = v3(in); T r = T(in.n()); V3 p = v3(in), v = v3(in);
      L m = L::rotate(u, r);
      pm3(m); p3(m * v);
      Q q = Q::rotate(vec_t<T, 3>(u.x, u.y, u.z), r);
      pq(q); pm3(L(q));
      vec_t<T, 3> qv = q * vec_t<T, 3>(v.x, v.y, v.z); p3(qv);
      Q back(vec_t<T, 3>(m.vx.x, m.vx.y, m.vx.z), vec_t<T, 3>(m.vy.x, m.vy.y, m.vy.z), vec_t<T, 3>(m.vz.x, m.vz.y, m.vz.z));
      pq(back);
      A ar = A::rotate(p, u, r);
      pa3(ar); p3(xfmPoint(ar, p));
      return true;
    }
#ifndef C06_MINIMAL
    if (kind == "ol3") {
      L a = m3(in), b = m3(in);
      pm3(+a); pm3(a / b);
      { L c = a; L &r = (c *= b); pm3(c); pm3(r); }
      { L c = a; L &r = (c /= b); pm3(c); pm3(r); }
      pb(a == b); pb(a != b); pb(a == a); pb(a != a);
      pm3(L(zero)); pm3(L(one)); pm3(clamp(a));
      return true;
    }
    if (kind == "oa3") {
      A a = a3(in), b = a3(in); T s = T(in.n());
      pa3(-a); pa3(+a); pa3(a + b); pa3(a - b); pa3(s * a); pa3(a / b);
      { A c = a; A &r = (c *= b); pa3(c); pa3(r); }
      { A c = a; A &r = (c /= b); pa3(c); pa3(r); }
      { A c(zero); A &r = (c = a); pa3(c); pa3(r); }
      pb(a == b); pb(a != b); pb(a == a); pb(a != a);
      pa3(A(zero)); pa3(A(one)); pa3(A(a.l.vx, a.l.vy, a.l.vz, a.p));
      return true;
    }
    if (kind == "ocx") {   // every flavour: printing, pointer views, conversions, comparisons against single-entry perturbations
      T e[12]; for (int i = 0; i < 12; i++) e[i] = T(in.n());
      L l(V3(e[0], e[1], e[2]), V3(e[3], e[4], e[5]), V3(e[6], e[7], e[8])); A a(l, V3(e[9], e[10], e[11]));
      { std::stringstream ss; ss << l; pnums(ss.str()); }
      { std::stringstream ss; ss << a; pnums(ss.str()); }
      { A t = a; L *lp = t; pm3(*lp); const A ct = a; const L *clp = ct; pm3(*clp); }
      typedef typename OtherOf<V3>::type O; typedef LinearSpace3<O> LO; typedef AffineSpaceT<LO> AO;
      { LO lo(l); L back(lo); pm3(back); AO ao(a); A aback(ao); pa3(aback); }
      int eqL = 0, neL = 0, eqA = 0, neA = 0;
      for (int k = 0; k < 12; k++) {
        T f[12]; for (int i = 0; i < 12; i++) f[i] = e[i]; f[k] += T(1);
        L lk(V3(f[0], f[1], f[2]), V3(f[3], f[4], f[5]), V3(f[6], f[7], f[8])); A ak(lk, V3(f[9], f[10], f[11]));
        eqA += (a == ak); neA += (a != ak);
        if (k < 9) { eqL += (l == lk); neL += (l != lk); }
      }
      out.push_back(eqL); out.push_back(neL); out.push_back(eqA); out.push_back(neA);
      return true;
    }
#endif
    if (kind == "frm") {
      V3 n = v3(in), up = v3(in);
      pm3(frame(n)); pm3(frame(n, up));
      return true;
    }
    if (kind == "look") {
      V3 eye = v3(in), pt = v3(in), up = v3(in);
      pa3(A::lookat(eye, pt, up));
      return true;
    }
    return false;
  }
};

template <typename T>
struct Quat {
  typedef QuaternionT<T> Q;
  typedef vec_t<T, 3> V;
  static Q q4(In &in) { T r = T(in.n()), i = T(in.n()), j = T(in.n()), k = T(in.n()); return Q(r, i, j, k); }
  static V v3(In &in) { T x = T(in.n()), y = T(in.n()), z = T(in.n()); return V(x, y, z); }
  // mixed scalar type: only QuaternionT<double> with a float scalar is well-formed
  static void mixed(const QuaternionT<double> &a, double s) { float f = float(s); pq(a * f); pq(f * a); }
  static void mixed(const QuaternionT<float> &, float) {}
  static bool run(const std::string &kind, In &in)
  {
    if (kind == "q") {
      Q a = q4(in), b = q4(in); V v = v3(in);
      pq(a * b); pq(conj(a)); pq(rcp(a)); pq(normalize(a)); p3(a * v);
      return true;
    }
    if (kind == "qm") {   // matrix of a quaternion (float only: LinearSpace3f)
      Q a = q4(in);
      return false;
    }
    if (kind == "qf") {
      V x = v3(in), y = v3(in), z = v3(in);
      pq(Q(x, y, z));
      return true;
    }
    if (kind == "qr") {
      V u = v3(in); T r = T(in.n()); V v = v3(in);
      Q q = Q::rotate(u, r); pq(q); p3(q * v);
      return true;
    }
#ifndef C06_MINIMAL
    if (kind == "oq") {
      Q a = q4(in), b = q4(in); T s = T(in.n()); V v = v3(in);
      pq(Q(s)); pq(Q(zero)); pq(Q(one));
      { Q c = a; Q &r = (c += s); pq(c); pq(r); }
      { Q c = a; Q &r = (c += b); pq(c); pq(r); }
      { Q c = a; Q &r = (c -= s); pq(c); pq(r); }
      { Q c = a; Q &r = (c -= b); pq(c); pq(r); }
      { Q c = a; Q &r = (c *= s); pq(c); pq(r); }
      { Q c = a; Q &r = (c *= b); pq(c); pq(r); }
      { Q c = a; Q &r = (c /= s); pq(c); pq(r); }
      { Q c = a; Q &r = (c /= b); pq(c); pq(r); }
      pq(s + a); pq(a + s); pq(s - a); pq(a - s); pq(s / a); pq(a / s); pq(a / b); pq(+a);
      pb(a == b); pb(a != b); pb(a == a); pb(a != a);
      pq(xfmQuaternion(a, b)); p3(xfmNormal(a, v)); out.push_back(abs(a));
      mixed(a, s);
      return true;
    }
    if (kind == "ocq") {
      T e[4]; for (int i = 0; i < 4; i++) e[i] = T(in.n());
      Q q(e[0], e[1], e[2], e[3]);
      { std::stringstream ss; ss << q; pnums(ss.str()); }
      int eq = 0, ne = 0;
      for (int k = 0; k < 4; k++) { T f[4]; for (int i = 0; i < 4; i++) f[i] = e[i]; f[k] += T(1); Q p(f[0], f[1], f[2], f[3]); eq += (q == p); ne += (q != p); }
      out.push_back(eq); out.push_back(ne);
      return true;
    }
#endif
    if (kind == "ypr") {
      T y = T(in.n()), p = T(in.n()), r = T(in.n());
      pq(Q(y, p, r));
      return true;
    }
    if (kind == "sl") {
      float t = float(in.n()); Q a = q4(in), b = q4(in);
      pq(slerp(t, a, b));
      return true;
    }
    return false;
  }
};

template <typename V2>
static bool run_o2(const std::string &kind, In &in)
{
  typedef typename V2::scalar_t T;
  if (kind != "o2") return false;
  T a = T(in.n()), c = T(in.n()), b = T(in.n()), d = T(in.n());
  LinearSpace2<V2> m(V2(a, c), V2(b, d));
  pm2(m.orthogonal());
  return true;
}

#ifndef C06_MINIMAL
// 2x2 kinds that exist for every element type (used for vec2d; the float run goes through run_l2 below)
template <typename V2>
static bool run_l2_any(const std::string &kind, In &in)
{
  typedef typename V2::scalar_t T; typedef LinearSpace2<V2> L; typedef AffineSpaceT<L> A;
  auto v2 = [&]() { T x = T(in.n()), y = T(in.n()); return V2(x, y); };
  auto m2 = [&]() { V2 a = v2(), b = v2(); return L(a, b); };
  auto a2 = [&]() { L l = m2(); V2 p = v2(); return A(l, p); };
  if (kind == "l2") {
    L a = m2(), b = m2(); V2 v = v2();
    out.push_back(a.det()); pm2(a.adjoint()); pm2(a.inverse()); pm2(a.transposed()); p2(a.row0()); p2(a.row1());
    pm2(a * b); p2(a * v); pm2(L::scale(v));
    return true;
  }
  if (kind == "a2") { A a = a2(), b = a2(); pa2(a * b); pa2(rcp(a)); return true; }
  if (kind == "ol2") {
    L a = m2(), b = m2();
    pm2(+a); pm2(a / b);
    { L c = a; L &r = (c *= b); pm2(c); pm2(r); }
    { L c = a; L &r = (c /= b); pm2(c); pm2(r); }
    pb(a == b); pb(a != b); pb(a == a); pb(a != a);
    pm2(L(zero)); pm2(L(one));
    return true;
  }
  if (kind == "oa2") { A a = a2(), b = a2(); { A c = a; A &r = (c *= b); pa2(c); pa2(r); } return true; }
  if (kind == "ocx2") {
    T e[6]; for (int i = 0; i < 6; i++) e[i] = T(in.n());
    L l(V2(e[0], e[1]), V2(e[2], e[3])); A a(l, V2(e[4], e[5]));
    { std::stringstream ss; ss << l; pnums(ss.str()); }
    { std::stringstream ss; ss << a; pnums(ss.str()); }
    { A t = a; L *lp = t; pm2(*lp); const A ct = a; const L *clp = ct; pm2(*clp); }
    typedef typename OtherOf<V2>::type O; { LinearSpace2<O> lo(l); L back(lo); pm2(back); AffineSpaceT<LinearSpace2<O>> ao(a); A aback(ao); pa2(aback); }
    int eqL = 0, neL = 0, eqA = 0, neA = 0;
    for (int k = 0; k < 6; k++) {
      T f[6]; for (int i = 0; i < 6; i++) f[i] = e[i]; f[k] += T(1);
      L lk(V2(f[0], f[1]), V2(f[2], f[3])); A ak(lk, V2(f[4], f[5]));
      eqA += (a == ak); neA += (a != ak);
      if (k < 4) { eqL += (l == lk); neL += (l != lk); }
    }
    out.push_back(eqL); out.push_back(neL); out.push_back(eqA); out.push_back(neA);
    return true;
  }
  if (kind == "f2") {   // the 2D factories of AffineSpaceT and LinearSpace2
    V2 v = v2(); T r = T(in.n());
    pa2(A::scale(v)); pa2(A::translate(v)); pa2(A::rotate(r)); pm2(L::scale(v)); pm2(L::rotate(r));
    return true;
  }
  return false;
}

#endif
static bool run_l2(const std::string &kind, In &in)
{
  typedef LinearSpace2f L; typedef AffineSpace2f A;
  auto v2 = [&]() { float x = float(in.n()), y = float(in.n()); return vec2f(x, y); };
  auto m2 = [&]() { vec2f a = v2(), b = v2(); return L(a, b); };
  auto a2 = [&]() { L l = m2(); vec2f p = v2(); return A(l, p); };
  if (kind == "l2") {
    L a = m2(), b = m2(); vec2f v = v2();
    out.push_back(a.det()); pm2(a.adjoint()); pm2(a.inverse()); pm2(a.transposed()); p2(a.row0()); p2(a.row1());
    pm2(a * b); p2(a * v); pm2(L::scale(v));
    return true;
  }
#ifndef C06_MINIMAL
  if (kind == "ol2") {
    L a = m2(), b = m2();
    pm2(+a); pm2(a / b);
    { L c = a; L &r = (c *= b); pm2(c); pm2(r); }
    { L c = a; L &r = (c /= b); pm2(c); pm2(r); }
    pb(a == b); pb(a != b); pb(a == a); pb(a != a);
    pm2(L(zero)); pm2(L(one));
    return true;
  }
  if (kind == "oa2") {
    A a = a2(), b = a2();
    { A c = a; A &r = (c *= b); pa2(c); pa2(r); }
    return true;
  }
  if (kind == "ocv") {   // conversions, pointer views, comparisons against single-entry perturbations, printing (harness + oracle only)
    typedef LinearSpace3<vec3f> L3; typedef AffineSpaceT<L3> A3; typedef LinearSpace3<vec3fa> L3a; typedef AffineSpaceT<L3a> A3a;
    float e[12]; for (int i = 0; i < 12; i++) e[i] = float(in.n());
    L3 l(vec3f(e[0], e[1], e[2]), vec3f(e[3], e[4], e[5]), vec3f(e[6], e[7], e[8]));
    A3 a3v(l, vec3f(e[9], e[10], e[11]));
    L3a padded(l); L3 back(padded); pm3(back);
    A3a apad(L3a(l), vec3fa(e[9], e[10], e[11])); A3 aback(apad); pa3(aback);
    LinearSpace2<vec2d> d2(vec2d(e[0], e[1]), vec2d(e[2], e[3])); L fd(d2); pm2(fd);
    { A3 t = a3v; L3 *lp = t; pm3(*lp); const A3 ct = a3v; const L3 *clp = ct; pm3(*clp); }
    int eqL3 = 0, neL3 = 0, eqA3 = 0, neA3 = 0, eqL2 = 0, neL2 = 0, eqQ = 0, neQ = 0;
    for (int k = 0; k < 12; k++) {
      float f[12]; for (int i = 0; i < 12; i++) f[i] = e[i]; f[k] += 1.0f;
      L3 lk(vec3f(f[0], f[1], f[2]), vec3f(f[3], f[4], f[5]), vec3f(f[6], f[7], f[8]));
      A3 ak(lk, vec3f(f[9], f[10], f[11]));
      eqA3 += (a3v == ak); neA3 += (a3v != ak);
      if (k < 9) { eqL3 += (l == lk); neL3 += (l != lk); }
      if (k < 4) {
        L x(vec2f(e[0], e[1]), vec2f(e[2], e[3])), y(vec2f(f[0], f[1]), vec2f(f[2], f[3]));
        eqL2 += (x == y); neL2 += (x != y);
        quaternionf p(e[0], e[1], e[2], e[3]), q(f[0], f[1], f[2], f[3]);
        eqQ += (p == q); neQ += (p != q);
      }
    }
    int eqA2 = 0, neA2 = 0;
    for (int k = 0; k < 6; k++) {
      float f[6]; for (int i = 0; i < 6; i++) f[i] = e[i]; f[k] += 1.0f;
      A x(L(vec2f(e[0], e[1]), vec2f(e[2], e[3])), vec2f(e[4], e[5])), y(L(vec2f(f[0], f[1]), vec2f(f[2], f[3])), vec2f(f[4], f[5]));
      eqA2 += (x == y); neA2 += (x != y);
    }
    out.push_back(eqL3); out.push_back(neL3); out.push_back(eqA3); out.push_back(neA3);
    out.push_back(eqL2); out.push_back(neL2); out.push_back(eqQ); out.push_back(neQ);
    { std::stringstream ss; ss << a3v; pnums(ss.str()); }
    { std::stringstream ss; ss << l; pnums(ss.str()); }
    { std::stringstream ss; ss << L(vec2f(e[0], e[1]), vec2f(e[2], e[3])); pnums(ss.str()); }
    { std::stringstream ss; ss << A(L(vec2f(e[0], e[1]), vec2f(e[2], e[3])), vec2f(e[4], e[5])); pnums(ss.str()); }
    { std::stringstream ss; ss << quaternionf(e[0], e[1], e[2], e[3]); pnums(ss.str()); }
    pa3(A3::rotate(quaternionf(e[0], e[1], e[2], e[3])));   // the (non-normalising) wrapper around LinearSpace3(q)
    out.push_back(eqA2); out.push_back(neA2);
    return true;
  }
#endif
  if (kind == "r2") {
    float r = float(in.n()); vec2f p = v2();
    pm2(L::rotate(r)); pa2(A::rotate(p, r));
    return true;
  }
  if (kind == "a2") {
    A a = a2(), b = a2();
    pa2(a * b); pa2(rcp(a));
    return true;
  }
  return false;
}

int main(int argc, char **argv)
{
  std::string mode = argc > 1 ? argv[1] : "f";
  std::string line;
  while (std::getline(std::cin, line)) {
    if (line.empty()) { puts(""); continue; }
    std::istringstream ss(line);
    std::string kind; ss >> kind;
    In in; std::string tok;
    while (ss >> tok) in.v.push_back(strtod(tok.c_str(), nullptr));
    out.clear();
    bool ok = false;
#ifndef C06_MINIMAL
    if (mode == "f") ok = run_o2<vec2f>(kind, in) || ((kind == "f2" || kind == "ocx2") && run_l2_any<vec2f>(kind, in)) || run_l2(kind, in) || Lin3<vec3f>::run(kind, in) || Quat<float>::run(kind, in);
#else
    if (mode == "f") ok = run_o2<vec2f>(kind, in) || run_l2(kind, in) || Lin3<vec3f>::run(kind, in) || Quat<float>::run(kind, in);
#endif
    else if (mode == "fa") ok = Lin3<vec3fa>::run(kind, in);
    else if (mode == "d") ok = run_o2<vec2d>(kind, in) || Quat<double>::run(kind, in);
#ifndef C06_MINIMAL
    else if (mode == "dd") ok = run_l2_any<vec2d>(kind, in) || Lin3<vec3d>::run(kind, in);
#else
    else if (mode == "dd") ok = Lin3<vec3d>::run(kind, in);
#endif
    if (!ok) { printf("%s unsupported\n", kind.c_str()); continue; }
    printf("%s", kind.c_str());
    for (double x : out) printf(" %.17g", x);
    printf("\n");
  }
  return 0;
}
