// C06 harness: runs the real rkcommon LinearSpace / AffineSpace / Quaternion templates on the cases read from stdin
// and prints every result as exact decimal (%.17g of the value widened to double).
//   harness f   : vec2f / vec3f / quaternionf            (float, plain vectors)
//   harness fa  : vec3fa (padded, aligned) linear+affine  (float, padded vectors)
//   harness d   : quaterniond, LinearSpace2<vec2d>::orthogonal (double)
// One case per line:  <kind> <numbers...>   -> one output line "<kind> n1 n2 ..." (same layout as ocaml/C06/driver.ml)
#include <cstdio>
#include <cstdlib>
#include <cstring>
#include <string>
#include <vector>
#include <sstream>
#include <iostream>
#include "rkcommon/math/AffineSpace.h"

using namespace rkcommon::math;

static std::vector<double> out;
template <typename V2> static void p2(const V2 &v) { out.push_back(v.x); out.push_back(v.y); }
template <typename V3> static void p3(const V3 &v) { out.push_back(v.x); out.push_back(v.y); out.push_back(v.z); }
template <typename M> static void pm2(const M &m) { p2(m.vx); p2(m.vy); }
template <typename M> static void pm3(const M &m) { p3(m.vx); p3(m.vy); p3(m.vz); }
template <typename A> static void pa3(const A &a) { pm3(a.l); p3(a.p); }
template <typename A> static void pa2(const A &a) { pm2(a.l); p2(a.p); }
template <typename Q> static void pq(const Q &q) { out.push_back(q.r); out.push_back(q.i); out.push_back(q.j); out.push_back(q.k); }

struct In {
  std::vector<double> v; size_t k = 0;
  double n() { if (k >= v.size()) { fprintf(stderr, "short case\n"); exit(3); } return v[k++]; }
};

template <typename V3>
struct Lin3 {
  typedef typename V3::scalar_t T;
  typedef LinearSpace3<V3> L;
  typedef AffineSpaceT<L> A;
  typedef QuaternionT<T> Q;
  static V3 v3(In &in) { T x = T(in.n()), y = T(in.n()), z = T(in.n()); return V3(x, y, z); }
  static L m3(In &in) { V3 a = v3(in), b = v3(in), c = v3(in); return L(a, b, c); }
  static A a3(In &in) { L l = m3(in); V3 p = v3(in); return A(l, p); }
  static Q q4(In &in) { T r = T(in.n()), i = T(in.n()), j = T(in.n()), k = T(in.n()); return Q(r, i, j, k); }

  static bool run(const std::string &kind, In &in)
  {
    if (kind == "l3") {
      L a = m3(in), b = m3(in); V3 v = v3(in);
      out.push_back(a.det()); pm3(a.adjoint()); pm3(a.inverse()); pm3(a.transposed());
      p3(a.row0()); p3(a.row1()); p3(a.row2());
      pm3(a * b); p3(a * v); pm3(L::scale(v));
      p3(xfmPoint(a, v)); p3(xfmVector(a, v)); p3(xfmNormal(a, v));
      return true;
    }
    if (kind == "a3") {
      A a = a3(in), b = a3(in); V3 p = v3(in);
      pa3(a * b); pa3(rcp(a)); p3(xfmPoint(a, p)); p3(xfmVector(a, p)); p3(xfmNormal(a, p));
      p3(xfmPoint(a * b, p)); pa3(A::translate(p)); pa3(A::scale(p));
      return true;
    }
    if (kind == "rot") {
      V3 u = v3(in); T r = T(in.n()); V3 p = v3(in), v = v3(in);
      L m = L::rotate(u, r);
      pm3(m); p3(m * v);
      Q q = Q::rotate(vec_t<T, 3>(u.x, u.y, u.z), r);
      pq(q); pm3(L(q));
      vec_t<T, 3> qv = q * vec_t<T, 3>(v.x, v.y, v.z); p3(qv);
      Q back(vec_t<T, 3>(m.vx.x, m.vx.y, m.vx.z), vec_t<T, 3>(m.vy.x, m.vy.y, m.vy.z), vec_t<T, 3>(m.vz.x, m.vz.y, m.vz.z));
      pq(back);
      A ar = A::rotate(p, u, r);
      pa3(ar); p3(xfmPoint(ar, p));
      return true;
    }
    if (kind == "frm") {
      V3 n = v3(in), up = v3(in);
      pm3(frame(n)); pm3(frame(n, up));
      return true;
    }
    if (kind == "look") {
      V3 eye = v3(in), pt = v3(in), up = v3(in);
      pa3(A::lookat(eye, pt, up));
      return true;
    }
    return false;
  }
};

template <typename T>
struct Quat {
  typedef QuaternionT<T> Q;
  typedef vec_t<T, 3> V;
  static Q q4(In &in) { T r = T(in.n()), i = T(in.n()), j = T(in.n()), k = T(in.n()); return Q(r, i, j, k); }
  static V v3(In &in) { T x = T(in.n()), y = T(in.n()), z = T(in.n()); return V(x, y, z); }
  static bool run(const std::string &kind, In &in)
  {
    if (kind == "q") {
      Q a = q4(in), b = q4(in); V v = v3(in);
      pq(a * b); pq(conj(a)); pq(rcp(a)); pq(normalize(a)); p3(a * v);
      return true;
    }
    if (kind == "qm") {   // matrix of a quaternion (float only: LinearSpace3f)
      Q a = q4(in);
      return false;
    }
    if (kind == "qf") {
      V x = v3(in), y = v3(in), z = v3(in);
      pq(Q(x, y, z));
      return true;
    }
    if (kind == "qr") {
      V u = v3(in); T r = T(in.n()); V v = v3(in);
      Q q = Q::rotate(u, r); pq(q); p3(q * v);
      return true;
    }
    if (kind == "ypr") {
      T y = T(in.n()), p = T(in.n()), r = T(in.n());
      pq(Q(y, p, r));
      return true;
    }
    if (kind == "sl") {
      float t = float(in.n()); Q a = q4(in), b = q4(in);
      pq(slerp(t, a, b));
      return true;
    }
    return false;
  }
};

template <typename V2>
static bool run_o2(const std::string &kind, In &in)
{
  typedef typename V2::scalar_t T;
  if (kind != "o2") return false;
  T a = T(in.n()), c = T(in.n()), b = T(in.n()), d = T(in.n());
  LinearSpace2<V2> m(V2(a, c), V2(b, d));
  pm2(m.orthogonal());
  return true;
}

static bool run_l2(const std::string &kind, In &in)
{
  typedef LinearSpace2f L; typedef AffineSpace2f A;
  auto v2 = [&]() { float x = float(in.n()), y = float(in.n()); return vec2f(x, y); };
  auto m2 = [&]() { vec2f a = v2(), b = v2(); return L(a, b); };
  auto a2 = [&]() { L l = m2(); vec2f p = v2(); return A(l, p); };
  if (kind == "l2") {
    L a = m2(), b = m2(); vec2f v = v2();
    out.push_back(a.det()); pm2(a.adjoint()); pm2(a.inverse()); pm2(a.transposed()); p2(a.row0()); p2(a.row1());
    pm2(a * b); p2(a * v); pm2(L::scale(v));
    return true;
  }
  if (kind == "r2") {
    float r = float(in.n()); vec2f p = v2();
    pm2(L::rotate(r)); pa2(A::rotate(p, r));
    return true;
  }
  if (kind == "a2") {
    A a = a2(), b = a2();
    pa2(a * b); pa2(rcp(a));
    return true;
  }
  return false;
}

int main(int argc, char **argv)
{
  std::string mode = argc > 1 ? argv[1] : "f";
  std::string line;
  while (std::getline(std::cin, line)) {
    if (line.empty()) { puts(""); continue; }
    std::istringstream ss(line);
    std::string kind; ss >> kind;
    In in; std::string tok;
    while (ss >> tok) in.v.push_back(strtod(tok.c_str(), nullptr));
    out.clear();
    bool ok = false;
    if (mode == "f") ok = run_o2<vec2f>(kind, in) || run_l2(kind, in) || Lin3<vec3f>::run(kind, in) || Quat<float>::run(kind, in);
    else if (mode == "fa") ok = Lin3<vec3fa>::run(kind, in);
    else if (mode == "d") ok = run_o2<vec2d>(kind, in) || Quat<double>::run(kind, in);
    if (!ok) { printf("%s unsupported\n", kind.c_str()); continue; }
    printf("%s", kind.c_str());
    for (double x : out) printf(" %.17g", x);
    printf("\n");
  }
  return 0;
}
