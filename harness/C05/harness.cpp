// C05 harness: ranges and boxes as closed axis-aligned sets - compiled from the repo working tree on every run.
//   harness cases            stdin: "<op> <inst> <number>..." -> one observation line per case (same format as the model)
//   harness exh              in-harness exhaustive property oracle on small integer grids (int and float, dims 1-4)
//   harness fuzz <seed> <n>  float boxes / affine maps / rays against a long double point-membership oracle
#include <cfenv>
#include <cmath>
#include <cstdio>
#include <cstdlib>
#include <cstring>
#include <iostream>
#include <random>
#include <sstream>
#include <string>
#include <vector>
#include "rkcommon/math/AffineSpace.h"
#include "rkcommon/math/box.h"

using namespace rkcommon;
using namespace rkcommon::math;
typedef long double ld;

// ---------------------------------------------------------------------------------------------- numbers
static std::string u128str(unsigned __int128 v)
{
  if (v == 0) return "0";
  std::string s;
  while (v) { s.insert(s.begin(), char('0' + int(v % 10))); v /= 10; }
  return s;
}
static std::string show(float x)
{
  if (std::isnan(x)) return "nan";
  if (std::isinf(x)) return x > 0 ? "inf" : "-inf";
  if (x == 0) return "0";
  int e;
  double m = std::frexp((double)std::fabs(x), &e);
  unsigned long long M = (unsigned long long)std::ldexp(m, 53);
  e -= 53;
  while (e < 0 && (M & 1) == 0) { M >>= 1; e++; }
  std::string s = x < 0 ? "-" : "";
  if (e >= 0) {
    while ((M & 1) == 0) { M >>= 1; e++; }
    int bl = 0;
    for (unsigned long long t = M; t; t >>= 1) bl++;
    if (bl + e > 128) return s + "huge";
    return s + u128str((unsigned __int128)M << e);
  }
  if (-e > 120) return s + "tiny";
  return s + u128str(M) + "/" + u128str((unsigned __int128)1 << (-e));
}
static std::string show(int x) { return std::to_string(x); }
static std::string show(bool b) { return b ? "1" : "0"; }

template <typename S> static S parse(const std::string &t);
template <> float parse<float>(const std::string &t)
{
  if (t == "inf") return std::numeric_limits<float>::infinity();
  if (t == "-inf") return -std::numeric_limits<float>::infinity();
  if (t == "nan") return std::numeric_limits<float>::quiet_NaN();
  size_t i = t.find('/');
  if (i == std::string::npos) return (float)std::strtod(t.c_str(), nullptr);
  return (float)(std::strtod(t.substr(0, i).c_str(), nullptr) / std::strtod(t.substr(i + 1).c_str(), nullptr));
}
template <> int parse<int>(const std::string &t)
{
  if (t == "inf") return std::numeric_limits<int>::max();
  if (t == "-inf") return std::numeric_limits<int>::min();
  return (int)std::strtoll(t.c_str(), nullptr, 10);
}

// component access, uniform for scalars and vec_t
template <typename S> static S getc(const S &v, int) { return v; }
template <typename S, int N, bool A> static S getc(const vec_t<S, N, A> &v, int k) { return v[k]; }
template <typename S> static void setc(S &v, int, S x) { v = x; }
template <typename S, int N, bool A> static void setc(vec_t<S, N, A> &v, int k, S x) { v[k] = x; }

template <typename V, typename S, int N> static V vec_at(const std::vector<std::string> &a, int k)
{
  V v;
  for (int i = 0; i < N; i++) setc(v, i, parse<S>(a.at(k * N + i)));
  return v;
}
template <typename V, typename S, int N> static std::string showv(const V &v)
{
  std::string s;
  for (int i = 0; i < N; i++) s += (i ? " " : "") + show(getc(v, i));
  return s;
}
template <typename B, typename V, typename S, int N> static std::string showb(const B &b)
{
  return showv<V, S, N>(b.lower) + " " + showv<V, S, N>(b.upper);
}

// ---------------------------------------------------------------------------------------------- cases mode
template <typename B, typename V, typename S, int N> static std::string run_range(int op, const std::vector<std::string> &a)
{
  switch (op) {
  case 0: { B b(vec_at<V, S, N>(a, 0), vec_at<V, S, N>(a, 1)); return show(b.contains(vec_at<V, S, N>(a, 2))); }
  case 1: { B b(vec_at<V, S, N>(a, 0), vec_at<V, S, N>(a, 1)); return show(b.empty()); }
  case 2: { B b(vec_at<V, S, N>(a, 0), vec_at<V, S, N>(a, 1)); b.extend(vec_at<V, S, N>(a, 2)); return showb<B, V, S, N>(b); }
  case 3: { B b(vec_at<V, S, N>(a, 0), vec_at<V, S, N>(a, 1)); B c(vec_at<V, S, N>(a, 2), vec_at<V, S, N>(a, 3)); b.extend(c); return showb<B, V, S, N>(b); }
  case 4: { B b(vec_at<V, S, N>(a, 0), vec_at<V, S, N>(a, 1)); return showv<V, S, N>(b.clamp(vec_at<V, S, N>(a, 2))); }
  case 5: { B b(vec_at<V, S, N>(a, 0), vec_at<V, S, N>(a, 1)); return showv<V, S, N>(b.size()); }
  case 6: { B b(vec_at<V, S, N>(a, 0), vec_at<V, S, N>(a, 1)); return showv<V, S, N>(b.center()); }
  case 7: { B b; return showb<B, V, S, N>(b); }
  case 8: { B b = empty; return showb<B, V, S, N>(b); }
  case 9: { B b; B c(vec_at<V, S, N>(a, 0), vec_at<V, S, N>(a, 1)); b.extend(c); return showb<B, V, S, N>(b); }
  case 16: { B b(vec_at<V, S, N>(a, 0), vec_at<V, S, N>(a, 1)); std::ostringstream o; o << b; return o.str(); }   // operator<<
  case 17: { B b(zero); return showb<B, V, S, N>(b); }
  case 18: { B b(one); return showb<B, V, S, N>(b); }
  case 19: { B b(vec_at<V, S, N>(a, 0)); return showb<B, V, S, N>(b); }
  case 25: { V arr[2] = {vec_at<V, S, N>(a, 0), vec_at<V, S, N>(a, 1)}; B b(arr); return showb<B, V, S, N>(b); }   // range_t(const T *)
  case 26: {                                                                                                     // operator T*(), operator const T*() const
    B b(vec_at<V, S, N>(a, 0), vec_at<V, S, N>(a, 1));
    const B cb = b;
    V *p = b;
    const V *cp = cb;
    bool same = p == &b.lower && cp == &cb.lower;
    return showv<V, S, N>(p[0]) + " " + showv<V, S, N>(p[1]) + " " + showv<V, S, N>(cp[0]) + " " + showv<V, S, N>(cp[1]) + " " + show(same);
  }
  }
  return "nan nan nan";
}
template <typename B, typename V, typename S, int N> static std::string run_arith(int op, const std::vector<std::string> &a)
{
  B b(vec_at<V, S, N>(a, 0), vec_at<V, S, N>(a, 1));
  switch (op) {
  case 10: return showb<B, V, S, N>(b * vec_at<V, S, N>(a, 2));
  case 11: return showb<B, V, S, N>(vec_at<V, S, N>(a, 2) * b);
  case 12: return showb<B, V, S, N>(b + vec_at<V, S, N>(a, 2));
  case 13: return showb<B, V, S, N>(vec_at<V, S, N>(a, 2) + b);
  case 14: { B c(vec_at<V, S, N>(a, 2), vec_at<V, S, N>(a, 3)); return show(b == c); }
  case 15: { B c(vec_at<V, S, N>(a, 2), vec_at<V, S, N>(a, 3)); return show(b != c); }
  }
  return "nan nan nan";
}
template <typename B, typename V, typename S, int N> static std::string run_box(int op, const std::vector<std::string> &a)
{
  B b(vec_at<V, S, N>(a, 0), vec_at<V, S, N>(a, 1));
  switch (op) {
  case 20: { B c(vec_at<V, S, N>(a, 2), vec_at<V, S, N>(a, 3)); return showb<B, V, S, N>(intersectionOf(b, c)); }
  case 21: { B c(vec_at<V, S, N>(a, 2), vec_at<V, S, N>(a, 3)); return show(disjoint(b, c)); }
  case 22: return showv<V, S, N>(center(b));
  case 24: { B c(vec_at<V, S, N>(a, 2), vec_at<V, S, N>(a, 3)); return show(intersectionOf(b, c).empty()); }
  }
  return "nan nan nan";
}
template <typename B, typename V, typename S, int N> static std::string run_touch(const std::vector<std::string> &a)
{
  B b(vec_at<V, S, N>(a, 0), vec_at<V, S, N>(a, 1));
  B c(vec_at<V, S, N>(a, 2), vec_at<V, S, N>(a, 3));
  return show(touchingOrOverlapping(b, c));
}

#define DISPATCH(FN, ...)                                                    \
  switch (code) {                                                            \
  case 10: return FN<range1i, int, int, 1> __VA_ARGS__;                      \
  case 11: return FN<range1f, float, float, 1> __VA_ARGS__;                  \
  }                                                                          \
  DISPATCH_ND(FN, __VA_ARGS__)
#define DISPATCH_ND(FN, ...)                                                 \
  switch (code) {                                                            \
  case 20: return FN<box2i, vec2i, int, 2> __VA_ARGS__;                      \
  case 21: return FN<box2f, vec2f, float, 2> __VA_ARGS__;                    \
  case 30: return FN<box3i, vec3i, int, 3> __VA_ARGS__;                      \
  case 31: return FN<box3f, vec3f, float, 3> __VA_ARGS__;                    \
  case 40: return FN<box4i, vec4i, int, 4> __VA_ARGS__;                      \
  case 41: return FN<box4f, vec4f, float, 4> __VA_ARGS__;                    \
  }

static std::string run_case(int op, int code, const std::vector<std::string> &a)
{
  if (op < 10 || (op >= 16 && op <= 19) || op == 25 || op == 26) {
    DISPATCH(run_range, (op, a))
    if (code == 32) return run_range<box3fa, vec3fa, float, 3>(op, a);
  } else if (op < 16) {
    DISPATCH(run_arith, (op, a))
    if (code == 32) return run_arith<box3fa, vec3fa, float, 3>(op, a);
  } else if (op == 27) {
    // explicit range_t(const range_t<other_t> &): from the sibling element type of the same dimension
    switch (code) {
    case 11: return showb<range1f, float, float, 1>(range1f(range1i(vec_at<int, int, 1>(a, 0), vec_at<int, int, 1>(a, 1))));
    case 10: return showb<range1i, int, int, 1>(range1i(range1f(vec_at<float, float, 1>(a, 0), vec_at<float, float, 1>(a, 1))));
    case 21: return showb<box2f, vec2f, float, 2>(box2f(box2i(vec_at<vec2i, int, 2>(a, 0), vec_at<vec2i, int, 2>(a, 1))));
    case 20: return showb<box2i, vec2i, int, 2>(box2i(box2f(vec_at<vec2f, float, 2>(a, 0), vec_at<vec2f, float, 2>(a, 1))));
    case 31: return showb<box3f, vec3f, float, 3>(box3f(box3i(vec_at<vec3i, int, 3>(a, 0), vec_at<vec3i, int, 3>(a, 1))));
    case 30: return showb<box3i, vec3i, int, 3>(box3i(box3f(vec_at<vec3f, float, 3>(a, 0), vec_at<vec3f, float, 3>(a, 1))));
    case 32: return showb<box3fa, vec3fa, float, 3>(box3fa(box3f(vec_at<vec3f, float, 3>(a, 0), vec_at<vec3f, float, 3>(a, 1))));
    case 41: return showb<box4f, vec4f, float, 4>(box4f(box4i(vec_at<vec4i, int, 4>(a, 0), vec_at<vec4i, int, 4>(a, 1))));
    case 40: return showb<box4i, vec4i, int, 4>(box4i(box4f(vec_at<vec4f, float, 4>(a, 0), vec_at<vec4f, float, 4>(a, 1))));
    }
  } else if (op < 23) {
    DISPATCH_ND(run_box, (op, a))
    if (code == 32) return run_box<box3fa, vec3fa, float, 3>(op, a);
  } else if (op == 24) {
    DISPATCH_ND(run_box, (op, a))
    if (code == 32) return run_box<box3fa, vec3fa, float, 3>(op, a);
  } else if (op == 23) {
    switch (code) {
    case 20: return run_touch<box2i, vec2i, int, 2>(a);
    case 21: return run_touch<box2f, vec2f, float, 2>(a);
    case 30: return run_touch<box3i, vec3i, int, 3>(a);
    case 31: return run_touch<box3f, vec3f, float, 3>(a);
    case 32: return run_touch<box3fa, vec3fa, float, 3>(a);
    }
  } else if (op == 30) {
    switch (code) {
    case 20: return show(area(box2i(vec_at<vec2i, int, 2>(a, 0), vec_at<vec2i, int, 2>(a, 1))));
    case 21: return show(area(box2f(vec_at<vec2f, float, 2>(a, 0), vec_at<vec2f, float, 2>(a, 1))));
    case 30: return show(area(box3i(vec_at<vec3i, int, 3>(a, 0), vec_at<vec3i, int, 3>(a, 1))));
    case 31: return show(area(box3f(vec_at<vec3f, float, 3>(a, 0), vec_at<vec3f, float, 3>(a, 1))));
    case 32: return show(area(box3fa(vec_at<vec3fa, float, 3>(a, 0), vec_at<vec3fa, float, 3>(a, 1))));
    }
  } else if (op == 31) {
    switch (code) {
    case 30: return show(volume(box3i(vec_at<vec3i, int, 3>(a, 0), vec_at<vec3i, int, 3>(a, 1))));
    case 31: return show(volume(box3f(vec_at<vec3f, float, 3>(a, 0), vec_at<vec3f, float, 3>(a, 1))));
    case 32: return show(volume(box3fa(vec_at<vec3fa, float, 3>(a, 0), vec_at<vec3fa, float, 3>(a, 1))));
    }
  } else if (op == 40 && code == 31) {
    affine3f m(linear3f(vec_at<vec3f, float, 3>(a, 0), vec_at<vec3f, float, 3>(a, 1), vec_at<vec3f, float, 3>(a, 2)),
               vec_at<vec3f, float, 3>(a, 3));
    return showb<box3f, vec3f, float, 3>(xfmBounds(m, box3f(vec_at<vec3f, float, 3>(a, 4), vec_at<vec3f, float, 3>(a, 5))));
  } else if (op == 40 && code == 32) {
    typedef AffineSpaceT<LinearSpace3<vec3fa>> affa;
    affa m(LinearSpace3<vec3fa>(vec_at<vec3fa, float, 3>(a, 0), vec_at<vec3fa, float, 3>(a, 1), vec_at<vec3fa, float, 3>(a, 2)),
           vec_at<vec3fa, float, 3>(a, 3));
    return showb<box3fa, vec3fa, float, 3>(
        xfmBounds<float, true>(m, box3fa(vec_at<vec3fa, float, 3>(a, 4), vec_at<vec3fa, float, 3>(a, 5))));
  } else if (op == 41 && code == 31) {
    affine3f m(linear3f(vec_at<vec3f, float, 3>(a, 0), vec_at<vec3f, float, 3>(a, 1), vec_at<vec3f, float, 3>(a, 2)),
               vec_at<vec3f, float, 3>(a, 3));
    return showv<vec3f, float, 3>(xfmPoint(m, vec_at<vec3f, float, 3>(a, 4)));
  } else if (op == 41 && code == 32) {
    typedef AffineSpaceT<LinearSpace3<vec3fa>> affa;
    affa m(LinearSpace3<vec3fa>(vec_at<vec3fa, float, 3>(a, 0), vec_at<vec3fa, float, 3>(a, 1), vec_at<vec3fa, float, 3>(a, 2)),
           vec_at<vec3fa, float, 3>(a, 3));
    return showv<vec3fa, float, 3>(xfmPoint(m, vec_at<vec3fa, float, 3>(a, 4)));
  } else if (op == 51 && code == 21) {   // default tRange = range_t<T>(0, inf)
    range1f r = intersectRayBox(vec_at<vec2f, float, 2>(a, 0), vec_at<vec2f, float, 2>(a, 1),
                                box2f(vec_at<vec2f, float, 2>(a, 2), vec_at<vec2f, float, 2>(a, 3)));
    return show(r.lower) + " " + show(r.upper);
  } else if (op == 51 && code == 31) {
    range1f r = intersectRayBox(vec_at<vec3f, float, 3>(a, 0), vec_at<vec3f, float, 3>(a, 1),
                                box3f(vec_at<vec3f, float, 3>(a, 2), vec_at<vec3f, float, 3>(a, 3)));
    return show(r.lower) + " " + show(r.upper);
  } else if (op == 50 && code == 21) {
    range1f r = intersectRayBox(vec_at<vec2f, float, 2>(a, 0), vec_at<vec2f, float, 2>(a, 1),
                                box2f(vec_at<vec2f, float, 2>(a, 2), vec_at<vec2f, float, 2>(a, 3)),
                                range1f(parse<float>(a.at(8)), parse<float>(a.at(9))));
    return show(r.lower) + " " + show(r.upper);
  } else if (op == 50 && code == 31) {
    range1f r = intersectRayBox(vec_at<vec3f, float, 3>(a, 0), vec_at<vec3f, float, 3>(a, 1),
                                box3f(vec_at<vec3f, float, 3>(a, 2), vec_at<vec3f, float, 3>(a, 3)),
                                range1f(parse<float>(a.at(12)), parse<float>(a.at(13))));
    return show(r.lower) + " " + show(r.upper);
  }
  return "nan nan nan";
}

static int mode_cases()
{
  std::string line;
  while (std::getline(std::cin, line)) {
    std::istringstream is(line);
    int op = -1, code = -1;
    is >> op >> code;
    std::vector<std::string> a;
    std::string t;
    while (is >> t) a.push_back(t);
    std::feclearexcept(FE_ALL_EXCEPT);
    std::string r;
    try { r = run_case(op, code, a); } catch (...) { r = "exception"; }
    // a float computation that was not exact cannot be compared with the exact-rational model: flag it
    bool fl = (code % 10) != 0 && std::fetestexcept(FE_INEXACT);
    std::cout << r << (fl ? " ~" : "") << "\n";
  }
  return 0;
}

#ifndef C05_ONLY_CASES
// ---------------------------------------------------------------------------------------------- exhaustive mode
static long nfail = 0, nchecks = 0;
static void fail(const char *clause, const std::string &what)
{
  if (nfail++ < 40) std::cout << "FAIL " << clause << " " << what << "\n";
}
static long nknown = 0;
static void known(const char *sig, const std::string &what)
{
  if (nknown++ < 3) std::cout << "KNOWN " << sig << " " << what << "\n";
}

template <typename S, int N> struct Grid
{
  // all points with coordinates in 0..K-1, as arrays
  int K;
  std::vector<std::vector<S>> pts;
  Grid(int K_) : K(K_)
  {
    int total = 1;
    for (int i = 0; i < N; i++) total *= K;
    for (int c = 0; c < total; c++) {
      std::vector<S> p(N);
      int r = c;
      for (int i = 0; i < N; i++) { p[i] = S(r % K); r /= K; }
      pts.push_back(p);
    }
  }
};
template <typename V, typename S, int N> static V mkv(const std::vector<S> &p)
{
  V v;
  for (int i = 0; i < N; i++) setc(v, i, p[i]);
  return v;
}
template <typename S, int N> static bool o_contains(const std::vector<S> &lo, const std::vector<S> &hi, const std::vector<S> &p)
{
  for (int i = 0; i < N; i++) if (!(lo[i] <= p[i] && p[i] <= hi[i])) return false;
  return true;
}
template <typename S, int N> static bool o_nonempty(const std::vector<S> &lo, const std::vector<S> &hi)
{
  for (int i = 0; i < N; i++) if (!(lo[i] <= hi[i])) return false;
  return true;
}
template <typename S> static std::string sv(const std::vector<S> &v)
{
  std::string s = "(";
  for (size_t i = 0; i < v.size(); i++) s += (i ? "," : "") + show(v[i]);
  return s + ")";
}
template <typename B, typename V, typename S, int N> static std::vector<S> tov(const V &v)
{
  std::vector<S> r(N);
  for (int i = 0; i < N; i++) r[i] = getc(v, i);
  return r;
}

// range members: contains / empty / extend / clamp
template <typename B, typename V, typename S, int N> static void exh_range(const char *nm, int K)
{
  Grid<S, N> g(K);
  const size_t P = g.pts.size();
  B dflt;
  for (size_t il = 0; il < P; il++)
    for (size_t iu = 0; iu < P; iu++) {
      const std::vector<S> &lo = g.pts[il], &hi = g.pts[iu];
      B a(mkv<V, S, N>(lo), mkv<V, S, N>(hi));
      const std::string as = std::string(nm) + " a=[" + sv(lo) + "," + sv(hi) + "]";
      bool ne = o_nonempty<S, N>(lo, hi);
      nchecks++;
      if (a.empty() != !ne) fail("empty_iff_no_point", as);
      { B e; e.extend(a); if (!(tov<B, V, S, N>(e.lower) == lo && tov<B, V, S, N>(e.upper) == hi)) fail("extend_empty_id", as); }
      for (size_t ip = 0; ip < P; ip++) {
        const std::vector<S> &p = g.pts[ip];
        V pv = mkv<V, S, N>(p);
        nchecks++;
        bool c = a.contains(pv), oc = o_contains<S, N>(lo, hi, p);
        if (c != oc) fail("contains_iff", as + " p=" + sv(p) + " got=" + show(c));
        // extend by a point: least box containing both
        B e = a; e.extend(pv);
        std::vector<S> el = tov<B, V, S, N>(e.lower), eu = tov<B, V, S, N>(e.upper);
        for (int i = 0; i < N; i++)
          if (el[i] != std::min(lo[i], p[i]) || eu[i] != std::max(hi[i], p[i])) { fail("extend_point_least", as + " p=" + sv(p) + " got=[" + sv(el) + "," + sv(eu) + "]"); break; }
        if (!e.contains(pv)) fail("extend_point_contains_arg", as + " p=" + sv(p));
        { B e1; e1.extend(pv); if (!(tov<B, V, S, N>(e1.lower) == p && tov<B, V, S, N>(e1.upper) == p)) fail("extend_empty_id_point", as + " p=" + sv(p)); }
        if (ne) {
          std::vector<S> cl = tov<B, V, S, N>(a.clamp(pv));
          if (!o_contains<S, N>(lo, hi, cl)) fail("clamp_in", as + " p=" + sv(p) + " got=" + sv(cl));
          if (oc && cl != p) fail("clamp_id", as + " p=" + sv(p) + " got=" + sv(cl));
          for (int i = 0; i < N; i++) {
            // nearest: per component no contained coordinate is closer
            S best = std::max(lo[i], std::min(p[i], hi[i]));
            if (cl[i] != best) { fail("clamp_nearest", as + " p=" + sv(p) + " got=" + sv(cl)); break; }
          }
        }
      }
    }
}

// extend(box), intersectionOf, disjoint (N >= 2 for the free functions)
template <typename B, typename V, typename S, int N> static void exh_pairs(const char *nm, int K, bool freefns)
{
  Grid<S, N> g(K);
  const size_t P = g.pts.size();
  for (size_t al = 0; al < P; al++) for (size_t au = 0; au < P; au++)
    for (size_t bl = 0; bl < P; bl++) for (size_t bu = 0; bu < P; bu++) {
      const std::vector<S> &alo = g.pts[al], &ahi = g.pts[au], &blo = g.pts[bl], &bhi = g.pts[bu];
      B a(mkv<V, S, N>(alo), mkv<V, S, N>(ahi)), b(mkv<V, S, N>(blo), mkv<V, S, N>(bhi));
      auto desc = [&]() { return std::string(nm) + " a=[" + sv(alo) + "," + sv(ahi) + "] b=[" + sv(blo) + "," + sv(bhi) + "]"; };
      nchecks++;
      B e = a; e.extend(b);
      std::vector<S> el = tov<B, V, S, N>(e.lower), eu = tov<B, V, S, N>(e.upper);
      for (int i = 0; i < N; i++)
        if (el[i] != std::min(alo[i], blo[i]) || eu[i] != std::max(ahi[i], bhi[i])) { fail("extend_box_least", desc() + " got=[" + sv(el) + "," + sv(eu) + "]"); break; }
    }
}
template <typename B, typename V, typename S, int N> static B inter_of(const B &a, const B &b) { return intersectionOf(a, b); }

template <typename B, typename V, typename S, int N, bool TOUCH> struct Touch { static bool has() { return false; } static bool t(const B &, const B &) { return false; } };
template <typename B, typename V, typename S, int N> struct Touch<B, V, S, N, true> { static bool has() { return true; } static bool t(const B &a, const B &b) { return touchingOrOverlapping(a, b); } };

template <typename B, typename V, typename S, int N, bool TOUCH> static void exh_box(const char *nm, int K)
{
  Grid<S, N> g(K);
  const size_t P = g.pts.size();
  for (size_t al = 0; al < P; al++) for (size_t au = 0; au < P; au++)
    for (size_t bl = 0; bl < P; bl++) for (size_t bu = 0; bu < P; bu++) {
      const std::vector<S> &alo = g.pts[al], &ahi = g.pts[au], &blo = g.pts[bl], &bhi = g.pts[bu];
      B a(mkv<V, S, N>(alo), mkv<V, S, N>(ahi)), b(mkv<V, S, N>(blo), mkv<V, S, N>(bhi));
      auto desc = [&]() { return std::string(nm) + " a=[" + sv(alo) + "," + sv(ahi) + "] b=[" + sv(blo) + "," + sv(bhi) + "]"; };
      nchecks++;
      B in = intersectionOf(a, b);
      std::vector<S> il = tov<B, V, S, N>(in.lower), iu = tov<B, V, S, N>(in.upper);
      bool common = false;
      for (size_t ip = 0; ip < P; ip++) {
        const std::vector<S> &p = g.pts[ip];
        bool both = o_contains<S, N>(alo, ahi, p) && o_contains<S, N>(blo, bhi, p);
        common = common || both;
        if (o_contains<S, N>(il, iu, p) != both || in.contains(mkv<V, S, N>(p)) != both) {
          fail("intersection_spec", desc() + " p=" + sv(p) + " got=[" + sv(il) + "," + sv(iu) + "]");
          break;
        }
      }
      if (in.empty() == common) fail("intersection_empty_iff_no_common_point", desc());
      bool dj = disjoint(a, b);
      if (Touch<B, V, S, N, TOUCH>::has() && dj == Touch<B, V, S, N, TOUCH>::t(a, b)) fail("disjoint_iff_not_touching", desc() + " disjoint=" + show(dj));
      if (dj != in.empty()) {
        // boxes as sets: an empty intersection must be reported as disjoint
        if (o_nonempty<S, N>(alo, ahi) && o_nonempty<S, N>(blo, bhi)) fail("intersection_empty_iff_disjoint", desc() + " disjoint=" + show(dj));
        else known("disjoint-inverted-empty-operand", desc() + " disjoint=" + show(dj) + " intersection_empty=" + show(in.empty()));
      }
    }
}

static int mode_exh(bool thorough)
{
  exh_range<range1i, int, int, 1>("range1i", 6);
  exh_range<range1f, float, float, 1>("range1f", 6);
  exh_range<box2i, vec2i, int, 2>("box2i", 4);
  exh_range<box2f, vec2f, float, 2>("box2f", 4);
  exh_range<box3i, vec3i, int, 3>("box3i", 2);
  exh_range<box3f, vec3f, float, 3>("box3f", 2);
  exh_range<box3fa, vec3fa, float, 3>("box3fa", 2);
  exh_range<box4i, vec4i, int, 4>("box4i", 2);
  exh_range<box4f, vec4f, float, 4>("box4f", 2);
  exh_pairs<range1i, int, int, 1>("range1i", 6, false);
  exh_pairs<range1f, float, float, 1>("range1f", 6, false);
  exh_pairs<box2i, vec2i, int, 2>("box2i", 4, true);
  exh_pairs<box2f, vec2f, float, 2>("box2f", thorough ? 4 : 3, true);
  exh_pairs<box3i, vec3i, int, 3>("box3i", 2, true);
  exh_pairs<box3fa, vec3fa, float, 3>("box3fa", 2, true);
  exh_pairs<box4i, vec4i, int, 4>("box4i", 2, true);
  exh_box<box2i, vec2i, int, 2, true>("box2i", 4);        // all 4^8 box pairs x 16 points
  exh_box<box2f, vec2f, float, 2, true>("box2f", thorough ? 4 : 3);
  exh_box<box3i, vec3i, int, 3, true>("box3i", 2);
  exh_box<box3f, vec3f, float, 3, true>("box3f", 2);
  exh_box<box3fa, vec3fa, float, 3, true>("box3fa", 2);
  exh_box<box4i, vec4i, int, 4, false>("box4i", 2);
  exh_box<box4f, vec4f, float, 4, false>("box4f", 2);
  std::cout << "DONE checks=" << nchecks << " fails=" << nfail << " known=" << nknown << "\n";
  return 0;
}

// ---------------------------------------------------------------------------------------------- fuzz mode (float, rounding)
static const ld EPS = 5.9604644775390625e-8L;  // 2^-24
static std::string hx(float f) { char b[64]; std::snprintf(b, sizeof b, "%a", (double)f); return b; }
static std::string hx3(const vec3f &v) { return hx(v.x) + " " + hx(v.y) + " " + hx(v.z); }

struct Rng
{
  std::mt19937_64 g;
  explicit Rng(unsigned long long s) : g(s) {}
  double u() { return std::uniform_real_distribution<double>(0, 1)(g); }
  int k(int n) { return int(g() % (unsigned long long)n); }
  float coord()
  {
    switch (k(6)) {
    case 0: return float(k(17) - 8);
    case 1: return float((k(65) - 32) * 0.25);
    default: return float((u() * 2 - 1) * std::pow(2.0, k(8)));
    }
  }
};

template <typename V> static void rand_box(Rng &r, V &lo, V &hi, int N)
{
  for (int i = 0; i < N; i++) {
    float a = r.coord(), b = r.coord();
    if (r.k(8) == 0) b = a;  // degenerate axis
    lo[i] = std::min(a, b);
    hi[i] = std::max(a, b);
  }
}

// unit quaternion -> rotation (long double)
static void rand_rot(Rng &r, ld R[3][3])
{
  ld q[4], n = 0;
  for (int i = 0; i < 4; i++) { q[i] = r.u() * 2 - 1; n += q[i] * q[i]; }
  n = std::sqrt(n);
  if (n < 1e-3L) { q[0] = 1; q[1] = q[2] = q[3] = 0; n = 1; }
  for (int i = 0; i < 4; i++) q[i] /= n;
  ld w = q[0], x = q[1], y = q[2], z = q[3];
  ld M[3][3] = {{1 - 2 * (y * y + z * z), 2 * (x * y - z * w), 2 * (x * z + y * w)},
                {2 * (x * y + z * w), 1 - 2 * (x * x + z * z), 2 * (y * z - x * w)},
                {2 * (x * z - y * w), 2 * (y * z + x * w), 1 - 2 * (x * x + y * y)}};
  std::memcpy(R, M, sizeof M);
}

template <bool A> static void fuzz_xfm(Rng &r, long &cnt)
{
  typedef vec_t<float, 3, A> V;
  typedef box_t<float, 3, A> B;
  typedef AffineSpaceT<LinearSpace3<V>> Aff;
  V lo, hi;
  rand_box(r, lo, hi, 3);
  // M = R1 * diag(s) * R2 with max(s)/min(s) <= 64, or a small-integer matrix (exact arithmetic)
  float m[3][3], t[3];
  int fam = r.k(5);
  if (fam == 0) {
    for (int i = 0; i < 3; i++) { for (int j = 0; j < 3; j++) m[i][j] = float(r.k(7) - 3); t[i] = float(r.k(21) - 10); }
  } else if (fam == 1) {
    // exactly diagonal / axis-permuting linear part with signed float scales (mirrors, quarter turns, point reflection),
    // sometimes with a zero column: every off-pattern entry is exactly 0
    static const int perms[6][3] = {{0, 1, 2}, {0, 1, 2}, {1, 0, 2}, {0, 2, 1}, {2, 1, 0}, {1, 2, 0}};
    const int *pm = perms[r.k(6)];
    for (int i = 0; i < 3; i++) { for (int j = 0; j < 3; j++) m[i][j] = 0.f; t[i] = r.coord(); }
    bool anyneg = false;
    for (int j = 0; j < 3; j++) {
      float sc = float((0.25 + r.u() * 4) * (r.k(2) ? -1 : 1));
      if (r.k(3) == 0) sc = r.k(2) ? -1.f : 1.f;
      anyneg = anyneg || sc < 0;
      m[pm[j]][j] = sc;
    }
    if (!anyneg) { int j = r.k(3); m[pm[j]][j] = -m[pm[j]][j]; }
    if (r.k(8) == 0) { int j = r.k(3); m[pm[j]][j] = 0.f; }
  } else {
    ld R1[3][3], R2[3][3], s[3];
    rand_rot(r, R1); rand_rot(r, R2);
    ld base = std::pow(2.0L, r.k(7) - 3);
    for (int i = 0; i < 3; i++) s[i] = base * std::pow(64.0L, (ld)r.u()) * (r.k(5) == 0 ? -1 : 1);
    for (int i = 0; i < 3; i++) for (int j = 0; j < 3; j++) {
      ld acc = 0;
      for (int k = 0; k < 3; k++) acc += R1[i][k] * s[k] * R2[k][j];
      m[i][j] = (float)acc;
    }
    for (int i = 0; i < 3; i++) t[i] = r.coord();
  }
  // columns vx vy vz: image = p.x*vx + p.y*vy + p.z*vz + t
  Aff aff(LinearSpace3<V>(V(m[0][0], m[1][0], m[2][0]), V(m[0][1], m[1][1], m[2][1]), V(m[0][2], m[1][2], m[2][2])), V(t[0], t[1], t[2]));
  B box(lo, hi);
  B res = xfmBounds<float, A>(aff, box);
  // sample points of the box: corners, face/edge points, interior
  std::vector<V> pts;
  for (int c = 0; c < 27; c++) {
    V p;
    int q = c;
    for (int i = 0; i < 3; i++) { int s = q % 3; q /= 3; p[i] = s == 0 ? lo[i] : s == 1 ? hi[i] : std::min(hi[i], std::max(lo[i], 0.5f * lo[i] + 0.5f * hi[i])); }
    pts.push_back(p);
  }
  for (int c = 0; c < 8; c++) {
    V p;
    for (int i = 0; i < 3; i++) { float f = (float)r.u(); p[i] = std::min(hi[i], std::max(lo[i], lo[i] + f * (hi[i] - lo[i]))); }
    pts.push_back(p);
  }
  ld cmin[3] = {INFINITY, INFINITY, INFINITY}, cmax[3] = {-INFINITY, -INFINITY, -INFINITY}, ctol[3] = {0, 0, 0};
  for (size_t n = 0; n < pts.size(); n++) {
    const V &p = pts[n];
    for (int k = 0; k < 3; k++) {
      ld q = (ld)m[k][0] * p[0] + (ld)m[k][1] * p[1] + (ld)m[k][2] * p[2] + (ld)t[k];
      ld mag = std::fabs((ld)m[k][0] * p[0]) + std::fabs((ld)m[k][1] * p[1]) + std::fabs((ld)m[k][2] * p[2]) + std::fabs((ld)t[k]);
      ld tol = 8 * EPS * mag + 1e-40L;
      cnt++;
      if (!((ld)res.lower[k] - tol <= q && q <= (ld)res.upper[k] + tol)) {
        std::ostringstream o;
        o << (A ? "box3fa" : "box3f") << " m=[" << hx(m[0][0]) << " " << hx(m[0][1]) << " " << hx(m[0][2]) << ";" << hx(m[1][0]) << " " << hx(m[1][1]) << " " << hx(m[1][2]) << ";"
          << hx(m[2][0]) << " " << hx(m[2][1]) << " " << hx(m[2][2]) << "] t=(" << hx(t[0]) << " " << hx(t[1]) << " " << hx(t[2]) << ") box=[(" << hx(lo[0]) << " " << hx(lo[1]) << " " << hx(lo[2]) << "),(" << hx(hi[0]) << " "
          << hx(hi[1]) << " " << hx(hi[2]) << ")] p=(" << hx(p[0]) << " " << hx(p[1]) << " " << hx(p[2]) << ") axis=" << k << " image=" << (double)q << " bounds=[" << res.lower[k] << "," << res.upper[k] << "] tol=" << (double)tol;
        fail("xfmBounds_contains", o.str());
        return;
      }
      if (n < 27 && (n % 3 != 2) && ((n / 3) % 3 != 2) && ((n / 9) % 3 != 2)) {  // the 8 corners
        cmin[k] = std::min(cmin[k], q); cmax[k] = std::max(cmax[k], q); ctol[k] = std::max(ctol[k], tol);
      }
    }
  }
  for (int k = 0; k < 3; k++)
    if ((ld)res.lower[k] < cmin[k] - ctol[k] || (ld)res.upper[k] > cmax[k] + ctol[k]) {
      std::ostringstream o;
      o << (A ? "box3fa" : "box3f") << " axis=" << k << " bounds=[" << res.lower[k] << "," << res.upper[k] << "] corner images span [" << (double)cmin[k] << "," << (double)cmax[k] << "] box=[(" << hx(lo[0]) << " " << hx(lo[1]) << " " << hx(lo[2]) << "),("
        << hx(hi[0]) << " " << hx(hi[1]) << " " << hx(hi[2]) << ")] m row=" << hx(m[k][0]) << " " << hx(m[k][1]) << " " << hx(m[k][2]) << " t=" << hx(t[k]);
      fail("xfmBounds_tight", o.str());
      return;
    }
}

template <int N> static void fuzz_ray(Rng &r, long &cnt)
{
  typedef vec_t<float, N> V;
  typedef box_t<float, N> B;
  V lo, hi, org, dir;
  rand_box(r, lo, hi, N);
  int kind = r.k(6);
  for (int i = 0; i < N; i++) {
    org[i] = kind == 0 ? std::min(hi[i], std::max(lo[i], lo[i] + (float)r.u() * (hi[i] - lo[i])))  // starting inside
                       : r.coord();
    dir[i] = r.k(4) == 0 ? float(r.k(5) - 2) : float((r.u() * 2 - 1) * std::pow(2.0, r.k(5) - 2));
  }
  if (kind == 1) { int ax = r.k(N); dir[ax] = 0.f; }                                    // axis-parallel
  if (kind == 2) { int ax = r.k(N); dir[ax] = 0.f; org[ax] = r.k(2) ? lo[ax] : hi[ax]; }  // grazing along a face
  if (kind == 3) { for (int i = 0; i < N; i++) dir[i] = 0.f; dir[r.k(N)] = r.k(2) ? 1.f : -2.f; }  // along one axis
  float tl = r.k(3) == 0 ? -float(r.k(9)) : 0.f, tu = r.k(3) == 0 ? std::numeric_limits<float>::infinity() : float(r.k(40)) * 0.5f;
  range1f tr(tl, tu);
  range1f res = intersectRayBox(org, dir, B(lo, hi), tr);
  // exact interval (long double), d_i == 0 meaning "inside the slab or not"
  ld T0 = tl, T1 = tu;
  bool never = false;
  for (int i = 0; i < N; i++) {
    if (dir[i] == 0.f) { if (!(lo[i] <= org[i] && org[i] <= hi[i])) never = true; continue; }
    ld a = ((ld)lo[i] - org[i]) / dir[i], b = ((ld)hi[i] - org[i]) / dir[i];
    T0 = std::max(T0, std::min(a, b)); T1 = std::min(T1, std::max(a, b));
  }
  std::vector<ld> ts;
  if (res.lower <= res.upper) {
    ts.push_back(res.lower); ts.push_back(res.upper);
    if (std::isfinite(res.upper)) ts.push_back(0.5L * ((ld)res.lower + res.upper)); else ts.push_back((ld)res.lower + 1);
  }
  if (!never && T0 <= T1) { ts.push_back(T0); if (std::isfinite((double)T1)) { ts.push_back(T1); ts.push_back(0.5L * (T0 + T1)); ts.push_back(T0 + 0.25L * (T1 - T0)); } else ts.push_back(T0 + 3); }
  ts.push_back(tl); if (std::isfinite(tu)) ts.push_back(tu);
  for (int j = 0; j < 4; j++) { ld hiT = std::isfinite(tu) ? (ld)tu : (ld)tl + 50; ts.push_back(tl + (hiT - tl) * r.u()); }
  for (size_t n = 0; n < ts.size(); n++) {
    ld t = ts[n];
    if (!std::isfinite((double)t)) continue;
    bool in_exp = true, in_shr = true;
    for (int i = 0; i < N; i++) {
      ld x = (ld)org[i] + t * dir[i];
      ld tol = 64 * EPS * (std::fabs((ld)lo[i]) + std::fabs((ld)hi[i]) + std::fabs((ld)org[i]) + std::fabs(t * dir[i])) + 1e-30L
               + 2 * std::fabs(t) * (ld)std::numeric_limits<float>::min();  // rcp_safe reads |dir_i| < FLT_MIN as +-FLT_MIN
      if (!((ld)lo[i] - tol <= x && x <= (ld)hi[i] + tol)) in_exp = false;
      if (!((ld)lo[i] + tol <= x && x <= (ld)hi[i] - tol)) in_shr = false;
    }
    bool in_res = (ld)res.lower <= t && t <= (ld)res.upper;
    ld dt = 64 * EPS * std::fabs(t) + 1e-30L;
    bool in_res_exp = (ld)res.lower - dt <= t && t <= (ld)res.upper + dt;
    bool in_tr = (ld)tl <= t && t <= (ld)tu;
    cnt++;
    const char *cl = nullptr;
    if (in_res && !(in_exp && in_tr)) cl = "slab_sound(t in result but point outside box or t outside tRange)";
    else if (in_tr && in_shr && !in_res_exp) cl = "slab_complete(point inside box, t in tRange, but t not in result)";
    if (cl) {
      std::ostringstream o;
      o << "N=" << N << " org=(";
      for (int i = 0; i < N; i++) o << (i ? " " : "") << hx(org[i]);
      o << ") dir=(";
      for (int i = 0; i < N; i++) o << (i ? " " : "") << hx(dir[i]);
      o << ") box=[(";
      for (int i = 0; i < N; i++) o << (i ? " " : "") << hx(lo[i]);
      o << "),(";
      for (int i = 0; i < N; i++) o << (i ? " " : "") << hx(hi[i]);
      o << ")] tRange=[" << tl << "," << tu << "] result=[" << res.lower << "," << res.upper << "] t=" << (double)t << " " << cl;
      fail("intersectRayBox", o.str());
      return;
    }
  }
  // the empty box contains no point: no parameter may be reported
  if (r.k(16) == 0) {
    B e;
    range1f re = intersectRayBox(org, dir, e, tr);
    cnt++;
    if (re.lower <= re.upper) {
      std::ostringstream o;
      o << "N=" << N << " empty box, org=(";
      for (int i = 0; i < N; i++) o << (i ? " " : "") << hx(org[i]);
      o << ") dir=(";
      for (int i = 0; i < N; i++) o << (i ? " " : "") << hx(dir[i]);
      o << ") tRange=[" << tl << "," << tu << "] result=[" << re.lower << "," << re.upper << "]";
      known("intersectRayBox-empty-box", o.str());
    }
  }
}

// center(): the midpoint within the rounding the expression .5f*lower + .5f*upper allows.
//   float: one rounding of the exact midpoint (|error| <= 2^-24 |mid|, + one denormal ulp when a halving underflows); exact when the
//          midpoint is representable and no bound is below 2^-125;
//   int  : the route goes through float: exact truncated midpoint when |lower|,|upper| <= 2^23, else within 1 + 2^-22 max(|lower|,|upper|).
//          where the rounded float sum is 2^31 (upper >= INT_MAX-63 and lower >= INT_MAX-190) the conversion back to int is out of range:
//          undefined behaviour, x86 returns INT_MIN - reported as KNOWN center-int-top (open finding), everything else as FAIL
static float rand_mag(Rng &r)
{
  switch (r.k(8)) {
  case 0: return (r.k(2) ? 1.f : -1.f) * std::numeric_limits<float>::max();
  case 1: return float((r.k(31) - 15)) * std::ldexp(1.f, 124);
  case 2: return float((r.u() * 2 - 1) * 3.4e38);
  case 3: return float((r.u() * 2 - 1) * std::pow(2.0, r.k(250) - 125));
  default: return r.coord();
  }
}
static int mode_fuzzc(unsigned long long seed, long n)
{
  Rng r(seed * 7919 + 13);
  long cnt = 0;
  for (long it = 0; it < n; it++) {
    vec3f lo, hi;
    for (int i = 0; i < 3; i++) { float a = rand_mag(r), b = rand_mag(r); lo[i] = std::min(a, b); hi[i] = std::max(a, b); }
    box3f b3(lo, hi);
    vec3f c3 = b3.center(), c3f = center(b3);
    float c1 = range1f(lo[0], hi[0]).center();
    for (int i = 0; i < 3; i++) {
      ld mid = ((ld)lo[i] + (ld)hi[i]) / 2;
      ld tol = EPS * std::fabs(mid) + std::ldexp((ld)1, -149);
      bool repr = (ld)(float)mid == mid && std::fabs(lo[i]) >= std::ldexp(1.f, -125) && std::fabs(hi[i]) >= std::ldexp(1.f, -125);
      float got = c3[i];
      cnt++;
      bool bad = !(std::fabs((ld)got - mid) <= tol) || (repr && (ld)got != mid) || c3f[i] != got || (i == 0 && c1 != got);
      if (bad) {
        std::ostringstream o;
        o << "float component " << i << " lower=" << hx(lo[i]) << " upper=" << hx(hi[i]) << " center()=" << hx(got) << " center(box)=" << hx(c3f[i])
          << " range1f.center()=" << hx(c1) << " midpoint=" << (double)mid << (repr ? " (representable: must be exact)" : "");
        fail("center_midpoint", o.str());
        break;
      }
    }
  }
  for (long it = 0; it < n; it++) {
    vec3i lo, hi;
    for (int i = 0; i < 3; i++) {
      long long a, b;
      int fam = r.k(6);
      long long span = fam == 0 ? 1000 : fam == 1 ? (1LL << 23) : 2147483647LL;
      a = (long long)(r.g() % (unsigned long long)(2 * span + 1)) - span;
      b = (long long)(r.g() % (unsigned long long)(2 * span + 1)) - span;
      if (fam == 4) { a = 2147483647LL - r.k(201); b = 2147483647LL - r.k(201); }      // [INT_MAX-200, INT_MAX]
      if (fam == 5) { a = -2147483648LL + r.k(201); b = -2147483648LL + r.k(201); }    // [INT_MIN, INT_MIN+200]
      lo[i] = (int)std::min(a, b); hi[i] = (int)std::max(a, b);
    }
    box3i b3(lo, hi);
    vec3i c3 = b3.center();
    int c1 = range1i(lo[0], hi[0]).center();
    for (int i = 0; i < 3; i++) {
      ld mid = ((ld)lo[i] + (ld)hi[i]) / 2;
      ld mx = std::max(std::fabs((ld)lo[i]), std::fabs((ld)hi[i]));
      bool small = mx <= (ld)(1 << 23);
      ld want = std::trunc(mid);
      cnt++;
      bool bad = small ? ((ld)c3[i] != want) : !(std::fabs((ld)c3[i] - mid) <= 1 + std::ldexp(mx, -22));
      if (i == 0 && c1 != c3[0]) bad = true;
      volatile float fl = (float)lo[i], fh = (float)hi[i];
      volatile float fsum = 0.5f * fl + 0.5f * fh;
      if (bad && fsum >= 2147483648.f && c1 == c3[0]) {
        std::ostringstream o;
        o << "int component " << i << " lower=" << lo[i] << " upper=" << hi[i] << " center()=" << c3[i] << " midpoint=" << (double)mid
          << " (.5f*float(lower)+.5f*float(upper) == 2^31: float->int conversion out of range)";
        known("center-int-top", o.str());
        continue;
      }
      if (bad) {
        std::ostringstream o;
        o << "int component " << i << " lower=" << lo[i] << " upper=" << hi[i] << " center()=" << c3[i] << " range1i.center()=" << c1 << " midpoint=" << (double)mid
          << (small ? " (|bounds| <= 2^23: must be the exact truncated midpoint)" : "");
        fail("center_midpoint", o.str());
        break;
      }
    }
  }
  nchecks = cnt;
  std::cout << "DONE checks=" << nchecks << " fails=" << nfail << " known=" << nknown << "\n";
  return 0;
}

static int mode_fuzz(unsigned long long seed, long n)
{
  Rng r(seed);
  long cnt = 0;
  for (long i = 0; i < n; i++) {
    fuzz_xfm<false>(r, cnt);
    fuzz_xfm<true>(r, cnt);
    fuzz_ray<2>(r, cnt);
    fuzz_ray<3>(r, cnt);
  }
  nchecks = cnt;
  std::cout << "DONE checks=" << nchecks << " fails=" << nfail << " known=" << nknown << "\n";
  return 0;
}

#endif

int main(int argc, char **argv)
{
  std::string mode = argc > 1 ? argv[1] : "cases";
  if (mode == "cases") return mode_cases();
#ifndef C05_ONLY_CASES
  if (mode == "exh") return mode_exh(argc > 2 && std::string(argv[2]) == "thorough");
  if (mode == "fuzzc") return mode_fuzzc(argc > 2 ? std::strtoull(argv[2], nullptr, 10) : 1, argc > 3 ? std::atol(argv[3]) : 1000);
  if (mode == "fuzz") return mode_fuzz(argc > 2 ? std::strtoull(argv[2], nullptr, 10) : 1, argc > 3 ? std::atol(argv[3]) : 1000);
#endif
  return 2;
}
