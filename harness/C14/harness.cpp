// C14 harness: runs the case lines of ocaml/C14/driver.ml on the real code
// (rkcommon/memory/malloc.{h,cpp}, containers/aligned_allocator.h, AlignedVector.h).
//
// Three builds of this file (see props/C14/check.py):
//   real-mm   : no tasking define  -> alignedMalloc = _mm_malloc, ASan+UBSan
//   real-tbb  : -DRKCOMMON_TASKING_TBB -ltbbmalloc -> scalable_aligned_malloc
//   spy       : -DRKCOMMON_TASKING_TBB -DC14_SPY, the whole scalable_* C API is
//               defined HERE (the same bump allocator / scripted answers as the
//               model's oracle), so the exact (bytes, align) handed to the back
//               end, the pointers and the frees can be compared with the model.
//               Entry points without an alignment argument (scalable_malloc,
//               calloc, realloc) return what the real ones guarantee and no more:
//               8-byte aligned (never 16) for requests up to 8 bytes, else 16
//               (never 32); their request is printed with align 0.
// In every build the harness also evaluates the property itself (alignment,
// std::vector twin, full-extent patterns) and appends !FLAGS to the line.
#include <cstdint>
#include <cstdio>
#include <cstdlib>
#include <cstring>
#include <iostream>
#include <map>
#include <set>
#include <sstream>
#include <stdexcept>
#include <string>
#include <vector>
#include <type_traits>
#include <alloca.h>
#include <fcntl.h>
#include <signal.h>
#include <sys/mman.h>
#include <sys/wait.h>
#include <unistd.h>
#include "rkcommon/containers/AlignedVector.h"
#include "rkcommon/memory/malloc.h"
#ifndef C14_FALLBACK
#include "rkcommon/utility/Any.h"
#endif
#include <initializer_list>

using rkcommon::containers::aligned_allocator;
using rkcommon::containers::AlignedVector;

// ------------------------------------------------------------------ spy back end
#ifdef C14_SPY
static const uint64_t MODEL_BASE = 1ull << 32, ARENA = 1ull << 28;
static unsigned char *arena = nullptr;
static uint64_t spy_cur = 0;          // model address of the cursor
static long spy_fail = -1;            // request number that fails
static bool spy_scripted = false;
static void *spy_answer = nullptr;
static size_t spy_req_size = 0, spy_req_align = 0;
static long spy_calls = 0;
static std::map<uint64_t, uint64_t> spy_live;   // model address -> size
static std::vector<std::string> spy_errors;

static void spy_init()
{
  if (arena) return;
  size_t al = 1ull << 21;
  unsigned char *m = (unsigned char *)mmap(nullptr, ARENA + al, PROT_READ | PROT_WRITE,
                                           MAP_PRIVATE | MAP_ANONYMOUS | MAP_NORESERVE, -1, 0);
  if (m == (unsigned char *)MAP_FAILED) { perror("mmap"); exit(3); }
  arena = (unsigned char *)(((uintptr_t)m + al - 1) & ~(uintptr_t)(al - 1));
}
static void spy_reset(long fail)
{
  spy_init();
  spy_cur = MODEL_BASE; spy_fail = fail; spy_scripted = false; spy_calls = 0;
  spy_live.clear(); spy_errors.clear();
}
static uint64_t to_model(const void *p) { return p ? (uint64_t)((const unsigned char *)p - arena) + MODEL_BASE : 0; }

// one allocation of the bump back end: the least address >= cursor that is a multiple of
// place_align but not of 2*place_align (so that a pointer is never "accidentally" better aligned
// than what the entry point guarantees).  entry_align is what the caller asked for (0 = an entry
// point without an alignment argument) and is what the G cases print as the request.
static void *spy_alloc(size_t size, size_t place_align, size_t entry_align)
{
  spy_req_size = size; spy_req_align = entry_align; ++spy_calls;
  if (spy_scripted) return spy_answer;
  long k = spy_fail; spy_fail = k - 1;
  if (k == 0) return nullptr;
  size_t align = place_align;
  if (align == 0 || (align & (align - 1)) != 0 || align > (1ull << 20)) return nullptr;
  uint64_t lo = spy_cur, r = (lo - align) % (2 * align);
  uint64_t p = r == 0 ? lo : lo + (2 * align - r);
  uint64_t ext = size ? size : 1;
  if (p + ext > MODEL_BASE + ARENA) return nullptr;
  spy_cur = p + ext;
  spy_live[p] = size;
  return arena + (p - MODEL_BASE);
}
static void spy_release(void *ptr)
{
  if (spy_scripted || !ptr) return;
  uint64_t p = to_model(ptr);
  if (!spy_live.erase(p)) spy_errors.push_back("!BADFREE(" + std::to_string(p) + ")");
}
// what plain scalable_malloc guarantees, as in the real tbbmalloc: blocks for requests of up to
// 8 bytes are only 8-byte aligned, everything else 16 (= alignof(max_align_t))
static size_t spy_plain_align(size_t size) { return size <= 8 ? 8 : 16; }
static size_t spy_size_of(void *ptr)
{
  if (!ptr || spy_scripted) return 0;
  auto it = spy_live.find(to_model(ptr));
  return it == spy_live.end() ? 0 : (size_t)it->second;
}

// the whole C API of the TBB scalable allocator that code under test might call
extern "C" void *scalable_aligned_malloc(size_t size, size_t align) { return spy_alloc(size, align, align); }
extern "C" void scalable_aligned_free(void *ptr) { spy_release(ptr); }
extern "C" void *scalable_malloc(size_t size) { return spy_alloc(size, spy_plain_align(size), 0); }
extern "C" void scalable_free(void *ptr) { spy_release(ptr); }
extern "C" void *scalable_calloc(size_t nobj, size_t size)
{
  if (size && nobj > (size_t)-1 / size) return nullptr;
  void *p = spy_alloc(nobj * size, spy_plain_align(nobj * size), 0);
  if (p && !spy_scripted) memset(p, 0, nobj * size);
  return p;
}
extern "C" int scalable_posix_memalign(void **memptr, size_t align, size_t size)
{
  if (align < sizeof(void *) || (align & (align - 1)) != 0) return 22;   // EINVAL
  void *p = spy_alloc(size, align, align);
  if (!p) return 12;                                                      // ENOMEM
  *memptr = p;
  return 0;
}
static void *spy_move(void *ptr, void *np, size_t size)
{
  if (np && ptr && !spy_scripted) {
    size_t old = spy_size_of(ptr);
    memcpy(np, ptr, old < size ? old : size);
    spy_release(ptr);
  }
  return np;
}
extern "C" void *scalable_realloc(void *ptr, size_t size)
{
  if (ptr && size == 0) { spy_release(ptr); return nullptr; }
  return spy_move(ptr, spy_alloc(size, spy_plain_align(size), 0), size);
}
extern "C" void *scalable_aligned_realloc(void *ptr, size_t size, size_t align)
{
  if (ptr && size == 0) { spy_release(ptr); return nullptr; }
  return spy_move(ptr, spy_alloc(size, align, align), size);
}
extern "C" size_t scalable_msize(void *ptr) { return spy_size_of(ptr); }
static std::string addr(const void *p) { return std::to_string(to_model(p)); }
#else
static void spy_reset(long) {}
static std::string addr(const void *p) { return std::to_string((uint64_t)(uintptr_t)p); }
#endif

// ------------------------------------------------------------------ helpers
static std::vector<std::string> split(const std::string &s, char d)
{
  std::vector<std::string> r; std::string t; std::istringstream is(s);
  while (std::getline(is, t, d)) if (d != ' ' || !t.empty()) r.push_back(t);
  return r;
}
static uint64_t u64(const std::string &s) { return strtoull(s.c_str(), nullptr, 10); }
static long long i64(const std::string &s) { return strtoll(s.c_str(), nullptr, 10); }

template <size_t S>
struct Elem
{
  unsigned char b[S];
  static Elem enc(long v) { Elem e; for (size_t i = 0; i < S; ++i) e.b[i] = (unsigned char)(v * (long)(i + 1) + (long)i * 3); return e; }
  long dec() const { long v = b[0]; for (size_t i = 0; i < S; ++i) if (b[i] != (unsigned char)(v * (long)(i + 1) + (long)i * 3)) return -1; return v; }
  bool operator==(const Elem &o) const { return memcmp(b, o.b, S) == 0; }
};

// ---- element types that are NOT trivially copyable (all of them standard-layout): an allocator whose
// construct()/destroy() do anything other than copy-construct / destroy in place breaks them
struct SElem   // std::string, short (in-object buffer) for v < 128 and long (heap buffer) otherwise
{
  std::string s;
  static SElem enc(long v)
  {
    SElem e;
    e.s = std::string(v < 128 ? 1 + v % 10 : 40 + v % 17, (char)('a' + v % 26)) + "#" + std::to_string(v);
    return e;
  }
  long dec() const
  {
    size_t h = s.rfind('#');
    if (h == std::string::npos) return -1;
    long v = strtol(s.c_str() + h + 1, nullptr, 10);
    return enc(v).s == s ? v : -1;
  }
  bool operator==(const SElem &o) const { return s == o.s; }
};
struct VElem   // std::vector<int>
{
  std::vector<int> d;
  static VElem enc(long v) { VElem e; for (long i = 0; i < 1 + v % 5; ++i) e.d.push_back((int)(v * (i + 1))); return e; }
  long dec() const { if (d.empty()) return -1; long v = d[0]; return enc(v).d == d ? v : -1; }
  bool operator==(const VElem &o) const { return d == o.d; }
};
// lifetime-instrumented element: registry of live object addresses, a pointer to itself that the copy
// constructor must set; every object must be constructed exactly once and destroyed exactly once
struct Inst
{
  long val;
  const Inst *self;
  static std::set<const Inst *> &live() { static std::set<const Inst *> l; return l; }
  static long &constructed() { static long c = 0; return c; }
  static long &destroyed() { static long d = 0; return d; }
  static std::vector<std::string> &errors() { static std::vector<std::string> e; return e; }
  static void err(const char *w) { if (errors().size() < 4) errors().push_back(std::string("!LIFETIME(") + w + ")"); }
  void born() { if (!live().insert(this).second) err("constructed twice at one address"); ++constructed(); }
  bool ok() const { return live().count(this) && self == this; }
  explicit Inst(long v) : val(v), self(this) { born(); }
  Inst(long n, long x) : val(1000 + n * 26 + x), self(this) { born(); }     // direct-initialisation from two arguments
  Inst(const Inst &o) : val(o.val), self(this) { if (!o.ok()) err("copy from an object that was never constructed"); born(); }
  Inst &operator=(const Inst &o)
  {
    if (!ok()) err("assignment to an object that was never constructed");
    if (!o.ok()) err("assignment from an object that was never constructed");
    val = o.val;
    return *this;
  }
  ~Inst()
  {
    if (self != this) err("self pointer not fixed by copy construction");
    if (!live().erase(this)) err("destroyed an object that was never constructed / destroyed twice");
    ++destroyed();
  }
  static Inst enc(long v) { return Inst(v); }
  long dec() const { return ok() ? val : -1; }
  bool operator==(const Inst &o) const { return val == o.val; }
};

// an element type with an initializer_list constructor that accepts the type itself: Node{n} is NOT a copy of n but a
// node with the one child n.  A copy must preserve the depth.
struct Node
{
  std::vector<Node> kids;
  int v;
  Node(int x) : v(x) {}
  Node(std::initializer_list<Node> l) : kids(l), v(-7) {}
  static Node wrap(const Node &n) { Node w(-7); w.kids.push_back(n); return w; }
  static Node enc(long x) { Node n((int)x); for (long d = 0; d < x % 3; ++d) n = wrap(n); return n; }
  long dec() const
  {
    long depth = 0; const Node *n = this;
    while (n->v == -7 && n->kids.size() == 1) { n = &n->kids[0]; ++depth; }
    return (n->kids.empty() && n->v >= 0 && n->v % 3 == depth) ? n->v : -1;
  }
  bool operator==(const Node &o) const { return v == o.v && kids == o.kids; }
};

// ---- element traits: value <-> element, equality, and the emplace operations (construction from constructor ARGUMENTS:
// direct-initialisation T(args...), which is what std::allocator_traits does for an allocator without a matching construct)
template <typename T>
struct Tr          // element types defined in this file: enc/dec/== are members; emplace with the one argument enc(x)
{
  static T enc(long v) { return T::enc(v); }
  static long dec(const T &e) { return e.dec(); }
  static bool eq(const T &a, const T &b) { return a == b; }
  template <typename V> static void eb(V &v, long, long x) { v.emplace_back(T::enc(x)); }
  template <typename V> static void em(V &v, size_t pos, long, long x) { v.emplace(v.begin() + pos, T::enc(x)); }
};
template <>
struct Tr<Inst>    // two-argument constructor
{
  static Inst enc(long v) { return Inst(v); }
  static long dec(const Inst &e) { return e.dec(); }
  static bool eq(const Inst &a, const Inst &b) { return a == b; }
  template <typename V> static void eb(V &v, long n, long x) { v.emplace_back(n, x); }
  template <typename V> static void em(V &v, size_t pos, long n, long x) { v.emplace(v.begin() + pos, n, x); }
};
template <>
struct Tr<std::string>      // the element type IS std::string; emplace with (count, char)
{
  static std::string enc(long v) { return SElem::enc(v).s; }
  static long dec(const std::string &s)
  {
    if (s.find('#') != std::string::npos) { SElem e; e.s = s; return e.dec(); }
    if (s.empty()) return -1;
    for (char c : s) if (c != s[0] || c < 'a' || c > 'z') return -1;
    return 1000 + (long)s.size() * 26 + (s[0] - 'a');
  }
  static bool eq(const std::string &a, const std::string &b) { return a == b; }
  template <typename V> static void eb(V &v, long n, long x) { v.emplace_back((size_t)n, (char)('a' + x)); }
  template <typename V> static void em(V &v, size_t pos, long n, long x) { v.emplace(v.begin() + pos, (size_t)n, (char)('a' + x)); }
};
template <>
struct Tr<std::vector<int> >   // the element type IS std::vector<int>; emplace with (count, value)
{
  static std::vector<int> enc(long v) { return VElem::enc(v).d; }
  static long dec(const std::vector<int> &d)
  {
    if (d.size() >= 2 && d[0] == d[1]) {
      for (int e : d) if (e != d[0]) return -1;
      return 1000 + (long)d.size() * 26 + d[0];
    }
    VElem e; e.d = d; return e.dec();
  }
  static bool eq(const std::vector<int> &a, const std::vector<int> &b) { return a == b; }
  template <typename V> static void eb(V &v, long n, long x) { v.emplace_back((size_t)n, (int)x); }
  template <typename V> static void em(V &v, size_t pos, long n, long x) { v.emplace(v.begin() + pos, (size_t)n, (int)x); }
};
#ifndef C14_FALLBACK
typedef std::vector<rkcommon::utility::Any> AnyVec;
template <>
struct Tr<AnyVec>             // std::vector<Any>: Any is constructible from anything, also from a std::vector<Any>
{
  static AnyVec enc(long v) { AnyVec a; for (long i = 0; i < 1 + v % 3; ++i) a.push_back(rkcommon::utility::Any((int)(v * (i + 1)))); return a; }
  static long dec(const AnyVec &a)
  {
    if (a.empty() || !a[0].valid() || !a[0].is<int>()) return -1;
    long v = a[0].get<int>();
    if (a.size() != (size_t)(1 + v % 3)) return -1;
    for (size_t i = 0; i < a.size(); ++i) if (!a[i].is<int>() || a[i].get<int>() != (int)(v * (long)(i + 1))) return -1;
    return v;
  }
  static bool eq(const AnyVec &a, const AnyVec &b)
  {
    if (a.size() != b.size()) return false;
    for (size_t i = 0; i < a.size(); ++i) {
      if (a[i].is<int>() != b[i].is<int>()) return false;
      if (a[i].is<int>() && a[i].get<int>() != b[i].get<int>()) return false;
      if (!a[i].is<int>()) return false;
    }
    return true;
  }
  template <typename V> static void eb(V &v, long, long x) { v.emplace_back(enc(x)); }
  template <typename V> static void em(V &v, size_t pos, long, long x) { v.emplace(v.begin() + pos, enc(x)); }
};

#endif

// C14_FALLBACK: a reduced build (no case A: rarely used allocator members; no case T: typed overload; no std::vector<Any>)
// that props/C14/check.py falls back to when the full harness does not compile against the tree, so that the core cases
// (M G I P S H V W) still run and are judged by the property oracle.
#ifndef C14_FALLBACK
// ------------------------------------------------------------------ T: the typed overload alignedMalloc<T>(n, align)
template <typename T>
static std::string runT(uint64_t n, uint64_t align, const std::string &ans)
{
  std::ostringstream o;
#ifdef C14_SPY
  spy_reset(-1); spy_scripted = true; spy_calls = 0;
  spy_answer = ans == "none" ? nullptr : (void *)(uintptr_t)u64(ans);
  T *p = rkcommon::memory::alignedMalloc<T>((size_t)n, (size_t)align);
  if (!p) o << "null"; else o << "ptr=" << (uint64_t)(uintptr_t)p;
  if (spy_calls) o << " req=" << spy_req_size << "," << spy_req_align;
  if (spy_calls != 1) o << " !CALLS=" << spy_calls;
  spy_scripted = false;
#else
  (void)ans;
  T *p = rkcommon::memory::alignedMalloc<T>((size_t)n, (size_t)align);
  if (!p) o << "null";
  else {
    o << (((uintptr_t)p % (uintptr_t)align) == 0 ? "ptr=ok" : "ptr=MIS");
    if (n <= (1ull << 24) / sizeof(T)) {        // usable for the full extent n*sizeof(T)
      unsigned char *b = (unsigned char *)p;
      for (size_t k = 0; k < (size_t)n * sizeof(T); ++k) b[k] = (unsigned char)(k * 7 + 3);
      for (size_t k = 0; k < (size_t)n * sizeof(T); ++k) if (b[k] != (unsigned char)(k * 7 + 3)) { o << " !PATTERN"; break; }
    }
    rkcommon::memory::alignedFree(p);
  }
#endif
  return o.str();
}
static std::string dispatchT(const std::string &tag, uint64_t n, uint64_t align, const std::string &ans)
{
  if (tag == "1") return runT<unsigned char>(n, align, ans);
  if (tag == "4") return runT<int>(n, align, ans);
  if (tag == "8") return runT<double>(n, align, ans);
  if (tag == "12") return runT<Elem<12> >(n, align, ans);
  if (tag == "72") return runT<Elem<72> >(n, align, ans);
  return "bad-type";
}

// ------------------------------------------------------------------ A: the remaining members of aligned_allocator
static std::string runA()
{
  std::ostringstream o;
  spy_reset(-1);
  aligned_allocator<int> a;
  aligned_allocator<double> d;
  aligned_allocator<int> conv(d);            // converting constructor
  aligned_allocator<int> copy(a);
  int x = 1; const int cx = 2;
  o << "addr=" << (a.address(x) == &x && a.address(cx) == &cx && conv.address(x) == &x);
  o << " eq=" << (a == copy) << " ne=" << (a != copy);
  o << " rebind=" << std::is_same<aligned_allocator<int>::rebind<double>::other, aligned_allocator<double> >::value;
  o << " max=" << (a.max_size() == (size_t)-1 / sizeof(int) && d.max_size() == (size_t)-1 / sizeof(double));
  try {
    int *p = a.allocate(3, (const double *)nullptr);     // allocate with a hint
    o << " hint=" << (p && (uintptr_t)p % 64 == 0 ? "ok" : "BAD");
    if (p) { p[0] = 1; p[2] = 3; }
    copy.deallocate(p, 3);                                // storage allocated from one can be released by an equal one
  } catch (...) { o << " hint=throw"; }
  try { a.allocate(a.max_size() + 1, (const double *)nullptr); o << " hint_len=none"; }
  catch (const std::length_error &) { o << " hint_len=length_error"; }
  catch (...) { o << " hint_len=other"; }
  // allocators of another element type / another alignment compare equal after conversion; storage obtained from one is
  // released through the other (deallocate forwards the pointer only)
  {
    aligned_allocator<int, 4096> big;
    aligned_allocator<double, 64> viaD(big);            // other T and other alignment
    aligned_allocator<int, 64> viaI(big);
    aligned_allocator<int, 4096> back(viaD);
    o << " xeq=" << (back == big && !(back != big) && viaI == aligned_allocator<int, 64>(viaD));
    try {
      int *q = big.allocate(5);
      bool ok = q && (uintptr_t)q % 4096 == 0;
      if (q) { q[0] = 1; q[4] = 5; }
      viaD.deallocate((double *)q, 0);
      o << " xfree=" << (ok ? "ok" : "BAD");
    } catch (...) { o << " xfree=throw"; }
  }
  int *sb = STACK_BUFFER(int, 8);
  sb[0] = 5; sb[7] = 6;
  o << " stack=" << (sb != nullptr && sb[0] + sb[7] == 11);
#ifdef C14_SPY
  if (!spy_live.empty()) o << " !LEAK(" << spy_live.size() << ")";
  for (auto &e : spy_errors) o << " " << e;
#endif
  return o.str();
}

#else
static std::string runA() { return "unsupported-in-fallback-build"; }
static std::string dispatchT(const std::string &, uint64_t, uint64_t, const std::string &) { return "unsupported-in-fallback-build"; }
#endif

// ------------------------------------------------------------------ G: allocate()
template <size_t S, int A>
static std::string runG(uint64_t n, const std::string &ans)
{
  typedef Elem<S> T;
  aligned_allocator<T, A> al;
  std::ostringstream o;
#ifdef C14_SPY
  spy_reset(-1); spy_scripted = true; spy_calls = 0;
  spy_answer = ans == "none" ? nullptr : (void *)(uintptr_t)u64(ans);
  std::string req;
  try {
    T *p = al.allocate((size_t)n);
    if (spy_calls) req = " req=" + std::to_string(spy_req_size) + "," + std::to_string(spy_req_align);
    if (!p) o << "null"; else o << "ptr=" << (uint64_t)(uintptr_t)p << req;
  } catch (const std::length_error &) { o << "length_error"; if (spy_calls) o << " !BACKEND-CALLED"; }
  catch (const std::bad_alloc &) { o << "bad_alloc req=" << spy_req_size << "," << spy_req_align; }
  if (spy_calls > 1) o << " !CALLS=" << spy_calls;
  spy_scripted = false;
#else
  (void)ans;
  try {
    T *p = al.allocate((size_t)n);
    if (!p) o << "null";
    else {
      o << (((uintptr_t)p % (uintptr_t)A) == 0 ? "ptr=ok" : "ptr=MIS");
      // usable for the full extent n*sizeof(T) (ASan sees a short block)
      if (n <= (1ull << 24) / S) memset((void *)p, 0xA5, (size_t)n * S);
      al.deallocate(p, (size_t)n);
    }
  } catch (const std::length_error &) { o << "length_error"; }
  catch (const std::bad_alloc &) { o << "bad_alloc"; }
#endif
  return o.str();
}

template <size_t S>
static std::string runGA(int A, uint64_t n, const std::string &ans)
{
  switch (A) {
  case 64: return runG<S, 64>(n, ans);
  case 16: return runG<S, 16>(n, ans);
  case 1: return runG<S, 1>(n, ans);
  case 4096: return runG<S, 4096>(n, ans);
  default: return "bad-A";
  }
}

#define SIZES_G(X) X(1) X(2) X(3) X(4) X(8) X(12) X(16) X(24) X(64) X(72) X(4096) X(65536) X(2147483647)
#define SIZES_V(X) X(1) X(4) X(12) X(64) X(72)

static std::string dispatchG(uint64_t S, int A, uint64_t n, const std::string &ans)
{
#define X(s) if (S == s##ull) return runGA<s##ull>(A, n, ans);
  SIZES_G(X)
#undef X
  return "bad-sizeT";
}

template <size_t S>
static std::string maxS()
{
  return "max=" + std::to_string(aligned_allocator<Elem<S>>().max_size());
}
static std::string dispatchM(uint64_t S)
{
#define X(s) if (S == s##ull) return maxS<s##ull>();
  SIZES_G(X)
#undef X
  return "bad-sizeT";
}

// ------------------------------------------------------------------ S: the assert
static std::string runS(uint64_t align)
{
#ifdef C14_SPY
  spy_reset(-1); spy_scripted = true; spy_answer = nullptr;
#endif
  fflush(stdout);
  pid_t pid = fork();
  if (pid == 0) {
    int fd = open("/dev/null", 1); if (fd >= 0) dup2(fd, 2);
    void *p = rkcommon::memory::alignedMalloc(16, (size_t)align);
    (void)p;
    _exit(0);
  }
  int st = 0; waitpid(pid, &st, 0);
  if (WIFEXITED(st) && WEXITSTATUS(st) == 0) return "ok";
  if (WIFSIGNALED(st) && WTERMSIG(st) == SIGABRT) return "abort";
  return "child-status=" + std::to_string(st);
}

// ------------------------------------------------------------------ H: malloc/free
static unsigned char pat(long j, uint64_t o) { return (unsigned char)((j * 131 + (long)o * 7 + 1) % 251); }

static std::string runH(long fail, const std::vector<std::string> &ops)
{
  struct Blk { unsigned char *p; uint64_t size; bool live; };
  std::vector<Blk> blks;
  std::ostringstream out;
  spy_reset(fail);
  auto verify_all = [&]() {
    std::string f;
    for (size_t j = 0; j < blks.size(); ++j)
      if (blks[j].live && blks[j].p)
        for (uint64_t o = 0; o < blks[j].size; ++o)
          if (blks[j].p[o] != pat((long)j, o)) { f += " !PATTERN(block " + std::to_string(j) + " offset " + std::to_string(o) + ")"; break; }
    return f;
  };
  for (auto &tok : ops) {
    auto f = split(tok, ':');
    if (f[0] == "m") {
      uint64_t size = u64(f[1]), align = u64(f[2]);
      unsigned char *p = (unsigned char *)rkcommon::memory::alignedMalloc((size_t)size, (size_t)align);
      long j = (long)blks.size();
      blks.push_back(Blk{p, size, p != nullptr});
      if (!p) out << "null";
      else {
        out << "p=" << addr(p);
        if (align && (uintptr_t)p % align != 0) out << " !MISALIGNED";
        if (!rkcommon::memory::isAligned(p, (int)align) && align && (uintptr_t)p % align == 0) out << " !ISALIGNED";
        for (uint64_t o = 0; o < size; ++o) p[o] = pat(j, o);
      }
    } else if (f[0] == "f") {
      size_t j = (size_t)u64(f[1]);
      out << "ok" << verify_all();
      if (j < blks.size()) { rkcommon::memory::alignedFree(blks[j].p); blks[j].live = false; }
      else rkcommon::memory::alignedFree(nullptr);
    } else out << "badop";
    out << " ; ";
  }
  out << "live=[";
  std::string fl = verify_all();
#ifdef C14_SPY
  bool first = true;
  for (auto &kv : spy_live) {
    unsigned char *p = arena + (kv.first - MODEL_BASE);
    out << (first ? "" : " ") << kv.first << ":" << kv.second << ":";
    if (kv.second) out << (int)p[0] << ":" << (int)p[kv.second - 1]; else out << "-:-";
    first = false;
  }
  out << "]";
  for (auto &e : spy_errors) out << " " << e;
#else
  bool first = true;
  for (auto &b : blks) if (b.live) {
    out << (first ? "" : " ") << addr(b.p) << ":" << b.size << ":";
    if (b.size) out << (int)b.p[0] << ":" << (int)b.p[b.size - 1]; else out << "-:-";
    first = false;
  }
  out << "]";
#endif
  out << fl;
  for (auto &b : blks) if (b.live) rkcommon::memory::alignedFree(b.p);
  return out.str();
}

// ------------------------------------------------------------------ V: AlignedVector
template <typename T>
static std::string runVT(long fail, const std::vector<std::string> &ops)
{
  std::ostringstream out;
  spy_reset(fail);
  {
    AlignedVector<T> va, vb;
    std::vector<T> ta, tb;
    bool firststep = true;
    for (auto &tok : ops) {
      auto f = split(tok, ':');
      bool onb = f.size() > 1 && f[1] == "b";
      AlignedVector<T> &v = onb ? vb : va;
      std::vector<T> &t = onb ? tb : ta;
      std::string res = "ok";
      try {
        if (f[0] == "pb") { v.push_back(Tr<T>::enc(i64(f[2]))); t.push_back(Tr<T>::enc(i64(f[2]))); }
        else if (f[0] == "eb") { Tr<T>::eb(v, i64(f[2]), i64(f[3])); Tr<T>::eb(t, i64(f[2]), i64(f[3])); }
        else if (f[0] == "em") { size_t pos = (size_t)u64(f[2]) % (v.size() + 1); Tr<T>::em(v, pos, i64(f[3]), i64(f[4])); Tr<T>::em(t, pos, i64(f[3]), i64(f[4])); }
        else if (f[0] == "rs") { v.resize((size_t)u64(f[2]), Tr<T>::enc(i64(f[3]))); t.resize((size_t)u64(f[2]), Tr<T>::enc(i64(f[3]))); }
        else if (f[0] == "rv") { v.reserve((size_t)u64(f[2])); }
        else if (f[0] == "sh") { v.shrink_to_fit(); }
        else if (f[0] == "as") { v.assign((size_t)u64(f[2]), Tr<T>::enc(i64(f[3]))); t.assign((size_t)u64(f[2]), Tr<T>::enc(i64(f[3]))); }
        else if (f[0] == "cl") { v.clear(); t.clear(); }
        else if (f[0] == "sw") { va.swap(vb); ta.swap(tb); }
        else res = "badop";
      } catch (const std::length_error &) { res = "length_error"; }
      catch (const std::bad_alloc &) { res = "bad_alloc"; }
      out << (firststep ? "" : " ; ") << res;
      firststep = false;
      for (int w = 0; w < 2; ++w) {
        AlignedVector<T> &x = w ? vb : va;
        std::vector<T> &y = w ? tb : ta;
        out << "|" << (w ? "b=" : "a=") << addr(x.data()) << "," << x.size() << "," << x.capacity() << ",[";
        for (size_t i = 0; i < x.size(); ++i) out << (i ? " " : "") << Tr<T>::dec(x[i]);
        out << "]";
        // the property, evaluated on the implementation's own state
        if (x.capacity() != 0 && (uintptr_t)x.data() % 64 != 0) out << "!MISALIGNED";
        if (x.capacity() != 0 && !rkcommon::memory::isAligned(x.data())) out << "!ISALIGNED";
        if (x.capacity() == 0 && x.data() != nullptr) out << "!NONNULL-EMPTY";
        bool same = x.size() == y.size();
        for (size_t i = 0; same && i < x.size(); ++i) same = Tr<T>::eq(x[i], y[i]);
        if (!same) out << "!TWIN";
      }
#ifdef C14_SPY
      out << "|live=[";
      bool first = true;
      for (auto &kv : spy_live) { out << (first ? "" : " ") << kv.first << ":" << kv.second; first = false; }
      out << "]";
      for (auto &e : spy_errors) out << e;
#endif
      for (auto &e : Inst::errors()) out << e;
      Inst::errors().clear();
    }
  }
#ifdef C14_SPY
  if (!spy_live.empty()) out << " !LEAK(" << spy_live.size() << ")";
#endif
  // element lifetimes (instrumented element type only): everything constructed has been destroyed, once
  for (auto &e : Inst::errors()) out << " " << e;
  Inst::errors().clear();
  if (!Inst::live().empty() || Inst::constructed() != Inst::destroyed())
    out << " !LIFETIME(constructed " << Inst::constructed() << " destroyed " << Inst::destroyed() << " still live " << Inst::live().size() << ")";
  Inst::live().clear(); Inst::constructed() = 0; Inst::destroyed() = 0;
  return out.str();
}
template <size_t S>
static std::string runV(long fail, const std::vector<std::string> &ops) { return runVT<Elem<S> >(fail, ops); }
// W: AlignedVector of a non-trivially-copyable element type
static std::string dispatchW(const std::string &tag, long fail, const std::vector<std::string> &ops)
{
  std::string pre;
  if (tag == "s") { if (sizeof(SElem) != 32) pre = "!SIZEOF "; return pre + runVT<SElem>(fail, ops); }
  if (tag == "v") { if (sizeof(VElem) != 24) pre = "!SIZEOF "; return pre + runVT<VElem>(fail, ops); }
  if (tag == "i") { if (sizeof(Inst) != 16) pre = "!SIZEOF "; return pre + runVT<Inst>(fail, ops); }
  if (tag == "n") { if (sizeof(Node) != 32) pre = "!SIZEOF "; return pre + runVT<Node>(fail, ops); }
  if (tag == "S") { if (sizeof(std::string) != 32) pre = "!SIZEOF "; return pre + runVT<std::string>(fail, ops); }
  if (tag == "I") { if (sizeof(std::vector<int>) != 24) pre = "!SIZEOF "; return pre + runVT<std::vector<int> >(fail, ops); }
#ifndef C14_FALLBACK
  if (tag == "y") { if (sizeof(AnyVec) != 24) pre = "!SIZEOF "; return pre + runVT<AnyVec>(fail, ops); }
#else
  if (tag == "y") return "unsupported-in-fallback-build";
#endif
  return "bad-type";
}

static std::string dispatchV(uint64_t S, long fail, const std::vector<std::string> &ops)
{
#define X(s) if (S == s##ull) return runV<s##ull>(fail, ops);
  SIZES_V(X)
#undef X
  return "bad-sizeT";
}

int main()
{
  std::string line;
  while (std::getline(std::cin, line)) {
    auto t = split(line, ' ');
    std::string res = "badcase";
    if (t.size() == 2 && t[0] == "M") res = dispatchM(u64(t[1]));
    else if (t.size() == 5 && t[0] == "G") res = dispatchG(u64(t[1]), (int)i64(t[2]), u64(t[3]), t[4]);
    else if (t.size() == 3 && t[0] == "I") {
      long long a = i64(t[2]);
      if ((int)a == 0) res = "undef";
      else res = rkcommon::memory::isAligned((void *)(uintptr_t)u64(t[1]), (int)a) ? "true" : "false";
    } else if (t.size() == 3 && t[0] == "P") {
      uint64_t p = u64(t[1]);
      if (t[2][0] == '-') {      // a negative int alignment operand
        int a = (int)i64(t[2]);
        res = std::to_string((uint64_t)(ALIGN_PTR(p, a)));
      } else {
        size_t a = (size_t)u64(t[2]);
        uint64_t r1 = (uint64_t)(ALIGN_PTR(p, a));
        res = std::to_string(r1);
        if (a < (1ull << 31)) {  // same operand as an int and with a real pointer type
          int ai = (int)a;
          uint64_t r2 = (uint64_t)(ALIGN_PTR(p, ai));
          uint64_t r3 = (uint64_t)(ALIGN_PTR((char *)(uintptr_t)p, a));
          if (r2 != r1 || r3 != r1) res += " !OPERAND-TYPE";
        }
      }
    } else if (t.size() == 2 && t[0] == "S") res = runS(u64(t[1]));
    else if (t.size() >= 2 && t[0] == "H") res = runH((long)i64(t[1]), std::vector<std::string>(t.begin() + 2, t.end()));
    else if (t.size() == 1 && t[0] == "A") res = runA();
    else if (t.size() == 5 && t[0] == "T") res = dispatchT(t[1], u64(t[2]), u64(t[3]), t[4]);
    else if (t.size() >= 3 && t[0] == "W") res = dispatchW(t[1], (long)i64(t[2]), std::vector<std::string>(t.begin() + 3, t.end()));
    else if (t.size() >= 3 && t[0] == "V") res = dispatchV(u64(t[1]), (long)i64(t[2]), std::vector<std::string>(t.begin() + 3, t.end()));
    std::cout << res << std::endl;
  }
  return 0;
}
