// C11 harness: runs wrapper histories / DataView reads on the real rkcommon array wrappers.
// usage: harness u8|i32|s24     (element type of the H cases; D cases pick the type from <sz>)
// Input / output: exactly the canonical form documented in ocaml/C11/driver.ml.
//
// The harness decides the *preconditions* (is the slot free, do the kinds match, is the source
// alive, off+n inside the source) the same way the model's `step` does and prints "skip" for an
// operation whose precondition fails.  Everything observable is then read from the real objects:
// size(), data()==nullptr, every element by iteration, operator[], at(), begin/end/cbegin/cend.
// A non-owning ArrayView whose source container has been destroyed/replaced is legitimately
// dangling; it is recognised by (source, generation) bookkeeping and printed as [stale] without
// touching the memory.  An ArrayView aimed at a WRAPPER's storage (pw / rw operations) is recognised as
// dangling by asking ASan whether its range is poisoned (freed, or beyond the vector's size: the harness is
// built with _GLIBCXX_SANITIZE_VECTOR).  All other reads go to memory, so under ASan a dangling base pointer
// of an owning wrapper aborts.
#include <array>
#include <cstdint>
#include <cstring>
#include <iostream>
#include <memory>
#include <sstream>
#include <stdexcept>
#include <string>
#include <type_traits>
#include <vector>
#include <sanitizer/asan_interface.h>
#include "rkcommon/utility/AbstractArray.h"
#include "rkcommon/utility/ArrayView.h"
#include "rkcommon/utility/DataView.h"
#include "rkcommon/utility/FixedArray.h"
#include "rkcommon/utility/FixedArrayView.h"
#include "rkcommon/utility/OwnedArray.h"

using namespace rkcommon::utility;

#ifndef C11_FALLBACK
// FixedArray<T>::View is the byte view whatever T is (used by networking/DataStreaming with T = uint8_t)
static_assert(std::is_same<FixedArray<uint8_t>::View, FixedArrayView<uint8_t>>::value &&
                  std::is_same<FixedArray<int>::View, FixedArrayView<uint8_t>>::value,
              "FixedArray<T>::View");
static_assert(std::has_virtual_destructor<AbstractArray<int>>::value && std::has_virtual_destructor<OwnedArray<int>>::value &&
                  std::has_virtual_destructor<FixedArray<int>>::value && std::has_virtual_destructor<FixedArrayView<int>>::value &&
                  std::has_virtual_destructor<ArrayView<int>>::value,
              "wrappers are destroyed through AbstractArray<T>*");
#endif

struct E24
{
  int64_t a, b, c;
};
static_assert(sizeof(E24) == 24, "24-byte element");

template <typename T>
struct Codec
{
  static T enc(long v) { return (T)v; }
  static long dec(const T &t) { return (long)t; }
};
template <>
struct Codec<E24>
{
  static E24 enc(long v) { E24 e; e.a = v; e.b = 3 * v + 1; e.c = ~(int64_t)v; return e; }
  static long dec(const E24 &e) { return (e.b == 3 * e.a + 1 && e.c == ~e.a) ? (long)e.a : -1; }
};

// ------------------------------------------------------------------ an instrumented, NON-trivially-copyable element type
// Every live Trk is registered by address, knows its own address and owns a heap cell holding its value (deep copy).
// A bitwise duplicate (memcpy of the object representation) is recognised: its `self` is the source's address; it shares
// the heap cell with the source, so destroying both is a double free under ASan.  ownbad: some element was observed /
// assigned / destroyed that is not a properly constructed live object.
#include <set>
#include <unistd.h>
static std::set<const void *> &trkLive() { static std::set<const void *> s; return s; }
static bool ownbad = false;
static long trkCopies = 0;
struct Trk
{
  const Trk *self;
  long *cell;
  Trk() : self(this), cell(new long(0)) { trkLive().insert(this); }
  explicit Trk(long v) : self(this), cell(new long(v)) { trkLive().insert(this); }
  Trk(const Trk &o) : self(this), cell(new long(o.ok() ? *o.cell : -1)) { ++trkCopies; trkLive().insert(this); if (!o.ok()) ownbad = true; }
  Trk &operator=(const Trk &o)
  {
    ++trkCopies;
    if (!ok() || !o.ok()) { ownbad = true; return *this; }
    *cell = *o.cell;
    return *this;
  }
  ~Trk()
  {
    if (!ok()) { ownbad = true; return; }      // not ours to release: do not free somebody else's cell
    trkLive().erase(this);
    delete cell;
  }
  bool ok() const { return self == this && trkLive().count(this) != 0; }
};
template <>
struct Codec<Trk>
{
  static Trk enc(long v) { return Trk(v); }
  static long dec(const Trk &t) { if (!t.ok()) { ownbad = true; return -1; } return *t.cell; }
};

static std::vector<std::string> split(const std::string &s, char d)
{
  std::vector<std::string> r;
  std::string t;
  std::istringstream is(s);
  while (std::getline(is, t, d)) r.push_back(t);
  return r;
}
static std::vector<long> listOf(const std::string &s)
{
  std::vector<long> r;
  if (s == "-") return r;
  for (auto &t : split(s, ',')) r.push_back(std::stol(t));
  return r;
}

// ------------------------------------------------------------------ source containers
const int MAXARR = 6;
template <typename T>
struct Src
{
  int tag{-1};  // -1 none, 0 std::vector, 1+N std::array<T,N>
  std::vector<T> *vec{nullptr};
  void *arr{nullptr};
  int gen{0};
  bool alive() const { return tag >= 0; }
  template <size_t N> std::array<T, N> &as() { return *static_cast<std::array<T, N> *>(arr); }
  size_t size()
  {
    return tag == 0 ? vec->size() : (size_t)(tag - 1);
  }
  T *data()
  {
    switch (tag) {
    case 0: return vec->data();
    case 1: return as<0>().data();
    case 2: return as<1>().data();
    case 3: return as<2>().data();
    case 4: return as<3>().data();
    case 5: return as<4>().data();
    case 6: return as<5>().data();
    case 7: return as<6>().data();
    }
    return nullptr;
  }
  void kill()
  {
    switch (tag) {
    case 0: delete vec; break;
    case 1: delete &as<0>(); break;
    case 2: delete &as<1>(); break;
    case 3: delete &as<2>(); break;
    case 4: delete &as<3>(); break;
    case 5: delete &as<4>(); break;
    case 6: delete &as<5>(); break;
    case 7: delete &as<6>(); break;
    }
    tag = -1; vec = nullptr; arr = nullptr; ++gen;
  }
  template <size_t N> void mkArr(const std::vector<long> &c)
  {
    auto *a = new std::array<T, N>();
    for (size_t i = 0; i < N; ++i) (*a)[i] = Codec<T>::enc(c[i]);
    arr = a; tag = 1 + (int)N;
  }
  void set(bool asArray, const std::vector<long> &c)
  {
    if (alive()) kill(); else ++gen;
    if (asArray && c.size() <= (size_t)MAXARR) {
      switch (c.size()) {
      case 0: mkArr<0>(c); break;
      case 1: mkArr<1>(c); break;
      case 2: mkArr<2>(c); break;
      case 3: mkArr<3>(c); break;
      case 4: mkArr<4>(c); break;
      case 5: mkArr<5>(c); break;
      case 6: mkArr<6>(c); break;
      }
    } else {
      vec = new std::vector<T>();
      for (long v : c) vec->push_back(Codec<T>::enc(v));
      vec->shrink_to_fit();
      tag = 0;
    }
  }
};

// apply a functor to the source container with its static type (std::vector<T>& or std::array<T,N>&)
template <typename T, typename F>
static auto applySrc(Src<T> &s, F f) -> decltype(f(*s.vec))
{
  switch (s.tag) {
  case 1: return f(s.template as<0>());
  case 2: return f(s.template as<1>());
  case 3: return f(s.template as<2>());
  case 4: return f(s.template as<3>());
  case 5: return f(s.template as<4>());
  case 6: return f(s.template as<5>());
  case 7: return f(s.template as<6>());
  default: return f(*s.vec);
  }
}
template <typename W>
struct NewFrom
{
  template <typename C> W *operator()(C &c) { return new W(c); }
};
template <typename W>
struct SharedFrom
{
  template <typename C> std::shared_ptr<W> operator()(C &c) { return std::make_shared<W>(c); }
};
static bool retbad = false;   // some operator= did not return *this
template <typename W>
struct AssignFrom
{
  W &w;
  template <typename C> void operator()(C &c) { if (&(w = c) != &w) retbad = true; }
};

// ------------------------------------------------------------------ wrapper slots
template <typename T>
struct Slot
{
  char kind{0};  // 0 empty, 'V' 'O' 'F' 'W'
  ArrayView<T> *v{nullptr};
  OwnedArray<T> *o{nullptr};
  std::shared_ptr<FixedArray<T>> f;
  FixedArrayView<T> *w{nullptr};
  long voff{0};         // V aimed at a source container: element offset of data() inside it
  int vk{-1}, vgen{0};  // V: which source (and which generation of it) the view was aimed at; -2: a wrapper's storage
  AbstractArray<T> *base()
  {
    switch (kind) {
    case 'V': return v;
    case 'O': return o;
    case 'F': return f.get();
    case 'W': return w;
    }
    return nullptr;
  }
  void destroy()
  {
    // destruction goes through AbstractArray's VIRTUAL destructor (a non-virtual one is a new-delete-type-mismatch
    // under ASan, and would leak the owned storage); a FixedArray lives in its shared_ptr control block
    AbstractArray<T> *b = base();
    switch (kind) {
    case 'V': case 'O': case 'W': delete b; break;
    case 'F': f.reset(); break;
    }
    kind = 0; v = nullptr; o = nullptr; w = nullptr; vk = -1;
  }
};

const int NSLOT = 4, NSRC = 3;

template <typename T>
struct Machine
{
  Slot<T> sl[NSLOT];
  Src<T> src[NSRC];

  bool stale(Slot<T> &s)
  {
    if (s.kind != 'V' || s.v->size() == 0) return false;
    if (s.vk >= 0) return !src[s.vk].alive() || src[s.vk].gen != s.vgen;
    if (s.vk == -2) return __asan_region_is_poisoned(s.v->data(), s.v->size() * sizeof(T)) != nullptr;
    return false;
  }

  // may element idx of the wrapper in slot s be touched?  (a view over a wrapper's storage can be partly valid: the owner
  // shrank; the model decides per element, so does this)
  bool elemOk(Slot<T> &s, long idx)
  {
    if (idx < 0 || (size_t)idx >= s.base()->size()) return false;
    if (s.kind == 'V' && s.vk == -2) return __asan_region_is_poisoned(s.v->data() + idx, sizeof(T)) == nullptr;
    return !stale(s);
  }

  // everything the property talks about, read from the real object
  std::string show(Slot<T> &s)
  {
    if (!s.kind) return "-";
    AbstractArray<T> &a = *s.base();
    std::ostringstream o;
    size_t n = a.size();
    bool isnull = a.data() == nullptr;
    bool atok = true, itok = true, addrok = true, aliasok = true;
    o << s.kind << n << (isnull ? "z" : "p") << "[";
    auto throws = [&](size_t i) {
      try { a.at(i); } catch (const std::runtime_error &) { return true; }
      return false;
    };
    if (!throws(n) || !throws(n + 1) || !throws((size_t)-1)) atok = false;
    if (bool(a) != (n != 0)) itok = false;
    if (stale(s)) {
      o << "stale";
    } else {
      if (a.begin() != a.data() || a.end() != a.data() + n || a.cbegin() != a.data() || a.cend() != a.data() + n ||
          static_cast<T *>(a) != a.data())
        itok = false;
      size_t cnt = 0;
      for (T *p = a.begin(); p != a.end() && cnt < n + 8; ++p, ++cnt) {
        long v = Codec<T>::dec(*p);
        if (cnt) o << ",";
        if (v < 0) o << "X"; else o << v;
        if (cnt < n && (&a[cnt] != p || Codec<T>::dec(a[cnt]) != v)) itok = false;
      }
      if (cnt != n) itok = false;
      size_t cc = 0;
      for (const T *p = a.cbegin(); p != a.cend() && cc < n + 8; ++p) ++cc;
      if (cc != n) itok = false;
      for (size_t i = 0; i < n; ++i) {
        try { if (&a.at(i) != &a[i] || &a[i] != a.data() + i) addrok = false; } catch (const std::runtime_error &) { atok = false; }
      }
      // a view over a source container designates the container's own cells
      if (s.kind == 'V' && s.vk >= 0 && n > 0 && a.data() != src[s.vk].data() + s.voff) addrok = false;
      if (n > 0) {
        // two references (and the iterators) held at once across further accessor calls, then a write to the
        // underlying cell: what is seen through the held reference follows the source
        T &r0 = a[0];
        T &rl = a.at(n - 1);
        T *pb = a.begin();
        const T *pe = a.cend();
        (void)a.size(); (void)a.data(); (void)a.end(); (void)a[n / 2];
        if (&r0 != a.data() || &rl != a.data() + (n - 1) || pb != a.data() || pe != a.data() + n) addrok = false;
        T *cell = (s.kind == 'V' && s.vk >= 0) ? src[s.vk].data() + s.voff : a.data();
        const T saved0 = cell[0], savedl = cell[n - 1];
        cell[n - 1] = Codec<T>::enc(203);
        if (Codec<T>::dec(rl) != 203 || Codec<T>::dec(*(pb + (n - 1))) != 203) aliasok = false;
        cell[n - 1] = savedl;
        cell[0] = Codec<T>::enc(202);
        if (Codec<T>::dec(r0) != 202 || Codec<T>::dec(*pb) != 202) aliasok = false;
        cell[0] = saved0;
        if (n > 1 && Codec<T>::dec(rl) != Codec<T>::dec(savedl)) aliasok = false;
      }
    }
    o << "]" << (atok ? "" : "!AT") << (itok ? "" : "!IT") << (addrok ? "" : "!ADDR") << (aliasok ? "" : "!ALIAS");
    return o.str();
  }

  std::string dump()
  {
    std::ostringstream o;
    for (int i = 0; i < NSLOT; ++i) o << (i ? " " : "") << show(sl[i]);
    o << "|";
    for (int k = 0; k < NSRC; ++k) {
      o << (k ? " " : "");
      if (!src[k].alive()) { o << "-"; continue; }
      o << "[";
      for (size_t i = 0; i < src[k].size(); ++i) o << (i ? "," : "") << Codec<T>::dec(src[k].data()[i]);
      o << "]";
    }
    return o.str();
  }

  bool freeSlot(long i) { return i >= 0 && i < NSLOT && !sl[i].kind; }
  bool used(long i) { return i >= 0 && i < NSLOT && sl[i].kind; }
  bool liveSrc(long k) { return k >= 0 && k < NSRC && src[k].alive(); }

  // resolve a (data, n) argument: "null" or source k's data()+off
  bool resolve(const std::string &k, long off, long n, T *&p, int &vk)
  {
    if (k == "null") { p = nullptr; vk = -1; return n == 0; }
    long kk = std::stol(k);
    if (!liveSrc(kk) || off < 0 || n < 0 || (size_t)(off + n) > src[kk].size()) return false;
    p = src[kk].data() + off; vk = (int)kk;
    return true;
  }

  // resolve a (data, n) argument taken from wrapper j: w_j.data() + off
  bool resolveWrap(long j, long off, long n, T *&p, int &vk, int &vgen, long &voff)
  {
    voff = 0;
    if (!used(j) || stale(sl[j]) || off < 0 || n < 0 || (size_t)(off + n) > sl[j].base()->size()) return false;
    p = sl[j].base()->data() + off;
    if (sl[j].kind == 'V') { vk = sl[j].vk; vgen = sl[j].vgen; voff = sl[j].voff + off; } else { vk = -2; vgen = 0; }
    return true;
  }

  void copyInto(Slot<T> &d, Slot<T> &s, bool mv)
  {
    d.kind = s.kind;
    switch (s.kind) {
    case 'V': d.v = mv ? new ArrayView<T>(std::move(*s.v)) : new ArrayView<T>(*s.v); d.vk = s.vk; d.vgen = s.vgen; d.voff = s.voff; break;
    case 'O': d.o = mv ? new OwnedArray<T>(std::move(*s.o)) : new OwnedArray<T>(*s.o); break;
    case 'F': d.f = mv ? std::make_shared<FixedArray<T>>(std::move(*s.f)) : std::make_shared<FixedArray<T>>(*s.f); break;
    case 'W': d.w = mv ? new FixedArrayView<T>(std::move(*s.w)) : new FixedArrayView<T>(*s.w); break;
    }
  }
  void assignInto(Slot<T> &d, Slot<T> &s, bool mv)
  {
    switch (s.kind) {
    // operator= returns *this
    case 'V': if (&(mv ? (*d.v = std::move(*s.v)) : (*d.v = *s.v)) != d.v) retbad = true; d.vk = s.vk; d.vgen = s.vgen; d.voff = s.voff; break;
    case 'O': if (&(mv ? (*d.o = std::move(*s.o)) : (*d.o = *s.o)) != d.o) retbad = true; break;
    case 'F': if (&(mv ? (*d.f = std::move(*s.f)) : (*d.f = *s.f)) != d.f.get()) retbad = true; break;
    case 'W': if (&(mv ? (*d.w = std::move(*s.w)) : (*d.w = *s.w)) != d.w) retbad = true; break;
    }
  }

  bool step(const std::string &tok)
  {
    auto f = split(tok, ':');
    const std::string &op = f[0];
    auto L = [&](size_t i) { return std::stol(f[i]); };
    if (op == "sset") {
      long k = L(1);
      if (k < 0 || k >= NSRC) return false;
      src[k].set(f[2] == "a", listOf(f[3]));
      return true;
    }
    if (op == "skill") {
      if (!liveSrc(L(1))) return false;
      src[L(1)].kill();
      return true;
    }
    if (op == "swrite") {
      long k = L(1), i = L(2);
      if (!liveSrc(k) || i < 0 || (size_t)i >= src[k].size()) return false;
      src[k].data()[i] = Codec<T>::enc(L(3));
      return true;
    }
    if (op == "def") {
      long i = L(1);
      if (!freeSlot(i)) return false;
      Slot<T> &s = sl[i];
      s.kind = f[2][0];
      switch (s.kind) {
      case 'V': s.v = new ArrayView<T>(); break;
      case 'O': s.o = new OwnedArray<T>(); break;
      case 'F': s.f = std::make_shared<FixedArray<T>>(); break;
      case 'W': s.w = new FixedArrayView<T>(); break;
      }
      return true;
    }
    if (op == "src") {
      long i = L(1), k = L(3);
      char kd = f[2][0];
      if (!liveSrc(k) || !freeSlot(i) || kd == 'W') return false;
      Slot<T> &s = sl[i];
      s.kind = kd;
      switch (kd) {
      case 'V': s.v = applySrc(src[k], NewFrom<ArrayView<T>>()); s.vk = (int)k; s.vgen = src[k].gen; s.voff = 0; break;
      case 'O': s.o = applySrc(src[k], NewFrom<OwnedArray<T>>()); break;
      case 'F': s.f = applySrc(src[k], SharedFrom<FixedArray<T>>()); break;
      }
      return true;
    }
    if (op == "ptr") {
      long i = L(1);
      char kd = f[2][0];
      T *p; int vk;
      if (!resolve(f[3], L(4), L(5), p, vk) || !freeSlot(i) || kd == 'W') return false;
      size_t n = (size_t)L(5);
      Slot<T> &s = sl[i];
      s.kind = kd;
      switch (kd) {
#ifdef C11_FALLBACK
      case 'V': s.v = new ArrayView<T>(p, n); s.vk = vk; s.vgen = vk >= 0 ? src[vk].gen : 0; s.voff = L(4); break;
#else
      case 'V': s.v = new ArrayView<T>(make_ArrayView(p, n)); s.vk = vk; s.vgen = vk >= 0 ? src[vk].gen : 0; s.voff = L(4); break;   // the namespace-level factory
#endif
      case 'O': s.o = new OwnedArray<T>(p, n); break;
      case 'F': s.f = std::make_shared<FixedArray<T>>(p, n); break;
      }
      return true;
    }
    if (op == "pw") {
      long i = L(1);
      char kd = f[2][0];
      T *p; int vk, vgen; long voff;
      if (!resolveWrap(L(3), L(4), L(5), p, vk, vgen, voff) || !freeSlot(i) || kd == 'W') return false;
      size_t n = (size_t)L(5);
      Slot<T> &s = sl[i];
      s.kind = kd;
      switch (kd) {
      case 'V': s.v = new ArrayView<T>(p, n); s.vk = vk; s.vgen = vgen; s.voff = voff; break;
      case 'O': s.o = new OwnedArray<T>(p, n); break;
      case 'F': s.f = std::make_shared<FixedArray<T>>(p, n); break;
      }
      return true;
    }
    if (op == "rw") {
      long i = L(1);
      T *p; int vk, vgen; long voff;
      if (!resolveWrap(L(2), L(3), L(4), p, vk, vgen, voff) || !used(i)) return false;
      size_t n = (size_t)L(4);
      if (sl[i].kind == 'V') { sl[i].v->reset(p, n); sl[i].vk = vk; sl[i].vgen = vgen; sl[i].voff = voff; return true; }
      if (sl[i].kind == 'O') { sl[i].o->reset(p, n); return true; }
      return false;
    }
    if (op == "fixn") {
      long i = L(1);
      if (!freeSlot(i)) return false;
      auto c = listOf(f[2]);
      Slot<T> &s = sl[i];
      s.kind = 'F';
      s.f = std::make_shared<FixedArray<T>>(c.size());
      for (size_t j = 0; j < c.size(); ++j) (*s.f)[j] = Codec<T>::enc(c[j]);
      return true;
    }
    if (op == "fview") {
      long i = L(1), j = L(2), off = L(3), n = L(4);
      if (!freeSlot(i) || !used(j) || sl[j].kind != 'F' || off < 0 || n < 0 || (size_t)(off + n) > sl[j].f->size()) return false;
      sl[i].kind = 'W';
      sl[i].w = new FixedArrayView<T>(sl[j].f, (size_t)off, (size_t)n);
      return true;
    }
    if (op == "asrc") {
      long i = L(1), k = L(2);
      if (!liveSrc(k) || !used(i) || sl[i].kind == 'W') return false;
      Slot<T> &s = sl[i];
      switch (s.kind) {
      case 'V': applySrc(src[k], AssignFrom<ArrayView<T>>{*s.v}); s.vk = (int)k; s.vgen = src[k].gen; s.voff = 0; break;
      case 'O': applySrc(src[k], AssignFrom<OwnedArray<T>>{*s.o}); break;
      case 'F': applySrc(src[k], AssignFrom<FixedArray<T>>{*s.f}); break;
      }
      return true;
    }
    if (op == "reset") {
      long i = L(1);
      if (!used(i)) return false;
      if (sl[i].kind == 'V') { sl[i].v->reset(); sl[i].vk = -1; return true; }
      if (sl[i].kind == 'O') { sl[i].o->reset(); return true; }
      return false;
    }
    if (op == "rptr") {
      long i = L(1);
      T *p; int vk;
      if (!resolve(f[2], L(3), L(4), p, vk) || !used(i)) return false;
      size_t n = (size_t)L(4);
      if (sl[i].kind == 'V') { sl[i].v->reset(p, n); sl[i].vk = vk; sl[i].vgen = vk >= 0 ? src[vk].gen : 0; sl[i].voff = L(3); return true; }
      if (sl[i].kind == 'O') { sl[i].o->reset(p, n); return true; }
      return false;
    }
    if (op == "resize") {
      long i = L(1);
      if (!used(i) || sl[i].kind != 'O') return false;
      sl[i].o->resize((size_t)L(2), Codec<T>::enc(L(3)));
      return true;
    }
    if (op == "rr") {
      // resize(n, w_j[idx]): the element itself is passed, by reference (no copy on the caller's side)
      long i = L(1), j = L(3), idx = L(4);
      if (!used(i) || sl[i].kind != 'O' || !used(j) || !elemOk(sl[j], idx)) return false;
      const T &ref = (*sl[j].base())[(size_t)idx];
      sl[i].o->resize((size_t)L(2), ref);
      return true;
    }
    if (op == "cc" || op == "mc") {
      long i = L(1), j = L(2);
      if (!freeSlot(i) || !used(j)) return false;
      copyInto(sl[i], sl[j], op == "mc");
      return true;
    }
    if (op == "ca" || op == "ma") {
      long i = L(1), j = L(2);
      if (!used(i) || !used(j) || sl[i].kind != sl[j].kind) return false;
      assignInto(sl[i], sl[j], op == "ma");
      return true;
    }
    if (op == "del") {
      if (!used(L(1))) return false;
      sl[L(1)].destroy();
      return true;
    }
    if (op == "w") {
      long i = L(1), idx = L(2);
      if (!used(i) || !elemOk(sl[i], idx)) return false;
      (*sl[i].base())[(size_t)idx] = Codec<T>::enc(L(3));
      return true;
    }
    throw std::runtime_error("bad op " + tok);
  }

  ~Machine()
  {
    for (auto &s : sl) s.destroy();
    for (auto &s : src) if (s.alive()) s.kill();
  }
};

template <typename T>
static std::string runH(const std::vector<std::string> &ops)
{
  Machine<T> m;
  std::ostringstream out;
  bool first = true;
  for (auto &tok : ops) {
    bool ok = m.step(tok);
    out << (first ? "" : " ; ") << (ok ? "ok|" : "skip|") << m.dump() << (retbad ? "!RET" : "") << (ownbad ? "!OWN" : "");
    retbad = false;
    ownbad = false;
    first = false;
  }
  return out.str();
}

// ------------------------------------------------------------------ DataView
struct __attribute__((packed)) P3 { uint8_t x[3]; };
struct __attribute__((packed)) P5 { uint8_t x[5]; };
struct __attribute__((packed)) P7 { uint8_t x[7]; };

template <typename T>
static std::string runD(size_t off, size_t stride, const std::vector<long> &bytes, const std::vector<long> &idxs)
{
  // exact-size storage: one byte too far is an ASan report.  What the DataView wraps varies with the case: a raw
  // new[] block, a std::vector's storage, an OwnedArray<uint8_t>'s storage (all 16-byte aligned heap blocks)
  std::unique_ptr<unsigned char[]> raw(new unsigned char[bytes.size() ? bytes.size() : 1]);
  for (size_t i = 0; i < bytes.size(); ++i) raw[i] = (unsigned char)bytes[i];
  std::vector<unsigned char> vec;
  OwnedArray<unsigned char> own;
  struct { unsigned char *p; unsigned char *get() const { return p; } } buf{raw.get()};
  if (bytes.size() % 3 == 1) { vec.assign(raw.get(), raw.get() + bytes.size()); vec.shrink_to_fit(); buf.p = vec.data(); }
  else if (bytes.size() % 3 == 2) { own.reset(raw.get(), bytes.size()); buf.p = own.data(); }
  std::ostringstream o;
  if (off > bytes.size()) return "badcase";
  if (off % alignof(T) || stride % alignof(T)) return "misaligned";
  DataView<T> dv = (stride == sizeof(T)) ? DataView<T>(buf.get() + off) : DataView<T>(buf.get() + off, stride);
  DataView<T> dv2;
  if (stride == sizeof(T)) dv2.reset(buf.get() + off); else dv2.reset(buf.get() + off, stride);
  bool first = true, addrok = true, heldok = true, aliasok = true;
  std::vector<size_t> inrange;
  for (long i : idxs) {
    o << (first ? "" : " ");
    first = false;
    if (off + (size_t)i * stride + sizeof(T) > bytes.size()) { o << "oob"; continue; }
    const T &r = dv[(size_t)i];
    unsigned char tmp[sizeof(T)], tmp2[sizeof(T)];
    std::memcpy(tmp, &r, sizeof(T));
    std::memcpy(tmp2, &dv2[(size_t)i], sizeof(T));
    static const char *hx = "0123456789abcdef";
    for (size_t j = 0; j < sizeof(T); ++j) o << hx[tmp[j] >> 4] << hx[tmp[j] & 15];
    if (std::memcmp(tmp, tmp2, sizeof(T)) != 0) o << "!RESET";
    // operator[] returns a reference to the element INSIDE the wrapped range
    if (reinterpret_cast<const unsigned char *>(&r) != buf.get() + off + (size_t)i * stride) addrok = false;
    inrange.push_back((size_t)i);
  }
  if (!inrange.empty()) {
    // two references held at once (std::max(v[a], v[b]) does that), then a write to the source under a held reference
    size_t i0 = inrange.front(), i1 = inrange.back();
    const T &r0 = dv[i0];
    const T &r1 = dv[i1];
    unsigned char *p0 = buf.get() + off + i0 * stride, *p1 = buf.get() + off + i1 * stride;
    if (std::memcmp(&r0, p0, sizeof(T)) != 0 || std::memcmp(&r1, p1, sizeof(T)) != 0) heldok = false;
    p0[0] ^= 0xff;
    if (std::memcmp(&r0, p0, sizeof(T)) != 0) aliasok = false;
    p0[0] ^= 0xff;
    p1[sizeof(T) - 1] ^= 0x55;
    if (std::memcmp(&r1, p1, sizeof(T)) != 0) aliasok = false;
    p1[sizeof(T) - 1] ^= 0x55;
  }
  o << (addrok ? "" : "!ADDR") << (heldok ? "" : "!HELD") << (aliasok ? "" : "!ALIAS");
  return o.str();
}

// what FixedArray<T> does for a non-trivially-copyable T (it memcpy's): reported, not exercised in the histories
static int probeFixed()
{
  std::vector<Trk> v;
  v.emplace_back(7); v.emplace_back(8);
  FixedArray<Trk> *f = new FixedArray<Trk>(v);
  bool bitwise = !(*f)[0].ok() || (*f)[0].cell == v[0].cell;
  std::cout << (bitwise ? "FixedArray<Trk>(vector&): BITWISE copies (elements share the source's heap cells; not live objects)"
                        : "FixedArray<Trk>(vector&): element-wise copies") << std::endl;
  _exit(0);      // no destructors: they would double-free
}

int main(int argc, char **argv)
{
  std::string mode = argc > 1 ? argv[1] : "i32";
  if (mode == "probeF") return probeFixed();
  std::string line;
  while (std::getline(std::cin, line)) {
    std::vector<std::string> toks;
    for (auto &t : split(line, ' ')) if (!t.empty()) toks.push_back(t);
    std::string res;
    if (!toks.empty() && toks[0] == "H") {
      std::vector<std::string> ops(toks.begin() + 1, toks.end());
      if (mode == "trk") {
        res = runH<Trk>(ops);            // ArrayView / OwnedArray histories only (see props/C11/check.py)
        if (ownbad) res += "!OWN";       // a destructor of the torn-down machine complained
        if (!trkLive().empty()) { res += "!LEAK"; trkLive().clear(); }
        ownbad = false;
      }
      else if (mode == "u8") res = runH<uint8_t>(ops);
      else if (mode == "s24") res = runH<E24>(ops);
      else res = runH<int>(ops);
    } else if (toks.size() == 6 && toks[0] == "D") {
      size_t sz = std::stoul(toks[1]), off = std::stoul(toks[2]), stride = std::stoul(toks[3]);
      auto bytes = listOf(toks[4]), idxs = listOf(toks[5]);
      switch (sz) {
      case 1: res = runD<uint8_t>(off, stride, bytes, idxs); break;
      case 2: res = runD<uint16_t>(off, stride, bytes, idxs); break;
      case 3: res = runD<P3>(off, stride, bytes, idxs); break;
      case 4: res = runD<uint32_t>(off, stride, bytes, idxs); break;
      case 5: res = runD<P5>(off, stride, bytes, idxs); break;
      case 7: res = runD<P7>(off, stride, bytes, idxs); break;
      case 8: res = runD<uint64_t>(off, stride, bytes, idxs); break;
      case 24: res = runD<E24>(off, stride, bytes, idxs); break;
      default: res = "badsize";
      }
    }
    std::cout << res << "\n" << std::flush;
  }
  return 0;
}
