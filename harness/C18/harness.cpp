// C18 harness: runs the string / PseudoURL / FileName / ArgumentList / pretty* helpers of the
// real code on the case lines described in ocaml/C18/driver.ml and prints the same canonical
// observation line per case.
#include <cstdio>
#include <cstdlib>
#include <cstring>
#include <iostream>
#include <map>
#include <sstream>
#include <string>
#include <vector>
#include "rkcommon/common.h"
#include "rkcommon/os/FileName.h"
#include "rkcommon/utility/ArgumentList.h"
#ifndef C18_PUBLIC_ONLY
#define private public   // reach PseudoURL::params (std headers and common.h are already included)
#include "rkcommon/utility/PseudoURL.h"
#undef private
#else
#include "rkcommon/utility/PseudoURL.h"   // public-interface fallback: params are not observed directly
#endif
#include "rkcommon/utility/StringManip.h"

using namespace rkcommon;

static std::string hx(const std::string &s)
{
  if (s.empty()) return "-";
  static const char *d = "0123456789abcdef";
  std::string r;
  for (unsigned char c : s) { r += d[c >> 4]; r += d[c & 15]; }
  return r;
}
static std::string uh(const std::string &h)
{
  if (h == "-") return "";
  std::string r;
  for (size_t i = 0; i + 1 < h.size(); i += 2) r += (char)std::stoi(h.substr(i, 2), nullptr, 16);
  return r;
}
static std::string toks(const std::vector<std::string> &v)
{
  if (v.empty()) return "[]";
  std::string r;
  for (size_t i = 0; i < v.size(); ++i) r += (i ? "," : "") + hx(v[i]);
  return r;
}

struct TableParser : public utility::ArgumentsParser
{
  std::map<std::string, int> table;
  int tryConsume(utility::ArgumentList &l, int argID) override
  {
    auto it = table.find(l[argID]);
    int k = it == table.end() ? 0 : it->second;
    return std::min(k, l.size() - argID);
  }
};

static std::string dumpArgs(const utility::ArgumentList &l)
{
  std::vector<std::string> v;
  for (int i = 0; i < l.size(); ++i) v.push_back(l[i]);
  return toks(v);
}

int main()
{
  std::string line;
  while (std::getline(std::cin, line)) {
    std::istringstream is(line);
    std::vector<std::string> t; std::string w;
    while (is >> w) t.push_back(w);
    std::ostringstream o;
    const std::string k = t.empty() ? "" : t[0];
    if (k == "SC" && t.size() == 3) o << toks(utility::split(uh(t[1]), uh(t[2])[0]));
    else if (k == "SS" && t.size() == 4) o << toks(utility::split(uh(t[1]), uh(t[2]), t[3] == "1"));
    else if (k == "TK" && t.size() == 3) { std::vector<std::string> v; utility::tokenize(uh(t[1]), uh(t[2])[0], v); o << toks(v); }
    else if (k == "LB" && t.size() == 3)
      o << hx(utility::longestBeginningMatch(uh(t[1]), uh(t[2]))) << " " << (utility::beginsWith(uh(t[1]), uh(t[2])) ? 1 : 0);
    else if (k == "LU" && t.size() == 2) o << hx(utility::lowerCase(uh(t[1]))) << " " << hx(utility::upperCase(uh(t[1])));
    else if (k == "PU" && t.size() >= 2) {
      utility::PseudoURL u(uh(t[1]));
      const utility::PseudoURL &p = u;
      o << hx(u.getType()) << " " << hx(u.getFileName()) << " ";
#ifndef C18_PUBLIC_ONLY
      if (p.params.empty()) o << "[]";
      for (size_t i = 0; i < p.params.size(); ++i) o << (i ? "," : "") << hx(p.params[i].first) << "=" << hx(p.params[i].second);
#else
      (void)p;
      o << "?";
#endif
      for (size_t i = 2; i < t.size(); ++i) {
        o << " " << (u.hasParam(uh(t[i])) ? 1 : 0) << ":";
        try { o << hx(u.getValue(uh(t[i]))); } catch (const std::runtime_error &) { o << "throw"; }
      }
    }
    else if (k == "FN" && t.size() == 2) {
      FileName f(uh(t[1]));
      FileName fc(uh(t[1]).c_str());   // const char* constructor must agree (no NUL in the cases)
      o << hx(f.str()) << " " << hx(f.path()) << " " << hx(f.base()) << " " << hx(f.name()) << " " << hx(f.ext()) << " " << hx(f.dropExt().str());
      // recomposition: dropExt() followed by addExt("." + ext()) when the last component has an extension
      if (f.base().find('.') != std::string::npos) o << " " << hx(f.dropExt().addExt("." + f.ext()).str());
      else o << " ~";
      if (uh(t[1]).find('\0') == std::string::npos && fc != f) o << " !CTOR";
    }
    else if (k == "FE" && t.size() == 3) { FileName f(uh(t[1])); o << hx(f.setExt(uh(t[2])).str()) << " " << hx(f.addExt(uh(t[2])).str()) << " " << hx(f.dropExt().addExt(uh(t[2])).str()); }
    else if (k == "FP" && t.size() == 3) {
      FileName a(uh(t[1])), b(uh(t[2]));
      o << hx((a + b).str()) << " " << hx((a + uh(t[2])).str());
    }
    else if (k == "FO" && t.size() == 3) {
      FileName a(uh(t[1])), b(uh(t[2]));
      o << ((a == b) ? 1 : 0) << " " << ((a != b) ? 1 : 0) << " " << hx((a - b).str()) << " ";
      // str(), c_str(), operator std::string and operator<< hand out the same string
      std::ostringstream os;
      os << a;
      std::string conv = a;
      o << ((conv == a.str() && std::string(a.c_str()) == std::string(a.str().c_str()) && os.str() == a.str()) ? 1 : 0) << " ";
      // FileName(): the empty name; left identity of operator+
      FileName e;
      o << ((e.str().empty() && e == FileName("") && (e + b) == b && (e + uh(t[2])) == b) ? 1 : 0);
    }
    else if (k == "AL") {
      std::vector<std::string> args; TableParser tp;
      for (size_t i = 1; i < t.size(); ++i) {
        size_t c = t[i].find(':');
        std::string a = uh(t[i].substr(0, c));
        args.push_back(a);
        if (!tp.table.count(a)) tp.table[a] = std::stoi(t[i].substr(c + 1));
      }
      std::vector<const char *> av; av.push_back("prog");
      for (auto &a : args) av.push_back(a.c_str());
      utility::ArgumentList l((int)av.size(), av.data());
      tp.parseAndRemove(l);
      o << dumpArgs(l);
    }
    else if (k == "AR" && t.size() >= 3) {
      std::vector<std::string> args;
      for (size_t i = 3; i < t.size(); ++i) args.push_back(uh(t[i]));
      std::vector<const char *> av; av.push_back("prog");
      for (auto &a : args) av.push_back(a.c_str());
      utility::ArgumentList l((int)av.size(), av.data());
      l.remove(std::stoi(t[1]), std::stoi(t[2]));
      o << dumpArgs(l) << " " << l.size() << " " << (l.empty() ? 1 : 0) << " ";
      try { o << hx(l[0]); } catch (const std::out_of_range &) { o << "throw"; }
    }
    else if (k == "RA" && t.size() >= 3) {
      std::vector<std::string> args;
      for (size_t i = 3; i < t.size(); ++i) args.push_back(uh(t[i]));
      std::vector<const char *> avv;
      for (auto &a : args) avv.push_back(a.c_str());
      int ac = (int)avv.size(); const char **av = avv.data();
      removeArgs(ac, av, std::stoi(t[1]), std::stoi(t[2]));
      std::vector<std::string> r;
      for (int i = 0; i < ac; ++i) r.push_back(av[i]);
      o << ac << " " << toks(r);
    }
    else if (k == "PN" && t.size() == 2) o << prettyNumber((size_t)std::strtoull(t[1].c_str(), nullptr, 10));
    else if (k == "PD" && t.size() == 4) o << prettyDouble(std::strtod(t[1].c_str(), nullptr));
    else o << "badcase";
    std::cout << o.str() << "\n";
  }
  return 0;
}
