// C16 harness: feeds byte strings as files to the real rkcommon::xml::readXML.
// usage: harness <scratch-file> [fork]
//   stdin : one case per line, the file's bytes in hex ("-" = empty file)
//   stdout: one line per case (flushed before the next case is read):
//     (name {k=v k=v} content [children])   canonical dump of the XMLDoc, strings in hex ("-" = "")
//     THROW                                  std::runtime_error (exact dynamic type)
//     THROW-OTHER:<type>                     any other exception (violates the property)
//     CRASH rc=<n> | CRASH sig=<n>           (fork mode only) the child died: sanitizer report / signal
//     HANG                                   the case did not return within 3 s (watchdog alarm); in-process
//                                            mode: the harness then exits with 96
//     SKIPPED                                (fork mode) more than 25 children died/hung: not run
//   in-process mode: an ASan report kills the harness; the index of the killing case is the
//   number of lines printed so far (the check restarts after it in fork mode).
#include <signal.h>
#include <sys/types.h>
#include <sys/wait.h>
#include <unistd.h>
#include <cstdio>
#include <cstdlib>
#include <iostream>
#include <sstream>
#include <string>
#include <typeinfo>
#include <vector>
#include "rkcommon/xml/XML.h"

using namespace rkcommon;

static std::string hex(const std::string &s)
{
  if (s.empty()) return "-";
  static const char *d = "0123456789abcdef";
  std::string r;
  for (unsigned char c : s) { r += d[c >> 4]; r += d[c & 15]; }
  return r;
}
static std::string unhex(const std::string &h)
{
  std::string r;
  if (h == "-") return r;
  for (size_t i = 0; i + 1 < h.size(); i += 2) r += (char)std::stoi(h.substr(i, 2), nullptr, 16);
  return r;
}
static void dump(const xml::Node &n, std::string &o)
{
  o += "(" + hex(n.name) + " {";
  bool first = true;
  for (auto &kv : n.properties) { o += (first ? "" : " ") + hex(kv.first) + "=" + hex(kv.second); first = false; }
  o += "} " + hex(n.content) + " [";
  first = true;
  for (auto &c : n.child) { if (!first) o += " "; dump(c, o); first = false; }
  o += "])";
}

static std::string runCase(const std::string &path, const std::string &bytes)
{
  FILE *f = fopen(path.c_str(), "wb");
  if (!f) return "HARNESS-ERROR:cannot-write";
  if (!bytes.empty()) fwrite(bytes.data(), 1, bytes.size(), f);
  fclose(f);
  // the reader prints a warning on std::cout for unclosed nodes: keep it out of our output
  std::ostringstream sink;
  std::streambuf *old = std::cout.rdbuf(sink.rdbuf());
  std::string out;
  try {
    xml::XMLDoc doc = xml::readXML(path);
    dump(doc, out);
    if (doc.fileName.str() != path) out += "!FILENAME";
  } catch (const std::exception &e) {
    if (typeid(e) == typeid(std::runtime_error)) out = "THROW";
    else out = std::string("THROW-OTHER:") + typeid(e).name();
  } catch (...) {
    out = "THROW-OTHER:unknown";
  }
  std::cout.rdbuf(old);
  return out;
}

static void onAlarm(int)
{
  static const char msg[] = "HANG\n";
  ssize_t rc = write(1, msg, sizeof(msg) - 1);
  (void)rc;
  _exit(96);
}

int main(int argc, char **argv)
{
  signal(SIGALRM, onAlarm);
  if (argc < 2) { fprintf(stderr, "usage: harness <scratch-file> [fork]\n"); return 2; }
  std::string path = argv[1];
  bool forkMode = argc > 2 && std::string(argv[2]) == "fork";
  // sanity: a missing file is reported with std::runtime_error too
  try { xml::readXML(path + ".does-not-exist"); fprintf(stderr, "missing file did not throw\n"); return 3; }
  catch (const std::runtime_error &) {}
  std::string line;
  while (std::getline(std::cin, line)) {
    std::string bytes = unhex(line);
    if (!forkMode) {
      alarm(3);
      std::string r = runCase(path, bytes);
      alarm(0);
      fputs(r.c_str(), stdout); fputc('\n', stdout); fflush(stdout);
      continue;
    }
    static int abnormal = 0;
    if (abnormal > 25) { printf("SKIPPED\n"); fflush(stdout); continue; }
    fflush(stdout);
    pid_t pid = fork();
    if (pid == 0) {
      alarm(3);
      std::string r = runCase(path, bytes);
      alarm(0);
      fputs(r.c_str(), stdout); fputc('\n', stdout); fflush(stdout);
      _exit(0);
    }
    int st = 0;
    waitpid(pid, &st, 0);
    if (WIFEXITED(st) && WEXITSTATUS(st) == 0) continue;
    abnormal++;
    if (WIFEXITED(st) && WEXITSTATUS(st) == 96) continue;   // the child printed HANG itself
    if (WIFEXITED(st)) printf("CRASH rc=%d\n", WEXITSTATUS(st));
    else printf("CRASH sig=%d\n", WIFSIGNALED(st) ? WTERMSIG(st) : -1);
    fflush(stdout);
  }
  return 0;
}
