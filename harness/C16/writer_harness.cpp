// C16 writer harness: drives the real rkcommon::xml::Writer with an operation sequence, writes to a
// scratch file, reads the file back with the real readXML, and probes Node::hasProp/getProp.
// usage: writer_harness <scratch-file>
//   stdin : one case per line: ops ( H <hex> | F | O <hex> | P <hex> <hex> | C )* [ ? <hexkey>* ]   ("-" = empty string)
//           (the check only sends sequences on which no assert of the Writer fires)
//   stdout: <hex of the file> <dump of the XMLDoc | THROW | THROW-OTHER:..> acc[ <child>:<hexkey>=<has>,<getProp(k)>,<getProp(k,"FB")>]*
//   first line of output: TOSTRING <toString(float) ...> | <toString(vec3f)>
#include <cstdio>
#include <cstdlib>
#include <iostream>
#include <sstream>
#include <string>
#include <typeinfo>
#include <vector>
#include "rkcommon/xml/XML.h"
using namespace rkcommon;
#ifndef NO_TOSTRING
namespace rkcommon { namespace xml { std::string toString(const float f); std::string toString(const math::vec3f &v); } }
#endif

static std::string hex(const std::string &s)
{
  if (s.empty()) return "-";
  static const char *d = "0123456789abcdef";
  std::string r;
  for (unsigned char c : s) { r += d[c >> 4]; r += d[c & 15]; }
  return r;
}
static std::string unhex(const std::string &h)
{
  std::string r;
  if (h == "-") return r;
  for (size_t i = 0; i + 1 < h.size(); i += 2) r += (char)std::stoi(h.substr(i, 2), nullptr, 16);
  return r;
}
static void dump(const xml::Node &n, std::string &o)
{
  o += "(" + hex(n.name) + " {";
  bool first = true;
  for (auto &kv : n.properties) { o += (first ? "" : " ") + hex(kv.first) + "=" + hex(kv.second); first = false; }
  o += "} " + hex(n.content) + " [";
  first = true;
  for (auto &c : n.child) { if (!first) o += " "; dump(c, o); first = false; }
  o += "])";
}

int main(int argc, char **argv)
{
  if (argc < 2) return 2;
  std::string path = argv[1];
#ifndef NO_TOSTRING
  {
    const float fs[] = {0.f, 1.5f, -2.25f, 1e10f, 1e-5f, 3.14159274f, 123456.789f, 100000.f, 1000000.f};
    printf("TOSTRING");
    for (float f : fs) printf(" %s", xml::toString(f).c_str());
    printf(" | %s\n", xml::toString(math::vec3f(1.f, -0.5f, 1e-3f)).c_str());
    fflush(stdout);
  }
#else
  puts("TOSTRING-NOT-BUILT");
#endif
  std::string line;
  while (std::getline(std::cin, line)) {
    std::istringstream in(line);
    std::vector<std::string> toks;
    std::string t;
    while (in >> t) toks.push_back(t);
    FILE *f = fopen(path.c_str(), "wb");
    if (!f) { puts("HARNESS-ERROR"); continue; }
    std::vector<std::string> keys;
    {
      xml::Writer w(f, nullptr);
      size_t i = 0;
      for (; i < toks.size(); i++) {
        const std::string &o = toks[i];
        if (o == "H") { w.writeHeader(unhex(toks.at(i + 1))); i += 1; }
        else if (o == "F") w.writeFooter();
        else if (o == "O") { w.openNode(unhex(toks.at(i + 1))); i += 1; }
        else if (o == "P") { w.writeProperty(unhex(toks.at(i + 1)), unhex(toks.at(i + 2))); i += 2; }
        else if (o == "C") w.closeNode();
        else if (o == "?") { for (size_t j = i + 1; j < toks.size(); j++) keys.push_back(unhex(toks[j])); break; }
      }
    }
    fclose(f);
    std::string bytes;
    { FILE *r = fopen(path.c_str(), "rb"); int c; while ((c = fgetc(r)) != EOF) bytes += (char)c; fclose(r); }
    std::ostringstream sink;
    std::streambuf *old = std::cout.rdbuf(sink.rdbuf());
    std::string out, acc = "acc";
    try {
      xml::XMLDoc doc = xml::readXML(path);
      dump(doc, out);
      for (size_t c = 0; c < doc.child.size(); c++)
        for (auto &k : keys)
          acc += " " + std::to_string(c) + ":" + hex(k) + "=" + (doc.child[c].hasProp(k) ? "1" : "0") + "," +
                 hex(doc.child[c].getProp(k)) + "," + hex(doc.child[c].getProp(k, "FB"));
    } catch (const std::exception &e) {
      out = (typeid(e) == typeid(std::runtime_error)) ? "THROW" : std::string("THROW-OTHER:") + typeid(e).name();
    }
    std::cout.rdbuf(old);
    printf("%s %s %s\n", hex(bytes).c_str(), out.c_str(), acc.c_str());
    fflush(stdout);
  }
  return 0;
}
