// C20 harness: runs the image writers and the tracing API of the working tree.
//   harness img <fmt> <outdir> [padbytes]     fmt: PPM PGM PFM1 PFM3 PFM3a PFM4
//        stdin lines:  <w> <h> <v0> <v1> ...   (w*h*PIXEL_COMP component values, decimal;
//                                               bytes for PPM/PGM, 32-bit patterns for floats)
//        per case:     the pixel buffer is an exact-size heap block (plus padbytes of slack when
//                      given: used only to look at what an over-reading writer produces),
//                      the file <outdir>/<fmt>_<n>.bin is written, line "<path>" printed
//   harness imgpat <fmt> <outdir>
//        stdin lines:  <w> <h> <seed>     like img, the buffer filled by a pattern instead of listed values (wide images):
//                      component i = (seed + 37 i + 101 (i / 251)) mod 256 for bytes, the bit pattern 0x3f800000 + seed + i for floats
//   harness imgstack <fmt> <outdir> <w> <h> <stackbytes>
//        one call of the writer on a thread whose stack has <stackbytes> bytes; prints the path of the file
//   harness race <outdir> <nthreads> <rounds>
//        per round: a fresh recorder; <nthreads> threads are released together by a barrier and each records its FIRST
//        event at once (the registration of its event list), then a marker, a counter and the end; after the join
//        saveLog and a check that every thread's three names occur exactly once in the file.  Meant for the TSan build.
//   harness trace <outdir>
//        (tname "-" = setThreadName is not called, "@e" = setThreadName(""))
//        stdin lines:  T <pname|-> { | <tname|-> op op ... }     one "|" group per thread; "||" instead of "|" first joins all
//                      threads started so far (a new phase: later threads do not overlap earlier ones and may be given
//                      the thread id of a finished one); "|@" runs the script on the main thread, after a join
//                      W = wait for a save: the thread stops at a barrier; when every thread of the case stands at its k-th W
//                           the main thread calls saveLog(<path>.s<k>) and releases them (all threads must have equally
//                           many W; a thread's leading W come before its setThreadName: it starts tracing later)
//                      op:  B:name:cat  E  M:name:cat  C:name:value  S  R   (cat "-" = null, S = sleep 150us, R = recordMemUse():
//                           two counters rkTraceVirtMem_B / rkTraceRssMem_B); M goes through RKCOMMON_IF_TRACING_ENABLED(...)
//        per case:     threads record concurrently through rkcommon::tracing::{beginEvent,...},
//                      then saveLog(<outdir>/trace_<n>.json); line "<path> <info of thread 0>;<info of thread 1>;..."
//                      info = chunk sizes "a,b,c" "/" smallest chunk capacity "/" recorded steady_clock times (ns) "t,t,t"
//                      ("-" for a thread that has no event list or an empty one), then "#" and a hash of the
//                      thread's std::thread::id (sizes and times are those of the list the thread records into at its
//                      end: the whole shared list when it continues the list of an earlier thread with the same id)
#include <atomic>
#include <condition_variable>
#include <cstdint>
#include <fstream>
#include <cstdio>
#include <cstdlib>
#include <cstring>
#include <iostream>
#include <map>
#include <memory>
#include <mutex>
#include <pthread.h>
#include <sstream>
#include <stdexcept>
#include <string>
#include <thread>
#include <vector>
#include "rkcommon/utility/SaveImage.h"
#ifndef C20_PUBLIC
// The translation unit of the working tree itself: gives access to the file-static recorder
// (to start every case from an empty recorder) and to the per-thread event list (chunk sizes).
#include "rkcommon/tracing/Tracing.cpp"
#else
// Public-interface build (used when the one above does not compile against the tree): only Tracing.h, Tracing.cpp is linked as
// it is.  The recorder cannot be reset: the check then runs ONE case per process; chunk sizes / clock values are not reported.
#define RKCOMMON_ENABLE_PROFILING
#include "rkcommon/tracing/Tracing.h"
#include "rkcommon/common.h"
#endif

using namespace rkcommon;
using namespace rkcommon::math;

static_assert(sizeof(uint32_t) == 4 * sizeof(unsigned char), "RGBA8 pixel = 4 components");
static_assert(sizeof(vec3f) == 3 * sizeof(float), "vec3f = 3 components");
static_assert(sizeof(vec3fa) == 4 * sizeof(float), "vec3fa = 4 components");
static_assert(sizeof(vec4f) == 4 * sizeof(float), "vec4f = 4 components");

static std::vector<std::string> split(const std::string &s, char d)
{
  std::vector<std::string> r; std::string t; std::istringstream is(s);
  while (std::getline(is, t, d)) r.push_back(t);
  return r;
}

// the writers are called the way a user calls them - by name, template arguments deduced, overload resolution done at the call - so
// that an added overload that takes the call over is exercised too
struct CallPPM { template <typename P> void operator()(const std::string &f, int w, int h, const P *p) const { utility::writePPM(f, w, h, p); } };
struct CallPGM { template <typename P> void operator()(const std::string &f, int w, int h, const P *p) const { utility::writePGM(f, w, h, p); } };
struct CallPFM { template <typename P> void operator()(const std::string &f, int w, int h, const P *p) const { utility::writePFM(f, w, h, p); } };

template <typename PIXEL_T, typename COMP_T, int PIXEL_COMP, typename W>
static void runImg(const std::string &path, int w, int h, const std::vector<uint64_t> &vals, size_t pad, W writer)
{
  const size_t n = (size_t)w * h;
  if (vals.size() != n * PIXEL_COMP) throw std::runtime_error("bad case: value count");
  PIXEL_T *buf = (PIXEL_T *)malloc(n * sizeof(PIXEL_T) + pad);   // exact size: ASan sees any over-read
  memset((void *)buf, 0xEE, n * sizeof(PIXEL_T) + pad);
  unsigned char *raw = (unsigned char *)buf;
  for (size_t i = 0; i < vals.size(); ++i) {
    if (sizeof(COMP_T) == 1) { raw[i] = (unsigned char)vals[i]; }
    else { uint32_t b = (uint32_t)vals[i]; memcpy(raw + 4 * i, &b, 4); }
  }
  writer(path, w, h, (const PIXEL_T *)buf);
  free(buf);
}

static int pixcompOf(const std::string &fmt) { return fmt == "PFM1" ? 1 : (fmt == "PFM3" ? 3 : 4); }

static int mainImg(const std::string &fmt, const std::string &outdir, size_t pad, bool pattern)
{
  std::string line; long n = 0;
  while (std::getline(std::cin, line)) {
    std::istringstream is(line);
    int w, h; is >> w >> h;
    std::vector<uint64_t> vals; uint64_t v;
    if (pattern) {
      uint64_t seed = 0; is >> seed;
      const bool bytes = (fmt == "PPM" || fmt == "PGM");
      const size_t cnt = (size_t)w * h * pixcompOf(fmt);
      vals.resize(cnt);
      for (size_t i = 0; i < cnt; ++i) vals[i] = bytes ? ((seed + 37 * i + 101 * (i / 251)) & 255) : (0x3f800000ull + seed + i);
    } else
      while (is >> v) vals.push_back(v);
    std::string path = outdir + "/" + fmt + "_" + std::to_string(n++) + (pad ? "p" : "") + (pattern ? "w" : "") + ".bin";
    if (fmt == "PPM") runImg<uint32_t, unsigned char, 4>(path, w, h, vals, pad, CallPPM());
    else if (fmt == "PGM") runImg<uint32_t, unsigned char, 4>(path, w, h, vals, pad, CallPGM());
    else if (fmt == "PFM1") runImg<float, float, 1>(path, w, h, vals, pad, CallPFM());
    else if (fmt == "PFM3") runImg<vec3f, float, 3>(path, w, h, vals, pad, CallPFM());
    else if (fmt == "PFM3a") runImg<vec3fa, float, 4>(path, w, h, vals, pad, CallPFM());
    else if (fmt == "PFM4") runImg<vec4f, float, 4>(path, w, h, vals, pad, CallPFM());
    else return 2;
    std::cout << path << std::endl;
  }
  return 0;
}

// one writer call on a thread with a small stack: the image's rows are small, the whole output is several times the
// stack (the row scratch buffer is alloca'd: it must not accumulate over the rows).  Component i of the buffer holds
// (7 i + 3) mod 251 (bytes) / the bit pattern 0x3f800000 + i (floats).
struct StackJob { std::string fmt, path; int w, h; int rc; };
template <typename PIXEL_T, typename COMP_T, int PIXEL_COMP, typename W>
static void stackImg(StackJob *j, W writer)
{
  const size_t n = (size_t)j->w * j->h;
  PIXEL_T *buf = (PIXEL_T *)malloc(n * sizeof(PIXEL_T));
  unsigned char *raw = (unsigned char *)buf;
  for (size_t i = 0; i < n * PIXEL_COMP; ++i) {
    if (sizeof(COMP_T) == 1) raw[i] = (unsigned char)((7 * i + 3) % 251);
    else { uint32_t b = 0x3f800000u + (uint32_t)i; memcpy(raw + 4 * i, &b, 4); }
  }
  writer(j->path, j->w, j->h, (const PIXEL_T *)buf);
  free(buf);
  j->rc = 0;
}
static void *stackThread(void *p)
{
  StackJob *j = (StackJob *)p;
  const std::string &fmt = j->fmt;
  if (fmt == "PPM") stackImg<uint32_t, unsigned char, 4>(j, CallPPM());
  else if (fmt == "PGM") stackImg<uint32_t, unsigned char, 4>(j, CallPGM());
  else if (fmt == "PFM1") stackImg<float, float, 1>(j, CallPFM());
  else if (fmt == "PFM3") stackImg<vec3f, float, 3>(j, CallPFM());
  else if (fmt == "PFM3a") stackImg<vec3fa, float, 4>(j, CallPFM());
  else if (fmt == "PFM4") stackImg<vec4f, float, 4>(j, CallPFM());
  return nullptr;
}
static int mainImgStack(const std::string &fmt, const std::string &outdir, int w, int h, size_t stackBytes)
{
  StackJob j{fmt, outdir + "/" + fmt + "_stack.bin", w, h, 1};
  pthread_attr_t a; pthread_attr_init(&a);
  if (pthread_attr_setstacksize(&a, stackBytes) != 0) { std::cout << "SKIP stack size" << std::endl; return 0; }
  pthread_t t;
  if (pthread_create(&t, &a, stackThread, &j) != 0) { std::cout << "SKIP create" << std::endl; return 0; }
  pthread_join(t, nullptr);
  std::cout << j.path << std::endl;
  return j.rc;
}

// ------------------------------------------------------------------------ tracing
// Names and categories are "string literals": one fixed address per distinct text for the whole process, so that a
// script that repeats a name passes the SAME pointer again (the recorder's string cache is keyed by pointer) and a
// name that equals a category is the same pointer too.  Entries are never freed: a pointer designates one text for ever.
static std::mutex g_poolMutex;
static std::map<std::string, std::unique_ptr<std::string>> g_pool;
// a token "@x<hex>" stands for the text with those bytes (texts with quotes, backslashes, control characters, colons ...)
static std::string detok(const std::string &t)
{
  if (t.size() < 2 || t[0] != '@' || t[1] != 'x') return t;
  std::string r;
  for (size_t i = 2; i + 1 < t.size(); i += 2) r.push_back((char)std::stoi(t.substr(i, 2), nullptr, 16));
  return r;
}

static const char *literal(const std::string &tok)
{
  const std::string text = detok(tok);
  std::lock_guard<std::mutex> lock(g_poolMutex);
  auto &e = g_pool[text];
  if (!e) e.reset(new std::string(text));
  return e->c_str();
}

struct ThreadScript { std::string tname; std::vector<std::string> ops; std::string sizes; };

// barrier for the W operation (mutex + condition variable)
static std::mutex g_wM;
static std::condition_variable g_wCV;
static int g_wArrived = 0, g_wRound = 0;
static bool g_wActive = false;
static void waitForSave()
{
  if (!g_wActive) return;
  std::unique_lock<std::mutex> lk(g_wM);
  const int my = g_wRound;
  ++g_wArrived;
  g_wCV.notify_all();
  g_wCV.wait(lk, [&] { return g_wRound > my; });
}

static void runThread(ThreadScript *ts)
{
  std::vector<std::vector<std::string>> f;
  f.reserve(ts->ops.size());
  for (auto &op : ts->ops) f.push_back(split(op, ':'));
  size_t lead = 0;
  while (lead < f.size() && f[lead][0] == "W") { waitForSave(); ++lead; }
  if (ts->tname == "@e") tracing::setThreadName("");          // the empty string as a name
  else if (ts->tname != "-") tracing::setThreadName(detok(ts->tname).c_str());
  for (size_t oi = lead; oi < f.size(); ++oi) {
    auto &o = f[oi];
    const std::string &k = o[0];
    if (k == "W") { waitForSave(); continue; }
    if (k == "B") tracing::beginEvent(literal(o[1]), o[2] == "-" ? nullptr : literal(o[2]));
    else if (k == "E") tracing::endEvent();
    else if (k == "M") { RKCOMMON_IF_TRACING_ENABLED(tracing::setMarker(literal(o[1]), o[2] == "-" ? nullptr : literal(o[2]))); }
    else if (k == "R") tracing::recordMemUse();
    else if (k == "C") tracing::setCounter(literal(o[1]), (uint64_t)std::stoull(o[2]));
    else if (k == "S") std::this_thread::sleep_for(std::chrono::microseconds(150));
  }
  std::ostringstream s, tm;
  size_t mincap = (size_t)-1; bool first = true, firstT = true;
#ifndef C20_PUBLIC
  if (tracing::threadEventList) {
    for (auto &c : tracing::threadEventList->events) {
      s << (first ? "" : ",") << c.size(); first = false;
      if (c.capacity() < mincap) mincap = c.capacity();
      for (auto &e : c) {
        tm << (firstT ? "" : ",")
           << std::chrono::duration_cast<std::chrono::nanoseconds>(e.time.time_since_epoch()).count();
        firstT = false;
      }
    }
  }
#endif
  (void)firstT; (void)mincap;
  if (first) s << "-"; else s << "/" << mincap << "/" << tm.str();
  s << "#" << std::hash<std::thread::id>()(std::this_thread::get_id());
  ts->sizes = s.str();
}

static int mainTrace(const std::string &outdir)
{
  std::string line; long n = 0;
  while (std::getline(std::cin, line)) {
    std::istringstream is(line);
    std::string tok, pname;
    is >> tok >> pname;
    if (pname != "-") pname = detok(pname);
    std::vector<ThreadScript> scripts;
    std::vector<int> phase;          // phase of each script; -1 = run on the main thread
    std::vector<int> mainAfter;      // for main-thread scripts: the phase they follow
    int ph = 0;
    while (is >> tok) {
      if (tok == "|" || tok == "||" || tok == "|@") {
        if (tok == "||") ++ph;
        if (tok == "|@") { ++ph; phase.push_back(-1); mainAfter.push_back(ph); ++ph; }
        else { phase.push_back(ph); mainAfter.push_back(0); }
        scripts.push_back(ThreadScript()); is >> scripts.back().tname;
      }
      else scripts.back().ops.push_back(tok);
    }
#ifndef C20_PUBLIC
    if (n > 0) tracing::traceRecorder = rkcommon::make_unique<tracing::TraceRecorder>();   // empty recorder per case
    tracing::threadEventList = nullptr;                                                   // and no cached list on the main thread
#endif
    std::string path = outdir + "/trace_" + std::to_string(n++) + ".json";
    // saves in the middle of the history: only for single-phase cases whose threads all have the same number of W
    int K = -1; bool sameK = !scripts.empty() && ph == 0;
    for (size_t i = 0; i < scripts.size() && sameK; ++i) {
      int c = 0; for (auto &o : scripts[i].ops) if (o == "W") ++c;
      if (phase[i] == -1) sameK = false;
      if (K < 0) K = c; else if (K != c) sameK = false;
    }
    g_wActive = sameK && K > 0;
    g_wArrived = 0; g_wRound = 0;
    for (int p = 0; p <= ph; ++p) {
      std::vector<std::thread> th;
      for (size_t i = 0; i < scripts.size(); ++i) {
        if (phase[i] == p) th.emplace_back(runThread, &scripts[i]);
        else if (phase[i] == -1 && mainAfter[i] == p) runThread(&scripts[i]);
      }
      if (g_wActive) {
        for (int k = 0; k < K; ++k) {
          std::unique_lock<std::mutex> lk(g_wM);
          g_wCV.wait(lk, [&] { return g_wArrived == (int)scripts.size() * (k + 1); });
          const std::string sp = path + ".s" + std::to_string(k);
          std::remove(sp.c_str());
          tracing::saveLog(sp.c_str(), pname == "-" ? nullptr : pname.c_str());
          g_wRound = k + 1;
          g_wCV.notify_all();
        }
      }
      for (auto &t : th) t.join();
    }
    std::remove(path.c_str());
    tracing::saveLog(path.c_str(), pname == "-" ? nullptr : pname.c_str());
    std::cout << path << " ";
    for (size_t i = 0; i < scripts.size(); ++i) std::cout << (i ? ";" : "") << scripts[i].sizes;
    std::cout << std::endl;
  }
  return 0;
}

// ------------------------------------------------------------------------ concurrent first events
// barrier on a mutex + condition variable (no spinning: cheap under ThreadSanitizer and under CPU load)
static std::mutex g_barM;
static std::condition_variable g_barCV;
static int g_arrived = 0, g_release = 0;

static void raceWorker(int round, int k)
{
  const std::string tag = "r" + std::to_string(round) + "_t" + std::to_string(k);
  const char *ev = literal(tag + "_first"), *mk = literal(tag + "_mark"), *ct = literal(tag + "_count");
  {
    std::unique_lock<std::mutex> lk(g_barM);
    ++g_arrived;
    g_barCV.notify_all();
    g_barCV.wait(lk, [&] { return g_release == round + 1; });
  }
  tracing::beginEvent(ev, nullptr);          // the thread's first tracing call: registers its event list
  tracing::setMarker(mk, nullptr);
  tracing::setCounter(ct, (uint64_t)k);
  tracing::endEvent();
}

static size_t countOcc(const std::string &hay, const std::string &needle)
{
  size_t n = 0, pos = 0;
  while ((pos = hay.find(needle, pos)) != std::string::npos) { ++n; pos += needle.size(); }
  return n;
}

static int mainRace(const std::string &outdir, int nthreads, int rounds)
{
  const std::string path = outdir + "/race_" + std::to_string(nthreads) + ".json";
  for (int r = 0; r < rounds; ++r) {
#ifndef C20_PUBLIC
    tracing::traceRecorder = rkcommon::make_unique<tracing::TraceRecorder>();
    tracing::threadEventList = nullptr;
#endif
    { std::lock_guard<std::mutex> lk(g_barM); g_arrived = 0; }
    std::vector<std::thread> th;
    for (int k = 0; k < nthreads; ++k) th.emplace_back(raceWorker, r, k);
    {
      std::unique_lock<std::mutex> lk(g_barM);
      g_barCV.wait(lk, [&] { return g_arrived == nthreads; });
      g_release = r + 1;
      g_barCV.notify_all();
    }
    for (auto &t : th) t.join();
    std::remove(path.c_str());
    tracing::saveLog(path.c_str(), nullptr);
    std::ifstream fin(path.c_str());
    std::stringstream ss; ss << fin.rdbuf();
    const std::string text = ss.str();
    for (int k = 0; k < nthreads; ++k) {
      const std::string tag = "r" + std::to_string(r) + "_t" + std::to_string(k);
      for (const char *suffix : {"_first", "_mark", "_count"}) {
        size_t c = countOcc(text, "\"name\":\"" + tag + suffix + "\"");
        if (c != 1) {
          std::cout << "FAIL round=" << r << " threads=" << nthreads << " event " << tag << suffix << " occurs " << c
                    << " times in the log (file " << path << ")" << std::endl;
          return 0;
        }
      }
    }
  }
  std::cout << "OK threads=" << nthreads << " rounds=" << rounds << " " << path << std::endl;
  return 0;
}

int main(int argc, char **argv)
{
  if (argc >= 5 && std::string(argv[1]) == "race") return mainRace(argv[2], atoi(argv[3]), atoi(argv[4]));
  if (argc >= 4 && std::string(argv[1]) == "img") return mainImg(argv[2], argv[3], argc > 4 ? (size_t)atol(argv[4]) : 0, false);
  if (argc >= 4 && std::string(argv[1]) == "imgpat") return mainImg(argv[2], argv[3], 0, true);
  if (argc >= 7 && std::string(argv[1]) == "imgstack") return mainImgStack(argv[2], argv[3], atoi(argv[4]), atoi(argv[5]), (size_t)atol(argv[6]));
  if (argc >= 3 && std::string(argv[1]) == "trace") return mainTrace(argv[2]);
  return 2;
}
