// C02 correspondence harness: schedule() / async() / AsyncTask<T> of the repository working tree,
// built once per tasking backend (ASan+UBSan).  One mode per process; one canonical line per case.
//   harness burst <N>            N schedule() calls, closures own heap state, one counter each
//   harness async <reps>         async() over int / long string / vector<int> / slow-logging type
//   harness asynctask <reps> <type> [script]  AsyncTask<T> over the same types + lifetime-instrumented payload
//   harness destroy <reps>       destroy an AsyncTask while its task still runs
//   harness parkburst <T> <N>    T tasking threads, T-1 workers parked, burst of N > pipe size from the caller
//   harness nested <T> <iters>   scheduled closure schedules a same-type closure and waits inside the tasking system
//   harness wakeup <T> <ms>      one schedule() at a time, timed to the worker's spin-to-sleep transition; each must run within 2 s
//   harness arena <reps>         (TBB) first schedule() of a functor type from inside a small task_arena, later ones from main
//   harness ownerthief <T> <get|drop|pf> <ms>  owner pops its own pipe while a worker steals the only item
//   harness steal <T> <iters>    a closure run by a worker schedules another and spins: a second worker must steal it
//   harness teardown reinit <T> <T2> <n> <depth> | teardown exit <T> <n> <depth>   bursts (with follow-up chains) right before scheduler teardown
//   harness chain <T> <k> <iters>  k closures scheduled back to back, closure i waits for closure i+1; the caller only polls
//   harness onethread            tasking system initialised with 1 thread, one schedule(), no waiting
#include <algorithm>
#include <atomic>
#include <cctype>
#include <chrono>
#include <cstdio>
#include <cstdlib>
#include <cstring>
#include <functional>
#include <memory>
#include <mutex>
#include <new>
#include <set>
#include <string>
#include <thread>
#include <type_traits>
#include <vector>
#include <unistd.h>

#include "rkcommon/tasking/AsyncTask.h"
#include "rkcommon/tasking/async.h"
#include "rkcommon/tasking/parallel_for.h"
#include "rkcommon/tasking/schedule.h"
#include "rkcommon/tasking/tasking_system_init.h"

#if defined(RKCOMMON_TASKING_TBB)
#include "tbb/task_arena.h"
#endif

using namespace rkcommon::tasking;
typedef std::chrono::steady_clock clk;
static double ms_since(clk::time_point t0)
{
  return std::chrono::duration<double, std::milli>(clk::now() - t0).count();
}
static void sleep_ms(int ms)
{
  std::this_thread::sleep_for(std::chrono::milliseconds(ms));
}

// ----------------------------------------------------------------------------- burst
static int mode_burst(int n)
{
  std::vector<std::atomic<int>> *counters = new std::vector<std::atomic<int>>(n);
  for (auto &c : *counters)
    c = 0;
  std::atomic<long> *checksum = new std::atomic<long>(0);
  for (int i = 0; i < n; ++i) {
    // closure owns heap state (a shared vector and a string beyond SSO)
    auto heap = std::make_shared<std::vector<int>>(8 + (i % 5), i);
    std::string tag = "closure-number-" + std::to_string(i) + "-owning-a-heap-string";
    schedule([=]() {
      long s = 0;
      for (int x : *heap)
        s += x;
      *checksum += s + (long)tag.size() * 0;
      (*counters)[i]++;
    });
  }
  // quiescence WITHOUT any further tasking call by this thread
  auto t0 = clk::now();
  double limit = 20000;
  for (;;) {
    int done = 0;
    for (auto &c : *counters)
      done += c.load() >= 1;
    if (done == n || ms_since(t0) > limit)
      break;
    sleep_ms(2);
  }
  double waited = ms_since(t0);
  sleep_ms(60);  // late duplicates would show up here
  int zero = 0, once = 0, multi = 0;
  int first_bad = -1;
  for (int i = 0; i < n; ++i) {
    int c = (*counters)[i].load();
    if (c == 0) zero++; else if (c == 1) once++; else multi++;
    if (c != 1 && first_bad < 0) first_bad = i;
  }
  printf("BURST n=%d once=%d zero=%d multi=%d first_bad=%d waited_ms=%d\n", n, once, zero, multi, first_bad, (int)waited);
  fflush(stdout);
  // counters/checksum intentionally not freed: a late task must not turn into a harness UAF
  return 0;
}

// ----------------------------------------------------------------------- result types
static const char *LONGSTR = "a-result-string-that-is-definitely-longer-than-the-small-string-buffer-0123456789";
static std::mutex g_logm;
static std::vector<std::string> g_log;
struct SlowLog
{
  int v;
  SlowLog()
  {
    sleep_ms(15);  // slow: a task launched before this member is constructed finishes first
    v = -1;
    std::lock_guard<std::mutex> l(g_logm);
    g_log.push_back("SlowLog()");
  }
  explicit SlowLog(int x) : v(x) {}
};

// lifetime-instrumented payload: every special member is recorded against a live-set
struct Ev
{
  char k;
  const void *self;
  const void *other;
  bool live;  // was the object (for K: the source) inside its lifetime?
};
static std::mutex g_evm;
static std::vector<Ev> g_ev;
static std::set<const void *> g_live;
static void rec(char k, const void *self, const void *other = nullptr)
{
  std::lock_guard<std::mutex> l(g_evm);
  bool live = true;
  switch (k) {
  case 'C': case 'V':
    live = g_live.insert(self).second;  // false: constructed over a live object
    break;
  case 'K':
    live = g_live.count(other) != 0;
    g_live.insert(self);
    break;
  case 'A':
    live = g_live.count(self) != 0;
    break;
  case 'D':
    live = g_live.erase(self) != 0;
    break;
  }
  g_ev.push_back(Ev{k, self, other, live});
}
struct Tracked
{
  int v;
  Tracked() : v(0) { rec('C', this); }
  explicit Tracked(int x) : v(x) { rec('V', this); }
  Tracked(const Tracked &o) : v(o.v) { rec('K', this, &o); }
  Tracked(Tracked &&o) : v(o.v) { rec('K', this, &o); }
  Tracked &operator=(const Tracked &o) { rec('A', this, &o); v = o.v; return *this; }
  Tracked &operator=(Tracked &&o) { rec('A', this, &o); v = o.v; return *this; }
  ~Tracked() { rec('D', this); }
};

template <typename T> struct Mk;
template <> struct Mk<int>
{
  static const char *name() { return "int"; }
  static int make(int i) { return 1000 + i; }
  static const char *cls(const int &x, int i) { return x == 1000 + i ? "result" : (x == 0 ? "default" : "other"); }
};
template <> struct Mk<std::string>
{
  static const char *name() { return "string"; }
  static std::string make(int i) { return std::string(LONGSTR) + std::to_string(i); }
  static const char *cls(const std::string &x, int i) { return x == make(i) ? "result" : (x.empty() ? "default" : "other"); }
};
template <> struct Mk<std::vector<int>>
{
  static const char *name() { return "vector"; }
  static std::vector<int> make(int i) { return std::vector<int>(100 + i, i); }
  static const char *cls(const std::vector<int> &x, int i) { return x == make(i) ? "result" : (x.empty() ? "default" : "other"); }
};
template <> struct Mk<SlowLog>
{
  static const char *name() { return "slowlog"; }
  static SlowLog make(int i) { return SlowLog(5000 + i); }
  static const char *cls(const SlowLog &x, int i) { return x.v == 5000 + i ? "result" : (x.v == -1 ? "default" : "other"); }
};
template <> struct Mk<Tracked>
{
  static const char *name() { return "tracked"; }
  static Tracked make(int i) { return Tracked(7000 + i); }
  static const char *cls(const Tracked &x, int i) { return x.v == 7000 + i ? "result" : (x.v == 0 ? "default" : "other"); }
};

// -------------------------------------------------------------------------------- async
template <typename T> static void async_one(int reps)
{
  int ok = 0, bad = 0;
  std::string firstbad = "-";
  std::atomic<int> calls{0};
  for (int i = 0; i < reps; ++i) {
    std::atomic<int> *pc = &calls;
    auto fut = async([i, pc]() { (*pc)++; return Mk<T>::make(i); });
    T v = fut.get();
    const char *c = Mk<T>::cls(v, i);
    if (!strcmp(c, "result")) ok++; else { bad++; if (firstbad == "-") firstbad = std::string(c) + "@" + std::to_string(i); }
  }
  sleep_ms(20);
  printf("ASYNC type=%s reps=%d ok=%d bad=%d firstbad=%s fcn_calls=%d\n", Mk<T>::name(), reps, ok, bad, firstbad.c_str(), calls.load());
  fflush(stdout);
}
static int mode_async(int reps)
{
  async_one<int>(reps);
  async_one<std::string>(reps);
  async_one<std::vector<int>>(reps);
  async_one<SlowLog>(std::max(1, reps / 4));
  // several futures outstanding at once, collected in reverse order
  {
    std::vector<std::future<std::string>> futs;
    for (int i = 0; i < reps; ++i)
      futs.push_back(async([i]() { return Mk<std::string>::make(i); }));
    int ok = 0;
    for (int i = reps - 1; i >= 0; --i)
      ok += futs[i].get() == Mk<std::string>::make(i);
    printf("ASYNC type=string-outstanding reps=%d ok=%d bad=%d firstbad=- fcn_calls=%d\n", reps, ok, reps - ok, reps);
  }
  // an LVALUE functor (TASK_T deduced as F&: the packaged_task copies it), a void-returning function, and schedule() of an lvalue functor
  {
    struct Counting
    {
      std::atomic<int> *calls;
      int tag;
      int operator()() const { (*calls)++; return tag * 3; }
    };
    struct CountingVoid
    {
      std::atomic<int> *calls;
      void operator()() const { (*calls)++; }
    };
    static std::atomic<int> cc[3];   // static: a late task must not touch freed memory, and nothing leaks
    std::atomic<int> *c1 = &cc[0], *c2 = &cc[1], *c3 = &cc[2];
    int ok = 0;
    for (int i = 0; i < reps; ++i) {
      Counting f{c1, i};
      auto fut = async(f);                   // lvalue
      ok += fut.get() == i * 3 && f.tag == i;
    }
    printf("ASYNC type=lvalue-functor reps=%d ok=%d bad=%d firstbad=- fcn_calls=%d\n", reps, ok, reps - ok, c1->load());
    int okv = 0;
    for (int i = 0; i < reps; ++i) {
      int before = c2->load();
      std::future<void> fv = async([c2]() { (*c2)++; });
      fv.get();
      okv += c2->load() == before + 1;
    }
    printf("ASYNC type=void-result reps=%d ok=%d bad=%d firstbad=- fcn_calls=%d\n", reps, okv, reps - okv, c2->load());
    for (int i = 0; i < reps; ++i) {
      CountingVoid g{c3};
      schedule(g);                           // lvalue functor: copied into the task
    }
    auto t0 = clk::now();
    while (c3->load() < reps && ms_since(t0) < 5000) sleep_ms(1);
    sleep_ms(20);
    // std::function objects (lvalue and rvalue) handed to schedule() and async()
    {
      static std::atomic<int> sf[3];
      for (int i = 0; i < reps; ++i) {
        std::function<void()> f1 = []() { sf[0]++; };
        schedule(f1);
        std::function<void()> f2 = []() { sf[1]++; };
        schedule(std::move(f2));
        std::function<int()> f3 = [i]() { sf[2]++; return i; };
        auto fut = async(std::move(f3));
        if (fut.get() != i) sf[2] += 1000;
      }
      auto t1 = clk::now();
      while ((sf[0].load() < reps || sf[1].load() < reps) && ms_since(t1) < 5000) sleep_ms(1);
      sleep_ms(20);
      bool good = sf[0].load() == reps && sf[1].load() == reps && sf[2].load() == reps;
      printf("ASYNC type=std-function-lvalue/rvalue reps=%d ok=%d bad=%d firstbad=%d/%d/%d fcn_calls=%d\n", reps, good ? reps : 0, good ? 0 : reps,
          sf[0].load(), sf[1].load(), sf[2].load(), good ? reps : -1);
    }
    printf("ASYNC type=schedule-lvalue-functor reps=%d ok=%d bad=%d firstbad=- fcn_calls=%d\n", reps, c3->load() == reps ? reps : 0,
        c3->load() == reps ? 0 : reps, c3->load());
  }
  fflush(stdout);
  return 0;
}

// ---------------------------------------------------------------------------- AsyncTask
// scripts: get | finget (poll finished() then timed get()) | waitget | getget | drop (destroy at once)
static const char *SCRIPTS[] = {"get", "finget", "waitget", "getget", "drop", "finfinget"};

template <typename T> static void asynctask_one(const char *script, int i, int work_ms)
{
  typedef AsyncTask<T> AT;
  // the AsyncTask lives in storage we control, so events can be attributed to its result slot
  void *raw = ::operator new(sizeof(AT) + 64);
  memset(raw, 0, sizeof(AT) + 64);  // like static storage / a fresh page: a premature assignment is observable, not a wild crash
  char *lo = (char *)raw, *hi = lo + sizeof(AT) + 64;
  {
    std::lock_guard<std::mutex> l(g_evm);
    g_ev.clear();
  }
  std::shared_ptr<std::atomic<int>> calls = std::make_shared<std::atomic<int>>(0);
  std::shared_ptr<std::atomic<int>> ended = std::make_shared<std::atomic<int>>(0);
  AT *at = new (raw) AT([i, work_ms, calls, ended]() {
    (*calls)++;
    if (work_ms) sleep_ms(work_ms);
    T r = Mk<T>::make(i);
    (*ended)++;
    return r;
  });
  std::string vals;
  double get_ms = -1;
  int fin_true_then = -1;  // finished() returned true before the timed get()
  auto do_get = [&]() {
    auto t0 = clk::now();
    T v = at->get();
    get_ms = ms_since(t0);
    vals += std::string(vals.empty() ? "" : ",") + Mk<T>::cls(v, i);
  };
  if (!strcmp(script, "get")) {
    do_get();
  } else if (!strcmp(script, "finget") || !strcmp(script, "finfinget")) {
    auto t0 = clk::now();
    while (!at->finished() && ms_since(t0) < 10000)
      std::this_thread::yield();
    fin_true_then = at->finished() ? 1 : 0;
    if (!strcmp(script, "finfinget"))
      fin_true_then = (at->finished() && at->valid()) ? 1 : 0;
    do_get();
  } else if (!strcmp(script, "waitget")) {
    at->wait();
    int f = at->finished() ? 1 : 0;
    fin_true_then = f;  // after wait() the task is over: finished() must hold
    do_get();
  } else if (!strcmp(script, "getget")) {
    do_get();
    do_get();
  }
  int ended_before_dtor = ended->load();
  at->~AT();
  int ended_after_dtor = ended->load();
  // slot trace: events whose object (or copy source) lies inside the AsyncTask
  std::string trace;
  {
    std::lock_guard<std::mutex> l(g_evm);
    for (auto &e : g_ev) {
      bool self_in = (const char *)e.self >= lo && (const char *)e.self < hi;
      bool other_in = e.other && (const char *)e.other >= lo && (const char *)e.other < hi;
      char c = 0;
      if (self_in && (e.k == 'C' || e.k == 'A' || e.k == 'D')) c = e.k;
      else if (self_in && (e.k == 'V' || e.k == 'K')) c = 'C';   // constructed some other way
      else if (other_in && (e.k == 'K' || e.k == 'A')) c = 'R';  // slot read as a source
      if (c) trace += e.live ? c : (char)tolower(c);
    }
  }
  ::operator delete(raw);
  printf("AT type=%s script=%s work_ms=%d vals=%s fin=%d get_ms=%.2f calls=%d ended_at_dtor_return=%d trace=%s\n", Mk<T>::name(), script,
      work_ms, vals.empty() ? "-" : vals.c_str(), fin_true_then, get_ms, calls->load(), ended_after_dtor, trace.empty() ? "-" : trace.c_str());
  (void)ended_before_dtor;
  fflush(stdout);
}
static std::string g_only_script;   // optional filter: run only this client script
template <typename T> static void asynctask_type(int reps)
{
  for (int r = 0; r < reps; ++r)
    for (const char *s : SCRIPTS)
      if (g_only_script.empty() || g_only_script == s)
        asynctask_one<T>(s, r, (r % 3 == 0) ? 0 : (r % 3 == 1 ? 2 : 12));
}
static int mode_asynctask(int reps, const std::string &type)
{
  if (type == "int") asynctask_type<int>(reps);
  else if (type == "string") asynctask_type<std::string>(reps);
  else if (type == "vector") asynctask_type<std::vector<int>>(reps);
  else if (type == "slowlog") asynctask_type<SlowLog>(std::max(1, reps / 3));
  else if (type == "tracked") asynctask_type<Tracked>(reps);
  else return 2;
  int slow_logged;
  {
    std::lock_guard<std::mutex> l(g_logm);
    slow_logged = (int)g_log.size();
  }
  printf("ATDONE type=%s slowlog_default_constructions=%d\n", type.c_str(), slow_logged);
  return 0;
}

// ---------------------------------------------------- destroy while the task still runs
static int mode_destroy(int reps)
{
  int ok = 0, bad = 0;
  for (int i = 0; i < reps; ++i) {
    auto done = std::make_shared<std::atomic<int>>(0);
    auto *at = new AsyncTask<std::string>([done, i]() {
      sleep_ms(5 + 10 * (i % 3));
      (*done)++;
      return Mk<std::string>::make(i);
    });
    delete at;                       // must wait for the task; the task then writes retValue of a live object
    if (done->load() == 1) ok++; else bad++;
    // reuse the memory at once so that a late write by the task hits poisoned / foreign memory
    std::vector<char> *junk = new std::vector<char>(sizeof(AsyncTask<std::string>), 'x');
    delete junk;
  }
  sleep_ms(50);
  printf("DESTROY reps=%d task_ended_before_dtor_returned=%d not=%d\n", reps, ok, bad);
  fflush(stdout);
  return 0;
}

// ------------------------------------------------ one tasking thread, caller never waits
static int mode_onethread()
{
  initTaskingSystem(1);
  auto c = std::make_shared<std::atomic<int>>(0);
  schedule([c]() { (*c)++; });
  auto t0 = clk::now();
  while (c->load() == 0 && ms_since(t0) < 1500)
    sleep_ms(5);
  int before = c->load();
  // now the caller does "something with the tasking system"
  std::atomic<int> pf{0};
  parallel_for(4, [&](int) { pf++; });
  sleep_ms(50);
  printf("ONETHREAD threads=%d ran_without_caller_action=%d ran_after_caller_waited=%d pf=%d\n", numTaskingThreads(), before, c->load(), pf.load());
  fflush(stdout);
  return 0;
}


// ------------------------------- more pending schedule() calls than the pipe has slots
// initTaskingSystem(T); park all T-1 workers in scheduled closures spinning on a flag; schedule a burst of N
// counted closures from this thread (internal backend: the 256-slot pipe fills up, the rest must be run inline
// by the writer); release the workers; bounded wait for quiescence with this thread idle; every counter == 1.
struct Token
{
  static std::atomic<int> live;
  Token() { live++; }
  ~Token() { live--; }
};
std::atomic<int> Token::live{0};

static int mode_parkburst(int T, int n)
{
  initTaskingSystem(T);
  int threads = numTaskingThreads();
  std::atomic<int> *parked = new std::atomic<int>(0);
  std::atomic<int> *release = new std::atomic<int>(0);
  std::atomic<int> *parkers_done = new std::atomic<int>(0);
  int want_parked = 0;
#if defined(RKCOMMON_TASKING_TBB) || defined(RKCOMMON_TASKING_OMP) || defined(RKCOMMON_TASKING_INTERNAL)
  want_parked = T - 1;   // (Debug runs closures synchronously: nothing to park)
#endif
  for (int k = 0; k < want_parked; ++k)
    schedule([=]() {
      (*parked)++;
      auto t0 = clk::now();
      while (release->load() == 0 && ms_since(t0) < 30000)   // safety cut-off: never spin for ever
        std::this_thread::yield();
      (*parkers_done)++;
    });
  auto t0 = clk::now();
  while (parked->load() < want_parked && ms_since(t0) < 3000)
    sleep_ms(1);
  int parked_seen = parked->load();

  std::vector<std::atomic<int>> *counters = new std::vector<std::atomic<int>>(n);
  for (auto &c : *counters)
    c = 0;
  int main_inline = 0;
  std::thread::id me = std::this_thread::get_id();
  std::atomic<int> *inline_runs = new std::atomic<int>(0);
  for (int i = 0; i < n; ++i) {
    auto tok = std::make_shared<Token>();
    auto heap = std::make_shared<std::vector<int>>(4 + (i % 3), i);
    schedule([=]() {
      (void)tok;
      if (std::this_thread::get_id() == me)
        (*inline_runs)++;
      (*counters)[i] += (int)((*heap)[0] == i);
    });
  }
  int done_before_release = 0;
  for (auto &c : *counters)
    done_before_release += c.load() >= 1;
  (void)main_inline;
  release->store(1);
  t0 = clk::now();
  for (;;) {   // watchdog: bounded, this thread makes no tasking call
    int done = 0;
    for (auto &c : *counters)
      done += c.load() >= 1;
    if ((done == n && parkers_done->load() == want_parked) || ms_since(t0) > 6000)
      break;
    sleep_ms(2);
  }
  int waited = (int)ms_since(t0);
  sleep_ms(80);
  int zero = 0, once = 0, multi = 0, first_bad = -1;
  for (int i = 0; i < n; ++i) {
    int c = (*counters)[i].load();
    if (c == 0) zero++; else if (c == 1) once++; else multi++;
    if (c != 1 && first_bad < 0) first_bad = i;
  }
  printf("PARKBURST T=%d threads=%d n=%d parked=%d/%d once=%d zero=%d multi=%d first_bad=%d ran_before_release=%d ran_on_caller=%d "
         "parkers_done=%d live_closure_state=%d waited_ms=%d\n",
      T, threads, n, parked_seen, want_parked, once, zero, multi, first_bad, done_before_release, inline_runs->load(),
      parkers_done->load(), Token::live.load(), waited);
  fflush(stdout);
  // the verdict is the line above; leave without scheduler shutdown (a pipe that lost entries can make
  // ~TaskScheduler spin for ever, which would only replace the concrete counts by a timeout)
  _exit(0);
}

// ------------------------------------------ a scheduled closure that waits inside the tasking system
// A scheduled OUTER closure of a fixed functor type owns heap state with a canary, schedules an INNER closure of
// the SAME functor type and then blocks in a tasking wait (AsyncTask<int>::get() or a nested parallel_for), so that
// its thread may help run pending tasks — among them INNER — while OUTER's ExecuteRange is still on the stack.
// Afterwards OUTER checks its own canary / heap state.  Neither closure may be released while it runs.
namespace nested {
  static std::atomic<int> outerRuns{0}, innerRuns{0}, outerDone{0}, corrupt{0};
  static const unsigned LIVE = 0xA11CE5u;
  struct Canary
  {
    volatile unsigned magic;
    Canary() : magic(LIVE) {}
    Canary(const Canary &) : magic(LIVE) {}
    Canary &operator=(const Canary &) { return *this; }
    ~Canary() { magic = 0xDEADu; }
  };
  struct Job
  {
    int role;       // 0 inner, 1 outer
    int waitkind;   // 0 AsyncTask::get, 1 parallel_for
    std::vector<int> heap;
    Canary canary;
    Job(int r, int w, int n) : role(r), waitkind(w), heap(n, n) {}
    void operator()() const
    {
      if (role == 0) {
        long s = 0;
        for (int x : heap) s += x;
        if (canary.magic != LIVE || s != (long)heap.size() * (long)heap.size()) ++corrupt;
        ++innerRuns;
        return;
      }
      ++outerRuns;
      if (waitkind == 0) {
        AsyncTask<int> sub([]() { sleep_ms(1); return 5; });
        schedule(Job(0, waitkind, 8));
        if (sub.get() != 5) ++corrupt;
      } else {
        schedule(Job(0, waitkind, 8));
        std::atomic<int> pf{0};
        parallel_for(16, [&](int) { pf++; });
        if (pf.load() != 16) ++corrupt;
      }
      // this closure (the task object owning it) must still be intact
      if (canary.magic != LIVE) ++corrupt;
      long sum = 0;
      for (size_t i = 0; i < heap.size(); ++i) sum += heap[i];
      if (sum != (long)heap.size() * (long)heap.size()) ++corrupt;
      ++outerDone;
    }
  };
}
static int mode_nested(int T, int iters)
{
  using namespace nested;
  initTaskingSystem(T);
  int done_iters = 0;
  for (int w = 0; w < 2; ++w) {
    int base_o = outerDone.load(), base_i = innerRuns.load(), base_r = outerRuns.load(), base_c = corrupt.load();
    int completed = 0;
    for (int i = 1; i <= iters; ++i) {
      schedule(Job(1, w, 64));
      auto t0 = clk::now();
      while ((outerDone.load() < base_o + i || innerRuns.load() < base_i + i) && ms_since(t0) < 5000)
        sleep_ms(1);
      if (outerDone.load() < base_o + i || innerRuns.load() < base_i + i)
        break;
      completed = i;
    }
    sleep_ms(30);
    printf("NESTED T=%d wait=%s iters=%d completed=%d outer=%d inner=%d outer_done=%d corrupt=%d\n", T, w == 0 ? "asynctask_get" : "parallel_for",
        iters, completed, outerRuns.load() - base_r, innerRuns.load() - base_i, outerDone.load() - base_o, corrupt.load() - base_c);
    fflush(stdout);
    done_iters += completed;
  }
  _exit(0);   // verdict printed; no scheduler shutdown (see parkburst)
}

// ---------------------------------------------- wake-up of a worker that is just going to sleep
// initTaskingSystem(T); one schedule() at a time, issued a swept delay (0..100 us) after the previous closure was seen
// to finish, i.e. around the moment the idle worker leaves its spin loop and blocks on the scheduler's semaphore.
// The caller only spins on the closure's flag (no tasking call): every closure must run within 2 s.
static void spin_for_us(double us)
{
  auto t0 = clk::now();
  while (std::chrono::duration<double, std::micro>(clk::now() - t0).count() < us) {}
}
static int mode_wakeup(int T, int budget_ms)
{
  initTaskingSystem(T);
  std::atomic<long> *ran = new std::atomic<long>(0);
  long calls = 0, lost = 0;
  int lost_delay = -1;
  double worst_ms = 0;
  auto tstart = clk::now();
  // warm up: let the workers start and fall asleep once
  sleep_ms(20);
  while (ms_since(tstart) < budget_ms && !lost) {
    for (int d = 0; d <= 100 && !lost; ++d) {
      long before = ran->load();
      schedule([ran]() { (*ran)++; });
      calls++;
      auto t0 = clk::now();
      while (ran->load() == before) {
        double w = ms_since(t0);
        if (w > 2000) { lost++; lost_delay = d; break; }
        if (w > 1) std::this_thread::yield();
      }
      double w = ms_since(t0);
      if (w > worst_ms) worst_ms = w;
      if (!lost) spin_for_us(d);
    }
  }
  long ran_after = ran->load();
  printf("WAKEUP T=%d threads=%d calls=%ld lost=%ld delay_us_of_lost_call=%d worst_latency_ms=%.2f ran=%ld elapsed_ms=%d\n", T, numTaskingThreads(),
      calls, lost, lost_delay, worst_ms, ran_after, (int)ms_since(tstart));
  fflush(stdout);
  _exit(0);
}

// ------------------------------------------------ schedule() must use the CALLER's arena on every call (TBB)
// First schedule() of a functor type is issued from inside a small tbb::task_arena(2,1) with a long-running closure
// (occupying that arena's only worker); then schedule() of the SAME functor type from the main thread must run
// within 2 s.  Other asynchronous backends: the same without the arena (a long-running closure must not block later ones).
namespace arena_case {
  struct Fn
  {
    int role;   // 1: long-running (spins until released), 0: counted
    std::atomic<int> *started, *release, *counter;
    void operator()() const
    {
      if (role == 1) {
        (*started)++;
        auto t0 = clk::now();
        while (release->load() == 0 && ms_since(t0) < 8000)
          std::this_thread::yield();
        return;
      }
      (*counter)++;
    }
  };
}
static int mode_arena(int reps)
{
  using arena_case::Fn;
  std::atomic<int> *started = new std::atomic<int>(0), *release = new std::atomic<int>(0), *counter = new std::atomic<int>(0);
#if defined(RKCOMMON_TASKING_TBB)
  tbb::task_arena small(2, 1);
  small.execute([&]() { schedule(Fn{1, started, release, counter}); });
  const char *how = "first-call-inside-task_arena(2,1)";
#else
  schedule(Fn{1, started, release, counter});
  const char *how = "first-call-long-running";
#endif
  auto t0 = clk::now();
  while (started->load() == 0 && ms_since(t0) < 3000)
    sleep_ms(1);
  int long_started = started->load();
  int ran = 0;
  double worst = 0;
  for (int i = 0; i < reps; ++i) {
    int before = counter->load();
    schedule(Fn{0, started, release, counter});
    auto t1 = clk::now();
    while (counter->load() == before && ms_since(t1) < 2000)
      sleep_ms(1);
    double w = ms_since(t1);
    if (w > worst) worst = w;
    if (counter->load() > before) ran++; else break;
  }
  release->store(1);
  sleep_ms(50);
  printf("ARENA how=%s long_running_started=%d later_calls=%d ran_within_2s=%d worst_ms=%.1f ran_after_release=%d\n", how, long_started, reps, ran,
      worst, counter->load());
  fflush(stdout);
  _exit(0);
}

// ------------------------------------------------ pipe owner and thief race for the ONLY queued item
// The thread that queued a task pops its own pipe (get() / wait() / destructor / a nested parallel_for) in the same few
// instructions in which a worker steals that item.  Variants: get (AsyncTask<int> construct + immediate get()),
// drop (construct + immediate destruction), pf (schedule() of one closure, then parallel_for(1) on the caller).
// Every body must run exactly once; a watchdog thread turns a hang into a verdict.
static int mode_ownerthief(int T, const std::string &variant, int budget_ms)
{
  initTaskingSystem(T);
  const long CAP = 4000000;
  std::vector<std::atomic<int>> *cnt = new std::vector<std::atomic<int>>(CAP);
  for (auto &c : *cnt) c = 0;
  std::atomic<long> *progress = new std::atomic<long>(0);
  std::atomic<int> *finished_flag = new std::atomic<int>(0);
  auto tstart = clk::now();
  // watchdog: no progress for 3 s => hang
  std::thread([=]() {
    long last = -1;
    auto tl = clk::now();
    for (;;) {
      sleep_ms(50);
      if (finished_flag->load()) return;
      long p = progress->load();
      if (p != last) { last = p; tl = clk::now(); }
      else if (ms_since(tl) > 3000) {
        long twice = 0, zero = 0;
        for (long i = 0; i < p; ++i) { int c = (*cnt)[i].load(); twice += c > 1; zero += c == 0; }
        printf("OWNERTHIEF T=%d variant=%s iters=%ld twice=%ld zero=%ld wrong_value=0 hang=1 hung_at_iteration=%ld\n", T, variant.c_str(), p, twice,
            zero, p);
        fflush(stdout);
        _exit(0);
      }
    }
  }).detach();
  long i = 0, wrong = 0;
  std::vector<std::atomic<int>> &C = *cnt;
  while (i < CAP && ms_since(tstart) < budget_ms) {
    for (int k = 0; k < 64 && i < CAP; ++k, ++i) {
      std::atomic<int> *slot = &C[i];
      if (variant == "get") {
        AsyncTask<int> at([slot, i]() { (*slot)++; return (int)(i & 0x7fffffff); });
        if (at.get() != (int)(i & 0x7fffffff)) wrong++;
      } else if (variant == "drop") {
        AsyncTask<int> at([slot]() { (*slot)++; return 1; });
      } else {
        schedule([slot]() { (*slot)++; });
        std::atomic<int> pf{0};
        parallel_for(1, [&](int) { pf++; });
        if (pf.load() != 1) wrong++;
      }
      progress->store(i + 1);
    }
  }
  // late executions / duplicates
  auto t0 = clk::now();
  for (;;) {
    long pending = 0;
    for (long j = (i > 2000 ? i - 2000 : 0); j < i; ++j) pending += C[j].load() == 0;
    if (!pending || ms_since(t0) > 2000) break;
    sleep_ms(2);
  }
  sleep_ms(30);
  finished_flag->store(1);
  long twice = 0, zero = 0, first_bad = -1;
  for (long j = 0; j < i; ++j) {
    int c = C[j].load();
    twice += c > 1; zero += c == 0;
    if (c != 1 && first_bad < 0) first_bad = j;
  }
  printf("OWNERTHIEF T=%d variant=%s iters=%ld twice=%ld zero=%ld wrong_value=%ld hang=0 first_bad_iteration=%ld\n", T, variant.c_str(), i, twice, zero,
      wrong, first_bad);
  fflush(stdout);
  _exit(0);
}

// ------------------------------------------------ a task queued by a busy WORKER must be stolen by another worker
// Closure A (run by some worker X) schedules closure B — which lands in X's own pipe — and then spins (no tasking call)
// until B has run.  Only another worker can run B: it has to look into X's pipe.  B must run within 2 s.
static int mode_steal(int T, int iters)
{
  initTaskingSystem(T);
  std::atomic<int> *a_done = new std::atomic<int>(0), *b_ran = new std::atomic<int>(0), *late = new std::atomic<int>(0);
  int completed = 0;
  for (int i = 0; i < iters; ++i) {
    int b0 = b_ran->load();
    schedule([=]() {
      schedule([=]() { (*b_ran)++; });
      auto t0 = clk::now();
      while (b_ran->load() == b0 && ms_since(t0) < 2000)
        std::this_thread::yield();
      if (b_ran->load() == b0) (*late)++;
      (*a_done)++;
    });
    auto t0 = clk::now();
    while (a_done->load() <= i && ms_since(t0) < 4000)
      sleep_ms(1);
    if (a_done->load() <= i) break;
    completed = i + 1;
    if (late->load()) break;
    sleep_ms(1);
  }
  sleep_ms(30);
  printf("STEAL T=%d iters=%d completed=%d inner_not_run_within_2s=%d inner_ran=%d\n", T, iters, completed, late->load(), b_ran->load());
  fflush(stdout);
  _exit(0);
}

// ------------------------------------------------ scheduler teardown: re-initialisation and process exit
// teardown reinit <T> <T2> <n> <depth>: initTaskingSystem(T); a burst of n closures, each bumping its counter and (depth > 0)
//   scheduling a follow-up chain of that depth; IMMEDIATELY initTaskingSystem(T2).  When that returns the old scheduler has
//   been torn down: every counter (burst and follow-ups) must be exactly 1.
// teardown exit <T> <n> <depth>: the same burst, then main() returns at once; the verdict is written by an ELF destructor
//   (runs after all C++ static destructors, i.e. after the scheduler's).
namespace td {
  static std::vector<std::atomic<int>> *cnt = nullptr;
  static int total = 0, exit_mode = 0, exit_T = 0, exit_n = 0, exit_depth = 0;
  struct Chain
  {
    int base, level, depth, n;
    void operator()() const
    {
      (*cnt)[level * n + base]++;
      if (level < depth) schedule(Chain{base, level + 1, depth, n});
    }
  };
  static void verdict(const char *what, int T, int T2, int n, int depth)
  {
    int once = 0, zero = 0, multi = 0, first_bad = -1;
    for (int i = 0; i < total; ++i) {
      int c = (*cnt)[i].load();
      if (c == 1) once++; else if (c == 0) zero++; else multi++;
      if (c != 1 && first_bad < 0) first_bad = i;
    }
    printf("TEARDOWN kind=%s T=%d T2=%d n=%d depth=%d tasks=%d once=%d zero=%d multi=%d first_bad=%d\n", what, T, T2, n, depth, total, once, zero,
        multi, first_bad);
    fflush(stdout);
  }
  __attribute__((destructor)) static void at_very_end()
  {
    if (exit_mode) {
      verdict("exit", exit_T, 0, exit_n, exit_depth);
      _exit(0);
    }
  }
}
static int mode_teardown(int argc, char **argv)
{
  std::string kind = argc > 2 ? argv[2] : "reinit";
  int T = argc > 3 ? atoi(argv[3]) : 2;
  int T2 = 0, n, depth;
  if (kind == "reinit") { T2 = atoi(argv[4]); n = atoi(argv[5]); depth = atoi(argv[6]); }
  else { n = atoi(argv[4]); depth = atoi(argv[5]); }
  td::total = n * (depth + 1);
  td::cnt = new std::vector<std::atomic<int>>(td::total);
  for (auto &c : *td::cnt) c = 0;
  // watchdog: a teardown that never returns
  std::thread([=]() {
    sleep_ms(20000);
    printf("TEARDOWN kind=%s T=%d T2=%d n=%d depth=%d tasks=%d once=-1 zero=-1 multi=-1 first_bad=-1 HANG\n", kind.c_str(), T, T2, n, depth, td::total);
    fflush(stdout);
    _exit(0);
  }).detach();
  initTaskingSystem(T);
  for (int i = 0; i < n; ++i)
    schedule(td::Chain{i, 0, depth, n});
  if (kind == "reinit") {
    initTaskingSystem(T2);
    td::verdict("reinit", T, T2, n, depth);
    _exit(0);
  }
  td::exit_mode = 1; td::exit_T = T; td::exit_n = n; td::exit_depth = depth;
  return 0;   // static destructors (the scheduler's among them) run now; then td::at_very_end
}

// ------------------------------------------------ dependency chains between scheduled closures, caller never waits
// k closures scheduled back to back by this thread: closure i spins (no tasking call, deadline 2 s) until closure i+1 — scheduled
// AFTER it — has set its flag; the last one just sets its flag.  k <= T-1 workers are needed at once, so every push must wake a
// worker (they are all asleep when the burst starts).  The caller only polls the flags.
static int sleeping_threads()
{
  int n = 0;
  char path[64], buf[512];
  for (int tid = getpid(); tid < getpid() + 4096; ++tid) {
    snprintf(path, sizeof path, "/proc/self/task/%d/wchan", tid);
    FILE *f = fopen(path, "r");
    if (!f) continue;
    size_t k = fread(buf, 1, sizeof buf - 1, f);
    buf[k] = 0;
    fclose(f);
    if (strstr(buf, "futex")) n++;
  }
  return n;
}
static int mode_chain(int T, int k, int iters)
{
  initTaskingSystem(T);
  int late = 0, completed = 0, asleep_when_late = -1, late_iter = -1, late_link = -1;
  for (int it = 0; it < iters && !late; ++it) {
    sleep_ms(3);      // let every worker leave its spin loop and block on the semaphore
    std::vector<std::atomic<int>> *flag = new std::vector<std::atomic<int>>(k);
    std::vector<std::atomic<int>> *timedout = new std::vector<std::atomic<int>>(k);
    for (int i = 0; i < k; ++i) { (*flag)[i] = 0; (*timedout)[i] = 0; }
    for (int i = 0; i < k; ++i) {
      schedule([=]() {
        if (i + 1 < k) {
          auto t0 = clk::now();
          while ((*flag)[i + 1].load() == 0 && ms_since(t0) < 2000)
            std::this_thread::yield();
          if ((*flag)[i + 1].load() == 0) (*timedout)[i] = 1;
        }
        (*flag)[i] = 1;
      });
    }
    auto t0 = clk::now();
    int asleep_mid = -1;
    for (;;) {
      int done = 0;
      for (int i = 0; i < k; ++i) done += (*flag)[i].load();
      if (done == k || ms_since(t0) > 4000 + 2000 * k) break;
      if (asleep_mid < 0 && ms_since(t0) > 300) asleep_mid = sleeping_threads();   // a healthy burst is long over by now
      sleep_ms(1);
    }
    for (int i = 0; i < k; ++i)
      if ((*timedout)[i].load() || (*flag)[i].load() == 0) { late++; if (late_link < 0) late_link = i; }
    if (late) { late_iter = it; asleep_when_late = asleep_mid; }
    else completed++;
  }
  printf("CHAIN T=%d k=%d iters=%d completed=%d links_not_satisfied_within_2s=%d at_iteration=%d first_waiting_closure=%d threads_asleep_meanwhile=%d\n", T, k,
      iters, completed, late, late_iter, late_link, asleep_when_late);
  fflush(stdout);
  _exit(0);
}

int main(int argc, char **argv)
{
  if (argc < 2) return 2;
  std::string m = argv[1];
  int n = argc > 2 ? atoi(argv[2]) : 1;
  if (m == "traits") {
    typedef AsyncTask<int> A;
    typedef rkcommon::tasking::detail::AsyncTaskImpl<std::function<void()>> I;
    printf("TRAITS copy_constructible=%d copy_assignable=%d move_constructible=%d move_assignable=%d impl_copy_constructible=%d polymorphic=%d\n",
        (int)std::is_copy_constructible<A>::value, (int)std::is_copy_assignable<A>::value, (int)std::is_move_constructible<A>::value,
        (int)std::is_move_assignable<A>::value, (int)std::is_copy_constructible<I>::value, (int)std::is_polymorphic<A>::value);
    return 0;
  }
  if (m == "onethread") return mode_onethread();
  if (m == "teardown") return mode_teardown(argc, argv);
  if (m == "chain") return mode_chain(n, argc > 3 ? atoi(argv[3]) : 2, argc > 4 ? atoi(argv[4]) : 20);
  if (m == "steal") return mode_steal(n, argc > 3 ? atoi(argv[3]) : 30);
  if (m == "ownerthief") return mode_ownerthief(n, argc > 3 ? argv[3] : "get", argc > 4 ? atoi(argv[4]) : 500);
  if (m == "wakeup") return mode_wakeup(n, argc > 3 ? atoi(argv[3]) : 3000);
  if (m == "nested") return mode_nested(n, argc > 3 ? atoi(argv[3]) : 8);
  if (m == "parkburst") return mode_parkburst(n, argc > 3 ? atoi(argv[3]) : 300);
  int nt = 4;
  initTaskingSystem(nt);
  if (m == "arena") return mode_arena(n);
  if (m == "burst") return mode_burst(n);
  if (m == "async") return mode_async(n);
  if (m == "asynctask") {
    if (argc > 4) g_only_script = argv[4];
    return mode_asynctask(n, argc > 3 ? argv[3] : "int");
  }
  if (m == "destroy") return mode_destroy(n);
  return 2;
}
