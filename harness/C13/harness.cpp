// C13 correspondence harness: initTaskingSystem / numTaskingThreads / parallel_for of the working tree,
// built once per tasking backend.  The tasking handle is process-global, so every case runs in a
// forked child of a parent that has never touched the tasking system.
//   harness seq   : stdin lines "n1 n2 ..."                 -> "r0 r1 r2 ..." (numTaskingThreads before / after each init)
//   harness pf    : stdin lines "nfirst n size dur"         -> "report=R count=C max_inside=M ids=I"
//                   (nfirst != 0: an earlier initTaskingSystem(nfirst); dur: 0 | 50 | -1 (uneven))
#include <atomic>
#include <chrono>
#include <cstdio>
#include <cstdlib>
#include <cstring>
#include <iostream>
#include <mutex>
#include <set>
#include <sstream>
#include <string>
#include <thread>
#include <vector>
#include <sys/wait.h>
#include <unistd.h>

#include "rkcommon/tasking/parallel_for.h"
#include "rkcommon/tasking/tasking_system_init.h"

using namespace rkcommon::tasking;
typedef std::chrono::steady_clock clk;

static void spin_us(int us)
{
  if (us <= 0) return;
  auto end = clk::now() + std::chrono::microseconds(us);
  while (clk::now() < end) {}
}

static std::string child_seq(const std::vector<int> &ns)
{
  std::ostringstream o;
  o << numTaskingThreads();
  for (int n : ns) {
    initTaskingSystem(n);
    o << " " << numTaskingThreads();
  }
  return o.str();
}

static std::string child_pf(const std::vector<int> &a)
{
  if (a.size() != 4) return "bad-case";
  int nfirst = a[0], n = a[1], size = a[2], dur = a[3];
  if (nfirst != 0) {
    initTaskingSystem(nfirst);
    std::atomic<int> warm{0};
    parallel_for(4 * (nfirst > 0 ? nfirst : 4), [&](int) { warm++; spin_us(20); });  // let the old configuration spin up its threads
  }
  initTaskingSystem(n);
  int rep = numTaskingThreads();
  {
    std::atomic<int> warm{0};  // wake the workers of the new configuration (not measured)
    parallel_for(8 * (rep > 0 ? rep : 1), [&](int) { warm++; spin_us(100); });
  }
  std::atomic<int> inside{0}, maxin{0}, count{0};
  std::mutex m;
  std::set<std::thread::id> ids;
  parallel_for(size, [&](int i) {
    int cur = ++inside;
    int old = maxin.load();
    while (cur > old && !maxin.compare_exchange_weak(old, cur)) {}
    {
      std::lock_guard<std::mutex> l(m);
      ids.insert(std::this_thread::get_id());
    }
    spin_us(dur >= 0 ? dur : (i % 7 == 0 ? 200 : 5));
    count++;
    --inside;
  });
  std::ostringstream o;
  o << "report=" << rep << " count=" << count.load() << " max_inside=" << maxin.load() << " ids=" << ids.size();
  return o.str();
}

int main(int argc, char **argv)
{
  if (argc < 2) return 2;
  std::string mode = argv[1];
  std::string line;
  while (std::getline(std::cin, line)) {
    std::vector<int> v;
    std::istringstream is(line);
    int x;
    while (is >> x) v.push_back(x);
    int fd[2];
    if (pipe(fd) != 0) return 3;
    fflush(stdout);
    pid_t pid = fork();
    if (pid == 0) {
      close(fd[0]);
      std::string r = mode == "seq" ? child_seq(v) : child_pf(v);
      r += "\n";
      ssize_t w = write(fd[1], r.c_str(), r.size());
      (void)w;
      close(fd[1]);
      _exit(0);
    }
    close(fd[1]);
    std::string out;
    char buf[256];
    ssize_t k;
    while ((k = read(fd[0], buf, sizeof buf)) > 0) out.append(buf, k);
    close(fd[0]);
    int st = 0;
    waitpid(pid, &st, 0);
    if (out.empty() || !WIFEXITED(st) || WEXITSTATUS(st) != 0) {
      printf("CRASH status=%d signal=%d partial=%s\n", WIFEXITED(st) ? WEXITSTATUS(st) : -1, WIFSIGNALED(st) ? WTERMSIG(st) : 0,
          out.empty() ? "-" : out.substr(0, out.size() - 1).c_str());
    } else {
      fputs(out.c_str(), stdout);
    }
    fflush(stdout);
  }
  return 0;
}
