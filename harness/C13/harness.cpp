// C13 correspondence harness: initTaskingSystem / numTaskingThreads / parallel_for of the working tree,
// built once per tasking backend.  The tasking handle is process-global, so every case runs in a
// forked child of a parent that has never touched the tasking system.  Every child has a watchdog
// (C13_CASE_DEADLINE_S, default 8 s for seq / 20 s for pf; 3 s once three children have hung): a hung child is diagnosed on
// stderr (HANGDIAG lines), killed and reported as "HANG after_result=<0|1> partial=...".
//   harness seq   : stdin lines "n1 n2 ..."                 -> "r0 r1 r2 ..." (numTaskingThreads before / after each init)
//   harness seq   : a token f<n> is initTaskingSystem(n, /*flushDenormals*/ true); tokens may also be u (a parallel_for) / s (a schedule()d closure): uses before / between inits
//   harness cre   : stdin lines "n m ms"  -> one thread loops parallel_for while this thread alternates init(n)/init(m)
//   harness ot    : stdin lines "n size dur" -> the same measured loop from the initialising thread and from another thread
//   harness rif   : "n m tasks" re-initialisation with scheduled tasks in flight that run measured parallel_for loops
//   harness qs    : "n" numTaskingThreads() asked from the main thread, loop bodies (first-level, nested) and a scheduled task
//   harness pf    : stdin lines "nfirst n size dur"         -> "report=R count=C max_inside=M ids=I"
//                   (nfirst != 0: an earlier initTaskingSystem(nfirst); dur: 0 | 50 | -1 (uneven) | -2 (NESTED:
//                   each of the size outer bodies runs parallel_for(8) with 200 us bodies; count = inner bodies))
#include <atomic>
#include <chrono>
#include <cstdio>
#include <cstdlib>
#include <cstring>
#include <iostream>
#include <mutex>
#include <set>
#include <sstream>
#include <string>
#include <thread>
#include <vector>
#include <cerrno>
#include <poll.h>
#include <signal.h>
#include <sys/wait.h>
#if defined(__SSE__)
#include <xmmintrin.h>
#endif
#include <unistd.h>

#include "rkcommon/tasking/parallel_for.h"
#include "rkcommon/tasking/schedule.h"
#include "rkcommon/tasking/tasking_system_init.h"

using namespace rkcommon::tasking;
typedef std::chrono::steady_clock clk;

static void spin_us(int us)
{
  if (us <= 0) return;
  auto end = clk::now() + std::chrono::microseconds(us);
  while (clk::now() < end) {}
}

// ops: integers = initTaskingSystem(n); USE_PF = a parallel_for(16) (uses the tasking system, may start it lazily);
// USE_SCHED = a schedule()d closure, waited for.  After every op numTaskingThreads() is reported.
static const int USE_PF = 1000001, USE_SCHED = 1000002, FLAG_BASE = 2000000;   // FLAG_BASE + n + 100: initTaskingSystem(n, true)
static std::string child_seq(const std::vector<int> &ns)
{
  std::ostringstream o;
  o << numTaskingThreads();
  for (int n : ns) {
    if (n == USE_PF) {
      std::atomic<int> c{0};
      parallel_for(16, [&](int) { c++; });
      if (c.load() != 16) o << " BADLOOP";
    } else if (n == USE_SCHED) {
      std::atomic<int> *c = new std::atomic<int>(0);
      schedule([c]() { (*c)++; });
      std::atomic<int> pf{0};
      parallel_for(2, [&](int) { pf++; });      // also lets a 1-thread internal system run the closure
      auto t0 = clk::now();
      while (c->load() == 0 && clk::now() - t0 < std::chrono::milliseconds(300)) std::this_thread::yield();
    } else if (n >= FLAG_BASE) {
      initTaskingSystem(n - FLAG_BASE - 100, true);     // flushDenormals = true: sets FTZ/DAZ in the CALLING thread's MXCSR, nothing else
#if defined(__SSE__) && !defined(RKCOMMON_NO_SIMD)
      if ((_mm_getcsr() & 0x8040) != 0x8040) o << " NOFLUSH";
#endif
    } else
      initTaskingSystem(n);
    o << " " << numTaskingThreads();
  }
  return o.str();
}

// concurrent re-initialisation: one thread keeps running parallel_for loops (bodies count how many are inside at once)
// while this thread alternates initTaskingSystem(n) / initTaskingSystem(m) for ms milliseconds.
static std::string child_cre(const std::vector<int> &a)
{
  if (a.size() != 3) return "bad-case";
  int n = a[0], m = a[1], ms = a[2];
  initTaskingSystem(n);
  std::atomic<int> inside{0}, maxin{0}, stop{0};
  std::atomic<long> bodies{0}, loops{0};
  std::thread looper([&]() {
    while (!stop.load()) {
      parallel_for(64, [&](int) {
        int cur = ++inside;
        int old = maxin.load();
        while (cur > old && !maxin.compare_exchange_weak(old, cur)) {}
        spin_us(60);
        bodies++;
        --inside;
      });
      loops++;
    }
  });
  auto t0 = clk::now();
  long reinits = 0;
  while (clk::now() - t0 < std::chrono::milliseconds(ms)) {
    initTaskingSystem((reinits & 1) ? n : m);
    reinits++;
    spin_us(150);
  }
  stop = 1;
  looper.join();
  std::ostringstream o;
  o << "n=" << n << " m=" << m << " reinits=" << reinits << " loops=" << loops.load() << " bodies=" << bodies.load() << " max_inside=" << maxin.load()
    << " report=" << numTaskingThreads();
  return o.str();
}

// loop issued by the initialising thread (control) and by ANOTHER thread: "n size dur_us"
static std::string child_ot(const std::vector<int> &a)
{
  if (a.size() != 3) return "bad-case";
  int n = a[0], size = a[1], dur = a[2];
  initTaskingSystem(n);
  int rep = numTaskingThreads();
  auto measure = [&](int &maxout, int &cnt, int &nids) {
    std::atomic<int> inside{0}, maxin{0}, count{0};
    std::mutex m;
    std::set<std::thread::id> ids;
    {
      std::atomic<int> warm{0};
      parallel_for(8 * (rep > 0 ? rep : 1), [&](int) { warm++; spin_us(100); });
    }
    parallel_for(size, [&](int) {
      int cur = ++inside;
      int old = maxin.load();
      while (cur > old && !maxin.compare_exchange_weak(old, cur)) {}
      {
        std::lock_guard<std::mutex> l(m);
        ids.insert(std::this_thread::get_id());
      }
      spin_us(dur);
      count++;
      --inside;
    });
    maxout = maxin.load(); cnt = count.load(); nids = (int)ids.size();
  };
  int m0 = 0, c0 = 0, i0 = 0, m1 = 0, c1 = 0, i1 = 0;
  measure(m0, c0, i0);                                   // control: the initialising thread
  std::thread other([&]() { measure(m1, c1, i1); });     // a thread that never called initTaskingSystem
  other.join();
  std::ostringstream o;
  o << "report=" << rep << " init_thread_count=" << c0 << " init_thread_max_inside=" << m0 << " init_thread_ids=" << i0
    << " other_thread_count=" << c1 << " other_thread_max_inside=" << m1 << " other_thread_ids=" << i1;
  return o.str();
}

// re-initialisation with scheduled tasks IN FLIGHT that themselves run measured parallel_for loops: "n m tasks"
static std::string child_rif(const std::vector<int> &a)
{
  if (a.size() != 3) return "bad-case";
  int n = a[0], m = a[1], tasks = a[2];
  initTaskingSystem(n);
  static std::atomic<int> inside{0}, maxin{0}, maxin_after{0}, after{0}, done{0}, bodies{0};
  auto body = [](int) {
    int cur = ++inside;
    int old = maxin.load();
    while (cur > old && !maxin.compare_exchange_weak(old, cur)) {}
    if (after.load()) {
      int o2 = maxin_after.load();
      while (cur > o2 && !maxin_after.compare_exchange_weak(o2, cur)) {}
    }
    spin_us(80);
    bodies++;
    --inside;
  };
  for (int i = 0; i < tasks; ++i)
    schedule([=]() {
      for (int r = 0; r < 6; ++r)
        parallel_for(48, body);
      done++;
    });
  spin_us(300);                       // the first tasks are running their loops now
  initTaskingSystem(m);               // re-initialise with the tasks in flight
  int rep = numTaskingThreads();
  int done_at_return = done.load();
  after = 1;
  for (int r = 0; r < 4; ++r)
    parallel_for(64, body);           // loops issued after the re-initialisation returned, next to whatever is still in flight
  auto t0 = clk::now();
  while (done.load() < tasks && clk::now() - t0 < std::chrono::seconds(10)) std::this_thread::yield();
  std::ostringstream o;
  o << "n=" << n << " m=" << m << " tasks=" << tasks << " report=" << rep << " tasks_done_at_return=" << done_at_return << " tasks_done=" << done.load()
    << " bodies=" << bodies.load() << " max_inside=" << maxin.load() << " max_inside_after_return=" << maxin_after.load();
  return o.str();
}

// numTaskingThreads() asked from different sites: "n"
static std::string child_qs(const std::vector<int> &a)
{
  if (a.size() != 1) return "bad-case";
  int n = a[0];
  initTaskingSystem(n);
  int q_main = numTaskingThreads();
  std::atomic<int> lo1{1 << 30}, hi1{-1}, lo2{1 << 30}, hi2{-1}, qs{-1};
  auto rec = [](std::atomic<int> &lo, std::atomic<int> &hi) {
    int v = numTaskingThreads();
    int o = lo.load(); while (v < o && !lo.compare_exchange_weak(o, v)) {}
    o = hi.load(); while (v > o && !hi.compare_exchange_weak(o, v)) {}
  };
  int width = 4 * (q_main > 0 ? q_main : 1);
  parallel_for(width, [&](int) { rec(lo1, hi1); spin_us(30); });                                    // first-level loop body
  parallel_for(q_main > 0 ? q_main : 1, [&](int) { parallel_for(4, [&](int) { rec(lo2, hi2); spin_us(30); }); });   // nested loop body
  std::atomic<int> *pq = &qs;
  schedule([pq]() { pq->store(numTaskingThreads()); });                                               // a scheduled task
  std::atomic<int> pf{0};
  parallel_for(2, [&](int) { pf++; });
  auto t0 = clk::now();
  while (qs.load() < 0 && clk::now() - t0 < std::chrono::seconds(3)) std::this_thread::yield();
  std::ostringstream o;
  o << "n=" << n << " main=" << q_main << " loop_body_min=" << lo1.load() << " loop_body_max=" << hi1.load() << " nested_body_min=" << lo2.load()
    << " nested_body_max=" << hi2.load() << " scheduled_task=" << qs.load();
  return o.str();
}

static std::string child_pf(const std::vector<int> &a)
{
  if (a.size() != 4) return "bad-case";
  int nfirst = a[0], n = a[1], size = a[2], dur = a[3];
  if (nfirst != 0) {
    initTaskingSystem(nfirst);
    std::atomic<int> warm{0};
    parallel_for(4 * (nfirst > 0 ? nfirst : 4), [&](int) { warm++; spin_us(20); });  // let the old configuration spin up its threads
  }
  initTaskingSystem(n);
  int rep = numTaskingThreads();
  {
    std::atomic<int> warm{0};  // wake the workers of the new configuration (not measured)
    parallel_for(8 * (rep > 0 ? rep : 1), [&](int) { warm++; spin_us(100); });
  }
  std::atomic<int> inside{0}, maxin{0}, count{0};
  std::mutex m;
  std::set<std::thread::id> ids;
  if (dur == -2) {
    // NESTED: every outer body runs its own parallel_for(8) whose bodies spin 200 us; only the INNER bodies are counted.
    // The limit is on threads inside bodies at the same time, whatever the nesting.
    parallel_for(size, [&](int) {
      parallel_for(8, [&](int) {
        int cur = ++inside;
        int old = maxin.load();
        while (cur > old && !maxin.compare_exchange_weak(old, cur)) {}
        {
          std::lock_guard<std::mutex> l(m);
          ids.insert(std::this_thread::get_id());
        }
        spin_us(200);
        count++;
        --inside;
      });
    });
  } else
  parallel_for(size, [&](int i) {
    int cur = ++inside;
    int old = maxin.load();
    while (cur > old && !maxin.compare_exchange_weak(old, cur)) {}
    {
      std::lock_guard<std::mutex> l(m);
      ids.insert(std::this_thread::get_id());
    }
    spin_us(dur >= 0 ? dur : (i % 7 == 0 ? 200 : 5));
    count++;
    --inside;
  });
  std::ostringstream o;
  o << "report=" << rep << " count=" << count.load() << " max_inside=" << maxin.load() << " ids=" << ids.size();
  return o.str();
}

// where is a hung child stuck?  per-thread kernel state from /proc, and a gdb backtrace if gdb is there (stderr)
static void diagnose(pid_t pid)
{
  fprintf(stderr, "HANGDIAG pid=%d\n", (int)pid);
  char cmd[512];
  snprintf(cmd, sizeof cmd,
      "for t in /proc/%d/task/*; do echo \"HANGDIAG tid=${t##*/} comm=$(cat $t/comm 2>/dev/null) state=$(cut -d' ' -f3 $t/stat 2>/dev/null) "
      "wchan=$(cat $t/wchan 2>/dev/null) syscall=$(cut -d' ' -f1 $t/syscall 2>/dev/null)\"; done 1>&2", (int)pid);
  int r = system(cmd);
  snprintf(cmd, sizeof cmd,
      "command -v gdb >/dev/null 2>&1 && timeout 60 gdb -p %d -batch -ex 'thread apply all bt 14' 2>&1 | grep -E '^(Thread|#)' | cut -c1-220 | head -150 | sed 's/^/HANGDIAG /' 1>&2",
      (int)pid);
  r = system(cmd);
  (void)r;
  fflush(stderr);
}

int main(int argc, char **argv)
{
  if (argc < 2) return 2;
  std::string mode = argv[1];
  int case_deadline_s = getenv("C13_CASE_DEADLINE_S") ? atoi(getenv("C13_CASE_DEADLINE_S")) : (mode == "seq" ? 8 : (mode == "rif" || mode == "qs") ? 10 : 20);  // a seq child needs milliseconds
  if (case_deadline_s < 1) case_deadline_s = 20;
  int hangs = 0;
  std::string line;
  while (std::getline(std::cin, line)) {
    std::vector<int> v;
    std::istringstream is(line);
    std::string tok;
    while (is >> tok)
      v.push_back(tok == "u" ? USE_PF : tok == "s" ? USE_SCHED : tok[0] == 'f' ? FLAG_BASE + 100 + atoi(tok.c_str() + 1) : atoi(tok.c_str()));
    int fd[2];
    if (pipe(fd) != 0) return 3;
    fflush(stdout);
    pid_t pid = fork();
    if (pid == 0) {
      close(fd[0]);
      bool test_hang_before = !v.empty() && v[0] == 99990, test_hang_after = !v.empty() && v[0] == 99991;
      if (test_hang_before || test_hang_after) v.erase(v.begin());   // self-test of the watchdog only
      if (test_hang_before) pause();
      std::string r = mode == "seq" ? child_seq(v) : mode == "cre" ? child_cre(v) : mode == "ot" ? child_ot(v) : mode == "rif" ? child_rif(v) : mode == "qs" ? child_qs(v) : child_pf(v);
      r += "\n";
      ssize_t w = write(fd[1], r.c_str(), r.size());
      (void)w;
      if (test_hang_after) pause();
      close(fd[1]);
      _exit(0);
    }
    close(fd[1]);
    // watchdog: the child gets CASE_DEADLINE seconds; a hung child is diagnosed, SIGKILLed and reported as a HANG line
    std::string out;
    char buf[256];
    bool hung = false, eof = false;
    auto deadline = clk::now() + std::chrono::seconds(hangs >= 3 ? 3 : case_deadline_s);
    auto remaining_ms = [&]() { return (int)std::chrono::duration_cast<std::chrono::milliseconds>(deadline - clk::now()).count(); };
    while (!eof) {
      int ms = remaining_ms();
      if (ms <= 0) { hung = true; break; }
      struct pollfd pf = {fd[0], POLLIN, 0};
      int pr = poll(&pf, 1, ms);
      if (pr == 0) { hung = true; break; }
      if (pr < 0) { if (errno == EINTR) continue; break; }
      ssize_t k = read(fd[0], buf, sizeof buf);
      if (k > 0) out.append(buf, k); else eof = true;
    }
    int st = 0;
    bool reaped = false;
    while (!hung) {   // pipe closed: the child is about to _exit; still bounded
      pid_t w = waitpid(pid, &st, WNOHANG);
      if (w == pid) { reaped = true; break; }
      if (remaining_ms() <= 0) { hung = true; break; }
      usleep(1000);
    }
    close(fd[0]);
    if (hung) {
      hangs++;
      diagnose(pid);
      kill(pid, SIGKILL);
      waitpid(pid, &st, 0);
      bool complete = !out.empty() && out[out.size() - 1] == '\n';
      printf("HANG after_result=%d partial=%s\n", complete ? 1 : 0, out.empty() ? "-" : out.substr(0, out.size() - (complete ? 1 : 0)).c_str());
    } else if (out.empty() || !reaped || !WIFEXITED(st) || WEXITSTATUS(st) != 0) {
      printf("CRASH status=%d signal=%d partial=%s\n", WIFEXITED(st) ? WEXITSTATUS(st) : -1, WIFSIGNALED(st) ? WTERMSIG(st) : 0,
          out.empty() ? "-" : out.substr(0, out.size() - 1).c_str());
    } else {
      fputs(out.c_str(), stdout);
    }
    fflush(stdout);
  }
  return 0;
}
