// C04 constants harness: prints every T(c) of rkcommon/math/constants.h (consts_gen.inc, generated from the constants table of
// props/C04/inventory.py) from the REAL headers - integers decimal, binary32 / binary64 as hex bit patterns, "nan" - and the
// uses of the constants: clamp's default bounds [T(zero), T(one)], safe_normalize's max(T(ulp), .), range_t<T>() = [pos_inf, neg_inf]
// (empty for every element type, the unsigned ones included).  ASan + UBSan.
#include <cstdint>
#include <cstdio>
#include <cstring>
#include <string>
#include "rkcommon/math/vec.h"
#include "rkcommon/math/range.h"
using namespace rkcommon::math;

static void line(const char *n) { printf("%s", n); }
static void endl() { printf("\n"); }
static void outc(float v) { if (v != v) { printf(" nan"); return; } uint32_t b; memcpy(&b, &v, 4); printf(" %08x", b); }
static void outc(double v) { if (v != v) { printf(" nan"); return; } uint64_t b; memcpy(&b, &v, 8); printf(" %016llx", (unsigned long long)b); }
static void outc(long long v) { printf(" %lld", v); }
static void outc(unsigned long long v) { printf(" %llu", v); }
static void outc(long v) { printf(" %ld", v); }
static void outc(unsigned long v) { printf(" %lu", v); }
static void outc(int v) { printf(" %d", v); }
static void outc(unsigned v) { printf(" %u", v); }
static void outc(short v) { printf(" %d", (int)v); }
static void outc(unsigned short v) { printf(" %u", (unsigned)v); }
static void outc(char v) { printf(" %d", (int)v); }
static void outc(signed char v) { printf(" %d", (int)v); }
static void outc(unsigned char v) { printf(" %u", (unsigned)v); }

template <class T> static void use_range(const char *tn)
{
  range_t<T> r;                       // lower = pos_inf, upper = neg_inf
  printf("use:range_default/%s", tn); outc(r.lower); outc(r.upper); printf(" %d", (int)r.empty()); endl();
  range_t<T> e;
  e.extend(T(1));                     // the identity of extend: one point
  printf("use:range_extend_one/%s", tn); outc(e.lower); outc(e.upper); printf(" %d", (int)e.empty()); endl();
}
template <class T> static void use_clamp(const char *tn)
{
  printf("use:clamp_default/%s", tn);
  outc(clamp(T(-3))); outc(clamp(T(0))); outc(clamp(T(1))); outc(clamp(T(5)));
  endl();
}

int main()
{
#include "consts_gen.inc"
  // int8_t (= signed char) is left out: T(pos_inf) is ambiguous for signed char (the tags convert to char and unsigned char only), range_t<int8_t>() does not compile
  use_range<float>("float"); use_range<double>("double"); use_range<uint8_t>("uint8"); use_range<int16_t>("int16");
  use_range<uint16_t>("uint16"); use_range<int32_t>("int32"); use_range<uint32_t>("uint32"); use_range<int64_t>("int64"); use_range<uint64_t>("uint64");
  use_clamp<float>("float"); use_clamp<double>("double"); use_clamp<int>("int32"); use_clamp<long>("int64"); use_clamp<short>("int16");
  {
    vec3f z(0.f, 0.f, 0.f), t(3e-5f, 0.f, 0.f);      // safe_normalize: dot < ulp is replaced by ulp
    vec3f a = safe_normalize(z), b = safe_normalize(t);
    printf("use:safe_normalize_zero/float"); outc(a.x); outc(a.y); outc(a.z); endl();
    float want = 3e-5f * rsqrt(std::numeric_limits<float>::epsilon());
    printf("use:safe_normalize_tiny/float"); outc(b.x); outc(want); endl();
  }
  return 0;
}
