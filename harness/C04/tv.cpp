// C04 translation-validation harness: calls the REAL instantiation of every inventoried vec.h overload
// (harness/C04/tv_gen.inc, generated from props/C04/inventory.py) on the operands of each case line and prints the
// result in the canonical form of ocaml/C04/driver.ml: integers decimal, binary32/binary64 as hex bit patterns, "nan".
// Compiled with -DRKCOMMON_NO_SIMD (rcp(x) = 1.f/x, rsqrt(x) = 1.f/sqrt(x): the definitions the model is generated from)
// and -ffp-contract=off, ASan + UBSan.  -DTV_PART=k selects a quarter of the table.
#include <cstdint>
#include <cstdio>
#include <cstdlib>
#include <cstring>
#include <functional>
#include <iostream>
#include <new>
#include <sstream>
#include <string>
#include <type_traits>
#include <vector>
#include "rkcommon/math/vec.h"
using namespace rkcommon;
using namespace rkcommon::math;

struct Tok
{
  std::vector<std::string> t;
  size_t i = 0;
  const std::string &next()
  {
    if (i >= t.size()) { fprintf(stderr, "short case\n"); exit(3); }
    return t[i++];
  }
};

template <class RT, class X>
const X &exact(const X &x)
{
  static_assert(std::is_same<RT, typename std::decay<X>::type>::value, "result type differs from the inventory");
  return x;
}

template <class T> struct IO;
template <> struct IO<float>
{
  static float rd(Tok &tk) { return strtof(tk.next().c_str(), nullptr); }
  static void out(std::ostream &o, float v)
  {
    if (v != v) { o << " nan"; return; }
    uint32_t b; memcpy(&b, &v, 4); char s[16]; snprintf(s, sizeof s, " %08x", b); o << s;
  }
};
template <> struct IO<double>
{
  static double rd(Tok &tk) { return strtod(tk.next().c_str(), nullptr); }
  static void out(std::ostream &o, double v)
  {
    if (v != v) { o << " nan"; return; }
    uint64_t b; memcpy(&b, &v, 8); char s[24]; snprintf(s, sizeof s, " %016llx", (unsigned long long)b); o << s;
  }
};
template <> struct IO<int>
{
  static int rd(Tok &tk) { return (int)strtoll(tk.next().c_str(), nullptr, 10); }
  static void out(std::ostream &o, int v) { o << " " << v; }
};
template <> struct IO<int16_t>
{
  static int16_t rd(Tok &tk) { return (int16_t)strtoll(tk.next().c_str(), nullptr, 10); }
  static void out(std::ostream &o, int16_t v) { o << " " << (int)v; }
};
template <> struct IO<uint8_t>
{
  static uint8_t rd(Tok &tk) { return (uint8_t)strtoll(tk.next().c_str(), nullptr, 10); }
  static void out(std::ostream &o, uint8_t v) { o << " " << (int)v; }
};
template <> struct IO<size_t>
{
  static size_t rd(Tok &tk) { return (size_t)strtoull(tk.next().c_str(), nullptr, 10); }
  static void out(std::ostream &o, size_t v) { o << " " << v; }
};
template <> struct IO<bool>
{
  static void out(std::ostream &o, bool v) { o << " " << (v ? 1 : 0); }
};
template <class T> struct IO<vec_t<T, 2>>
{
  static vec_t<T, 2> rd(Tok &tk) { T x = IO<T>::rd(tk), y = IO<T>::rd(tk); vec_t<T, 2> v; v.x = x; v.y = y; return v; }
  static void out(std::ostream &o, const vec_t<T, 2> &v) { IO<T>::out(o, v.x); IO<T>::out(o, v.y); }
};
template <class T, bool A> struct IO<vec_t<T, 3, A>>
{
  static vec_t<T, 3, A> rd(Tok &tk)
  {
    T x = IO<T>::rd(tk), y = IO<T>::rd(tk), z = IO<T>::rd(tk);
    vec_t<T, 3, A> v; memset(&v, 0, sizeof v); v.x = x; v.y = y; v.z = z; return v;
  }
  static void out(std::ostream &o, const vec_t<T, 3, A> &v) { IO<T>::out(o, v.x); IO<T>::out(o, v.y); IO<T>::out(o, v.z); }
};
// PADDED operands (vec_t<T,3,true>): the value of the padded shape is (x,y,z) only; the 4th storage slot padding_ is not a
// component and no constructor initialises it.  Every padded operand is therefore built by placement-new into a buffer
// pre-filled with a byte pattern (0x00 / 0xFF / 0xA5) through one of five construction forms, so that two operands of one
// case carry DIFFERENT leftovers in the padding slot (pad mode 0..2) or the same ones (pad mode 3).  The case line carries
// the directive "#<mode>,<form>" (see props/C04/check.py); operand j uses pattern (mode + j) % 3 and form (form + j) % 5.
static int g_padmode = 0, g_padform = 0, g_padj = 0;
static const unsigned char PADPAT[3] = {0x00, 0xFF, 0xA5};
template <class T> struct IO<vec_t<T, 3, true>>
{
  typedef vec_t<T, 3, true> VA;
  static VA rd(Tok &tk)
  {
    T c[3];
    c[0] = IO<T>::rd(tk); c[1] = IO<T>::rd(tk); c[2] = IO<T>::rd(tk);
    int j = g_padj++;
    int pat = g_padmode == 3 ? 2 : (g_padmode + j) % 3;
    int form = (g_padform + j) % 5;
    alignas(16) unsigned char buf[sizeof(VA)];
    memset(buf, PADPAT[pat], sizeof buf);
    VA *p;
    switch (form) {
    case 0: p = new (buf) VA(c[0], c[1], c[2]); break;                                   // component-wise constructor
    case 1: p = new (buf) VA(c[0]); (*p)[1] = c[1]; (*p)[2] = c[2]; break;               // broadcast constructor + stores through operator[]
    case 2: { vec_t<T, 3> u(c[0], c[1], c[2]); p = new (buf) VA(u); } break;              // copy from the unpadded shape
    case 3: p = new (buf) VA((const T *)c); break;                                        // pointer constructor
    default: {                                                                             // copy of another padded vector + member stores
      VA tmp(c[2], c[0], c[1]);
      memset((char *)&tmp + 3 * sizeof(T), PADPAT[pat], sizeof(T));
      p = new (buf) VA(tmp); p->x = c[0]; p->y = c[1]; p->z = c[2];
    } break;
    }
    VA v = *p;
    memset((char *)&v + 3 * sizeof(T), PADPAT[pat], sizeof(T));      // the leftover, made deterministic (independent of dead-store elimination)
    return v;
  }
  static void out(std::ostream &o, const VA &v) { IO<T>::out(o, v.x); IO<T>::out(o, v.y); IO<T>::out(o, v.z); }
};
template <class T> struct IO<vec_t<T, 4>>
{
  static vec_t<T, 4> rd(Tok &tk)
  {
    T x = IO<T>::rd(tk), y = IO<T>::rd(tk), z = IO<T>::rd(tk), w = IO<T>::rd(tk);
    vec_t<T, 4> v; v.x = x; v.y = y; v.z = z; v.w = w; return v;
  }
  static void out(std::ostream &o, const vec_t<T, 4> &v) { IO<T>::out(o, v.x); IO<T>::out(o, v.y); IO<T>::out(o, v.z); IO<T>::out(o, v.w); }
};
template <class T> T rd(Tok &tk) { return IO<T>::rd(tk); }
template <class T> void out(std::ostream &o, const T &v) { IO<T>::out(o, v); }

template <class T, int N>
static bool run_argmax_n(Tok &tk, std::ostream &o)
{
  vec_t<T, N> v;
  for (int i = 0; i < N; i++) v[i] = IO<T>::rd(tk);
  o << " " << arg_max(v);
  return true;
}
template <class T>
static bool run_argmax(Tok &tk, std::ostream &o)
{
  int n = atoi(tk.next().c_str());
  return n == 2 ? run_argmax_n<T, 2>(tk, o) : n == 3 ? run_argmax_n<T, 3>(tk, o) : n == 4 ? run_argmax_n<T, 4>(tk, o) : false;
}

static bool run(const std::string &name, Tok &tk, std::ostream &o)
{
#if TV_PART == 0
  if (name == "arg_max") {
    std::string t = tk.next();
    return t == "f" ? run_argmax<float>(tk, o) : t == "i" ? run_argmax<int>(tk, o) : t == "d" ? run_argmax<double>(tk, o) : false;
  }
#endif
#include "tv_gen.inc"
  return false;
}

int main()
{
  std::string line;
  while (std::getline(std::cin, line)) {
    std::istringstream is(line);
    Tok tk;
    std::string w;
    g_padmode = 0; g_padform = 0; g_padj = 0;
    while (is >> w) {
      if (w[0] == '#') { g_padmode = atoi(w.c_str() + 1) & 3; size_t c = w.find(','); g_padform = c == std::string::npos ? 0 : atoi(w.c_str() + c + 1); continue; }
      tk.t.push_back(w);
    }
    if (tk.t.empty()) { std::cout << "\n"; continue; }
    std::string name = tk.next();
    std::ostringstream o;
    if (run(name, tk, o)) std::cout << name << o.str() << "\n";
    else std::cout << name << " unsupported\n";
  }
  return 0;
}
