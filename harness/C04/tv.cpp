// C04 translation-validation harness: calls the REAL instantiation of every inventoried vec.h overload
// (harness/C04/tv_gen.inc, generated from props/C04/inventory.py) on the operands of each case line and prints the
// result in the canonical form of ocaml/C04/driver.ml: integers decimal, binary32/binary64 as hex bit patterns, "nan".
// Compiled with -DRKCOMMON_NO_SIMD (rcp(x) = 1.f/x, rsqrt(x) = 1.f/sqrt(x): the definitions the model is generated from)
// and -ffp-contract=off, ASan + UBSan.  -DTV_PART=k selects a quarter of the table.
#include <cstdint>
#include <cstdio>
#include <cstdlib>
#include <cstring>
#include <functional>
#include <iostream>
#include <sstream>
#include <string>
#include <type_traits>
#include <vector>
#include "rkcommon/math/vec.h"
using namespace rkcommon;
using namespace rkcommon::math;

struct Tok
{
  std::vector<std::string> t;
  size_t i = 0;
  const std::string &next()
  {
    if (i >= t.size()) { fprintf(stderr, "short case\n"); exit(3); }
    return t[i++];
  }
};

template <class RT, class X>
const X &exact(const X &x)
{
  static_assert(std::is_same<RT, typename std::decay<X>::type>::value, "result type differs from the inventory");
  return x;
}

template <class T> struct IO;
template <> struct IO<float>
{
  static float rd(Tok &tk) { return strtof(tk.next().c_str(), nullptr); }
  static void out(std::ostream &o, float v)
  {
    if (v != v) { o << " nan"; return; }
    uint32_t b; memcpy(&b, &v, 4); char s[16]; snprintf(s, sizeof s, " %08x", b); o << s;
  }
};
template <> struct IO<double>
{
  static double rd(Tok &tk) { return strtod(tk.next().c_str(), nullptr); }
  static void out(std::ostream &o, double v)
  {
    if (v != v) { o << " nan"; return; }
    uint64_t b; memcpy(&b, &v, 8); char s[24]; snprintf(s, sizeof s, " %016llx", (unsigned long long)b); o << s;
  }
};
template <> struct IO<int>
{
  static int rd(Tok &tk) { return (int)strtoll(tk.next().c_str(), nullptr, 10); }
  static void out(std::ostream &o, int v) { o << " " << v; }
};
template <> struct IO<uint8_t>
{
  static uint8_t rd(Tok &tk) { return (uint8_t)strtoll(tk.next().c_str(), nullptr, 10); }
  static void out(std::ostream &o, uint8_t v) { o << " " << (int)v; }
};
template <> struct IO<size_t>
{
  static size_t rd(Tok &tk) { return (size_t)strtoull(tk.next().c_str(), nullptr, 10); }
  static void out(std::ostream &o, size_t v) { o << " " << v; }
};
template <> struct IO<bool>
{
  static void out(std::ostream &o, bool v) { o << " " << (v ? 1 : 0); }
};
template <class T> struct IO<vec_t<T, 2>>
{
  static vec_t<T, 2> rd(Tok &tk) { T x = IO<T>::rd(tk), y = IO<T>::rd(tk); vec_t<T, 2> v; v.x = x; v.y = y; return v; }
  static void out(std::ostream &o, const vec_t<T, 2> &v) { IO<T>::out(o, v.x); IO<T>::out(o, v.y); }
};
template <class T, bool A> struct IO<vec_t<T, 3, A>>
{
  static vec_t<T, 3, A> rd(Tok &tk)
  {
    T x = IO<T>::rd(tk), y = IO<T>::rd(tk), z = IO<T>::rd(tk);
    vec_t<T, 3, A> v; memset(&v, 0, sizeof v); v.x = x; v.y = y; v.z = z; return v;
  }
  static void out(std::ostream &o, const vec_t<T, 3, A> &v) { IO<T>::out(o, v.x); IO<T>::out(o, v.y); IO<T>::out(o, v.z); }
};
template <class T> struct IO<vec_t<T, 4>>
{
  static vec_t<T, 4> rd(Tok &tk)
  {
    T x = IO<T>::rd(tk), y = IO<T>::rd(tk), z = IO<T>::rd(tk), w = IO<T>::rd(tk);
    vec_t<T, 4> v; v.x = x; v.y = y; v.z = z; v.w = w; return v;
  }
  static void out(std::ostream &o, const vec_t<T, 4> &v) { IO<T>::out(o, v.x); IO<T>::out(o, v.y); IO<T>::out(o, v.z); IO<T>::out(o, v.w); }
};
template <class T> T rd(Tok &tk) { return IO<T>::rd(tk); }
template <class T> void out(std::ostream &o, const T &v) { IO<T>::out(o, v); }

template <class T, int N>
static bool run_argmax_n(Tok &tk, std::ostream &o)
{
  vec_t<T, N> v;
  for (int i = 0; i < N; i++) v[i] = IO<T>::rd(tk);
  o << " " << arg_max(v);
  return true;
}
template <class T>
static bool run_argmax(Tok &tk, std::ostream &o)
{
  int n = atoi(tk.next().c_str());
  return n == 2 ? run_argmax_n<T, 2>(tk, o) : n == 3 ? run_argmax_n<T, 3>(tk, o) : n == 4 ? run_argmax_n<T, 4>(tk, o) : false;
}

static bool run(const std::string &name, Tok &tk, std::ostream &o)
{
#if TV_PART == 0
  if (name == "arg_max") {
    std::string t = tk.next();
    return t == "f" ? run_argmax<float>(tk, o) : t == "i" ? run_argmax<int>(tk, o) : t == "d" ? run_argmax<double>(tk, o) : false;
  }
#endif
#include "tv_gen.inc"
  return false;
}

int main()
{
  std::string line;
  while (std::getline(std::cin, line)) {
    std::istringstream is(line);
    Tok tk;
    std::string w;
    while (is >> w) tk.t.push_back(w);
    if (tk.t.empty()) { std::cout << "\n"; continue; }
    std::string name = tk.next();
    std::ostringstream o;
    if (run(name, tk, o)) std::cout << name << o.str() << "\n";
    else std::cout << name << " unsupported\n";
  }
  return 0;
}
