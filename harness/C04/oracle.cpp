// C04 property oracle: every vec_t overload family x 10 element types x 4 shapes (2, 3, padded 3, 4) compared with an
// INDEPENDENT per-component scalar loop: components are read and written through the member names x,y,z,w only, the expected
// value is the C++ scalar expression on the corresponding components (exact for integers and single floating operations;
// k ulp of the sum of magnitudes, against a long double reference, for floating sums / products chains; 8 ulp for the SSE
// reciprocal estimates).  operator[], the pointer view, sizeof/offsetof layout and operator<< are checked here as well.
// Operands: pairwise distinct components, negatives, extremes that do not overflow signed types, unsigned wrap-around,
// +-0, +-inf.  usage: oracle<k> <seed> <iterations>;  -DORACLE_PART=k selects the element types of this part.
// Default build (SSE rcp/rsqrt), -ffp-contract=off, ASan + UBSan.
#include <cmath>
#include <cstddef>
#include <cstdint>
#include <cstdio>
#include <cstdlib>
#include <cstring>
#include <functional>
#include <iomanip>
#include <limits>
#include <map>
#include <new>
#include <sstream>
#include <string>
#include <type_traits>
#include "rkcommon/math/vec.h"
using namespace rkcommon;
using namespace rkcommon::math;

#ifndef ORACLE_PART
#define ORACLE_PART 0
#endif

static unsigned long long g_checks = 0, g_fail = 0, g_nontrivial = 0;
static uint64_t g_s = 88172645463325252ULL;
static uint64_t rnd64() { g_s ^= g_s << 13; g_s ^= g_s >> 7; g_s ^= g_s << 17; return g_s; }
static int rndint(int lo, int hi) { return lo + (int)(rnd64() % (uint64_t)(hi - lo + 1)); }

// ------------------------------------------------------------------------------------------------ names, printing
template <class T> struct TN;
#define TNAME(T, s) template <> struct TN<T> { static const char *n() { return s; } };
TNAME(float, "float") TNAME(double, "double") TNAME(int8_t, "int8") TNAME(uint8_t, "uint8") TNAME(int16_t, "int16")
TNAME(uint16_t, "uint16") TNAME(int32_t, "int32") TNAME(uint32_t, "uint32") TNAME(int64_t, "int64") TNAME(uint64_t, "uint64")

template <class T> static std::string show(T v)
{
  std::ostringstream o;
  o.precision(17);
  if (std::is_floating_point<T>::value) o << (long double)v; else if (std::is_signed<T>::value) o << (long long)v; else o << (unsigned long long)v;
  return o.str();
}
template <class T> static bool same(T a, T b)
{
  if (std::is_floating_point<T>::value && a != a && b != b) return true;
  return memcmp(&a, &b, sizeof(T)) == 0;
}
static bool same(bool a, bool b) { return a == b; }

// executed-case counters per test family x instantiation (evidence key `inventory`, see props/C04/cover.py)
static std::map<std::string, unsigned long long> g_cnt;
#define COUNT(k) do { static unsigned long long *c_ = &g_cnt[(k)]; ++*c_; } while (0)
static int g_printed = 0;
static void fail(const std::string &clause, const std::string &detail)
{
  g_fail++;
  if (g_printed < 200) { printf("FAIL %s %s\n", clause.c_str(), detail.c_str()); fflush(stdout); g_printed++; }
}

// ------------------------------------------------------------------------------------------------ component access by NAME
template <class T> static T get(const vec_t<T, 2> &v, int i) { return i == 0 ? v.x : v.y; }
template <class T, bool A> static T get(const vec_t<T, 3, A> &v, int i) { return i == 0 ? v.x : i == 1 ? v.y : v.z; }
template <class T> static T get(const vec_t<T, 4> &v, int i) { return i == 0 ? v.x : i == 1 ? v.y : i == 2 ? v.z : v.w; }
template <class T> static void put(vec_t<T, 2> &v, int i, T s) { if (i == 0) v.x = s; else v.y = s; }
template <class T, bool A> static void put(vec_t<T, 3, A> &v, int i, T s) { if (i == 0) v.x = s; else if (i == 1) v.y = s; else v.z = s; }
template <class T> static void put(vec_t<T, 4> &v, int i, T s) { if (i == 0) v.x = s; else if (i == 1) v.y = s; else if (i == 2) v.z = s; else v.w = s; }
template <class V> struct Dim;
template <class T> struct Dim<vec_t<T, 2>> { enum { n = 2, pad = 0 }; typedef T S; };
template <class T> struct Dim<vec_t<T, 3>> { enum { n = 3, pad = 0 }; typedef T S; };
template <class T> struct Dim<vec_t<T, 3, true>> { enum { n = 3, pad = 1 }; typedef T S; };
template <class T> struct Dim<vec_t<T, 4>> { enum { n = 4, pad = 0 }; typedef T S; };
template <class V> static std::string vname() { return std::string(TN<typename Dim<V>::S>::n()) + "x" + (Dim<V>::n == 2 ? "2" : Dim<V>::n == 4 ? "4" : Dim<V>::pad ? "3a" : "3"); }
template <class V> static V mkv(const typename Dim<V>::S *p)
{
  V v;
  memset(&v, 0, sizeof v);
  for (int i = 0; i < Dim<V>::n; i++) put(v, i, p[i]);
  return v;
}
template <class V> static std::string showv(const V &v)
{
  std::string s = "(";
  for (int i = 0; i < Dim<V>::n; i++) s += (i ? "," : "") + show(get(v, i));
  return s + ")";
}
template <class T> static std::string showa(const T *p, int n)
{
  std::string s = "(";
  for (int i = 0; i < n; i++) s += (i ? "," : "") + show(p[i]);
  return s + ")";
}

// ------------------------------------------------------------------------------------------------ operand classes
enum { ORD = 0, LIN = 1, MUL2 = 2, MUL4 = 3, POS = 4, FIN = 5 };
template <class T, bool F = std::is_floating_point<T>::value> struct Gen;
template <class T> struct Gen<T, true>
{
  static T val(int cls)
  {
    static const double sp[] = {0.0, -0.0, INFINITY, -INFINITY, 1e30, -1e30, 1e-30, 1.0, -1.0, 0.5, 16777217.0, 0.1, 1.0 / 3.0};
    int k = rndint(0, 99);
    double v;
    if (cls == ORD && k < 25) v = sp[rndint(0, 12)];
    else if (cls == POS) v = rndint(1, 4000) / 8.0;
    else if (k < 70) v = rndint(-4096, 4096) / 8.0;
    else v = (double)(int64_t)(rnd64() % 2000001 - 1000000) / 1000000.0 * std::pow(10.0, rndint(-4, cls == MUL4 ? 4 : 8));
    return (T)v;
  }
};
template <class T> struct Gen<T, false>
{
  static const bool small = sizeof(T) < 4, uns = std::is_unsigned<T>::value;
  static long double bound(int cls)
  {
    long double mx = (long double)std::numeric_limits<T>::max();
    if (uns && !small) return mx;                       // unsigned 32/64: wrap-around is defined
    long double lim = small ? (long double)std::numeric_limits<int>::max() : mx;   // small types are promoted to int
    long double b = mx;
    if (cls == LIN) b = lim / 4;
    if (cls == MUL2) b = std::floor(std::sqrt(lim)) / 2;
    if (cls == MUL4) b = 200;
    if (cls == POS) b = 1000;
    if (cls == FIN) b = 1 << 20;
    return b < mx ? b : mx;
  }
  static T val(int cls)
  {
    long double b = bound(cls);
    int k = rndint(0, 99);
    long double v;
    if (cls == POS) v = 1 + (long double)(rnd64() % (uint64_t)b);
    else if (k < 15) v = (k & 1) ? b : (uns ? 0 : -b);
    else if (k < 25) v = (k & 1) ? b - 1 : (uns ? 1 : -b + 1);
    else if (k < 60) v = rndint(uns ? 0 : -40, 40);
    else {
      uint64_t r = rnd64();
      v = (long double)(r % ((uint64_t)b + (b < 1.8e19L ? 1 : 0)));
      if (b >= 1.8e19L) v = (long double)r;
      if (!uns && (rnd64() & 1)) v = -v;
    }
    if (v > b) v = b;
    if (!uns && v < -b) v = -b;
    if (uns && v < 0) v = 0;
    return (T)v;
  }
};
// n pairwise distinct values (optionally all nonzero)
template <class T> static void fill(T *p, int n, int cls, bool nz = false)
{
  for (int i = 0; i < n;) {
    T v = Gen<T>::val(cls);
    if (nz && v == 0) continue;
    bool dup = false;
    for (int j = 0; j < i; j++) if (same(p[j], v) || p[j] == v) dup = true;
    if (!dup) p[i++] = v;
  }
}
template <class T> static bool finite_all(const T *p, int n)
{
  for (int i = 0; i < n; i++) if (std::is_floating_point<T>::value && !std::isfinite((long double)p[i])) return false;
  return true;
}
template <class T> static bool distinct_out(const T *p, int n)
{
  for (int i = 0; i < n; i++) for (int j = 0; j < i; j++) if (!same(p[i], p[j])) return true;
  return false;
}

#define EXPECT(clause, ok, detail) do { g_checks++; if (!(ok)) fail(clause, detail); } while (0)

// ------------------------------------------------------------------------------------------------ operators as functors
#define BINOP(Name, op, Cls, NZ, Str) struct Name { template <class X, class Y> static auto ap(const X &x, const Y &y) -> decltype(x op y) { return x op y; } \
  static const char *nm() { return Str; } enum { cls = Cls, nz = NZ }; };
BINOP(OAdd, +, LIN, 0, "operator+") BINOP(OSub, -, LIN, 0, "operator-") BINOP(OMul, *, MUL2, 0, "operator*") BINOP(ODiv, /, ORD, 1, "operator/")
BINOP(ORem, %, ORD, 1, "operator%")
// compound assignment returns the LEFT OPERAND ITSELF.  Every use below compiles whether an overload returns T& or (wrongly) T:
//   ap     : apply, discard the result;   ident : auto&& r = (x op y); is r the object x?
//   chain  : auto&& r = (x op y); r op t;  -- x must show both updates when r is x
#define ASGOP(Name, op, Cls, NZ, Str) struct Name { template <class X, class Y> static void ap(X &x, const Y &y) { x op y; } \
  template <class X, class Y> static bool ident(X &x, const Y &y) { auto &&r = (x op y); return (const void *)&r == (const void *)&x; } \
  template <class X, class Y, class Z> static void chain(X &x, const Y &y, const Z &t) { auto &&r = (x op y); r op t; } \
  static const char *nm() { return Str; } enum { cls = Cls, nz = NZ }; };
ASGOP(AAdd, +=, LIN, 0, "operator+=") ASGOP(ASub, -=, LIN, 0, "operator-=") ASGOP(AMul, *=, MUL2, 0, "operator*=") ASGOP(ADiv, /=, ORD, 1, "operator/=")
ASGOP(ARem, %=, ORD, 1, "operator%=")


// failure reports of t_bin / t_asg: templated on the scalar types only (not on the operator and the shapes), out of line, so that the
// string building is compiled once per element-type pair
template <class T, class U, class R>
__attribute__((noinline)) static void fail2(const char *opn, const char *form, const std::string &lt, const std::string &rt, const char *an, const T *a, int na,
                                            const char *bn, const U *b, int nb, const char *what, int i, R got, R want)
{
  fail(std::string(opn) + form + "/" + lt + "," + rt,
       std::string(an) + "=" + (na == 1 ? show(a[0]) : showa(a, na)) + " " + bn + "=" + (nb == 1 ? show(b[0]) : showa(b, nb)) + what +
           (i >= 0 ? " component " + std::to_string(i) + " got " + show(got) + " want " + show(want) : std::string()));
}
#define CHECK2(ok, ...) do { g_checks++; if (!(ok)) fail2(__VA_ARGS__); } while (0)

template <class T> static int opcls(int c, bool nz) { return (std::is_floating_point<T>::value && nz) ? ORD : c; }

// vec op vec, vec op scalar, scalar op vec; VA, VB operand vector types (same N), VR the documented result type
template <class Op, class VA, class VB, class VR> static void t_bin()
{
  COUNT(std::string(Op::nm()) + "/" + vname<VA>() + "," + vname<VB>());
  typedef typename Dim<VA>::S T; typedef typename Dim<VB>::S U; typedef typename Dim<VR>::S R;
  const int n = Dim<VA>::n;
  T a[4]; U b[4]; T sa[1]; U sb[1];
  bool nzf = Op::nz && !std::is_floating_point<U>::value;
  fill(a, n, Op::cls); fill(b, n, Op::cls, nzf); fill(sa, 1, Op::cls); fill(sb, 1, Op::cls, nzf);
  VA va = mkv<VA>(a); VB vb = mkv<VB>(b);
  static_assert(std::is_same<decltype(Op::ap(va, vb)), VR>::value, "vec op vec result type");
  VR r = Op::ap(va, vb);
  R o[4];
  for (int i = 0; i < n; i++) {
    R w = (R)Op::ap(a[i], b[i]);
    o[i] = w;
    CHECK2(same(get(r, i), w), Op::nm(), "(vec,vec)", vname<VA>(), vname<VB>(), "a", a, n, "b", b, n, "", i, get(r, i), w);
  }
  if (distinct_out(o, n)) g_nontrivial++;
  auto r2 = Op::ap(va, sb[0]);
  auto r3 = Op::ap(sa[0], vb);
  for (int i = 0; i < n; i++) {
    R w2 = (R)Op::ap(a[i], sb[0]), w3 = (R)Op::ap(sa[0], b[i]);
    CHECK2(same((R)get(r2, i), w2), Op::nm(), "(vec,scalar)", vname<VA>(), std::string(TN<U>::n()), "a", a, n, "s", sb, 1, "", i, (R)get(r2, i), w2);
    CHECK2(same((R)get(r3, i), w3), Op::nm(), "(scalar,vec)", std::string(TN<T>::n()), vname<VB>(), "s", sa, 1, "b", b, n, "", i, (R)get(r3, i), w3);
  }
  static_assert(std::is_same<typename Dim<decltype(r2)>::S, R>::value && std::is_same<typename Dim<decltype(r3)>::S, R>::value, "element type of the broadcast forms");
}
// compound assignment: a op= b, a op= s; the scalar definition is the scalar compound assignment on each component
template <class Op, class VA, class VB> static void t_asg()
{
  COUNT(std::string(Op::nm()) + "/" + vname<VA>() + "," + vname<VB>());
  typedef typename Dim<VA>::S T; typedef typename Dim<VB>::S U;
  const int n = Dim<VA>::n;
  T a[4]; U b[4]; U s[1];
  bool toint = !std::is_floating_point<T>::value && std::is_floating_point<U>::value;
  bool nzf = Op::nz && (!std::is_floating_point<U>::value || toint);
  int cls = toint ? (Op::cls == MUL2 ? POS : FIN) : Op::cls;
  fill(a, n, toint ? POS : Op::cls); fill(b, n, toint ? POS : cls, nzf); fill(s, 1, toint ? POS : cls, nzf);
  (void)cls;
  VA va = mkv<VA>(a); VB vb = mkv<VB>(b);
  Op::ap(va, vb);
  VA &ret = va;
  VA vs = mkv<VA>(a);
  Op::ap(vs, s[0]);
  // identity of the result (address of the result == address of the left operand) and chained use through a held reference
  {
    COUNT(std::string("identity/") + Op::nm() + "/" + vname<VA>() + "," + vname<VB>());
    VA i1 = mkv<VA>(a), i2 = mkv<VA>(a);
    bool id_vv = Op::ident(i1, vb), id_vs = Op::ident(i2, s[0]);
    CHECK2(id_vv, Op::nm(), "/identity(vec,vec)", vname<VA>(), vname<VB>(), "a", a, n, "b", b, n,
           ": auto&& r = (a op= b); &r != &a - the result is a detached copy, not the left operand", -1, T(), T());
    CHECK2(id_vs, Op::nm(), "/identity(vec,scalar)", vname<VA>(), std::string(TN<U>::n()), "a", a, n, "s", s, 1,
           ": auto&& r = (a op= s); &r != &a - the result is a detached copy, not the left operand", -1, T(), T());
    U two = (U)2;
    VA c1 = mkv<VA>(a), c2 = mkv<VA>(a);
    Op::chain(c1, vb, two); Op::chain(c2, s[0], two);
    for (int i = 0; i < n; i++) {
      T w = a[i]; Op::ap(w, b[i]); Op::ap(w, two);
      T w2 = a[i]; Op::ap(w2, s[0]); Op::ap(w2, two);
      CHECK2(same(get(c1, i), w), Op::nm(), "/chained(vec,vec)", vname<VA>(), vname<VB>(), "a", a, n, "b", b, n, ": auto&& r = (a op= b); r op= 2; a:", i, get(c1, i), w);
      CHECK2(same(get(c2, i), w2), Op::nm(), "/chained(vec,scalar)", vname<VA>(), std::string(TN<U>::n()), "a", a, n, "s", s, 1, ": auto&& r = (a op= s); r op= 2; a:", i, get(c2, i), w2);
    }
  }
  for (int i = 0; i < n; i++) {
    T w = a[i]; Op::ap(w, b[i]);
    T w2 = a[i]; Op::ap(w2, s[0]);
    CHECK2(same(get(ret, i), w), Op::nm(), "(vec,vec)", vname<VA>(), vname<VB>(), "a", a, n, "b", b, n, "", i, get(ret, i), w);
    CHECK2(same(get(vs, i), w2), Op::nm(), "(vec,scalar)", vname<VA>(), std::string(TN<U>::n()), "a", a, n, "s", s, 1, "", i, get(vs, i), w2);
  }
}

// ------------------------------------------------------------------------------------------------ floating sums: long double reference
template <class T> static bool near(T got, long double ref, long double mag, int k)
{
  if (!std::is_floating_point<T>::value) return got == (T)ref;
  if (!std::isfinite(ref) || !std::isfinite((long double)got)) return true;      // overflow cases are covered by the exact single-operation checks
  long double eps = std::numeric_limits<T>::epsilon();
  return std::fabs((long double)got - ref) <= k * eps * mag + (long double)std::numeric_limits<T>::min();
}

template <class VA, class VB> static void t_dot_cmp()
{
  COUNT("cmpdot/" + vname<VA>() + "," + vname<VB>());
  typedef typename Dim<VA>::S T;
  const int n = Dim<VA>::n;
  T a[4], b[4];
  fill(a, n, MUL2); fill(b, n, MUL2);
  // half of the comparison cases share a prefix (and sometimes everything)
  int k = rndint(0, 2 * n);
  if (k <= n) for (int i = 0; i < k; i++) b[i] = a[i];
  VA va = mkv<VA>(a); VB vb = mkv<VB>(b);
  bool eq = true, any = false;
  for (int i = 0; i < n; i++) { eq = eq && (a[i] == b[i]); any = any || (a[i] < b[i]); }
  std::string ops = "a=" + showa(a, n) + " b=" + showa(b, n);
  EXPECT("operator==/" + vname<VA>() + "," + vname<VB>(), (va == vb) == eq, ops + " got " + show((int)(va == vb)) + " want " + show((int)eq));
  EXPECT("operator!=/" + vname<VA>() + "," + vname<VB>(), (va != vb) == !eq, ops + " got " + show((int)(va != vb)) + " want " + show((int)!eq));
  EXPECT("anyLessThan/" + vname<VA>() + "," + vname<VB>(), anyLessThan(va, vb) == any, ops + " got " + show((int)anyLessThan(va, vb)) + " want " + show((int)any));
  if (k > 0 && k <= n) g_nontrivial++;
  if (!finite_all(a, n) || !finite_all(b, n)) return;
  T d = dot(va, vb);
  if (std::is_floating_point<T>::value) {
    long double ref = 0, mag = 0;
    for (int i = 0; i < n; i++) { ref += (long double)a[i] * b[i]; mag += std::fabs((long double)a[i] * b[i]); }
    EXPECT("dot/" + vname<VA>() + "," + vname<VB>(), near(d, ref, mag, n + 1), ops + " got " + show(d) + " want " + show((T)ref) + " within " + std::to_string(n + 1) + " ulp of sum|a_i b_i|");
  } else {
    T w = (T)(a[0] * b[0]);
    for (int i = 1; i < n; i++) w = (T)(w + a[i] * b[i]);
    EXPECT("dot/" + vname<VA>() + "," + vname<VB>(), d == w, ops + " got " + show(d) + " want " + show(w));
  }
}
template <class VA, class VB> static void t_cross()
{
  COUNT("cross/" + vname<VA>() + "," + vname<VB>());
  typedef typename Dim<VA>::S T;
  T a[3], b[3];
  fill(a, 3, MUL2); fill(b, 3, MUL2);
  if (!finite_all(a, 3) || !finite_all(b, 3)) return;
  VA va = mkv<VA>(a); VB vb = mkv<VB>(b);
  auto r = cross(va, vb);
  static_assert(std::is_same<decltype(r), vec_t<T, 3>>::value, "cross result type");
  for (int i = 0; i < 3; i++) {
    int j = (i + 1) % 3, k = (i + 2) % 3;
    T w = (T)(a[j] * b[k] - a[k] * b[j]);
    EXPECT("cross/" + vname<VA>() + "," + vname<VB>(), same(get(r, i), w),
           "a=" + showa(a, 3) + " b=" + showa(b, 3) + " component " + std::to_string(i) + " got " + show(get(r, i)) + " want " + show(w));
  }
  g_nontrivial++;
}

// std::less, min, max, reductions, arg_max, sum/product
template <class V> static void t_order()
{
  COUNT("order/" + vname<V>());
  typedef typename Dim<V>::S T;
  const int n = Dim<V>::n;
  T a[4], b[4];
  fill(a, n, ORD); fill(b, n, ORD);
  int k = rndint(0, 2 * n);
  if (k <= n) for (int i = 0; i < k; i++) b[i] = a[i];
  bool hasnan = false;
  for (int i = 0; i < n; i++) if (a[i] != a[i] || b[i] != b[i]) hasnan = true;
  V va = mkv<V>(a), vb = mkv<V>(b);
  std::string ops = "a=" + showa(a, n) + " b=" + showa(b, n);
  if (!hasnan) {
    bool lex = false;
    for (int i = 0; i < n; i++) { if (a[i] < b[i]) { lex = true; break; } if (!(a[i] == b[i])) break; }
    EXPECT("std::less/" + vname<V>(), std::less<V>()(va, vb) == lex, ops + " got " + show((int)std::less<V>()(va, vb)) + " want " + show((int)lex) + " (lexicographic)");
    if (k > 0 && k <= n) g_nontrivial++;
  }
  V mn = min(va, vb), mx = max(va, vb);
  for (int i = 0; i < n; i++) {
    T w1 = std::min(a[i], b[i]), w2 = std::max(a[i], b[i]);
    EXPECT("min/" + vname<V>(), same(get(mn, i), w1), ops + " component " + std::to_string(i) + " got " + show(get(mn, i)) + " want " + show(w1));
    EXPECT("max/" + vname<V>(), same(get(mx, i), w2), ops + " component " + std::to_string(i) + " got " + show(get(mx, i)) + " want " + show(w2));
  }
  if (!hasnan) {
    T lo = a[0], hi = a[0];
    for (int i = 1; i < n; i++) { if (a[i] < lo) lo = a[i]; if (hi < a[i]) hi = a[i]; }
    EXPECT("reduce_min/" + vname<V>(), reduce_min(va) == lo, "a=" + showa(a, n) + " got " + show(reduce_min(va)) + " want " + show(lo));
    EXPECT("reduce_max/" + vname<V>(), reduce_max(va) == hi, "a=" + showa(a, n) + " got " + show(reduce_max(va)) + " want " + show(hi));
  }
}
template <class V> static void t_argmax()
{
  COUNT("arg_max/" + vname<V>());
  typedef typename Dim<V>::S T;
  const int n = Dim<V>::n;
  T a[4];
  fill(a, n, ORD);
  if (rndint(0, 2) == 0) a[rndint(0, n - 1)] = a[rndint(0, n - 1)];      // ties: the first maximal index wins
  for (int i = 0; i < n; i++) if (a[i] != a[i]) return;
  size_t w = 0;
  for (int i = 1; i < n; i++) if (a[i] > a[w]) w = i;
  V va = mkv<V>(a);
  EXPECT("arg_max/" + vname<V>(), arg_max(va) == w, "a=" + showa(a, n) + " got " + show(arg_max(va)) + " want " + show(w));
}
template <class V> static void t_reduce()
{
  COUNT("reduce/" + vname<V>());
  typedef typename Dim<V>::S T;
  const int n = Dim<V>::n;
  T a[4], m[4];
  fill(a, n, LIN); fill(m, n, MUL4);
  V va = mkv<V>(a), vm = mkv<V>(m);
  if (finite_all(a, n)) {
    if (std::is_floating_point<T>::value) {
      long double ref = 0, mag = 0;
      for (int i = 0; i < n; i++) { ref += a[i]; mag += std::fabs((long double)a[i]); }
      EXPECT("reduce_add/" + vname<V>(), near(reduce_add(va), ref, mag, n), "a=" + showa(a, n) + " got " + show(reduce_add(va)) + " want " + show((T)ref));
      EXPECT("sum()/" + vname<V>(), near(va.sum(), ref, mag, n), "a=" + showa(a, n) + " got " + show(va.sum()) + " want " + show((T)ref));
    } else {
      T w = a[0];
      for (int i = 1; i < n; i++) w = (T)(w + a[i]);
      EXPECT("reduce_add/" + vname<V>(), reduce_add(va) == w, "a=" + showa(a, n) + " got " + show(reduce_add(va)) + " want " + show(w));
      EXPECT("sum()/" + vname<V>(), va.sum() == w, "a=" + showa(a, n) + " got " + show(va.sum()) + " want " + show(w));
    }
  }
  if (finite_all(m, n)) {
    if (std::is_floating_point<T>::value) {
      long double ref = 1;
      for (int i = 0; i < n; i++) ref *= m[i];
      EXPECT("reduce_mul/" + vname<V>(), near(reduce_mul(vm), ref, std::fabs(ref), n), "a=" + showa(m, n) + " got " + show(reduce_mul(vm)) + " want " + show((T)ref));
      EXPECT("product()/" + vname<V>(), near(vm.product(), ref, std::fabs(ref), n), "a=" + showa(m, n) + " got " + show(vm.product()) + " want " + show((T)ref));
    } else {
      T w = m[0];
      for (int i = 1; i < n; i++) w = (T)(w * m[i]);
      EXPECT("reduce_mul/" + vname<V>(), reduce_mul(vm) == w, "a=" + showa(m, n) + " got " + show(reduce_mul(vm)) + " want " + show(w));
      EXPECT("product()/" + vname<V>(), vm.product() == w, "a=" + showa(m, n) + " got " + show(vm.product()) + " want " + show(w));
    }
    T p[4];
    fill(p, n, POS);
    V vp = mkv<V>(p);
    size_t lw = 1;
    for (int i = 0; i < n; i++) lw *= (size_t)p[i];
    EXPECT("long_product()/" + vname<V>(), vp.long_product() == lw, "a=" + showa(p, n) + " got " + show(vp.long_product()) + " want " + show(lw));
  }
}

// unary - +, abs (signed and floating types), interpolate_uv, divRoundUp (integers)
template <class V, bool SG = std::is_signed<typename Dim<V>::S>::value> struct Signed { static void run() {} };
template <class V> struct Signed<V, true>
{
  static void run()
  {
    COUNT("unary-abs/" + vname<V>());
    typedef typename Dim<V>::S T;
    const int n = Dim<V>::n;
    T a[4];
    fill(a, n, ORD);
    V va = mkv<V>(a);
    V ng = -va, ps = +va, ab = abs(va);
    for (int i = 0; i < n; i++) {
      EXPECT("operator-(unary)/" + vname<V>(), same(get(ng, i), (T)(-a[i])), "a=" + showa(a, n) + " component " + std::to_string(i) + " got " + show(get(ng, i)) + " want " + show((T)(-a[i])));
      EXPECT("operator+(unary)/" + vname<V>(), same(get(ps, i), (T)(+a[i])), "a=" + showa(a, n) + " component " + std::to_string(i) + " got " + show(get(ps, i)) + " want " + show((T)(+a[i])));
      EXPECT("abs/" + vname<V>(), same(get(ab, i), (T)std::abs(a[i])), "a=" + showa(a, n) + " component " + std::to_string(i) + " got " + show(get(ab, i)) + " want " + show((T)std::abs(a[i])));
    }
    g_nontrivial++;
  }
};
template <class V> static void t_interp()
{
  COUNT("interpolate_uv/" + vname<V>());
  typedef typename Dim<V>::S T;
  const int n = Dim<V>::n;
  T f[3], a[4], b[4], c[4];
  fill(f, 3, MUL4); fill(a, n, MUL4); fill(b, n, MUL4); fill(c, n, MUL4);
  if (!finite_all(f, 3) || !finite_all(a, n) || !finite_all(b, n) || !finite_all(c, n)) return;
  vec_t<T, 3> vf = mkv<vec_t<T, 3>>(f);
  V r = interpolate_uv(vf, mkv<V>(a), mkv<V>(b), mkv<V>(c));
  for (int i = 0; i < n; i++) {
    long double ref = (long double)f[0] * a[i] + (long double)f[1] * b[i] + (long double)f[2] * c[i];
    long double mag = std::fabs((long double)f[0] * a[i]) + std::fabs((long double)f[1] * b[i]) + std::fabs((long double)f[2] * c[i]);
    T w = (T)((T)((T)(f[0] * a[i]) + (T)(f[1] * b[i])) + (T)(f[2] * c[i]));
    bool ok = std::is_floating_point<T>::value ? near(get(r, i), ref, mag, 5) : same(get(r, i), w);
    EXPECT("interpolate_uv/" + vname<V>(), ok, "f=" + showa(f, 3) + " a=" + showa(a, n) + " b=" + showa(b, n) + " c=" + showa(c, n) + " component " + std::to_string(i) +
           " got " + show(get(r, i)) + " want " + show(std::is_floating_point<T>::value ? (T)ref : w));
  }
  g_nontrivial++;
}
template <class V, bool I = std::is_integral<typename Dim<V>::S>::value> struct IntOnly { static void run() {} };
template <class V> struct IntOnly<V, true>
{
  static void run()
  {
    COUNT("divRoundUp/" + vname<V>());
    typedef typename Dim<V>::S T;
    const int n = Dim<V>::n;
    T a[4], b[4];
    fill(a, n, POS); fill(b, n, POS, true);
    V r = divRoundUp(mkv<V>(a), mkv<V>(b));
    for (int i = 0; i < n; i++) {
      T w = (T)((a[i] + b[i] - 1) / b[i]);
      EXPECT("divRoundUp/" + vname<V>(), same(get(r, i), w), "a=" + showa(a, n) + " b=" + showa(b, n) + " component " + std::to_string(i) + " got " + show(get(r, i)) + " want " + show(w));
    }
    t_bin<ORem, V, V, typename std::conditional<Dim<V>::pad, vec_t<T, 3>, V>::type>();
    t_asg<ARem, V, V>();
  }
};
// floating-only families: rcp rcp_safe sin cos length normalize safe_normalize madd(float)
template <class V, bool F = std::is_floating_point<typename Dim<V>::S>::value> struct FloatOnly { static void run() {} };
template <class T> static bool rel(T got, long double ref, int k)
{
  if (ref != ref) return got != got;
  if (!std::isfinite(ref)) return (long double)got == ref || !std::isfinite((long double)got) || std::fabs((long double)got) > 1e37L;
  return std::fabs((long double)got - ref) <= k * (long double)std::numeric_limits<T>::epsilon() * std::fabs(ref) + (long double)std::numeric_limits<T>::min();
}
template <class V> struct FloatOnly<V, true>
{
  static void run()
  {
    COUNT("floatfun/" + vname<V>());
    typedef typename Dim<V>::S T;
    const int n = Dim<V>::n;
    T a[4];
    fill(a, n, LIN, true);
    V va = mkv<V>(a);
    V r1 = rcp(va), r2 = rcp_safe(va), s = sin(va), c = cos(va);
    for (int i = 0; i < n; i++) {
      std::string ops = "a=" + showa(a, n) + " component " + std::to_string(i);
      EXPECT("rcp/" + vname<V>(), rel(get(r1, i), 1.0L / a[i], 8), ops + " got " + show(get(r1, i)) + " want " + show((T)(1.0L / a[i])));
      EXPECT("rcp_safe/" + vname<V>(), rel(get(r2, i), 1.0L / a[i], 8), ops + " got " + show(get(r2, i)) + " want " + show((T)(1.0L / a[i])));
      EXPECT("sin/" + vname<V>(), same(get(s, i), (T)std::sin(a[i])), ops + " got " + show(get(s, i)) + " want " + show((T)std::sin(a[i])));
      EXPECT("cos/" + vname<V>(), same(get(c, i), (T)std::cos(a[i])), ops + " got " + show(get(c, i)) + " want " + show((T)std::cos(a[i])));
    }
    // rcp_safe near zero: the reciprocal of +-FLT_MIN instead of +-inf
    T z[4] = {(T)0.0, (T)-0.0, (T)(std::numeric_limits<T>::min() / 4), (T)(-std::numeric_limits<T>::min() / 4)};
    V rz = rcp_safe(mkv<V>(z + (n == 2 ? rndint(0, 2) : 0)));
    for (int i = 0; i < n; i++) EXPECT("rcp_safe(tiny)/" + vname<V>(), std::isfinite((long double)get(rz, i)) && std::fabs((long double)get(rz, i)) > 1e37L, "component " + std::to_string(i) + " got " + show(get(rz, i)));
    long double d2 = 0;
    for (int i = 0; i < n; i++) d2 += (long double)a[i] * a[i];
    T len = length(va);
    EXPECT("length/" + vname<V>(), rel(len, std::sqrt(d2), 2 * n), "a=" + showa(a, n) + " got " + show(len) + " want " + show((T)std::sqrt(d2)));
    V nv = normalize(va), sn = safe_normalize(va);
    for (int i = 0; i < n; i++) {
      long double w = a[i] / std::sqrt(d2);
      long double w2 = a[i] / std::sqrt(std::max((long double)std::numeric_limits<T>::epsilon(), d2));
      EXPECT("normalize/" + vname<V>(), std::fabs((long double)get(nv, i) - w) <= 16 * (long double)std::numeric_limits<T>::epsilon(),
             "a=" + showa(a, n) + " component " + std::to_string(i) + " got " + show(get(nv, i)) + " want " + show((T)w));
      EXPECT("safe_normalize/" + vname<V>(), std::fabs((long double)get(sn, i) - w2) <= 16 * (long double)std::numeric_limits<T>::epsilon(),
             "a=" + showa(a, n) + " component " + std::to_string(i) + " got " + show(get(sn, i)) + " want " + show((T)w2));
    }
    g_nontrivial++;
  }
};
template <bool A> static void t_madd()
{
  COUNT(std::string("madd/floatx3") + (A ? "a" : ""));
  typedef vec_t<float, 3, A> V;
  float a[3], b[3], c[3];
  fill(a, 3, MUL4); fill(b, 3, MUL4); fill(c, 3, MUL4);
  V r = madd(mkv<V>(a), mkv<V>(b), mkv<V>(c));
  for (int i = 0; i < 3; i++) {
    float w = a[i] * b[i] + c[i];
    EXPECT("madd/" + vname<V>(), same(get(r, i), w), "a=" + showa(a, 3) + " b=" + showa(b, 3) + " c=" + showa(c, 3) + " component " + std::to_string(i) + " got " + show(get(r, i)) + " want " + show(w));
  }
  g_nontrivial++;
}


// unary - and + for EVERY element type (unsigned: wrap-around, 8/16 bit: computed in int and narrowed); sin / cos on integer element
// types (the scalar call returns double, converted back per component); clamp and lerp (rkmath.h templates) applied to vectors;
// madd on double vectors (scalar madd<double>)
template <class V> static void t_unary_all()
{
  typedef typename Dim<V>::S T;
  const int n = Dim<V>::n;
  COUNT("unary/" + vname<V>());
  T a[4];
  fill(a, n, ORD);
  V va = mkv<V>(a);
  V ng = -va, ps = +va;
  for (int i = 0; i < n; i++) {
    EXPECT("operator-(unary)/" + vname<V>(), same(get(ng, i), (T)(-a[i])), "a=" + showa(a, n) + " component " + std::to_string(i) + " got " + show(get(ng, i)) + " want " + show((T)(-a[i])));
    EXPECT("operator+(unary)/" + vname<V>(), same(get(ps, i), (T)(+a[i])), "a=" + showa(a, n) + " component " + std::to_string(i) + " got " + show(get(ps, i)) + " want " + show((T)(+a[i])));
  }
}
template <class V, bool I = std::is_integral<typename Dim<V>::S>::value> struct IntTrig { static void run() {} };
template <class V> struct IntTrig<V, true>
{
  static void run()
  {
    typedef typename Dim<V>::S T;
    const int n = Dim<V>::n;
    COUNT("sincos-int/" + vname<V>());
    T a[4];
    fill(a, n, POS);
    V va = mkv<V>(a);
    V s = sin(va), c = cos(va);
    for (int i = 0; i < n; i++) {
      T ws = (T)sin(a[i]), wc = (T)cos(a[i]);
      EXPECT("sin/" + vname<V>(), same(get(s, i), ws), "a=" + showa(a, n) + " component " + std::to_string(i) + " got " + show(get(s, i)) + " want " + show(ws));
      EXPECT("cos/" + vname<V>(), same(get(c, i), wc), "a=" + showa(a, n) + " component " + std::to_string(i) + " got " + show(get(c, i)) + " want " + show(wc));
    }
  }
};
// clamp(x) with the default bounds needs T(zero) / T(one): ambiguous for signed char (int8_t), see props/C04/cover.py
template <class V, bool OK = !std::is_same<typename Dim<V>::S, signed char>::value> struct ClampDefault { static V ap(const V &x) { return clamp(x); } };
template <class V> struct ClampDefault<V, false>
{
  static V ap(const V &x) { typedef typename Dim<V>::S T; return clamp(x, V(T(0)), V(T(1))); }
};
template <class V> static void t_clamp_lerp()
{
  typedef typename Dim<V>::S T;
  const int n = Dim<V>::n;
  COUNT("clamp-lerp/" + vname<V>());
  T x[4], lo[4], hi[4];
  fill(x, n, MUL4); fill(lo, n, MUL4); fill(hi, n, MUL4);
  for (int i = 0; i < n; i++) if (hi[i] < lo[i]) { T t = lo[i]; lo[i] = hi[i]; hi[i] = t; }
  V r = clamp(mkv<V>(x), mkv<V>(lo), mkv<V>(hi));
  V d = ClampDefault<V>::ap(mkv<V>(x));                                       // default bounds T(zero), T(one) broadcast to every component
  for (int i = 0; i < n; i++) {
    T w = std::max(std::min(x[i], hi[i]), lo[i]);
    T wd = std::max(std::min(x[i], (T)1), (T)0);
    EXPECT("clamp(vec)/" + vname<V>(), same(get(r, i), w), "x=" + showa(x, n) + " lo=" + showa(lo, n) + " hi=" + showa(hi, n) + " component " + std::to_string(i) + " got " + show(get(r, i)) + " want " + show(w));
    EXPECT("clamp(vec,default bounds)/" + vname<V>(), same(get(d, i), wd), "x=" + showa(x, n) + " component " + std::to_string(i) + " got " + show(get(d, i)) + " want " + show(wd));
  }
}
template <class V, bool F = std::is_floating_point<typename Dim<V>::S>::value> struct Lerp { static void run() {} };
template <class V> struct Lerp<V, true>
{
  static void run()
  {
    typedef typename Dim<V>::S T;
    const int n = Dim<V>::n;
    COUNT("lerp/" + vname<V>());
    T a[4], b[4];
    fill(a, n, MUL4); fill(b, n, MUL4);
    float f = rndint(-8, 24) / 16.f;
    V r = lerp(f, mkv<V>(a), mkv<V>(b));
    for (int i = 0; i < n; i++) {
      T w = (T)((T)((1.f - f) * a[i]) + (T)(f * b[i]));
      EXPECT("lerp/" + vname<V>(), same(get(r, i), w), "f=" + show(f) + " a=" + showa(a, n) + " b=" + showa(b, n) + " component " + std::to_string(i) + " got " + show(get(r, i)) + " want " + show(w));
    }
  }
};
template <bool A> static void t_madd_d()
{
  typedef vec_t<double, 3, A> V;
  COUNT(std::string("madd/doublex3") + (A ? "a" : ""));
  double a[3], b[3], c[3];
  fill(a, 3, MUL4); fill(b, 3, MUL4); fill(c, 3, MUL4);
  V r = madd(mkv<V>(a), mkv<V>(b), mkv<V>(c));
  for (int i = 0; i < 3; i++) {
    double w = a[i] * b[i] + c[i];
    EXPECT("madd/" + vname<V>(), same(get(r, i), w), "a=" + showa(a, 3) + " b=" + showa(b, 3) + " c=" + showa(c, 3) + " component " + std::to_string(i) + " got " + show(get(r, i)) + " want " + show(w));
  }
}

// ------------------------------------------------------------------------------------------------ construction, conversion, indexing, layout, streaming
template <class V> static void t_access()
{
  COUNT("access/" + vname<V>());
  typedef typename Dim<V>::S T;
  const int n = Dim<V>::n;
  T a[4];
  fill(a, n, ORD);
  V v = mkv<V>(a);
  const V &cv = v;
  EXPECT("layout/sizeof/" + vname<V>(), sizeof(V) == (n + Dim<V>::pad) * sizeof(T), "sizeof=" + std::to_string(sizeof(V)));
  EXPECT("layout/offsetof/" + vname<V>(), (char *)&v.x == (char *)&v && (char *)&v.y == (char *)&v + sizeof(T), "x,y offsets");
  const T *p = (const T *)cv;
  T *q = (T *)v;
  bool pv_ok = (const void *)p == (const void *)&v && (void *)q == (void *)&v;
  EXPECT("pointer-view/" + vname<V>(), pv_ok, "a=" + showa(a, n) + ": (T*)v / (const T*)v does not address the component x (offset " +
         std::to_string((long)((const char *)p - (const char *)&v)) + "/" + std::to_string((long)((char *)q - (char *)&v)) + " bytes)");
  if (!pv_ok) return;
  for (int i = 0; i < n; i++) {
    EXPECT("operator[]const/" + vname<V>(), same(cv[i], a[i]) && &cv[i] == (const T *)((const char *)&v + i * sizeof(T)), "a=" + showa(a, n) + " index " + std::to_string(i) + " got " + show(cv[i]));
    EXPECT("pointer-view/" + vname<V>(), same(p[i], a[i]), "a=" + showa(a, n) + " index " + std::to_string(i) + " got " + show(p[i]));
  }
  // writes through operator[] and through the pointer view land in the named member
  T b[4];
  fill(b, n, ORD);
  V w = mkv<V>(a), u = mkv<V>(a);
  for (int i = 0; i < n; i++) { w[i] = b[i]; ((T *)u)[i] = b[i]; }
  for (int i = 0; i < n; i++) {
    EXPECT("operator[]write/" + vname<V>(), same(get(w, i), b[i]), "index " + std::to_string(i) + " got " + show(get(w, i)) + " want " + show(b[i]));
    EXPECT("pointer-view-write/" + vname<V>(), same(get(u, i), b[i]), "index " + std::to_string(i) + " got " + show(get(u, i)) + " want " + show(b[i]));
  }
  // constructors: pointer, broadcast, per component
  V fp((const T *)a), fb(a[0]);
  for (int i = 0; i < n; i++) {
    EXPECT("ctor(pointer)/" + vname<V>(), same(get(fp, i), a[i]), "a=" + showa(a, n) + " got " + showv(fp));
    EXPECT("ctor(broadcast)/" + vname<V>(), same(get(fb, i), a[0]), "s=" + show(a[0]) + " got " + showv(fb));
  }
  std::ostringstream o1, o2;
  o1 << v;
  o2 << "(";
  for (int i = 0; i < n; i++) { if (i) o2 << ","; o2 << a[i]; }
  o2 << ")";
  EXPECT("operator<</" + vname<V>(), o1.str() == o2.str(), "got " + o1.str() + " want " + o2.str());
  {
    std::ostringstream o3;
    auto &&r = (o3 << v);
    EXPECT("operator<</returns-its-stream/" + vname<V>(), (const void *)&r == (const void *)static_cast<std::ostream *>(&o3), "the returned stream is not the left operand");
  }
  g_nontrivial++;
}
template <class T> static void t_ctors()
{
  COUNT(std::string("ctors/") + TN<T>::n());
  T a[8];
  fill(a, 8, ORD);
  vec_t<T, 2> v2(a[0], a[1]);
  vec_t<T, 3> v3(a[0], a[1], a[2]);
  vec_t<T, 3, true> v3a(a[0], a[1], a[2]);
  vec_t<T, 4> v4(a[0], a[1], a[2], a[3]);
  std::string ops = "args=" + showa(a, 8);
  EXPECT(std::string("ctor(x,y)/") + TN<T>::n(), same(v2.x, a[0]) && same(v2.y, a[1]), ops + " got " + showv(v2));
  EXPECT(std::string("ctor(x,y,z)/") + TN<T>::n(), same(v3.x, a[0]) && same(v3.y, a[1]) && same(v3.z, a[2]), ops + " got " + showv(v3));
  EXPECT(std::string("ctor(x,y,z)/padded/") + TN<T>::n(), same(v3a.x, a[0]) && same(v3a.y, a[1]) && same(v3a.z, a[2]), ops + " got " + showv(v3a));
  EXPECT(std::string("ctor(x,y,z,w)/") + TN<T>::n(), same(v4.x, a[0]) && same(v4.y, a[1]) && same(v4.z, a[2]) && same(v4.w, a[3]), ops + " got " + showv(v4));
  vec_t<T, 2> p(a[4], a[5]), q(a[6], a[7]);
  vec_t<T, 3> e3(p, a[0]);
  vec_t<T, 3, true> e3a(p, a[0]);
  vec_t<T, 4> e4(p, q), f4(v3, a[7]), g4(v3a, a[6]);
  EXPECT(std::string("ctor(vec2,z)/") + TN<T>::n(), same(e3.x, a[4]) && same(e3.y, a[5]) && same(e3.z, a[0]), ops + " got " + showv(e3));
  EXPECT(std::string("ctor(vec2,z)/padded/") + TN<T>::n(), same(e3a.x, a[4]) && same(e3a.y, a[5]) && same(e3a.z, a[0]), ops + " got " + showv(e3a));
  EXPECT(std::string("ctor(vec2,vec2)/") + TN<T>::n(), same(e4.x, a[4]) && same(e4.y, a[5]) && same(e4.z, a[6]) && same(e4.w, a[7]), ops + " got " + showv(e4));
  EXPECT(std::string("ctor(vec3,w)/") + TN<T>::n(), same(f4.x, a[0]) && same(f4.y, a[1]) && same(f4.z, a[2]) && same(f4.w, a[7]), ops + " got " + showv(f4));
  EXPECT(std::string("ctor(vec3a,w)/") + TN<T>::n(), same(g4.x, a[0]) && same(g4.y, a[1]) && same(g4.z, a[2]) && same(g4.w, a[6]), ops + " got " + showv(g4));
  vec_t<T, 3> c3 = v3a;                     // operator vec_t<T,3>() of the padded shape
  vec_t<T, 3> d3(v3a);
  vec_t<T, 3, true> c3a(v3);
  EXPECT(std::string("conversion(vec3a->vec3)/") + TN<T>::n(), same(c3.x, a[0]) && same(c3.y, a[1]) && same(c3.z, a[2]) && same(d3.x, a[0]) && same(d3.y, a[1]) && same(d3.z, a[2]), ops + " got " + showv(c3));
  EXPECT(std::string("conversion(vec3->vec3a)/") + TN<T>::n(), same(c3a.x, a[0]) && same(c3a.y, a[1]) && same(c3a.z, a[2]), ops + " got " + showv(c3a));
  g_nontrivial++;
}
// element type conversion T -> U for every shape: converting constructor, explicit conversion operator, broadcast of a U
template <class T, class U> static void t_convert()
{
  COUNT(std::string("convert/") + TN<T>::n() + "->" + TN<U>::n());
  T a[4];
  const bool f2i = std::is_floating_point<T>::value && !std::is_floating_point<U>::value;
  const bool narrow_signed = !std::is_floating_point<T>::value && !std::is_floating_point<U>::value;
  fill(a, 4, f2i ? POS : ORD);
  (void)narrow_signed;
  if (!finite_all(a, 4) && !std::is_floating_point<U>::value) return;
  std::string tag = std::string(TN<T>::n()) + "->" + TN<U>::n();
  vec_t<T, 2> v2(a[0], a[1]); vec_t<T, 3> v3(a[0], a[1], a[2]); vec_t<T, 3, true> v3a(a[0], a[1], a[2]); vec_t<T, 4> v4(a[0], a[1], a[2], a[3]);
  vec_t<U, 2> c2(v2); vec_t<U, 3> c3(v3), c3x(v3a); vec_t<U, 3, true> c3a(v3a), c3ax(v3); vec_t<U, 4> c4(v4);
  std::string ops = "a=" + showa(a, 4);
  EXPECT("convert/vec2/" + tag, same(c2.x, (U)a[0]) && same(c2.y, (U)a[1]), ops + " got " + showv(c2));
  EXPECT("convert/vec3/" + tag, same(c3.x, (U)a[0]) && same(c3.y, (U)a[1]) && same(c3.z, (U)a[2]), ops + " got " + showv(c3));
  EXPECT("convert/vec3a->vec3/" + tag, same(c3x.x, (U)a[0]) && same(c3x.y, (U)a[1]) && same(c3x.z, (U)a[2]), ops + " got " + showv(c3x));
  EXPECT("convert/vec3a/" + tag, same(c3a.x, (U)a[0]) && same(c3a.y, (U)a[1]) && same(c3a.z, (U)a[2]), ops + " got " + showv(c3a));
  EXPECT("convert/vec3->vec3a/" + tag, same(c3ax.x, (U)a[0]) && same(c3ax.y, (U)a[1]) && same(c3ax.z, (U)a[2]), ops + " got " + showv(c3ax));
  EXPECT("convert/vec4/" + tag, same(c4.x, (U)a[0]) && same(c4.y, (U)a[1]) && same(c4.z, (U)a[2]) && same(c4.w, (U)a[3]), ops + " got " + showv(c4));
  vec_t<U, 2> o2 = v2.operator vec_t<U, 2>(); vec_t<U, 3> o3 = v3.operator vec_t<U, 3>();
  vec_t<U, 3, true> o3a = v3a.operator vec_t<U, 3, true>(); vec_t<U, 4> o4 = v4.operator vec_t<U, 4>();
  EXPECT("conversion-operator/vec2/" + tag, same(o2.x, (U)a[0]) && same(o2.y, (U)a[1]), ops + " got " + showv(o2));
  EXPECT("conversion-operator/vec3/" + tag, same(o3.x, (U)a[0]) && same(o3.y, (U)a[1]) && same(o3.z, (U)a[2]), ops + " got " + showv(o3));
  EXPECT("conversion-operator/vec3a/" + tag, same(o3a.x, (U)a[0]) && same(o3a.y, (U)a[1]) && same(o3a.z, (U)a[2]), ops + " got " + showv(o3a));
  EXPECT("conversion-operator/vec4/" + tag, same(o4.x, (U)a[0]) && same(o4.y, (U)a[1]) && same(o4.z, (U)a[2]) && same(o4.w, (U)a[3]), ops + " got " + showv(o4));
  vec_t<U, 2> b2(a[0]); vec_t<U, 3> b3(a[0]); vec_t<U, 3, true> b3a(a[0]); vec_t<U, 4> b4(a[0]);
  EXPECT("ctor(broadcast other type)/" + tag, same(b2.x, (U)a[0]) && same(b2.y, (U)a[0]) && same(b3.z, (U)a[0]) && same(b3a.y, (U)a[0]) && same(b4.w, (U)a[0]) && same(b4.x, (U)a[0]) && same(b3.x, (U)a[0]),
         "s=" + show(a[0]) + " got " + showv(b4));
  g_nontrivial++;
}


// ------------------------------------------------------------------------------------------------ the padded shape: its value is (x,y,z) only
// vec_t<T,3,true> has a 4th storage slot padding_ that is not a component and that no constructor initialises.  Two vectors
// that were built independently carry different leftovers there.  Every operation must ignore the slot: operands are built by
// placement-new into buffers pre-filled with DIFFERENT byte patterns through every construction form, with equal x,y,z and
// different padding, and the reverse (equal padding, different z).  Oracle = comparison of the components by member name.
static const unsigned char PADPAT[3] = {0x00, 0xFF, 0xA5};
static const char *PADFORM[6] = {"component-wise ctor", "broadcast ctor + operator[] stores", "copy from unpadded vec_t<T,3>", "pointer ctor",
                                 "copy of another padded vector + member stores", "converting ctor from vec_t<double,3>"};
template <class T> struct PaddedBox
{
  typedef vec_t<T, 3, true> VA;
  alignas(16) unsigned char buf[sizeof(VA)];
  VA *p;
  int form, pat;
  void build(const T *c, int f, int pt)
  {
    form = f; pat = pt;
    memset(buf, PADPAT[pat], sizeof buf);
    bool viadouble = true;
    for (int i = 0; i < 3; i++) if (!same((T)(double)c[i], c[i]) || (std::is_floating_point<T>::value && c[i] != c[i])) viadouble = false;
    if (form == 5 && !viadouble) form = 0;
    switch (form) {
    case 0: p = new (buf) VA(c[0], c[1], c[2]); break;
    case 1: p = new (buf) VA(c[0]); (*p)[1] = c[1]; (*p)[2] = c[2]; break;
    case 2: { vec_t<T, 3> u(c[0], c[1], c[2]); p = new (buf) VA(u); } break;
    case 3: p = new (buf) VA((const T *)c); break;
    case 4: {
      VA tmp(c[2], c[0], c[1]);
      memset((char *)&tmp + 3 * sizeof(T), PADPAT[pat], sizeof(T));
      p = new (buf) VA(tmp); p->x = c[0]; p->y = c[1]; p->z = c[2];
    } break;
    default: { vec_t<double, 3> u((double)c[0], (double)c[1], (double)c[2]); p = new (buf) VA(u); } break;
    }
    memset(buf + 3 * sizeof(T), PADPAT[pat], sizeof(T));       // the leftover, made deterministic
  }
  std::string how() const
  {
    char s[16]; snprintf(s, sizeof s, "0x%02X", PADPAT[pat]);
    return std::string("[placement-new into a buffer pre-filled with ") + s + ", " + PADFORM[form] + "]";
  }
};
template <class T> static void t_padded()
{
  COUNT(std::string("padded/") + TN<T>::n());
  typedef vec_t<T, 3, true> VA; typedef vec_t<T, 3> V;
  T a[3], b[3];
  fill(a, 3, MUL4); fill(b, 3, MUL4);
  int sc = rndint(0, 5);               // 0,1,2: equal x,y,z + different padding; 3: equal padding, different z only; 4: equal x only; 5: unrelated
  if (sc <= 3) { b[0] = a[0]; b[1] = a[1]; if (sc <= 2) b[2] = a[2]; }
  if (sc == 4) b[0] = a[0];
  bool hasnan = false;
  for (int i = 0; i < 3; i++) if (a[i] != a[i] || b[i] != b[i]) hasnan = true;
  int pa = rndint(0, 2), pb = sc <= 2 ? (pa + 1 + rndint(0, 1)) % 3 : sc == 3 ? pa : rndint(0, 2);
  PaddedBox<T> A, B;
  A.build(a, rndint(0, 5), pa); B.build(b, rndint(0, 5), pb);
  const VA &va = *A.p, &vb = *B.p;
  V ua(a[0], a[1], a[2]), ub(b[0], b[1], b[2]);
  bool eq = a[0] == b[0] && a[1] == b[1] && a[2] == b[2];
  bool any = a[0] < b[0] || a[1] < b[1] || a[2] < b[2];
  bool lex = false;
  for (int i = 0; i < 3; i++) { if (a[i] < b[i]) { lex = true; break; } if (!(a[i] == b[i])) break; }
  std::string ops = "a=" + showa(a, 3) + " " + A.how() + " b=" + showa(b, 3) + " " + B.how();
  std::string tn = std::string(TN<T>::n()) + "x3a";
  EXPECT("padded/operator==/" + tn + "," + tn, (va == vb) == eq, ops + " got " + show((int)(va == vb)) + " want " + show((int)eq) + " (x,y,z compared by name; padding_ is not a component)");
  EXPECT("padded/operator!=/" + tn + "," + tn, (va != vb) == !eq, ops + " got " + show((int)(va != vb)) + " want " + show((int)!eq));
  EXPECT("padded/operator==/" + tn + ",unpadded", (va == ub) == eq && (ua == vb) == eq, ops + " got " + show((int)(va == ub)) + "," + show((int)(ua == vb)) + " want " + show((int)eq));
  EXPECT("padded/operator!=/" + tn + ",unpadded", (va != ub) == !eq && (ua != vb) == !eq, ops + " got " + show((int)(va != ub)) + "," + show((int)(ua != vb)) + " want " + show((int)!eq));
  EXPECT("padded/anyLessThan/" + tn, anyLessThan(va, vb) == any && anyLessThan(va, ub) == any && anyLessThan(ua, vb) == any, ops + " got " + show((int)anyLessThan(va, vb)) + " want " + show((int)any));
  if (!hasnan) {
    EXPECT("padded/std::less/" + tn, std::less<VA>()(va, vb) == lex, ops + " got " + show((int)std::less<VA>()(va, vb)) + " want " + show((int)lex));
    bool lexba = false;
    for (int i = 0; i < 3; i++) { if (b[i] < a[i]) { lexba = true; break; } if (!(a[i] == b[i])) break; }
    EXPECT("padded/std::less(b,a)/" + tn, std::less<VA>()(vb, va) == lexba, ops + " got " + show((int)std::less<VA>()(vb, va)) + " want " + show((int)lexba));
  }
  // everything else that takes a whole padded object: copy, conversion to the unpadded shape, min / max, dot, reductions, streaming
  VA cp(va);
  V cu = va;
  VA mn = min(va, vb), mx = max(va, vb);
  for (int i = 0; i < 3; i++) {
    EXPECT("padded/copy/" + tn, same(get(cp, i), a[i]) && same(get(cu, i), a[i]), ops + " component " + std::to_string(i) + " got " + show(get(cp, i)) + "," + show(get(cu, i)));
    EXPECT("padded/min-max/" + tn, same(get(mn, i), std::min(a[i], b[i])) && same(get(mx, i), std::max(a[i], b[i])), ops + " component " + std::to_string(i) + " got " + show(get(mn, i)) + "," + show(get(mx, i)));
  }
  EXPECT("padded/copy==/" + tn, hasnan || ((cp == va) && !(cp != va) && (cu == va) && (va == cu)), ops + ": a copy does not compare equal to its source");
  if (finite_all(a, 3) && finite_all(b, 3)) {
    EXPECT("padded/dot/" + tn, same(dot(va, vb), dot(ua, ub)) && same(dot(va, ub), dot(ua, ub)) && same(dot(ua, vb), dot(ua, ub)), ops + " got " + show(dot(va, vb)) + " want " + show(dot(ua, ub)));
    EXPECT("padded/reduce/" + tn, same(reduce_add(va), reduce_add(ua)) && same(reduce_mul(va), reduce_mul(ua)) && same(va.sum(), ua.sum()) && same(va.product(), ua.product()), ops);
  }
  if (!hasnan) EXPECT("padded/reduce_min-max/" + tn, same(reduce_min(va), reduce_min(ua)) && same(reduce_max(va), reduce_max(ua)), ops);
  std::ostringstream o1, o2;
  o1 << va; o2 << ua;
  EXPECT("padded/operator<</" + tn, o1.str() == o2.str(), ops + " got " + o1.str() + " want " + o2.str());
  if (sc <= 3) g_nontrivial++;
}


// ------------------------------------------------------------------------------------------------ streaming under every stream state
// The streamed text must be exactly "(" + each component streamed TO THAT STREAM + ")" (commas between): whatever format state the
// stream carries (basefield, floatfield, showbase/showpos/showpoint/uppercase/boolalpha, precision, width + fill + adjustment)
// applies to the components exactly as it does when they are streamed one by one, and the stream's state after the call is the
// state left by those scalar insertions (flags / precision / fill unchanged, width reset).
struct StreamState { const char *name; void (*set)(std::ostream &); };
static void ss_default(std::ostream &) {}
static void ss_hex(std::ostream &o) { o << std::hex; }
static void ss_oct(std::ostream &o) { o << std::oct; }
static void ss_hexbase(std::ostream &o) { o << std::hex << std::showbase; }
static void ss_hexupper(std::ostream &o) { o << std::hex << std::uppercase << std::showbase; }
static void ss_fixed3(std::ostream &o) { o << std::fixed << std::setprecision(3); }
static void ss_sci2(std::ostream &o) { o << std::scientific << std::setprecision(2); }
static void ss_sciupper(std::ostream &o) { o << std::scientific << std::uppercase; }
static void ss_showpos(std::ostream &o) { o << std::showpos; }
static void ss_showpoint(std::ostream &o) { o << std::showpoint; }
static void ss_prec12(std::ostream &o) { o << std::setprecision(12); }
static void ss_boolalpha(std::ostream &o) { o << std::boolalpha; }
static void ss_width(std::ostream &o) { o << std::setfill('*') << std::setw(8); }
static void ss_leftwidth(std::ostream &o) { o << std::left << std::setfill('.') << std::setw(6); }
static void ss_internal(std::ostream &o) { o << std::internal << std::showpos << std::setw(9); }
static const StreamState STREAM_STATES[] = {
    {"default", ss_default}, {"hex", ss_hex}, {"oct", ss_oct}, {"hex|showbase", ss_hexbase}, {"hex|uppercase|showbase", ss_hexupper},
    {"fixed,precision(3)", ss_fixed3}, {"scientific,precision(2)", ss_sci2}, {"scientific|uppercase", ss_sciupper}, {"showpos", ss_showpos},
    {"showpoint", ss_showpoint}, {"precision(12)", ss_prec12}, {"boolalpha", ss_boolalpha}, {"setfill('*'),setw(8)", ss_width},
    {"left,setfill('.'),setw(6)", ss_leftwidth}, {"internal|showpos,setw(9)", ss_internal}};
template <class V> static void t_stream()
{
  typedef typename Dim<V>::S T;
  const int n = Dim<V>::n;
  COUNT("stream/" + vname<V>());
  T a[4];
  fill(a, n, ORD);
  if (rndint(0, 3) == 0) { a[0] = (T)255; a[1] = (T)4096; if (n > 2) a[2] = (T)48879; }     // values whose hex / oct / fixed spellings differ from the default
  V v = mkv<V>(a);
  const int ns = (int)(sizeof(STREAM_STATES) / sizeof(STREAM_STATES[0]));
  for (int k = 0; k < ns; k++) {
    std::ostringstream o1, o2;
    STREAM_STATES[k].set(o1); STREAM_STATES[k].set(o2);
    auto &&r = (o1 << v);
    o2 << "(";
    for (int i = 0; i < n; i++) { if (i) o2 << ","; o2 << a[i]; }
    o2 << ")";
    g_checks += 2;
    if (o1.str() != o2.str())
      fail("operator<</" + vname<V>() + "/stream-state", std::string("stream state ") + STREAM_STATES[k].name + " a=" + showa(a, n) + " got \"" + o1.str() +
           "\" want \"" + o2.str() + "\" (the components streamed one by one into an identically configured stream)");
    bool st = o1.flags() == o2.flags() && o1.precision() == o2.precision() && o1.width() == o2.width() && o1.fill() == o2.fill() &&
              (const void *)&r == (const void *)static_cast<std::ostream *>(&o1) && o1.good() == o2.good();
    if (!st)
      fail("operator<</" + vname<V>() + "/stream-state-after", std::string("stream state ") + STREAM_STATES[k].name + " a=" + showa(a, n) +
           ": flags/precision/width/fill after the call differ from those after streaming the components (flags " + std::to_string((long)o1.flags()) + " vs " +
           std::to_string((long)o2.flags()) + ", width " + std::to_string((long)o1.width()) + " vs " + std::to_string((long)o2.width()) + ")");
  }
  g_nontrivial++;
}

// ------------------------------------------------------------------------------------------------ per element type
template <class T> static void all_for_type(int iters)
{
  typedef vec_t<T, 2> V2; typedef vec_t<T, 3> V3; typedef vec_t<T, 3, true> V3A; typedef vec_t<T, 4> V4;
  for (int it = 0; it < iters; it++) {
#define SAME_T(Op, AOp) \
    t_bin<Op, V2, V2, V2>(); t_bin<Op, V3, V3, V3>(); t_bin<Op, V3A, V3A, V3>(); t_bin<Op, V3, V3A, V3>(); t_bin<Op, V3A, V3, V3>(); t_bin<Op, V4, V4, V4>(); \
    t_asg<AOp, V2, V2>(); t_asg<AOp, V3, V3>(); t_asg<AOp, V3A, V3A>(); t_asg<AOp, V3, V3A>(); t_asg<AOp, V3A, V3>(); t_asg<AOp, V4, V4>();
    SAME_T(OAdd, AAdd) SAME_T(OSub, ASub) SAME_T(OMul, AMul) SAME_T(ODiv, ADiv)
    t_dot_cmp<V2, V2>(); t_dot_cmp<V3, V3>(); t_dot_cmp<V3A, V3A>(); t_dot_cmp<V3, V3A>(); t_dot_cmp<V3A, V3>(); t_dot_cmp<V4, V4>();
    t_cross<V3, V3>(); t_cross<V3A, V3A>(); t_cross<V3, V3A>(); t_cross<V3A, V3>();
    t_order<V2>(); t_order<V3>(); t_order<V3A>(); t_order<V4>();
    t_argmax<V2>(); t_argmax<V3>(); t_argmax<V4>();
    t_reduce<V2>(); t_reduce<V3>(); t_reduce<V3A>(); t_reduce<V4>();
    Signed<V2>::run(); Signed<V3>::run(); Signed<V3A>::run(); Signed<V4>::run();
    t_interp<V2>(); t_interp<V3>(); t_interp<V3A>(); t_interp<V4>();
    IntOnly<V2>::run(); IntOnly<V3>::run(); IntOnly<V3A>::run(); IntOnly<V4>::run();
    FloatOnly<V2>::run(); FloatOnly<V3>::run(); FloatOnly<V3A>::run(); FloatOnly<V4>::run();
    t_access<V2>(); t_access<V3>(); t_access<V3A>(); t_access<V4>();
    t_ctors<T>();
    t_unary_all<V2>(); t_unary_all<V3>(); t_unary_all<V3A>(); t_unary_all<V4>();
    IntTrig<V2>::run(); IntTrig<V3>::run(); IntTrig<V3A>::run(); IntTrig<V4>::run();
    t_clamp_lerp<V2>(); t_clamp_lerp<V3>(); t_clamp_lerp<V3A>(); t_clamp_lerp<V4>();
    Lerp<V2>::run(); Lerp<V3>::run(); Lerp<V3A>::run(); Lerp<V4>::run();
    t_stream<V2>(); t_stream<V3>(); t_stream<V3A>(); t_stream<V4>();
    t_padded<T>(); t_padded<T>(); t_padded<T>();
  }
  printf("COV type_%s=%d\n", TN<T>::n(), iters);
}
// mixed element types: T op U at the usual arithmetic conversion R; T op= U converted back to T
template <class T, class U> static void mixed(int iters)
{
  typedef decltype(T() + U()) R;
  for (int it = 0; it < iters; it++) {
#define MIX(Op, AOp) \
    t_bin<Op, vec_t<T, 2>, vec_t<U, 2>, vec_t<R, 2>>(); t_bin<Op, vec_t<T, 3>, vec_t<U, 3>, vec_t<R, 3>>(); \
    t_bin<Op, vec_t<T, 3, true>, vec_t<U, 3, true>, vec_t<R, 3, true>>(); t_bin<Op, vec_t<T, 4>, vec_t<U, 4>, vec_t<R, 4>>(); \
    t_asg<AOp, vec_t<T, 2>, vec_t<U, 2>>(); t_asg<AOp, vec_t<T, 3>, vec_t<U, 3>>(); t_asg<AOp, vec_t<T, 3, true>, vec_t<U, 3, true>>(); \
    t_asg<AOp, vec_t<T, 3>, vec_t<U, 3, true>>(); t_asg<AOp, vec_t<T, 4>, vec_t<U, 4>>();
    MIX(OAdd, AAdd) MIX(OSub, ASub) MIX(OMul, AMul) MIX(ODiv, ADiv)
    t_convert<T, U>(); t_convert<U, T>();
  }
  printf("COV mixed_%s_%s=%d\n", TN<T>::n(), TN<U>::n(), iters);
}
template <class T, class U> static void mixed_rem(int iters)
{
  typedef decltype(T() % U()) R;
  for (int it = 0; it < iters; it++) {
    t_bin<ORem, vec_t<T, 2>, vec_t<U, 2>, vec_t<R, 2>>(); t_bin<ORem, vec_t<T, 3>, vec_t<U, 3>, vec_t<R, 3>>(); t_bin<ORem, vec_t<T, 4>, vec_t<U, 4>, vec_t<R, 4>>();
    t_asg<ARem, vec_t<T, 2>, vec_t<U, 2>>(); t_asg<ARem, vec_t<T, 3>, vec_t<U, 3>>(); t_asg<ARem, vec_t<T, 4>, vec_t<U, 4>>();
  }
}

int main(int argc, char **argv)
{
  unsigned long long seed = argc > 1 ? strtoull(argv[1], nullptr, 10) : 1;
  int iters = argc > 2 ? atoi(argv[2]) : 200;
  g_s ^= (seed + 1) * 0x9E3779B97F4A7C15ULL + ORACLE_PART * 7919;
  for (int i = 0; i < 10; i++) rnd64();
#if ORACLE_PART == 0
  all_for_type<float>(iters);
  all_for_type<double>(iters);
  for (int it = 0; it < iters; it++) { t_madd<false>(); t_madd<true>(); t_madd_d<false>(); t_madd_d<true>(); }
  mixed<float, double>(iters / 2);
#elif ORACLE_PART == 1
  all_for_type<int32_t>(iters);
  all_for_type<uint32_t>(iters);
  all_for_type<int64_t>(iters);
  mixed<float, int32_t>(iters / 2);
  mixed<int32_t, double>(iters / 2);
#elif ORACLE_PART == 2
  all_for_type<uint64_t>(iters);
  all_for_type<int8_t>(iters);
  all_for_type<uint8_t>(iters);
  mixed<int64_t, int32_t>(iters / 2);
  mixed<uint8_t, int32_t>(iters / 2);
  mixed<int8_t, float>(iters / 2);
  mixed_rem<int32_t, uint8_t>(iters / 2);
  mixed_rem<uint8_t, int16_t>(iters / 2);
#else
  all_for_type<int16_t>(iters);
  all_for_type<uint16_t>(iters);
  mixed<int16_t, int8_t>(iters / 2);
  mixed<uint16_t, uint8_t>(iters / 2);
  mixed<int16_t, int32_t>(iters / 2);
  mixed<uint32_t, int32_t>(iters / 2);
  mixed<double, int64_t>(iters / 2);
#endif
  for (std::map<std::string, unsigned long long>::iterator it = g_cnt.begin(); it != g_cnt.end(); ++it) printf("CNT %s %llu\n", it->first.c_str(), it->second);
  printf("COV nontrivial=%llu\n", g_nontrivial);
  printf("DONE checks=%llu fails=%llu\n", g_checks, g_fail);
  return 0;
}
