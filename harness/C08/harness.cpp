// C08 harness: runs histories of IntrusivePtr / RefCountedObject operations on the real templates
// of the working tree and prints canonical observations (see ocaml/C08/driver.ml for the format).
//
//   harness seq NB ND          histories on stdin, one per line; NB handles IntrusivePtr<Base>
//                              (indices 0..NB-1) and ND handles IntrusivePtr<Derived> (NB..NB+ND-1)
//   harness threads T OPS SEED ROUNDS   concurrent phase, prints "threads ok ..." or "threads FAIL ..."
#include <algorithm>
#include <atomic>
#include <cstdio>
#include <cstdlib>
#include <cstring>
#include <functional>
#include <iostream>
#include <mutex>
#include <new>
#include <sstream>
#include <string>
#include <thread>
#include <type_traits>
#include <vector>

#include "rkcommon/memory/IntrusivePtr.h"
#include "rkcommon/memory/RefCount.h"

using rkcommon::memory::IntrusivePtr;
using rkcommon::memory::RefCountedObject;

// The harness reads a handle's pointer through the (public) field `ptr`.  If a tree no longer has that
// field accessible the check rebuilds with -DC08_PUBLIC_ONLY, which uses operator->() instead, so that the
// oracle-judged histories still run.
#ifdef C08_PUBLIC_ONLY
#define PTR(x) ((x).operator->())
#else
#define PTR(x) ((x).ptr)
#endif

static std::vector<int> *g_destroyed = nullptr;       // sequential mode: destructor log
static std::atomic<int> *g_adestroyed = nullptr;      // threads mode: destructor counters

struct Base : public RefCountedObject
{
  int idx;
  long payload{0x5a5a};
  explicit Base(int i) : idx(i) {}
  ~Base() override
  {
    payload = 0;
    if (g_destroyed)
      (*g_destroyed)[idx]++;
    if (g_adestroyed)
      g_adestroyed[idx]++;
  }
};
struct Pad
{
  virtual ~Pad() = default;
  long pad[3]{1, 2, 3};
};
// Base is the second base class: the Derived* -> Base* conversion adjusts the pointer
struct Derived : public Pad, public Base
{
  long extra{7};
  explicit Derived(int i) : Base(i) {}
};

// ------------------------------------------------------------------ sequential histories
template <typename T>
struct Slot
{
  alignas(IntrusivePtr<T>) unsigned char mem[sizeof(IntrusivePtr<T>)];
  bool live{false};
  IntrusivePtr<T> &h() { return *reinterpret_cast<IntrusivePtr<T> *>(mem); }
};

struct World
{
  int NB, ND;
  std::vector<Slot<Base>> hb;
  std::vector<Slot<Derived>> hd;
  std::vector<Base *> ob;        // every object as Base*
  std::vector<Derived *> od;     // as Derived* (nullptr for a plain Base)
  std::vector<int> destroyed;
  std::vector<long> creator;     // creator-side references the client owns

  World(int nb, int nd) : NB(nb), ND(nd), hb(nb), hd(nd) { g_destroyed = &destroyed; }
  ~World()
  {
    // release what is left so that nothing is reported as leaked / double freed later
    for (auto &s : hb)
      if (s.live) { s.h().~IntrusivePtr<Base>(); s.live = false; }
    for (auto &s : hd)
      if (s.live) { s.h().~IntrusivePtr<Derived>(); s.live = false; }
    for (size_t i = 0; i < ob.size(); i++)
      while (destroyed[i] == 0 && creator[i] > 0) { creator[i]--; ob[i]->refDec(); }
    g_destroyed = nullptr;
  }
  bool isB(int h) const { return h >= 0 && h < NB; }
  bool isD(int h) const { return h >= NB && h < NB + ND; }
  bool live(int h) { return isB(h) ? hb[h].live : (isD(h) ? hd[h - NB].live : false); }
  bool alive(int o) const { return o >= 0 && o < (int)ob.size() && destroyed[o] == 0; }
};

static void usage_abort(const std::string &why)
{
  std::fprintf(stderr, "C08 harness: malformed / ill-typed case: %s\n", why.c_str());
  std::exit(3);
}

static std::vector<std::string> split(const std::string &s, char c)
{
  std::vector<std::string> out;
  std::string cur;
  for (char ch : s) {
    if (ch == c) { out.push_back(cur); cur.clear(); } else cur.push_back(ch);
  }
  out.push_back(cur);
  return out;
}

// returns false when the call is outside the client's contract (not executed)
static bool apply(World &w, const std::string &tok)
{
  auto f = split(tok, ':');
  const std::string &k = f[0];
  auto hnum = [&](size_t i) { if (i >= f.size()) usage_abort(tok); return std::atoi(f[i].c_str()); };
  auto onum = [&](size_t i) { if (i >= f.size()) usage_abort(tok); return f[i] == "-" ? -1 : std::atoi(f[i].c_str()); };
  if (k == "cB" || k == "cD") {
    int i = (int)w.ob.size();
    w.destroyed.push_back(0);
    w.creator.push_back(1);
    if (k == "cB") { Base *b = new Base(i); w.ob.push_back(b); w.od.push_back(nullptr); }
    else { Derived *d = new Derived(i); w.ob.push_back(d); w.od.push_back(d); }
    return true;
  }
  if (k == "ri" || k == "rd") {
    int o = onum(1);
    if (!w.alive(o)) return false;
    if (k == "ri") { w.ob[o]->refInc(); w.creator[o]++; return true; }
    if (w.creator[o] < 1) return false;
    w.creator[o]--;
    w.ob[o]->refDec();
    return true;
  }
  int h = hnum(1);
  if (!(w.isB(h) || w.isD(h))) return false;           // no such handle slot
  bool hB = w.isB(h);
  if (k == "dc") {
    if (w.live(h)) return false;
    if (hB) { new (w.hb[h].mem) IntrusivePtr<Base>(); w.hb[h].live = true; }
    else { new (w.hd[h - w.NB].mem) IntrusivePtr<Derived>(); w.hd[h - w.NB].live = true; }
    return true;
  }
  if (k == "dt") {
    if (!w.live(h)) return false;
    if (hB) { w.hb[h].h().~IntrusivePtr<Base>(); w.hb[h].live = false; }
    else { w.hd[h - w.NB].h().~IntrusivePtr<Derived>(); w.hd[h - w.NB].live = false; }
    return true;
  }
  if (k == "rc" || k == "ra") {
    int o = onum(2);
    if (k == "rc" ? w.live(h) : !w.live(h)) return false;
    if (o >= 0 && !w.alive(o)) return false;
    if (o >= (int)w.ob.size()) return false;
    if (hB) {
      Base *p = o < 0 ? nullptr : w.ob[o];
      // the empty case is written with the literal nullptr (constructor from / assignment of nullptr)
      if (k == "rc") { if (p) new (w.hb[h].mem) IntrusivePtr<Base>(p); else new (w.hb[h].mem) IntrusivePtr<Base>(nullptr); w.hb[h].live = true; }
      else if (p) w.hb[h].h() = p;
      else w.hb[h].h() = nullptr;
    } else {
      if (o >= 0 && !w.od[o]) usage_abort(tok + " (Base object into a Derived handle)");
      Derived *p = o < 0 ? nullptr : w.od[o];
      if (k == "rc") { new (w.hd[h - w.NB].mem) IntrusivePtr<Derived>(p); w.hd[h - w.NB].live = true; }
      else w.hd[h - w.NB].h() = p;
    }
    return true;
  }
  if (k == "kc") {   // IntrusivePtr<const Base> c = std::move(h); ... end of scope
    if (!w.live(h)) return false;
    if (hB) { IntrusivePtr<const Base> c = std::move(w.hb[h].h()); (void)c; }
    else { IntrusivePtr<const Base> c = std::move(w.hd[h - w.NB].h()); (void)c; }
    return true;
  }
  if (k == "vt") {   // IntrusivePtr<Base> x = IntrusivePtr<Derived>(p): conversion from a temporary
    int o = onum(2);
    if (!hB) usage_abort(tok + " (needs a Base handle)");
    if (w.live(h)) return false;
    if (o < 0 || o >= (int)w.ob.size() || !w.alive(o)) return false;
    if (!w.od[o]) usage_abort(tok + " (needs a Derived object)");
    new (w.hb[h].mem) IntrusivePtr<Base>(IntrusivePtr<Derived>(w.od[o]));
    w.hb[h].live = true;
    return true;
  }
  int g = hnum(2);
  if (!(w.isB(g) || w.isD(g))) return false;
  bool gB = w.isB(g);
  if (k == "vm") {   // IntrusivePtr<Base> x(std::move(derivedHandle))
    if (!hB || gB) usage_abort(tok + " (needs Base <- Derived)");
    if (w.live(h) || !w.live(g)) return false;
    new (w.hb[h].mem) IntrusivePtr<Base>(std::move(w.hd[g - w.NB].h()));
    w.hb[h].live = true;
    return true;
  }
  if (k == "va" || k == "vr") {   // base = derived;  base = std::move(derived);
    if (!hB || gB) usage_abort(tok + " (needs Base <- Derived)");
    if (!w.live(h) || !w.live(g)) return false;
    if (k == "va") w.hb[h].h() = w.hd[g - w.NB].h();
    else w.hb[h].h() = std::move(w.hd[g - w.NB].h());
    return true;
  }
  if (k == "cc" || k == "mc" || k == "vc") {
    if (w.live(h) || !w.live(g)) return false;
    if (k == "vc") {
      if (!hB || gB) usage_abort(tok + " (converting constructor needs Base <- Derived)");
      new (w.hb[h].mem) IntrusivePtr<Base>(w.hd[g - w.NB].h());
      w.hb[h].live = true;
      return true;
    }
    if (hB != gB) usage_abort(tok + " (handle types differ)");
    if (hB) {
      if (k == "cc") new (w.hb[h].mem) IntrusivePtr<Base>(w.hb[g].h());
      else new (w.hb[h].mem) IntrusivePtr<Base>(std::move(w.hb[g].h()));
      w.hb[h].live = true;
    } else {
      if (k == "cc") new (w.hd[h - w.NB].mem) IntrusivePtr<Derived>(w.hd[g - w.NB].h());
      else new (w.hd[h - w.NB].mem) IntrusivePtr<Derived>(std::move(w.hd[g - w.NB].h()));
      w.hd[h - w.NB].live = true;
    }
    return true;
  }
  if (k == "ca" || k == "ma") {
    if (!w.live(h) || !w.live(g)) return false;
    if (hB != gB) usage_abort(tok + " (handle types differ)");
    if (hB) {
      if (k == "ca") w.hb[h].h() = w.hb[g].h();
      else w.hb[h].h() = std::move(w.hb[g].h());
    } else {
      if (k == "ca") w.hd[h - w.NB].h() = w.hd[g - w.NB].h();
      else w.hd[h - w.NB].h() = std::move(w.hd[g - w.NB].h());
    }
    return true;
  }
  usage_abort(tok);
  return false;
}

// all six comparisons between two handles, of the same or of different static types (both operand
// orders); the reference is the identity / std::less order of the objects' Base subobjects, i.e.
// after the derived-to-base conversion
template <typename A, typename B2>
static char cmp(const IntrusivePtr<A> &a, const IntrusivePtr<B2> &b)
{
  bool eq1 = (a == b), eq2 = (b == a), ne1 = (a != b), ne2 = (b != a), lt = (a < b), gt = (b < a);
  const Base *pa = PTR(a);
  const Base *pb = PTR(b);
  bool same = (pa == pb);
  bool wantlt = std::less<const Base *>()(pa, pb), wantgt = std::less<const Base *>()(pb, pa);
  if (same) return (eq1 && eq2 && !ne1 && !ne2 && !lt && !gt) ? 'e' : 'X';
  return (!eq1 && !eq2 && ne1 && ne2 && lt == wantlt && gt == wantgt && lt != gt) ? 'n' : 'X';
}

static std::string observe(World &w)
{
  std::ostringstream os;
  for (size_t i = 0; i < w.ob.size(); i++) {
    if (i) os << ',';
    if (w.destroyed[i] == 0) os << 'c' << w.ob[i]->useCount();
    else if (w.destroyed[i] == 1) os << 'x';
    else os << "D" << w.destroyed[i];
  }
  os << '|';
  int n = w.NB + w.ND;
  for (int h = 0; h < n; h++) {
    if (h) os << ',';
    if (!w.live(h)) { os << '.'; continue; }
    const void *p = w.isB(h) ? (const void *)PTR(w.hb[h].h()) : (const void *)PTR(w.hd[h - w.NB].h());
    if (!p) {
      os << '0';
      // operator bool of an empty handle is false (both handle types)
      bool t = w.isB(h) ? bool(w.hb[h].h()) : bool(w.hd[h - w.NB].h());
      if (t) os << '!';
      continue;
    }
    int found = -1;
    for (size_t o = 0; o < w.ob.size(); o++) {
      const void *q = w.isB(h) ? (const void *)w.ob[o] : (const void *)w.od[o];
      if (q && q == p) found = (int)o;
    }
    if (found < 0) os << '?'; else os << (found + 1);
    // operator bool / operator-> / operator* agree with ptr (both handle types, through a const handle)
    if (w.isB(h)) {
      const IntrusivePtr<Base> &x = w.hb[h].h();
      if (!bool(x) || x.operator->() != PTR(x) || &*x != PTR(x)) os << '!';
    } else {
      const IntrusivePtr<Derived> &x = w.hd[h - w.NB].h();
      if (!bool(x) || x.operator->() != PTR(x) || &*x != PTR(x)) os << '!';
    }
  }
  os << '|';
  for (int a = 0; a < n; a++)
    for (int b = a + 1; b < n; b++) {
      if (!w.live(a) || !w.live(b)) continue;
      if (w.isB(a) && w.isB(b)) os << cmp(w.hb[a].h(), w.hb[b].h());
      else if (!w.isB(a) && !w.isB(b)) os << cmp(w.hd[a - w.NB].h(), w.hd[b - w.NB].h());
      else os << cmp(w.hb[a].h(), w.hd[b - w.NB].h());   // IntrusivePtr<Base> against IntrusivePtr<Derived> (a < b: a is the Base handle)
    }
  return os.str();
}

static int run_seq(int nb, int nd)
{
  std::string line;
  while (std::getline(std::cin, line)) {
    World w(nb, nd);
    std::istringstream is(line);
    std::string tok;
    std::string out;
    bool first = true;
    while (is >> tok) {
      bool ok = apply(w, tok);
      if (!first) out += " ; ";
      first = false;
      out += ok ? "ok|" : "bad|";
      out += observe(w);
    }
    std::cout << out << "\n" << std::flush;
  }
  return 0;
}

// ------------------------------------------------------------------ threads
struct Rng
{
  unsigned long long s;
  explicit Rng(unsigned long long seed) : s(seed * 6364136223846793005ULL + 1442695040888963407ULL) {}
  unsigned next()
  {
    s = s * 6364136223846793005ULL + 1442695040888963407ULL;
    return (unsigned)(s >> 33);
  }
  unsigned below(unsigned n) { return next() % n; }
};

static int run_threads(int T, long OPS, unsigned long long seed, int ROUNDS)
{
  const int M = 4, K = 6, OWN = 6;
  std::vector<std::string> fails;
  std::mutex fmx;
  auto fail = [&](const std::string &s) { std::lock_guard<std::mutex> lk(fmx); if (fails.size() < 5) fails.push_back(s); };
  // ---- phase 1: copy from a shared pre-filled array, drop, move around; counts checked at the end
  {
    std::vector<std::atomic<int>> destroyed(M);
    for (auto &d : destroyed) d = 0;
    g_adestroyed = destroyed.data();
    std::vector<Base *> objs;
    std::vector<Derived *> dobjs;
    for (int i = 0; i < M; i++) {
      if (i % 2) { auto *d = new Derived(i); objs.push_back(d); dobjs.push_back(d); }
      else { objs.push_back(new Base(i)); dobjs.push_back(nullptr); }
    }
    std::vector<IntrusivePtr<Base>> shared(K);
    std::vector<IntrusivePtr<Derived>> sharedD(2);
    for (int j = 0; j < K; j++) shared[j] = objs[j % M];
    sharedD[0] = dobjs[1];
    sharedD[1] = dobjs[3];
    std::vector<std::vector<IntrusivePtr<Base>>> own(T, std::vector<IntrusivePtr<Base>>(OWN));
    std::atomic<int> go{0};
    std::vector<std::thread> ths;
    for (int t = 0; t < T; t++)
      ths.emplace_back([&, t]() {
        Rng r(seed * 1000 + t);
        auto &mine = own[t];
        go++;
        while (go.load() < T) std::this_thread::yield();
        for (long n = 0; n < OPS; n++) {
          unsigned i = r.below(OWN), k = r.below(OWN), j = r.below(K);
          switch (r.below(10)) {
          case 0: case 1: mine[i] = shared[j]; break;                              // copy assignment from the shared array
          case 2: mine[i] = mine[k]; break;                                        // incl. self assignment
          case 3: mine[i] = std::move(mine[k]); break;                             // incl. self move
          case 4: mine[i] = (Base *)nullptr; break;                                // drop
          case 5: mine[i] = PTR(shared[j]); break;                                  // raw assignment
          case 6: { IntrusivePtr<Base> tmp(shared[j]); IntrusivePtr<Base> t2(std::move(tmp)); mine[i] = t2; } break;
          case 7: { IntrusivePtr<Base> tmp(sharedD[j % 2]); mine[i] = tmp;                    // derived-to-base conversion
                    IntrusivePtr<Derived> d(sharedD[j % 2]); mine[k] = std::move(d);            // ... from an rvalue
                    IntrusivePtr<const Base> c = IntrusivePtr<Derived>(PTR(sharedD[j % 2])); (void)c; } break;
          case 8: { Base *p = PTR(shared[j]); p->refInc(); if (p->useCount() < 2) fail("count < 2 while holding an explicit reference"); p->refDec(); } break;
          default: { IntrusivePtr<Base> tmp(PTR(mine[k])); mine[i] = tmp; } break;  // raw constructor from an owned handle
          }
        }
      });
    for (auto &th : ths) th.join();
    for (int o = 0; o < M; o++) {
      long want = 1;
      for (auto &s : shared) if (PTR(s) == objs[o]) want++;
      for (auto &s : sharedD) if (PTR(s) && static_cast<Base *>(PTR(s)) == objs[o]) want++;
      for (auto &v : own) for (auto &s : v) if (PTR(s) == objs[o]) want++;
      if (destroyed[o] != 0) { fail("object " + std::to_string(o) + " destroyed while referenced"); continue; }
      long got = objs[o]->useCount();
      if (got != want) fail("object " + std::to_string(o) + ": useCount " + std::to_string(got) + " != creator+handles " + std::to_string(want));
    }
    own.clear();
    shared.clear();
    sharedD.clear();
    for (int o = 0; o < M; o++) {
      if (destroyed[o] != 0) { fail("object " + std::to_string(o) + " destroyed before the creator released it"); continue; }
      if (objs[o]->useCount() != 1) fail("object " + std::to_string(o) + ": useCount " + std::to_string(objs[o]->useCount()) + " != 1 after all handles were dropped");
      objs[o]->refDec();
      if (destroyed[o] != 1) fail("object " + std::to_string(o) + " destroyed " + std::to_string(destroyed[o].load()) + " times by the last release");
    }
    g_adestroyed = nullptr;
  }
  // ---- phase 2: threads race to release the last references; exactly one destruction each
  long races = 0;
  {
    const int M2 = 64;
    for (int round = 0; round < ROUNDS && fails.empty(); round++) {
      std::vector<std::atomic<int>> destroyed(M2);
      for (auto &d : destroyed) d = 0;
      g_adestroyed = destroyed.data();
      std::vector<std::vector<IntrusivePtr<Base>>> own(T, std::vector<IntrusivePtr<Base>>(M2));
      for (int o = 0; o < M2; o++) {
        Base *p = (o % 2) ? static_cast<Base *>(new Derived(o)) : new Base(o);
        for (int t = 0; t < T; t++) own[t][o] = p;
        p->refDec();   // the creator lets go: only the threads' handles keep it alive
      }
      std::atomic<int> go{0};
      std::vector<std::thread> ths;
      for (int t = 0; t < T; t++)
        ths.emplace_back([&, t]() {
          go++;
          while (go.load() < T) { }
          if (t % 2) for (int o = 0; o < M2; o++) own[t][o] = (Base *)nullptr;
          else for (int o = 0; o < M2; o++) { IntrusivePtr<Base> x(std::move(own[t][o])); }
        });
      for (auto &th : ths) th.join();
      for (int o = 0; o < M2; o++) {
        races++;
        if (destroyed[o] != 1) fail("race round " + std::to_string(round) + ": object " + std::to_string(o) + " destroyed " + std::to_string(destroyed[o].load()) + " times (want exactly 1)");
      }
      g_adestroyed = nullptr;
    }
  }
  if (fails.empty()) {
    std::cout << "threads ok T=" << T << " ops=" << OPS << " last-release-races=" << races << "\n";
    return 0;
  }
  for (auto &f : fails) std::cout << "threads FAIL " << f << "\n";
  return 0;
}


// ------------------------------------------------------------------ traits: what the headers declare beyond the handle operations
// Copying / moving a RefCountedObject: on the current tree all four are deleted.  If a tree makes
// them available, the copy is a NEW object (count 1: nobody refers to it but its creator) and the
// source's count is unchanged; an assignment changes neither counter.
struct Plain : public RefCountedObject
{
  int v{0};
};
template <typename X, bool = std::is_copy_constructible<X>::value>
struct CopyCtorProbe { static std::string run() { return "deleted"; } };
template <typename X>
struct CopyCtorProbe<X, true>
{
  static std::string run()
  {
    X *a = new X; IntrusivePtr<X> hnd(a);
    X *c = new X(*a);
    std::ostringstream os; os << "src=" << a->useCount() << ",new=" << c->useCount();
    c->refDec(); hnd = nullptr; a->refDec();
    return os.str();
  }
};
template <typename X, bool = std::is_move_constructible<X>::value>
struct MoveCtorProbe { static std::string run() { return "deleted"; } };
template <typename X>
struct MoveCtorProbe<X, true>
{
  static std::string run()
  {
    X *a = new X; IntrusivePtr<X> hnd(a);
    X *c = new X(std::move(*a));
    std::ostringstream os; os << "src=" << a->useCount() << ",new=" << c->useCount();
    c->refDec(); hnd = nullptr; a->refDec();
    return os.str();
  }
};
template <typename X, bool = std::is_copy_assignable<X>::value>
struct CopyAssignProbe { static std::string run() { return "deleted"; } };
template <typename X>
struct CopyAssignProbe<X, true>
{
  static std::string run()
  {
    X *a = new X; IntrusivePtr<X> hnd(a); X *c = new X;
    *c = *a;
    std::ostringstream os; os << "src=" << a->useCount() << ",dst=" << c->useCount();
    c->refDec(); hnd = nullptr; a->refDec();
    return os.str();
  }
};
template <typename X, bool = std::is_move_assignable<X>::value>
struct MoveAssignProbe { static std::string run() { return "deleted"; } };
template <typename X>
struct MoveAssignProbe<X, true>
{
  static std::string run()
  {
    X *a = new X; IntrusivePtr<X> hnd(a); X *c = new X;
    *c = std::move(*a);
    std::ostringstream os; os << "src=" << a->useCount() << ",dst=" << c->useCount();
    c->refDec(); hnd = nullptr; a->refDec();
    return os.str();
  }
};

static int run_traits()
{
  std::cout << "copy_ctor=" << CopyCtorProbe<Plain>::run() << " copy_assign=" << CopyAssignProbe<Plain>::run()
            << " move_ctor=" << MoveCtorProbe<Plain>::run() << " move_assign=" << MoveAssignProbe<Plain>::run();
  std::cout << " virtual_dtor=" << std::has_virtual_destructor<RefCountedObject>::value;
  std::cout << " ref_alias=" << std::is_same<rkcommon::memory::Ref<Plain>, IntrusivePtr<Plain>>::value
            << " refcount_alias=" << std::is_same<rkcommon::memory::RefCount, RefCountedObject>::value;
  Plain *o = new Plain;                                    // RefCountedObject(): born with the creator's reference
  {
    std::cout << " fresh_count=" << o->useCount();
    rkcommon::memory::Ref<Plain> viaAlias(o);              // the alias is the same template
    IntrusivePtr<Plain> n(nullptr);                        // constructor from the literal nullptr
    std::cout << " nullptr_ctor=" << (PTR(n) == nullptr && !n ? "null" : "BAD") << "," << o->useCount();
    IntrusivePtr<Plain> q(o);
    q = nullptr;                                           // assignment of the literal nullptr releases
    std::cout << " nullptr_assign=" << (PTR(q) == nullptr && !q ? "null" : "BAD") << "," << o->useCount();
    const IntrusivePtr<Plain> c(o);                        // accessors through a const handle
    c->v = 5; (*c).v += 1;
    std::cout << " const_access=" << o->v;
    viaAlias = nullptr;
    std::cout << " after=" << o->useCount();
    std::cout.flush();
  }
  std::cout << " end=" << o->useCount() << "\n";         // c released at scope end: only the creator's reference is left
  o->refDec();
  return 0;
}


// ------------------------------------------------------------------ deep count: k explicit references on one object
// harness deep LOG2MAX : refInc() up to 2^LOG2MAX + 2 times; at every k in {2^j - 2 .. 2^j + 2} the count must be
// exactly creator(1) + k, the object alive, and a handle copy + drop must leave both unchanged.
static int run_deep(int log2max)
{
  std::vector<int> destroyed(1, 0);
  g_destroyed = &destroyed;
  Base *o = new Base(0);
  unsigned long long k = 0, checks = 0;
  const unsigned long long kmax = (1ULL << log2max) + 2;
  std::vector<unsigned long long> pts;
  for (int j = 1; j <= log2max; j++)
    for (long long d = -2; d <= 2; d++) {
      long long v = (long long)(1ULL << j) + d;
      if (v > 0 && (unsigned long long)v <= kmax) pts.push_back((unsigned long long)v);
    }
  std::sort(pts.begin(), pts.end());
  pts.erase(std::unique(pts.begin(), pts.end()), pts.end());
  for (unsigned long long target : pts) {
    while (k < target) { o->refInc(); k++; }
    checks++;
    long long got = destroyed[0] ? -1 : o->useCount();
    bool ok = destroyed[0] == 0 && got == (long long)(1 + k);
    if (ok) {
      { IntrusivePtr<Base> hnd(o); IntrusivePtr<Base> h2(hnd); }      // copy + drop with k references outstanding
      ok = destroyed[0] == 0 && o->useCount() == (long long)(1 + k);
      if (!ok) got = destroyed[0] ? -1 : o->useCount();
    }
    if (!ok) {
      std::cout << "deep FAIL k=" << k << " useCount=" << got << " expected=" << (1 + k) << " alive=" << (destroyed[0] == 0)
                << " destroyed=" << destroyed[0] << "\n" << std::flush;
      g_destroyed = nullptr;
      std::_Exit(0);      // the object is in an undefined state: do not touch it again
    }
  }
  std::cout << "deep ok k=" << k << " checkpoints=" << checks << "\n" << std::flush;
  g_destroyed = nullptr;
  std::_Exit(0);          // k references are outstanding on purpose; releasing them would double the run time
}

int main(int argc, char **argv)
{
  if (argc >= 3 && !std::strcmp(argv[1], "deep"))
    return run_deep(std::atoi(argv[2]));
  if (argc >= 2 && !std::strcmp(argv[1], "traits"))
    return run_traits();
  if (argc >= 4 && !std::strcmp(argv[1], "seq"))
    return run_seq(std::atoi(argv[2]), std::atoi(argv[3]));
  if (argc >= 6 && !std::strcmp(argv[1], "threads"))
    return run_threads(std::atoi(argv[2]), std::atol(argv[3]), std::strtoull(argv[4], nullptr, 10), std::atoi(argv[5]));
  std::fprintf(stderr, "usage: harness seq NB ND | harness threads T OPS SEED ROUNDS\n");
  return 2;
}
