// C12 harness: TransactionalBuffer / TransactionalValue of the working tree.
//   harness seq                      deterministic single-threaded histories from stdin (one case per line),
//                                    same canonical output as ocaml/C12/driver.ml
//        B <kind> <nprod> op...      op: p<i> push_back(const&) by producer i   m<i> push_back(&&)   c consume   s size   e empty
//        V <kind> <v0|-> op...       op: a<v> assign   A<n>:<s> n assignments s,s+1,..   u update   g get   r ref     (v0 = - : default-constructed)
//   harness seqbig <kind> <nprod> <N> [tracefile]   single-threaded backlog: N pushes, then size(), empty(), consume(); 5 more; drain
//   harness stressvalburst <kind> [tracefile]   producer thread assigns in bursts of 2^k-ish lengths, consumer thread updates only between bursts
//   harness stressbuf <kind> <nprod> <npush> [spin] [tracefile]   threads; oracle inside; prints OK .../FAIL ...;
//                                    tracefile: the consumer's history (one line per round: b <size()> <empty()> p.s p.s ...)
//                                    for the extracted acceptance function (ocaml/C12/driver.ml tracebuf)
//   harness stressobs <kind> <nprod> <bursts> <burstlen> [tracefile]   producers push in bursts separated by quiescent points
//                                    (all producers parked, no push/consume in progress) at which size()/empty() must
//                                    describe exactly what the next consume() returns; trace: b/Q <size> <empty> p.s ...
//   harness stressval <kind> <n> [spin] [tracefile]   history lines: u1 v | u0 v | g v | q i (quiescent point, see below)
// kind: pod (trivially copyable struct / int) | str (std::string) | vec (std::vector<int>)
#include <atomic>
#include <chrono>
#include <cstdio>
#include <cstdlib>
#include <fstream>
#include <iostream>
#include <sstream>
#include <string>
#include <thread>
#include <unistd.h>
#include <type_traits>
#include <vector>
// Fallback builds when one of the two headers no longer compiles against this harness:
//   -DC12_ONLY_BUFFER  everything about TransactionalBuffer only;   -DC12_ONLY_VALUE  everything about TransactionalValue only
#if !defined(C12_ONLY_VALUE)
#define C12_HAS_BUFFER 1
#include "rkcommon/containers/TransactionalBuffer.h"
#endif
#if !defined(C12_ONLY_BUFFER)
#define C12_HAS_VALUE 1
#include "rkcommon/utility/TransactionalValue.h"
#endif

#ifdef C12_HAS_BUFFER
using rkcommon::containers::TransactionalBuffer;
#endif
#ifdef C12_HAS_VALUE
using rkcommon::utility::TransactionalValue;
#endif

// ---------------------------------------------------------------- inventory of executed members
// Every call the harness makes to a member of the two classes is counted per (member, payload kind);
// the counts are written to $C12_INV_DIR/inv.<pid> at exit (props/C12/check.py, evidence key `inventory`).
enum InvMember { B_CTOR, B_PUSHC, B_PUSHM, B_CONSUME, B_SIZE, B_EMPTY, V_CTOR_DEF, V_CTOR_VAL, V_ASSIGN, V_UPDATE, V_GET, V_REF, V_REFWRITE, INV_N };
static const char *const invNames[INV_N] = {"TransactionalBuffer::<ctor>()", "TransactionalBuffer::push_back(const T&)", "TransactionalBuffer::push_back(T&&)",
  "TransactionalBuffer::consume()", "TransactionalBuffer::size()", "TransactionalBuffer::empty()", "TransactionalValue::<ctor>()",
  "TransactionalValue::<ctor>(const OtherType&)", "TransactionalValue::operator=(const OtherType&)", "TransactionalValue::update()",
  "TransactionalValue::get()", "TransactionalValue::ref()", "TransactionalValue::ref()=write"};
static const char *const invKinds[4] = {"pod", "str", "vec", "het"};
static std::atomic<long> g_inv[INV_N][4];
struct InvTL { long c[INV_N][4]; InvTL() : c() {} ~InvTL() { for (int i = 0; i < INV_N; ++i) for (int k = 0; k < 4; ++k) if (c[i][k]) { g_inv[i][k] += c[i][k]; c[i][k] = 0; } } };
static thread_local InvTL tl_inv;
struct InvWriter {
  ~InvWriter() {
    const char *d = std::getenv("C12_INV_DIR");
    if (!d) return;
    for (int i = 0; i < INV_N; ++i) for (int k = 0; k < 4; ++k) if (tl_inv.c[i][k]) { g_inv[i][k] += tl_inv.c[i][k]; tl_inv.c[i][k] = 0; }
    std::ofstream f(std::string(d) + "/inv." + std::to_string((long)getpid()));
    for (int i = 0; i < INV_N; ++i) for (int k = 0; k < 4; ++k) if (g_inv[i][k].load()) f << invNames[i] << "@" << invKinds[k] << " " << g_inv[i][k].load() << "\n";
  }
};
static InvWriter g_invWriter;
template <typename T> struct KN { static const int id = 0; };
template <> struct KN<std::string> { static const int id = 1; };
template <> struct KN<std::vector<int>> { static const int id = 2; };
static inline void inv_hit(int m, int k) { ++tl_inv.c[m][k]; }
#define INVC(m) inv_hit(m, KN<T>::id)
#define INVK(m, k) inv_hit(m, k)

struct Pod { int p; long s; };
static_assert(std::is_trivially_copyable<Pod>::value, "Pod must be trivially copyable");

// element codecs: (producer, seq) <-> T ; decoding verifies the whole payload
template <typename T> struct EC;
template <> struct EC<Pod> {
  static Pod enc(int p, long s) { return Pod{p, s}; }
  static bool dec(const Pod &v, int &p, long &s) { p = v.p; s = v.s; return true; }
};
template <> struct EC<std::string> {
  static std::string enc(int p, long s) { return std::to_string(p) + ":" + std::to_string(s) + ":" + std::string((size_t)(s % 37) + 20, (char)('a' + p % 26)); }
  static bool dec(const std::string &v, int &p, long &s) {
    if (std::sscanf(v.c_str(), "%d:%ld:", &p, &s) != 2) return false;
    return v == enc(p, s);
  }
};
template <> struct EC<std::vector<int>> {
  static std::vector<int> enc(int p, long s) { std::vector<int> r; r.push_back(p); r.push_back((int)s); for (long i = 0; i < s % 9 + 6; ++i) r.push_back((int)(s + i)); return r; }
  static bool dec(const std::vector<int> &v, int &p, long &s) { if (v.size() < 2) return false; p = v[0]; s = v[1]; return v == enc(p, s); }
};
// value codecs for TransactionalValue: N <-> T (0 = value-initialised T)
template <typename T> struct VC;
template <> struct VC<int> {
  static int enc(long v) { return (int)v; }
  static bool dec(const int &v, long &o) { o = v; return true; }
};
template <> struct VC<std::string> {
  static std::string enc(long v) { return v == 0 ? std::string() : std::to_string(v) + ":" + std::string((size_t)(v % 41) + 20, 'z'); }
  static bool dec(const std::string &s, long &o) { if (s.empty()) { o = 0; return true; } o = std::atol(s.c_str()); return s == enc(o) && o != 0; }
};
template <> struct VC<std::vector<int>> {
  static std::vector<int> enc(long v) { std::vector<int> r; if (v) for (long i = 0; i < v % 7 + 5; ++i) r.push_back((int)(v + i)); return r; }
  static bool dec(const std::vector<int> &s, long &o) { if (s.empty()) { o = 0; return true; } o = s[0]; return s == enc(o) && o != 0; }
};

static std::vector<std::string> split_ws(const std::string &s)
{
  std::vector<std::string> r; std::istringstream is(s); std::string t;
  while (is >> t) r.push_back(t);
  return r;
}

// ------------------------------------------------------------------ sequential histories
#ifdef C12_HAS_BUFFER
template <typename T>
static std::string seqB(const std::vector<std::string> &tok)
{
  int nprod = std::atoi(tok[2].c_str());
  std::vector<long> next((size_t)nprod, 0);
  TransactionalBuffer<T> buf; INVC(B_CTOR);
  const TransactionalBuffer<T> &cbuf = buf;
  std::ostringstream out;
  for (size_t i = 3; i < tok.size(); ++i) {
    const std::string &t = tok[i];
    if (i > 3) out << " ; ";
    if (t[0] == 'p' || t[0] == 'm') {
      int p = std::atoi(t.c_str() + 1);
      if (p < 0 || p >= nprod) { out << "badop"; continue; }
      T v = EC<T>::enc(p, next[(size_t)p]++);
      if (t[0] == 'p') (INVC(B_PUSHC), buf.push_back(v)); else (INVC(B_PUSHM), buf.push_back(std::move(v)));
      out << "ok";
    } else if (t == "c") {
      std::vector<T> b = (INVC(B_CONSUME), buf.consume());
      out << "[";
      for (size_t k = 0; k < b.size(); ++k) {
        int p = -1; long s = -1;
        bool ok = EC<T>::dec(b[k], p, s);
        out << (k ? " " : "") << p << "." << s << (ok ? "" : "!CORRUPT");
      }
      out << "]";
    } else if (t == "s") out << (INVC(B_SIZE), cbuf.size());
    else if (t == "e") out << ((INVC(B_EMPTY), cbuf.empty()) ? "true" : "false");
    else out << "badop";
  }
  return out.str();
}

#endif  // C12_HAS_BUFFER
#ifdef C12_HAS_VALUE
template <typename T>
static std::string runV(TransactionalValue<T> &tv, const std::vector<std::string> &tok)
{
  std::ostringstream out;
  for (size_t i = 3; i < tok.size(); ++i) {
    const std::string &t = tok[i];
    if (i > 3) out << " ; ";
    if (t[0] == 'a') { (INVC(V_ASSIGN), tv = VC<T>::enc(std::atol(t.c_str() + 1))); out << "ok"; }
    else if (t[0] == 'A') {            // A<n>:<start>  n assignments start, start+1, ... in a row
      long n = std::atol(t.c_str() + 1); size_t c = t.find(':'); long st = c == std::string::npos ? 1 : std::atol(t.c_str() + c + 1);
      for (long k = 0; k < n; ++k) (INVC(V_ASSIGN), tv = VC<T>::enc(st + k));
      out << "ok";
    }
    else if (t[0] == 'w') { INVC(V_REFWRITE); (INVC(V_REF), tv.ref()) = VC<T>::enc(std::atol(t.c_str() + 1)); out << "ok"; }   // write through ref()
    else if (t == "u") out << ((INVC(V_UPDATE), tv.update()) ? "true" : "false");
    else if (t == "g") { long v = -1; bool ok = VC<T>::dec((INVC(V_GET), tv.get()), v); out << v << (ok ? "" : "!CORRUPT"); }
    else if (t == "r") { long v = -1; bool ok = VC<T>::dec((INVC(V_REF), tv.ref()), v); out << v << (ok ? "" : "!CORRUPT"); }
    else out << "badop";
  }
  return out.str();
}

template <typename T>
static std::string seqV(const std::vector<std::string> &tok)
{
  if (tok[2] == "-") { TransactionalValue<T> tv{}; INVC(V_CTOR_DEF); return runV(tv, tok); }
  TransactionalValue<T> tv(VC<T>::enc(std::atol(tok[2].c_str()))); INVC(V_CTOR_VAL);
  return runV(tv, tok);
}

// heterogeneous instantiation of the member templates: TransactionalValue<std::string> constructed and assigned from const char*
static std::string seqVhet(const std::vector<std::string> &tok)
{
  typedef std::string T;
  std::ostringstream out;
  auto body = [&](TransactionalValue<T> &tv) {
    for (size_t i = 3; i < tok.size(); ++i) {
      const std::string &t = tok[i];
      if (i > 3) out << " ; ";
      if (t[0] == 'a') { std::string sv = VC<T>::enc(std::atol(t.c_str() + 1)); const char *p = sv.c_str(); INVK(V_ASSIGN, 3); tv = p; out << "ok"; }
      else if (t[0] == 'A') {
        long n = std::atol(t.c_str() + 1); size_t c = t.find(':'); long st = c == std::string::npos ? 1 : std::atol(t.c_str() + c + 1);
        for (long k = 0; k < n; ++k) { std::string sv = VC<T>::enc(st + k); const char *p = sv.c_str(); INVK(V_ASSIGN, 3); tv = p; }
        out << "ok";
      }
      else if (t[0] == 'w') { INVK(V_REFWRITE, 3); INVK(V_REF, 3); tv.ref() = VC<T>::enc(std::atol(t.c_str() + 1)).c_str(); out << "ok"; }
      else if (t == "u") { INVK(V_UPDATE, 3); out << (tv.update() ? "true" : "false"); }
      else if (t == "g") { INVK(V_GET, 3); long v = -1; bool ok = VC<T>::dec(tv.get(), v); out << v << (ok ? "" : "!CORRUPT"); }
      else if (t == "r") { INVK(V_REF, 3); long v = -1; bool ok = VC<T>::dec(tv.ref(), v); out << v << (ok ? "" : "!CORRUPT"); }
      else out << "badop";
    }
  };
  if (tok[2] == "-") { TransactionalValue<T> tv{}; INVK(V_CTOR_DEF, 3); body(tv); }
  else { std::string sv = VC<T>::enc(std::atol(tok[2].c_str())); const char *p = sv.c_str(); TransactionalValue<T> tv(p); INVK(V_CTOR_VAL, 3); body(tv); }
  return out.str();
}

#endif  // C12_HAS_VALUE
// compile-time facts about the special members and the signatures, per instantiation
template <typename C> static void facts_common(const char *name)
{
  std::cout << "fact " << name
            << " default_constructible=" << std::is_default_constructible<C>::value
            << " copy_constructible=" << std::is_copy_constructible<C>::value
            << " move_constructible=" << std::is_move_constructible<C>::value
            << " copy_assignable_declared=" << std::is_copy_assignable<C>::value
            << " move_assignable_declared=" << std::is_move_assignable<C>::value
            << " destructible=" << std::is_destructible<C>::value;
}
template <typename T> static void facts_for(const char *kind)
{
#ifdef C12_HAS_BUFFER
  typedef TransactionalBuffer<T> B;
  facts_common<B>((std::string("TransactionalBuffer<") + kind + ">").c_str());
  std::cout << " consume_returns_vector_by_value=" << std::is_same<decltype(std::declval<B &>().consume()), std::vector<T>>::value
            << " size_returns_size_t=" << std::is_same<decltype(std::declval<const B &>().size()), size_t>::value
            << " empty_returns_bool=" << std::is_same<decltype(std::declval<const B &>().empty()), bool>::value << "\n";
#endif
#ifdef C12_HAS_VALUE
  typedef TransactionalValue<T> V;
  facts_common<V>((std::string("TransactionalValue<") + kind + ">").c_str());
  std::cout << " constructible_from_value=" << std::is_constructible<V, const T &>::value
            << " assignable_from_value=" << std::is_assignable<V &, const T &>::value
            << " get_returns_copy=" << std::is_same<decltype(std::declval<V &>().get()), T>::value
            << " ref_returns_mutable_reference=" << std::is_same<decltype(std::declval<V &>().ref()), T &>::value
            << " update_returns_bool=" << std::is_same<decltype(std::declval<V &>().update()), bool>::value << "\n";
#endif
  (void)kind;
}
static int mode_facts()
{
  facts_for<Pod>("pod-struct");
  facts_for<int>("int");
  facts_for<std::string>("std::string");
  facts_for<std::vector<int>>("std::vector<int>");
  return 0;
}

static int mode_seq()
{
  std::string line;
  while (std::getline(std::cin, line)) {
    auto tok = split_ws(line);
    std::string o;
    if (tok.size() >= 3 && tok[0] == "B") {
#ifdef C12_HAS_BUFFER
      if (tok[1] == "pod") o = seqB<Pod>(tok);
      else if (tok[1] == "str") o = seqB<std::string>(tok);
      else o = seqB<std::vector<int>>(tok);
#else
      o = "<not built: buffer>";
#endif
    } else if (tok.size() >= 3 && tok[0] == "V") {
#ifdef C12_HAS_VALUE
      if (tok[1] == "het") o = seqVhet(tok);
      else if (tok[1] == "pod") o = seqV<int>(tok);
      else if (tok[1] == "str") o = seqV<std::string>(tok);
      else o = seqV<std::vector<int>>(tok);
#else
      o = "<not built: value>";
#endif
    }
    std::cout << o << "\n";
  }
  return 0;
}

static inline void spin(int n) { for (volatile int i = 0; i < n; ++i) {} }
// ------------------------------------------------------------------------ stress: buffer
#ifdef C12_HAS_BUFFER

template <typename T>
static int stressbuf(int nprod, long npush, int spinN, const char *tracePath)
{
  struct Round { size_t before; bool wasEmpty; std::vector<std::pair<int, long>> els; };
  std::vector<Round> trace;
  TransactionalBuffer<T> buf; INVC(B_CTOR);
  std::atomic<int> running(nprod);
  std::atomic<bool> go(false), stopSampler(false);
  const long total = (long)nprod * npush;
  std::vector<std::string> fails;
  std::vector<std::thread> prods;
  for (int p = 0; p < nprod; ++p)
    prods.emplace_back([&, p] {
      while (!go.load()) {}
      for (long s = 0; s < npush; ++s) {
        T v = EC<T>::enc(p, s);
        if (s & 1) (INVC(B_PUSHC), buf.push_back(v)); else (INVC(B_PUSHM), buf.push_back(std::move(v)));
        if (spinN) spin((int)((s * 7 + p) % (spinN + 1)));
      }
      running.fetch_sub(1);
    });
  // sampler: size()/empty() from a third kind of thread
  long samples = 0, maxSeen = 0, sawEmpty = 0; std::string sampFail;
  std::thread sampler([&] {
    const TransactionalBuffer<T> &cb = buf;
    while (!go.load()) {}
    while (!stopSampler.load()) {
      size_t n = (INVC(B_SIZE), cb.size());
      bool e = (INVC(B_EMPTY), cb.empty());
      ++samples; if (e) ++sawEmpty;
      if ((long)n > maxSeen) maxSeen = (long)n;
      if ((long)n > total && sampFail.empty()) sampFail = "size() returned " + std::to_string(n) + " > total pushes " + std::to_string(total);
    }
  });
  // consumer
  std::vector<long> next((size_t)nprod, 0);
  long batches = 0, nonempty = 0, maxBatch = 0, got = 0, multi = 0;
  go.store(true);
  bool last = false;
  while (true) {
    bool fin = running.load() == 0;   // read before consuming: after it, one more consume drains everything
    size_t before = (INVC(B_SIZE), buf.size());
    bool wasEmpty = (INVC(B_EMPTY), buf.empty());
    std::vector<T> b = (INVC(B_CONSUME), buf.consume());
    ++batches;
    if (b.size() < before && fails.size() < 5)
      fails.push_back("consume() returned " + std::to_string(b.size()) + " elements right after size() == " + std::to_string(before) + " (single consumer)");
    if (!wasEmpty && b.empty() && fails.size() < 5) fails.push_back("consume() returned nothing right after empty() == false (single consumer)");
    if (!b.empty()) { ++nonempty; if ((long)b.size() > maxBatch) maxBatch = (long)b.size(); }
    int distinct = 0; std::vector<char> seen((size_t)nprod, 0);
    if (tracePath) { trace.push_back(Round{before, wasEmpty, {}}); trace.back().els.reserve(b.size()); }
    for (size_t k = 0; k < b.size(); ++k) {
      int p = -1; long s = -1;
      bool ok = EC<T>::dec(b[k], p, s);
      ++got;
      if (tracePath) trace.back().els.push_back(ok ? std::make_pair(p, s) : std::make_pair(-1, -1L));
      if (!ok) { if (fails.size() < 5) fails.push_back("corrupt payload in batch " + std::to_string(batches - 1) + " at " + std::to_string(k)); continue; }
      if (p < 0 || p >= nprod) { if (fails.size() < 5) fails.push_back("element of unknown producer " + std::to_string(p)); continue; }
      if (!seen[(size_t)p]) { seen[(size_t)p] = 1; ++distinct; }
      if (s != next[(size_t)p]) {
        if (fails.size() < 5)
          fails.push_back("producer " + std::to_string(p) + ": got seq " + std::to_string(s) + " where seq " + std::to_string(next[(size_t)p]) +
                          " was due (batch " + std::to_string(batches - 1) + ", position " + std::to_string(k) + ": " +
                          (s < next[(size_t)p] ? "duplicate/reordered" : "lost/reordered") + ")");
        next[(size_t)p] = s + 1;
      } else ++next[(size_t)p];
    }
    if (distinct > 1) ++multi;
    if (last) break;
    if (fin) last = true;             // one more round after all producers were seen finished
    if (spinN) spin(spinN * 4);
    else if (b.empty()) std::this_thread::yield();   // let the producers in
  }
  for (auto &t : prods) t.join();
  stopSampler.store(true);
  sampler.join();
  for (int p = 0; p < nprod; ++p)
    if (next[(size_t)p] != npush && fails.size() < 8)
      fails.push_back("producer " + std::to_string(p) + ": " + std::to_string(next[(size_t)p]) + " of " + std::to_string(npush) + " elements consumed (lost)");
  if (got != total && fails.size() < 8) fails.push_back("consumed " + std::to_string(got) + " elements, pushed " + std::to_string(total));
  if (!(INVC(B_EMPTY), buf.empty()) || (INVC(B_SIZE), buf.size()) != 0) fails.push_back("buffer not empty after the final consume");
  if (!sampFail.empty()) fails.push_back(sampFail);
  if (tracePath) {
    std::ofstream tf(tracePath);
    tf << "TB " << nprod << " " << npush << "\n";
    for (auto &r : trace) {
      tf << "b " << r.before << " " << (r.wasEmpty ? 1 : 0);
      for (auto &e : r.els) tf << " " << e.first << "." << e.second;
      tf << "\n";
    }
    tf << "END\n";
  }
  if (fails.empty())
    std::cout << "OK batches=" << batches << " nonempty=" << nonempty << " maxbatch=" << maxBatch << " multiproducer_batches=" << multi
              << " samples=" << samples << " maxsize_seen=" << maxSeen << " empty_seen=" << sawEmpty << "\n";
  else
    for (auto &f : fails) std::cout << "FAIL " << f << "\n";
  return 0;
}

// ------------------------------------------------------------- stress: quiescent observations
// Producers push bursts; between bursts all of them park at a barrier.  While a burst is running the
// consumer consumes continuously (so that consume() overlaps push_back as often as possible).  Once all
// producers are parked nothing is in progress: size() must be exactly the number of buffered elements,
// empty() must say whether there are any - a consumer that consumes only when !empty() (or size() > 0)
// would otherwise never drain them (model: tbuf_quiescent_round).
template <typename T>
static int stressobs(int nprod, long bursts, long burstlen, const char *tracePath)
{
  struct Round { char tag; size_t before; bool wasEmpty; std::vector<std::pair<int, long>> els; };
  std::vector<Round> trace;
  TransactionalBuffer<T> buf; INVC(B_CTOR);
  const TransactionalBuffer<T> &cbuf = buf;
  std::atomic<long> arrived(0), release(0);
  std::vector<std::thread> prods;
  for (int p = 0; p < nprod; ++p)
    prods.emplace_back([&, p] {
      long seq = 0;
      for (long b = 1; b <= bursts; ++b) {
        for (long k = 0; k < burstlen; ++k) {
          T v = EC<T>::enc(p, seq++);
          if (k & 1) (INVC(B_PUSHC), buf.push_back(v)); else (INVC(B_PUSHM), buf.push_back(std::move(v)));
        }
        arrived.fetch_add(1);
        while (release.load() < b) std::this_thread::yield();
      }
    });
  std::vector<std::string> fails;
  std::vector<long> next((size_t)nprod, 0);
  long got = 0, overlapped = 0, quietNonEmpty = 0;
  auto account = [&](const std::vector<T> &b, char tag, size_t before, bool wasEmpty) {
    if (tracePath) { trace.push_back(Round{tag, before, wasEmpty, {}}); trace.back().els.reserve(b.size()); }
    for (size_t k = 0; k < b.size(); ++k) {
      int p = -1; long s = -1;
      bool ok = EC<T>::dec(b[k], p, s) && p >= 0 && p < nprod;
      ++got;
      if (tracePath) trace.back().els.push_back(ok ? std::make_pair(p, s) : std::make_pair(-1, -1L));
      if (!ok) { if (fails.size() < 5) fails.push_back("corrupt payload / unknown producer in a batch"); continue; }
      if (s != next[(size_t)p]) {
        if (fails.size() < 5) fails.push_back("producer " + std::to_string(p) + ": got seq " + std::to_string(s) + " where seq " + std::to_string(next[(size_t)p]) + " was due");
        next[(size_t)p] = s + 1;
      } else ++next[(size_t)p];
    }
  };
  for (long b = 1; b <= bursts; ++b) {
    const bool lazy = burstlen >= 1024 && (b & 1);      // slow consumer: the whole burst piles up
    while (arrived.load() < (long)nprod * b) {
      if (lazy) { std::this_thread::yield(); continue; }
      std::vector<T> v = (INVC(B_CONSUME), buf.consume());
      if (v.empty()) { std::this_thread::yield(); continue; }   // nothing to record or check
      ++overlapped;
      account(v, 'b', 0, true);
    }
    // quiescent point: every producer is parked at the barrier
    size_t n = (INVC(B_SIZE), cbuf.size());
    bool e = (INVC(B_EMPTY), cbuf.empty());
    std::vector<T> v = (INVC(B_CONSUME), buf.consume());
    if (!v.empty()) ++quietNonEmpty;
    account(v, 'Q', n, e);
    if (fails.size() < 5) {
      if (e && !v.empty())
        fails.push_back("quiescent point " + std::to_string(b) + ": empty() == true and size() == " + std::to_string(n) + " while " + std::to_string(v.size()) +
                        " element(s) were buffered and no push_back/consume was in progress (a consumer that consumes only when !empty() never receives them)");
      else if (n != v.size())
        fails.push_back("quiescent point " + std::to_string(b) + ": size() == " + std::to_string(n) + " but the buffer held " + std::to_string(v.size()) + " element(s), no push_back/consume in progress");
      else if (!e && v.empty())
        fails.push_back("quiescent point " + std::to_string(b) + ": empty() == false but the buffer was empty");
      if ((INVC(B_SIZE), cbuf.size()) != 0 || !(INVC(B_EMPTY), cbuf.empty()))
        fails.push_back("quiescent point " + std::to_string(b) + ": right after consume() size() == " + std::to_string((INVC(B_SIZE), cbuf.size())) + ", empty() == " + ((INVC(B_EMPTY), cbuf.empty()) ? "true" : "false"));
    }
    release.store(b);
  }
  for (auto &t : prods) t.join();
  const long total = (long)nprod * bursts * burstlen;
  if (got != total && fails.size() < 8) fails.push_back("consumed " + std::to_string(got) + " elements, pushed " + std::to_string(total));
  if (tracePath) {
    std::ofstream tf(tracePath);
    tf << "TB " << nprod << " " << bursts * burstlen << "\n";
    for (auto &r : trace) {
      tf << r.tag << " " << r.before << " " << (r.wasEmpty ? 1 : 0);
      for (auto &x : r.els) tf << " " << x.first << "." << x.second;
      tf << "\n";
    }
    tf << "END\n";
  }
  if (fails.empty()) std::cout << "OK quiescent_points=" << bursts << " overlapping_consumes=" << overlapped << " nonempty_at_quiescence=" << quietNonEmpty << " elements=" << got << "\n";
  else for (auto &f : fails) std::cout << "FAIL " << f << "\n";
  return 0;
}

// ------------------------------------------------------------ sequential backlog (exact)
template <typename T>
static int seqbig(int nprod, long N, const char *tracePath)
{
  TransactionalBuffer<T> buf; INVC(B_CTOR);
  const TransactionalBuffer<T> &cbuf = buf;
  std::vector<long> pushed((size_t)nprod, 0), next((size_t)nprod, 0);
  std::vector<std::string> fails;
  struct Round { size_t before; bool wasEmpty; std::vector<std::pair<int, long>> els; };
  std::vector<Round> trace;
  long got = 0;
  auto push = [&](int p, bool mv) { T v = EC<T>::enc(p, pushed[(size_t)p]++); if (mv) (INVC(B_PUSHM), buf.push_back(std::move(v))); else (INVC(B_PUSHC), buf.push_back(v)); };
  auto round = [&](long expect) {
    size_t n = (INVC(B_SIZE), cbuf.size()); bool e = (INVC(B_EMPTY), cbuf.empty());
    std::vector<T> b = (INVC(B_CONSUME), buf.consume());
    trace.push_back(Round{n, e, {}}); trace.back().els.reserve(b.size());
    if ((long)n != expect && fails.size() < 6) fails.push_back("size() == " + std::to_string(n) + " with " + std::to_string(expect) + " elements pending");
    if (e != (expect == 0) && fails.size() < 6) fails.push_back(std::string("empty() == ") + (e ? "true" : "false") + " with " + std::to_string(expect) + " elements pending");
    if ((long)b.size() != expect && fails.size() < 6) fails.push_back("consume() returned " + std::to_string(b.size()) + " of the " + std::to_string(expect) + " pending elements");
    for (size_t k = 0; k < b.size(); ++k) {
      int p = -1; long s = -1;
      bool ok = EC<T>::dec(b[k], p, s) && p >= 0 && p < nprod;
      ++got;
      trace.back().els.push_back(ok ? std::make_pair(p, s) : std::make_pair(-1, -1L));
      if (!ok) { if (fails.size() < 6) fails.push_back("corrupt payload"); continue; }
      if (s != next[(size_t)p]) {
        if (fails.size() < 6) fails.push_back("producer " + std::to_string(p) + ": got seq " + std::to_string(s) + " where seq " + std::to_string(next[(size_t)p]) +
                                              " was due (batch " + std::to_string(trace.size() - 1) + ", position " + std::to_string(k) + ")");
        next[(size_t)p] = s + 1;
      } else ++next[(size_t)p];
    }
  };
  for (long i = 0; i < N; ++i) push((int)(((unsigned long)i * 2654435761UL >> 13) % (unsigned long)nprod), (i & 1) != 0);
  round(N);
  for (int i = 0; i < 5; ++i) push(i % nprod, i & 1);
  long left = N + 5 - got;            // whatever a (wrong) first consume() left behind is still due, in order
  round(left);
  for (int i = 0; i < 4 && !(INVC(B_EMPTY), cbuf.empty()); ++i) round((long)(INVC(B_SIZE), cbuf.size()));
  round(0);
  if (got != N + 5 && fails.size() < 8) fails.push_back("consumed " + std::to_string(got) + " elements, pushed " + std::to_string(N + 5));
  if (tracePath) {
    std::ofstream tf(tracePath);
    tf << "TBV " << nprod;
    for (int p = 0; p < nprod; ++p) tf << " " << pushed[(size_t)p];
    tf << "\n";
    for (auto &r : trace) {
      tf << "Q " << r.before << " " << (r.wasEmpty ? 1 : 0);
      for (auto &x : r.els) tf << " " << x.first << "." << x.second;
      tf << "\n";
    }
    tf << "END\n";
  }
  if (fails.empty()) std::cout << "OK backlog=" << N << " producers=" << nprod << " rounds=" << trace.size() << " elements=" << got << "\n";
  else for (auto &f : fails) std::cout << "FAIL " << f << "\n";
  return 0;
}

#endif  // C12_HAS_BUFFER
#ifdef C12_HAS_VALUE
// ------------------------------------------------ value: bursts of assignments between two update() calls
template <typename T>
static int stressvalburst(const char *tracePath)
{
  static const long gaps[] = {1, 255, 256, 257, 32767, 32768, 32769, 65535, 65536, 65537, 131071, 131072, 131073, 65536, 65536, 3};
  const int ng = (int)(sizeof(gaps) / sizeof(gaps[0]));
  long n = 0; for (int i = 0; i < ng; ++i) n += gaps[i];
  TransactionalValue<T> tv(VC<T>::enc(0)); INVC(V_CTOR_VAL);
  std::atomic<long> quiet(0), ack(0);
  std::thread prod([&] {
    long i = 0;
    for (int g = 0; g < ng; ++g) {
      for (long k = 0; k < gaps[g]; ++k) (INVC(V_ASSIGN), tv = VC<T>::enc(++i));
      quiet.store(i);
      while (ack.load() < i) std::this_thread::yield();
    }
  });
  std::vector<std::string> fails;
  std::vector<std::pair<char, long>> trace;
  long prev = 0, acked = 0;
  for (int g = 0; g < ng; ++g) {
    long q;
    while ((q = quiet.load()) <= acked) std::this_thread::yield();     // the consumer sleeps through the burst
    bool u = (INVC(V_UPDATE), tv.update());
    long v = -1; bool ok = VC<T>::dec((INVC(V_GET), tv.get()), v); if (!ok) v = -1;
    trace.push_back(std::make_pair(u ? 'T' : 'F', v));
    trace.push_back(std::make_pair('q', q));
    if (fails.size() < 5) {
      if (v != q) fails.push_back("after a burst of " + std::to_string(gaps[g]) + " assignments (" + std::to_string(q) + " in total, producer idle) update() returned " +
                                  (u ? "true" : "false") + " and get() gave " + std::to_string(v) + ", last assigned " + std::to_string(q));
      else if (!u) fails.push_back("update() returned false although it installed the newer value " + std::to_string(q) + " (previous " + std::to_string(prev) + ")");
    }
    bool u2 = (INVC(V_UPDATE), tv.update());
    long v2 = -1; VC<T>::dec((INVC(V_GET), tv.get()), v2);
    trace.push_back(std::make_pair(u2 ? 'T' : 'F', v2));
    if (u2 && fails.size() < 5) fails.push_back("second update() with nothing newly assigned returned true");
    prev = v2;
    acked = q; ack.store(q);
  }
  prod.join();
  if (tracePath) {
    std::ofstream tf(tracePath);
    tf << "TV " << n << "\n";
    for (auto &e : trace) {
      if (e.first == 'T') tf << "u1 " << e.second << "\n";
      else if (e.first == 'F') tf << "u0 " << e.second << "\n";
      else tf << "q " << e.second << "\n";
    }
    tf << "END\n";
  }
  if (fails.empty()) std::cout << "OK bursts=" << ng << " assignments=" << n << " last=" << prev << "\n";
  else for (auto &f : fails) std::cout << "FAIL " << f << "\n";
  return 0;
}

// ------------------------------------------------------------------------- stress: value
// The producer assigns 1..n.  After every few assignments (and after the last one) it pauses at a
// "quiescent point": it publishes quiet = i (assignment i has completed) and waits for the consumer's
// acknowledgement.  An update() that the consumer begins after reading quiet == i therefore runs with
// the producer stopped, and must obtain value i (model theorem tval_quiescent_update).
template <typename T>
static int stressval(long n, int spinN, const char *tracePath)
{
  TransactionalValue<T> tv(VC<T>::enc(0)); INVC(V_CTOR_VAL);
  std::atomic<bool> go(false);
  std::atomic<long> quiet(0), ack(0);
  std::thread prod([&] {
    while (!go.load()) {}
    for (long i = 1; i <= n; ++i) {
      (INVC(V_ASSIGN), tv = VC<T>::enc(i));
      if (i == n || (i * 2654435761UL >> 7) % 16 == 0) { quiet.store(i); while (ack.load() < i) std::this_thread::yield(); }
      else if (spinN) spin((int)(i % (spinN + 1)));
    }
  });
  std::vector<std::string> fails;
  std::vector<std::pair<char, long>> trace;   // 'T' true update, 'F' false update, 'g' get/ref, 'q' quiescent
  long prev = 0, polls = 0, trues = 0, gets = 0, quiets = 0, acked = 0;
  auto observe = [&](bool viaRef, int upd /* -1: no update call, 0 false, 1 true */) {
    long v = -1;
    bool ok = viaRef ? VC<T>::dec((INVC(V_REF), tv.ref()), v) : VC<T>::dec((INVC(V_GET), tv.get()), v);
    ++gets;
    if (!ok) v = -1;
    if (tracePath) trace.push_back(std::make_pair(upd == 1 ? 'T' : upd == 0 ? 'F' : 'g', v));
    if (!ok) { if (fails.size() < 5) fails.push_back("get() returned a value never assigned (corrupt/moved-from) after " + std::to_string(prev)); return; }
    if (v < 0 || v > n) { if (fails.size() < 5) fails.push_back("get() returned " + std::to_string(v) + ", not one of the assigned values 1.." + std::to_string(n)); return; }
    if (v < prev && fails.size() < 5) fails.push_back("get() went back from " + std::to_string(prev) + " to " + std::to_string(v));
    if (upd == 1 && !(v > prev) && fails.size() < 5) fails.push_back("update() returned true but get() stayed at " + std::to_string(v) + " (previous " + std::to_string(prev) + ")");
    if (upd != 1 && v != prev && fails.size() < 5) fails.push_back(std::string(upd == 0 ? "update() returned false" : "no update() call") + " but get() changed from " + std::to_string(prev) + " to " + std::to_string(v));
    prev = v;
  };
  go.store(true);
  while (true) {
    long q = quiet.load();            // q > acked: assignment q completed and the producer waits for the acknowledgement
    bool u = (INVC(V_UPDATE), tv.update());
    ++polls; if (u) ++trues;
    observe((polls & 3) == 0, u ? 1 : 0);
    if ((polls & 7) == 0) observe(false, -1);
    if (q > acked) {
      ++quiets;
      if (tracePath) trace.push_back(std::make_pair('q', q));
      if (prev != q && fails.size() < 5)
        fails.push_back("assignment " + std::to_string(q) + " had completed and the producer was idle, but the next update()+get() gave " + std::to_string(prev) + " (value lost)");
      acked = q; ack.store(q);
      if (q == n) break;
    }
    if (spinN) spin(spinN);
    if (!u) std::this_thread::yield();        // nothing new: let the producer run (matters on a loaded machine)
  }
  prod.join();
  if (prev != n) fails.push_back("after the producer finished, update()+get() gave " + std::to_string(prev) + ", last assigned " + std::to_string(n));
  if ((INVC(V_UPDATE), tv.update())) fails.push_back("update() returned true with nothing newly assigned");
  else if (tracePath) trace.push_back(std::make_pair('F', prev));
  observe(false, -1);
  if (tracePath) {
    std::ofstream tf(tracePath);
    tf << "TV " << n << "\n";
    for (auto &e : trace) {
      if (e.first == 'T') tf << "u1 " << e.second << "\n";
      else if (e.first == 'F') tf << "u0 " << e.second << "\n";
      else if (e.first == 'g') tf << "g " << e.second << "\n";
      else tf << "q " << e.second << "\n";
    }
    tf << "END\n";
  }
  if (fails.empty()) std::cout << "OK polls=" << polls << " true_updates=" << trues << " gets=" << gets << " quiescent_points=" << quiets << " last=" << prev << "\n";
  else for (auto &f : fails) std::cout << "FAIL " << f << "\n";
  return 0;
}

#endif  // C12_HAS_VALUE

int main(int argc, char **argv)
{
  std::string mode = argc > 1 ? argv[1] : "seq";
  if (mode == "seq") return mode_seq();
  if (mode == "facts") return mode_facts();
  std::string kind = argc > 2 ? argv[2] : "pod";
#ifdef C12_HAS_BUFFER
  if (mode == "stressbuf") {
    int nprod = argc > 3 ? std::atoi(argv[3]) : 2;
    long npush = argc > 4 ? std::atol(argv[4]) : 1000;
    int sp = argc > 5 ? std::atoi(argv[5]) : 0;
    const char *tp = argc > 6 ? argv[6] : nullptr;
    if (kind == "pod") return stressbuf<Pod>(nprod, npush, sp, tp);
    if (kind == "str") return stressbuf<std::string>(nprod, npush, sp, tp);
    return stressbuf<std::vector<int>>(nprod, npush, sp, tp);
  }
  if (mode == "seqbig") {
    int nprod = argc > 3 ? std::atoi(argv[3]) : 1;
    long N = argc > 4 ? std::atol(argv[4]) : 1000;
    const char *tp = argc > 5 ? argv[5] : nullptr;
    if (kind == "pod") return seqbig<Pod>(nprod, N, tp);
    if (kind == "str") return seqbig<std::string>(nprod, N, tp);
    return seqbig<std::vector<int>>(nprod, N, tp);
  }
#endif
#ifdef C12_HAS_VALUE
  if (mode == "stressvalburst") {
    const char *tp = argc > 3 ? argv[3] : nullptr;
    if (kind == "pod") return stressvalburst<int>(tp);
    if (kind == "str") return stressvalburst<std::string>(tp);
    return stressvalburst<std::vector<int>>(tp);
  }
#endif
#ifdef C12_HAS_BUFFER
  if (mode == "stressobs") {
    int nprod = argc > 3 ? std::atoi(argv[3]) : 2;
    long bursts = argc > 4 ? std::atol(argv[4]) : 100;
    long blen = argc > 5 ? std::atol(argv[5]) : 8;
    const char *tp = argc > 6 ? argv[6] : nullptr;
    if (kind == "pod") return stressobs<Pod>(nprod, bursts, blen, tp);
    if (kind == "str") return stressobs<std::string>(nprod, bursts, blen, tp);
    return stressobs<std::vector<int>>(nprod, bursts, blen, tp);
  }
#endif
#ifdef C12_HAS_VALUE
  if (mode == "stressval") {
    long n = argc > 3 ? std::atol(argv[3]) : 1000;
    int sp = argc > 4 ? std::atoi(argv[4]) : 0;
    const char *tp = argc > 5 ? argv[5] : nullptr;
    if (kind == "pod") return stressval<int>(n, sp, tp);
    if (kind == "str") return stressval<std::string>(n, sp, tp);
    return stressval<std::vector<int>>(n, sp, tp);
  }
#endif
  (void)kind;
  std::cerr << "unknown mode (or not built into this harness variant)\n";
  return 2;
}
