#!/bin/bash
# regenerate gen/GenAlloc.v from the current repo sources (Tie A); props/C14/check.py does the same on every run.
cd "$(dirname "$0")"
mkdir -p gen ../../build/include/rkcommon
python3 ../../lib/mkversion.py >/dev/null 2>&1
python3 ../../tools/c14gen/c14gen.py gen/GenAlloc.v.new \
  && { cmp -s gen/GenAlloc.v.new gen/GenAlloc.v || mv gen/GenAlloc.v.new gen/GenAlloc.v; rm -f gen/GenAlloc.v.new; }
