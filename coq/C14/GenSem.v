(* C14 - vocabulary for the statement walk of aligned_allocator::allocate emitted
   by tools/c14gen (hand-written; the generated file gen/GenAlloc.v imports it).
   The body of allocate() is not pure expression code (throw, a call of the
   external allocator, pointers), so it is generated as a list of these
   statements whose expressions are translated by cxx2coq; [run] reads the list
   as the decision taken before the allocator answers. *)
From Coq Require Import ZArith List Bool.
From Common Require Import CxxSem.
Import ListNotations.

(* statements of aligned_allocator::construct / destroy, as classified by tools/c14gen *)
Inductive cstmt :=
| CPlacementCopy      (* new ((void * )p) T(t): copy construction in place, from the second parameter *)
| CDestroyInPlace     (* p->~T() *)
| COther.             (* anything else (a branch, memcpy, an assignment ...) *)

Inductive exn := ELengthError | EBadAlloc | EOther.
Inductive aterm := TReturnNull | TReturnPtr | TThrow (e : exn).

Inductive astmt (I : interp) :=
| SIf (c : bool) (t : aterm)              (* if (c) return nullptr; / if (c) throw e;          *)
| SMalloc (bytes align : S I)             (* void *const pv = memory::alignedMalloc(bytes, align) *)
| SIfNull (t : aterm)                     (* if (pv == nullptr) ...                              *)
| SReturnPtr                              (* return static_cast<T*>(pv)                          *)
| SReturnNull.


Inductive gres (I : interp) :=
| RNull                                   (* returns nullptr without calling the allocator *)
| RThrow (e : exn)                        (* throws without calling the allocator          *)
| RRequest (bytes align : S I) (e : exn)  (* calls the allocator once; null answer: throw e, else return the pointer *)
| RStuck.                                 (* any other shape *)
Arguments RNull {I}. Arguments RThrow {I}. Arguments RRequest {I}. Arguments RStuck {I}.

Fixpoint run {I : interp} (l : list (astmt I)) : gres I :=
  match l with
  | SIf _ c t :: r =>
      if c then match t with
                | TReturnNull => RNull
                | TThrow e => RThrow e
                | TReturnPtr => RStuck
                end
      else run r
  | SMalloc _ b a :: SIfNull _ (TThrow e) :: SReturnPtr _ :: [] => RRequest b a e
  | _ => RStuck
  end.
