(* C14 - Tie A: the definitions regenerated from the source on every run
   (gen/GenAlloc.v, by tools/cxx2coq + tools/c14gen), read as machine arithmetic
   (CxxSem.MZ: every result wrapped to its C type), agree with the hand-written
   Model.v functions that the theorems of Properties.v are about. *)
From Common Require Import Prelude.
From Common Require CxxSem.
From C14 Require Import Model Proofs GenSem.
From C14.gen Require GenAlloc.
Import CxxSem(MZ, U64, I32, I64).
Local Open Scope Z_scope.

Lemma wrapU64 z : CxxSem.wrap U64 z = wrap z.
Proof. reflexivity. Qed.

Lemma wrapI64_mod z : (CxxSem.wrap I64 z) mod W = z mod W.
Proof.
  change (CxxSem.wrap I64 z) with ((z + 2 ^ 63) mod 2 ^ 64 - 2 ^ 63). change (2 ^ 64) with W.
  rewrite Zminus_mod_idemp_l. f_equal. lia.
Qed.

Lemma wrap_wrapI64 z : wrap (CxxSem.wrap I64 z) = wrap z.
Proof. exact (wrapI64_mod z). Qed.

Lemma wrap_opp_congr x y : x mod W = y mod W -> wrap (- x) = wrap (- y).
Proof.
  intro H. unfold wrap. rewrite <- (Z.sub_0_l x), <- (Z.sub_0_l y).
  rewrite <- (Zminus_mod_idemp_r 0 x), <- (Zminus_mod_idemp_r 0 y). rewrite H. reflexivity.
Qed.

Lemma wrap_add_congr p x y : x mod W = y mod W -> wrap (p + x) = wrap (p + y).
Proof.
  intro H. unfold wrap. rewrite <- (Zplus_mod_idemp_r x), <- (Zplus_mod_idemp_r y). rewrite H. reflexivity.
Qed.

Lemma wrap_idem z : wrap (wrap z) = wrap z.
Proof. unfold wrap. apply Z.mod_mod. rewrite W_val. lia. Qed.

Lemma land_wrap u v : 0 <= u < W -> wrap (Z.land u v) = Z.land u (wrap v).
Proof.
  intro Hu. unfold wrap. change W with (2 ^ 64). rewrite <- !Z.land_ones by lia.
  rewrite <- Z.land_assoc. reflexivity.
Qed.

Lemma land_small u v : 0 <= u < W -> 0 <= v < W -> wrap (Z.land u v) = Z.land u v.
Proof. intros Hu Hv. rewrite land_wrap by exact Hu. rewrite (wrap_small v) by exact Hv. reflexivity. Qed.

(* ---- ALIGN_PTR (instantiated with a size_t and with an int alignment operand) *)
Lemma gen_align_ptr_ul p a :
  0 <= p < W -> 0 <= a < W ->
  GenAlloc.c14inst_align_ptr_ul__ul_ul MZ p a = align_ptr p a.
Proof.
  intros Hp Ha. unfold GenAlloc.c14inst_align_ptr_ul__ul_ul, align_ptr.
  cbv [CxxSem.bop CxxSem.uop CxxSem.cast CxxSem.ilit MZ CxxSem.z_bop CxxSem.z_uop].
  change (CxxSem.wrap U64 (CxxSem.wrap I32 1)) with 1. change (CxxSem.wrap U64) with wrap.
  rewrite land_small by apply wrap_range.
  f_equal. rewrite wrap_wrapI64. apply wrap_opp_congr. apply wrapI64_mod.
Qed.

Lemma gen_align_ptr_int p a :
  0 <= p < W -> - 2 ^ 31 <= a < 2 ^ 31 ->
  GenAlloc.c14inst_align_ptr_i__ul_i MZ p a = align_ptr p a.
Proof.
  intros Hp Ha. unfold GenAlloc.c14inst_align_ptr_i__ul_i, align_ptr.
  cbv [CxxSem.bop CxxSem.uop CxxSem.cast CxxSem.ilit MZ CxxSem.z_bop CxxSem.z_uop].
  change (CxxSem.wrap U64 (CxxSem.wrap I32 1)) with 1. change (CxxSem.wrap U64) with wrap.
  rewrite land_small by apply wrap_range.
  f_equal.
  - f_equal. f_equal. apply wrap_add_congr. unfold wrap. apply Z.mod_mod. rewrite W_val. lia.
  - rewrite wrap_wrapI64. apply wrap_opp_congr. apply wrapI64_mod.
Qed.

(* ---- isAligned: the pointer is read as its address *)
Lemma gen_isAligned p a :
  0 <= p < W -> - 2 ^ 31 <= a < 2 ^ 31 -> a <> 0 ->
  is_aligned p a = Some (GenAlloc.memory_isAligned__p_i_expr MZ p a).
Proof.
  intros Hp Ha Hn. unfold GenAlloc.memory_isAligned__p_i_expr, is_aligned.
  cbv [CxxSem.bop CxxSem.cmp CxxSem.cast CxxSem.ilit MZ CxxSem.z_bop CxxSem.z_cmp].
  change (CxxSem.wrap U64 (CxxSem.wrap I32 0)) with 0. change (CxxSem.wrap U64) with wrap.
  assert (Hm : 0 < wrap a < W).
  { pose proof (wrap_range a) as R. split; [|lia].
    destruct (Z.eq_dec (wrap a) 0) as [E|E]; [|lia]. exfalso. unfold wrap in E.
    apply Z.mod_divide in E; [|rewrite W_val; lia]. destruct E as [q Hq]. rewrite W_val in Hq. lia. }
  destruct (wrap a =? 0) eqn:E0; [lia|].
  rewrite Z.rem_mod_nonneg by lia.
  rewrite (wrap_small (p mod wrap a)); [reflexivity|]. pose proof (Z.mod_pos_bound p (wrap a)). lia.
Qed.

Lemma gen_isAligned_default : GenAlloc.memory_isAligned__p_i_default_alignment MZ = 64.
Proof. reflexivity. Qed.

(* ---- aligned_allocator<T,64>: max_size() and the body of allocate(), for sizeof(T) = 1, 2, 4, 8 *)
Definition of_guard (g : guard) : gres MZ :=
  match g with
  | GNull => RNull
  | GLengthError => RThrow ELengthError
  | GRequest b => RRequest (b : CxxSem.S MZ) (wrap 64 : CxxSem.S MZ) EBadAlloc
  end.

(* one tactic for every instantiation, robust against refactorings of the source that keep
   the decision the same (order of the two guards, named locals, operand order, !n for n == 0,
   another spelling of max_size()): unfold the generated statements to Z with explicit wraps,
   fold closed subterms to numerals, split on every condition, decide each leaf with lia *)
Ltac fold_closed_wraps n :=
  repeat match goal with
         | |- context [CxxSem.wrap ?t ?z] =>
             lazymatch z with
             | context [n] => fail
             | _ => let v := eval vm_compute in (CxxSem.wrap t z) in change (CxxSem.wrap t z) with v
             end
         end.

Ltac guard_tac n k :=
  cbv [CxxSem.bop CxxSem.uop CxxSem.cmp CxxSem.cast CxxSem.ilit CxxSem.tobool CxxSem.ofbool MZ
       CxxSem.z_bop CxxSem.z_uop CxxSem.z_cmp];
  fold_closed_wraps n;
  let m := eval vm_compute in (max_size k) in change (max_size k) with m;
  change (wrap 64) with 64;
  change (CxxSem.wrap U64) with wrap;
  cbn [run];
  repeat match goal with
         | |- context [if ?c then _ else _] => destruct c eqn:?
         end;
  cbn [run];
  try reflexivity; try (exfalso; rewrite ?W_val in *; lia);
  try (f_equal; try reflexivity; try (f_equal; lia)).

Lemma gen_max_size_1 : GenAlloc.aligned_allocator64_max_size__ MZ tt = max_size 1.
Proof. vm_compute. reflexivity. Qed.

Lemma gen_allocate_1 n :
  0 <= n < W ->
  run (GenAlloc.aligned_allocator64_allocate__ul_body MZ tt n) = of_guard (allocate_guard 1 n).
Proof.
  intro Hn.
  unfold GenAlloc.aligned_allocator64_allocate__ul_body, GenAlloc.aligned_allocator64_max_size__,
    allocate_guard, of_guard.
  guard_tac n 1.
Qed.

Lemma gen_max_size_2 : GenAlloc.aligned_allocator64_max_size___2 MZ tt = max_size 2.
Proof. vm_compute. reflexivity. Qed.

Lemma gen_allocate_2 n :
  0 <= n < W ->
  run (GenAlloc.aligned_allocator64_allocate__ul_2_body MZ tt n) = of_guard (allocate_guard 2 n).
Proof.
  intro Hn.
  unfold GenAlloc.aligned_allocator64_allocate__ul_2_body, GenAlloc.aligned_allocator64_max_size___2,
    allocate_guard, of_guard.
  guard_tac n 2.
Qed.

Lemma gen_max_size_4 : GenAlloc.aligned_allocator64_max_size___3 MZ tt = max_size 4.
Proof. vm_compute. reflexivity. Qed.

Lemma gen_allocate_4 n :
  0 <= n < W ->
  run (GenAlloc.aligned_allocator64_allocate__ul_3_body MZ tt n) = of_guard (allocate_guard 4 n).
Proof.
  intro Hn.
  unfold GenAlloc.aligned_allocator64_allocate__ul_3_body, GenAlloc.aligned_allocator64_max_size___3,
    allocate_guard, of_guard.
  guard_tac n 4.
Qed.

Lemma gen_max_size_8 : GenAlloc.aligned_allocator64_max_size___4 MZ tt = max_size 8.
Proof. vm_compute. reflexivity. Qed.

Lemma gen_allocate_8 n :
  0 <= n < W ->
  run (GenAlloc.aligned_allocator64_allocate__ul_4_body MZ tt n) = of_guard (allocate_guard 8 n).
Proof.
  intro Hn.
  unfold GenAlloc.aligned_allocator64_allocate__ul_4_body, GenAlloc.aligned_allocator64_max_size___4,
    allocate_guard, of_guard.
  guard_tac n 8.
Qed.


(* ---- the typed overload alignedMalloc<T>(nElements, align), sizeof(T) = 4 and 8: what it hands on *)
Lemma gen_typed_request_4 n a :
  GenAlloc.memory_alignedMalloc__ul_ul_request MZ n a = (wrap (n * 4), a).
Proof. reflexivity. Qed.

Lemma gen_typed_request_8 n a :
  GenAlloc.memory_alignedMalloc__ul_ul_2_request MZ n a = (wrap (n * 8), a).
Proof. reflexivity. Qed.

Lemma gen_typed_model_4 ost be ndebug (w : world ost) n a :
  aligned_malloc_typed ost be ndebug w 4 n a =
  aligned_malloc ost be ndebug w (fst (GenAlloc.memory_alignedMalloc__ul_ul_request MZ n a))
                                 (snd (GenAlloc.memory_alignedMalloc__ul_ul_request MZ n a)).
Proof. rewrite gen_typed_request_4. reflexivity. Qed.

Lemma gen_typed_model_8 ost be ndebug (w : world ost) n a :
  aligned_malloc_typed ost be ndebug w 8 n a =
  aligned_malloc ost be ndebug w (fst (GenAlloc.memory_alignedMalloc__ul_ul_2_request MZ n a))
                                 (snd (GenAlloc.memory_alignedMalloc__ul_ul_2_request MZ n a)).
Proof. rewrite gen_typed_request_8. reflexivity. Qed.

(* ---- construct / destroy: placement copy construction and in-place destruction, nothing else
   (T = unsigned char, short, float, double and a class with user-provided copy constructor/destructor) *)
Lemma gen_construct_shapes :
  GenAlloc.aligned_allocator64_construct__p_uc_shape = [CPlacementCopy] /\
  GenAlloc.aligned_allocator64_construct__p_s_shape = [CPlacementCopy] /\
  GenAlloc.aligned_allocator64_construct__p_f_shape = [CPlacementCopy] /\
  GenAlloc.aligned_allocator64_construct__p_d_shape = [CPlacementCopy] /\
  GenAlloc.containers_aligned_allocator64_construct__p_Obj_shape = [CPlacementCopy].
Proof. repeat split; reflexivity. Qed.

Lemma gen_destroy_shapes :
  GenAlloc.aligned_allocator64_destroy__p_shape = [CDestroyInPlace] /\
  GenAlloc.aligned_allocator64_destroy__p_2_shape = [CDestroyInPlace] /\
  GenAlloc.aligned_allocator64_destroy__p_3_shape = [CDestroyInPlace] /\
  GenAlloc.aligned_allocator64_destroy__p_4_shape = [CDestroyInPlace] /\
  GenAlloc.containers_aligned_allocator64_destroy__p_shape = [CDestroyInPlace].
Proof. repeat split; reflexivity. Qed.
