From Coq Require Import Extraction ExtrOcamlBasic ZArith List.
From C14 Require Import Model.
Extraction "Model.ml" align_ptr is_aligned assert_ok max_size allocate_guard allocate
  aligned_malloc aligned_malloc_typed aligned_free h_step vs_step vs_init v_contents m_load mread
  scripted_malloc scripted_free bump_malloc bump_free gnu_vmax gnu_grow BASE
  Z.add Z.sub Z.mul Z.opp Z.div Z.modulo Z.eqb Z.ltb Z.leb Z.of_nat.
