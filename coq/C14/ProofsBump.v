(* C14 - the contract hypothesis is satisfiable: the bump allocator used as the
   scripted back end of the differential run (and re-implemented in the spy
   build of the harness) meets be_contract; libstdc++'s growth policy meets
   grow_ok. *)
From Common Require Import Prelude.
From C14 Require Import Model Proofs ProofsHeap.
Local Open Scope Z_scope.

Lemma heap_top_base live : BASE <= heap_top live.
Proof. induction live as [|b t IH]; simpl; [lia|]. lia. Qed.

Lemma heap_top_ge live b : In b live -> b_end b <= heap_top live.
Proof.
  induction live as [|x t IH]; simpl; [contradiction|].
  intros [H|H]; [subst; lia | specialize (IH H); lia].
Qed.

Lemma bump_place_spec lo a : 0 < a -> lo <= bump_place lo a /\ (a | bump_place lo a).
Proof.
  intro Ha. unfold bump_place.
  pose proof (Z.div_mod (lo - a) (2 * a) ltac:(lia)) as D.
  pose proof (Z.mod_pos_bound (lo - a) (2 * a) ltac:(lia)) as B.
  set (q := (lo - a) / (2 * a)) in *. set (r := (lo - a) mod (2 * a)) in *.
  destruct (r =? 0) eqn:E.
  - split; [lia|]. exists (2 * q + 1). apply Z.eqb_eq in E. lia.
  - split; [lia|]. exists (2 * q + 3). lia.
Qed.

Lemma bump_contract : be_contract bump_malloc.
Proof.
  unfold be_contract, bump_malloc. intros st live size align p st'.
  destruct (bs_fail st =? 0); [discriminate|].
  destruct ((align <=? 0) || negb (assert_ok align) || (2 ^ 20 <? align)) eqn:G; [discriminate|].
  set (lo := Z.max (bs_cur st) (heap_top live)).
  destruct (BASE + ARENA <? bump_place lo align + Z.max 1 size) eqn:F; [discriminate|].
  intro H. inversion H. subst p. clear H.
  assert (Ha : 0 < align).
  { destruct (align <=? 0) eqn:E; [discriminate | lia]. }
  destruct (bump_place_spec lo align Ha) as [P1 P2].
  pose proof (heap_top_base live) as HB.
  assert (HBv : BASE = 4294967296) by reflexivity.
  assert (HAv : ARENA = 268435456) by reflexivity.
  split; [lia|]. split; [rewrite W_val; lia|]. split; [intros _; exact P2|].
  unfold fresh. apply forallb_forall. intros b Hb. pose proof (heap_top_ge live b Hb) as T.
  unfold disjointb. apply orb_true_iff. right. simpl. apply Z.leb_le. lia.
Qed.

Lemma gnu_grow_ok sizeT : grow_ok (gnu_vmax sizeT) (gnu_grow sizeT).
Proof.
  unfold grow_ok, gnu_grow. intros s e Hs He Hm.
  destruct (gnu_vmax sizeT <? s + Z.max s e) eqn:E; lia.
Qed.
