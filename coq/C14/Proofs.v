(* C14 - proofs about the arithmetic (max_size, the guard, ALIGN_PTR, isAligned,
   the assert) and about raw alignedMalloc/alignedFree histories. *)
From Common Require Import Prelude.
From C14 Require Import Model.
Local Open Scope Z_scope.

Lemma W_val : W = 18446744073709551616.
Proof. reflexivity. Qed.

Lemma W_pos : 0 < W.
Proof. rewrite W_val. lia. Qed.

Lemma wrap_small x : 0 <= x < W -> wrap x = x.
Proof. intro H. unfold wrap. apply Z.mod_small. exact H. Qed.

Lemma wrap_range x : 0 <= wrap x < W.
Proof. unfold wrap. apply Z.mod_pos_bound. exact W_pos. Qed.

Lemma max_size_val sizeT : max_size sizeT = (W - 1) / sizeT.
Proof. unfold max_size. f_equal. Qed.

(* ------------------------------------------------------------ the guard *)
Lemma no_overflow sizeT n :
  0 < sizeT -> 0 <= n <= max_size sizeT ->
  n * sizeT < W /\ wrap (n * sizeT) = n * sizeT.
Proof.
  intros Hs [Hn0 Hn]. rewrite max_size_val in Hn.
  assert (Hm : sizeT * ((W - 1) / sizeT) <= W - 1).
  { apply Z.mul_div_le. exact Hs. }
  assert (Hle : n * sizeT <= sizeT * ((W - 1) / sizeT)).
  { rewrite (Z.mul_comm sizeT). apply Z.mul_le_mono_nonneg_r; lia. }
  split; [lia|]. apply wrap_small. split; [apply Z.mul_nonneg_nonneg; lia | lia].
Qed.

(* one more element than max_size does not fit: the guard is tight *)
Lemma overflow_beyond sizeT n :
  0 < sizeT -> max_size sizeT < n -> W <= n * sizeT.
Proof.
  intros Hs Hn. rewrite max_size_val in Hn.
  assert (H1 : W - 1 < sizeT * ((W - 1) / sizeT + 1)).
  { pose proof (Z.mul_succ_div_gt (W - 1) sizeT Hs) as H. unfold Z.succ in H. exact H. }
  assert (H2 : sizeT * ((W - 1) / sizeT + 1) <= n * sizeT).
  { rewrite (Z.mul_comm sizeT). apply Z.mul_le_mono_nonneg_r; lia. }
  lia.
Qed.

Lemma max_size_nonneg sizeT : 0 < sizeT -> 0 <= max_size sizeT.
Proof.
  intro Hs. rewrite max_size_val. apply Z.div_pos; [rewrite W_val; lia | exact Hs].
Qed.

Lemma guard_cases sizeT n :
  0 < sizeT -> 0 <= n ->
  match allocate_guard sizeT n with
  | GNull => n = 0
  | GLengthError => max_size sizeT < n
  | GRequest bytes => 0 < n <= max_size sizeT /\ bytes = n * sizeT /\ bytes < W
  end.
Proof.
  intros Hs Hn. unfold allocate_guard.
  destruct (n =? 0) eqn:E0; [lia|].
  destruct (max_size sizeT <? n) eqn:E1; [lia|].
  destruct (no_overflow sizeT n Hs) as [H1 H2]; [lia|].
  repeat split; try lia; try exact H2.
Qed.

Lemma guard_length_error sizeT n :
  0 < sizeT -> max_size sizeT < n -> allocate_guard sizeT n = GLengthError.
Proof.
  intros Hs Hn. pose proof (max_size_nonneg sizeT Hs) as H0. unfold allocate_guard.
  destruct (n =? 0) eqn:E0; [lia|].
  destruct (max_size sizeT <? n) eqn:E1; [reflexivity | lia].
Qed.

(* ------------------------------------------------------------ ALIGN_PTR *)
Lemma testbit_high x n : 0 <= x < W -> 64 <= n -> Z.testbit x n = false.
Proof.
  intros Hx Hn. rewrite <- (Z.mod_small x (2 ^ 64)) by (change (2 ^ 64) with W; exact Hx).
  apply Z.mod_pow2_bits_high. lia.
Qed.

Lemma land_mask x k :
  0 <= x < W -> 0 <= k < 64 -> Z.land x (W - 2 ^ k) = x - x mod 2 ^ k.
Proof.
  intros Hx Hk.
  assert (Hp : 0 < 2 ^ k) by (apply Z.pow_pos_nonneg; lia).
  assert (E1 : W - 2 ^ k = Z.shiftl (Z.ones (64 - k)) k).
  { rewrite Z.shiftl_mul_pow2 by lia. rewrite Z.ones_equiv.
    assert (HW : 2 ^ (64 - k) * 2 ^ k = W).
    { rewrite <- Z.pow_add_r by lia. replace (64 - k + k) with 64 by lia. reflexivity. }
    replace (Z.pred (2 ^ (64 - k)) * 2 ^ k) with (2 ^ (64 - k) * 2 ^ k - 2 ^ k) by (unfold Z.pred; ring).
    rewrite HW. reflexivity. }
  assert (E2 : x - x mod 2 ^ k = Z.shiftl (Z.shiftr x k) k).
  { rewrite Z.shiftl_mul_pow2 by lia. rewrite Z.shiftr_div_pow2 by lia.
    pose proof (Z.div_mod x (2 ^ k)) as D. lia. }
  rewrite E1, E2. apply Z.bits_inj'. intros n Hn.
  rewrite Z.land_spec.
  destruct (Z.ltb_spec n k) as [Hlt|Hge].
  - rewrite !Z.shiftl_spec_low by lia. apply andb_false_r.
  - rewrite !Z.shiftl_spec by lia. rewrite Z.shiftr_spec by lia.
    replace (n - k + k) with n by lia.
    destruct (Z.ltb_spec n 64) as [Hl|Hh].
    + rewrite Z.ones_spec_low by lia. apply andb_true_r.
    + rewrite Z.ones_spec_high by lia. rewrite testbit_high by lia. reflexivity.
Qed.

Lemma pow2_lt_W k : 0 <= k < 64 -> 0 < 2 ^ k < W.
Proof.
  intro Hk. split; [apply Z.pow_pos_nonneg; lia|].
  change W with (2 ^ 64). apply Z.pow_lt_mono_r; lia.
Qed.

Lemma wrap_neg a : 0 < a < W -> wrap (- a) = W - a.
Proof.
  intro Ha. unfold wrap. symmetry. apply (Z.mod_unique_pos (- a) W (-1) (W - a)); lia.
Qed.

Lemma wrap_sub1 x : wrap (wrap x - 1) = wrap (x - 1).
Proof. unfold wrap. apply Zminus_mod_idemp_l. Qed.

(* no wrap: the least multiple of a that is >= p *)
Lemma align_ptr_nowrap p k :
  0 <= k < 64 -> 0 <= p -> p + 2 ^ k - 1 < W ->
  let a := 2 ^ k in
  let r := align_ptr p a in
  (a | r) /\ p <= r < p + a /\ (forall m, (a | m) -> p <= m -> r <= m).
Proof.
  intros Hk Hp Hw a r. pose proof (pow2_lt_W k Hk) as Ha. fold a in Ha.
  assert (Er : r = (p + a - 1) - (p + a - 1) mod a).
  { unfold r, align_ptr. rewrite wrap_sub1.
    rewrite (wrap_small (p + a - 1)) by (fold a in Hw; lia).
    rewrite wrap_neg by exact Ha. unfold a. apply land_mask; [fold a in Hw; fold a; lia | exact Hk]. }
  assert (Hdiv : (a | r)).
  { rewrite Er. exists ((p + a - 1) / a). pose proof (Z.div_mod (p + a - 1) a). lia. }
  pose proof (Z.mod_pos_bound (p + a - 1) a ltac:(lia)) as Hm.
  split; [exact Hdiv|]. split; [lia|].
  intros m [q Hq] Hpm. destruct Hdiv as [q' Hq'].
  destruct (Z_lt_le_dec m r) as [Hlt|Hge]; [|exact Hge].
  exfalso. assert (q < q') by nia. assert (m + a <= r) by nia. lia.
Qed.

(* wrap: the sum passes 2^64 and the macro yields 0 (a pointer below p) *)
Lemma align_ptr_wraps p k :
  0 <= k < 64 -> 0 <= p < W -> W <= p + 2 ^ k - 1 -> align_ptr p (2 ^ k) = 0.
Proof.
  intros Hk Hp Hw. pose proof (pow2_lt_W k Hk) as Ha. set (a := 2 ^ k) in *.
  unfold align_ptr.
  assert (E : wrap (wrap (p + a) - 1) = p + a - 1 - W).
  { assert (E1 : wrap (p + a) = p + a - W).
    { unfold wrap. symmetry. apply (Z.mod_unique_pos (p + a) W 1); lia. }
    rewrite E1. rewrite wrap_small by lia. lia. }
  rewrite E, wrap_neg by exact Ha. unfold a. rewrite land_mask by (fold a; lia).
  fold a. rewrite Z.mod_small by lia. lia.
Qed.

(* ------------------------------------------------------------ isAligned *)
Lemma is_aligned_pos p a :
  0 < a < W -> 0 <= p ->
  exists b, is_aligned p a = Some b /\ (b = true <-> (a | p)).
Proof.
  intros Ha Hp. unfold is_aligned. rewrite wrap_small by lia.
  destruct (a =? 0) eqn:E; [lia|]. eexists. split; [reflexivity|].
  rewrite Z.eqb_eq. rewrite Z.mod_divide by lia. reflexivity.
Qed.

(* a negative int alignment is converted to size_t first *)
Lemma is_aligned_neg p a :
  - W < a < 0 -> 0 <= p ->
  is_aligned p a = Some (p mod (W + a) =? 0).
Proof.
  intros Ha Hp. unfold is_aligned.
  assert (E : wrap a = W + a).
  { unfold wrap. symmetry. apply (Z.mod_unique_pos a W (-1)); lia. }
  rewrite E. destruct (W + a =? 0) eqn:E0; [lia | reflexivity].
Qed.

Lemma is_aligned_zero p : is_aligned p 0 = None.
Proof. reflexivity. Qed.

(* ------------------------------------------------------------ the assert *)
Lemma assert_ok_pow2 k : 0 <= k < 64 -> assert_ok (2 ^ k) = true.
Proof.
  intro Hk.
  assert (H : forallb (fun i => assert_ok (2 ^ Z.of_nat i)) (seq 0 64) = true) by (vm_compute; reflexivity).
  rewrite forallb_forall in H. specialize (H (Z.to_nat k)).
  rewrite Z2Nat.id in H by lia. apply H. apply in_seq. lia.
Qed.

Lemma assert_ok_zero : assert_ok 0 = true.
Proof. reflexivity. Qed.
