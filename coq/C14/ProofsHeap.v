(* C14 - proofs about alignedMalloc/alignedFree histories (heap integrity),
   aligned_allocator::allocate and the AlignedVector model.  The external
   allocator is a Section variable; its contract is a Section hypothesis. *)
From Common Require Import Prelude.
From C14 Require Import Model Proofs.
Local Open Scope Z_scope.

(* ------------------------------------------------------- blocks and heaps *)
Lemma b_ext_pos b : 1 <= b_ext b.
Proof. unfold b_ext. lia. Qed.

Lemma disjointb_sym x y : disjointb x y = disjointb y x.
Proof. unfold disjointb. apply orb_comm. Qed.

Lemma disjointb_addr x y : disjointb x y = true -> b_addr x <> b_addr y.
Proof.
  unfold disjointb, b_end. intro H. pose proof (b_ext_pos x). pose proof (b_ext_pos y).
  apply orb_true_iff in H. destruct H as [H|H]; apply Z.leb_le in H; lia.
Qed.

Lemma disjointb_apart x y a c :
  disjointb x y = true -> in_block x a -> in_block y c -> a <> c.
Proof.
  unfold disjointb, in_block. intros H Ha Hc.
  apply orb_true_iff in H. destruct H as [H|H]; apply Z.leb_le in H; lia.
Qed.

Lemma fresh_forallb live b :
  fresh live (b_addr b) (b_size b) = true -> forallb (disjointb b) live = true.
Proof. unfold fresh. destruct b as [a s]. simpl. intro H. exact H. Qed.

Lemma h_find_some live p b : h_find live p = Some b -> In b live /\ b_addr b = p.
Proof.
  induction live as [|x t IH]; simpl; [discriminate|].
  destruct (b_addr x =? p) eqn:E.
  - intro H. inversion H. subst. split; [left; reflexivity | lia].
  - intro H. destruct (IH H) as [H1 H2]. split; [right; exact H1 | exact H2].
Qed.

Lemma h_find_none_forallb live x :
  forallb (disjointb x) live = true -> h_find live (b_addr x) = None.
Proof.
  induction live as [|y t IH]; simpl; [reflexivity|].
  intro H. apply andb_true_iff in H. destruct H as [H1 H2].
  apply disjointb_addr in H1. destruct (b_addr y =? b_addr x) eqn:E; [lia | apply IH; exact H2].
Qed.

Lemma h_remove_sub live p live' :
  h_remove live p = Some live' -> forall b, In b live' -> In b live.
Proof.
  revert live'. induction live as [|x t IH]; simpl; intros live' H; [discriminate|].
  destruct (b_addr x =? p) eqn:E.
  - inversion H. subst. intros b Hb. right. exact Hb.
  - destruct (h_remove t p) as [t'|] eqn:R; [|discriminate]. inversion H. subst.
    intros b [Hb|Hb]; [left; exact Hb | right; apply (IH t' eq_refl); exact Hb].
Qed.

Lemma forallb_sub {A} (f : A -> bool) l l' :
  (forall b, In b l' -> In b l) -> forallb f l = true -> forallb f l' = true.
Proof.
  intros Hs H. rewrite forallb_forall in *. intros b Hb. apply H. apply Hs. exact Hb.
Qed.

Lemma h_remove_wf live p live' :
  heap_wf live -> h_remove live p = Some live' -> heap_wf live'.
Proof.
  revert live'. induction live as [|x t IH]; simpl; intros live' Hwf H; [discriminate|].
  destruct Hwf as [Hx [Hd Ht]].
  destruct (b_addr x =? p) eqn:E.
  - inversion H. subst. exact Ht.
  - destruct (h_remove t p) as [t'|] eqn:R; [|discriminate]. inversion H. subst.
    simpl. split; [exact Hx|]. split; [|apply IH; [exact Ht | reflexivity]].
    apply (forallb_sub _ t t'); [apply (h_remove_sub t p); exact R | exact Hd].
Qed.

(* after the removal the address is no longer live *)
Lemma h_remove_gone live p live' :
  heap_wf live -> h_remove live p = Some live' -> h_find live' p = None.
Proof.
  revert live'. induction live as [|x t IH]; simpl; intros live' Hwf H; [discriminate|].
  destruct Hwf as [Hx [Hd Ht]].
  destruct (b_addr x =? p) eqn:E.
  - inversion H. subst. apply Z.eqb_eq in E. subst p. apply h_find_none_forallb. exact Hd.
  - destruct (h_remove t p) as [t'|] eqn:R; [|discriminate]. inversion H. subst.
    simpl. rewrite E. apply IH; [exact Ht | reflexivity].
Qed.

(* the removed block is disjoint from everything that stays *)
Lemma h_remove_disjoint live p live' x :
  heap_wf live -> h_find live p = Some x -> h_remove live p = Some live' ->
  forallb (disjointb x) live' = true.
Proof.
  revert live'. induction live as [|y t IH]; simpl; intros live' Hwf Hf H; [discriminate|].
  destruct Hwf as [Hy [Hd Ht]].
  destruct (b_addr y =? p) eqn:E.
  - inversion H. inversion Hf. subst. exact Hd.
  - destruct (h_remove t p) as [t'|] eqn:R; [|discriminate]. inversion H. subst.
    simpl. apply andb_true_iff. split; [|apply IH; [exact Ht | exact Hf | reflexivity]].
    rewrite disjointb_sym. apply h_find_some in Hf. destruct Hf as [Hin _].
    rewrite forallb_forall in Hd. apply Hd. exact Hin.
Qed.

Lemma h_find_remove live p b : h_find live p = Some b -> exists live', h_remove live p = Some live'.
Proof.
  induction live as [|x t IH]; simpl; [discriminate|].
  destruct (b_addr x =? p); [intros _; eexists; reflexivity|].
  intro H. destruct (IH H) as [t' Ht']. rewrite Ht'. eexists. reflexivity.
Qed.

Lemma h_find_in live b : In b live -> exists x, h_find live (b_addr b) = Some x.
Proof.
  induction live as [|y t IH]; simpl; [contradiction|].
  intros [H|H].
  - subst y. rewrite Z.eqb_refl. eexists. reflexivity.
  - destruct (b_addr y =? b_addr b); [eexists; reflexivity | apply IH; exact H].
Qed.

Lemma h_find_remove_other live p live' q :
  h_remove live p = Some live' -> q <> p -> h_find live' q = h_find live q.
Proof.
  revert live'. induction live as [|y t IH]; simpl; intros live' H Hq; [discriminate|].
  destruct (b_addr y =? p) eqn:E.
  - inversion H. subst. destruct (b_addr y =? q) eqn:E2; [lia | reflexivity].
  - destruct (h_remove t p) as [t'|] eqn:R; [|discriminate]. inversion H. subst. simpl.
    destruct (b_addr y =? q); [reflexivity | apply IH; [reflexivity | exact Hq]].
Qed.

Lemma fresh_addr_ne live p sz x : fresh live p sz = true -> In x live -> p <> b_addr x.
Proof.
  unfold fresh. intros H Hx. rewrite forallb_forall in H. specialize (H x Hx).
  apply disjointb_addr in H. exact H.
Qed.

Lemma heap_wf_nonzero live b : heap_wf live -> In b live -> b_addr b <> 0.
Proof.
  induction live as [|y t IH]; simpl; [contradiction|].
  intros [Hy [_ Ht]] [H|H]; [subst; exact Hy | apply IH; assumption].
Qed.

(* ------------------------------------------------------------------ memory *)
Lemma mread_mdrop m lo hi a : ~ (lo <= a < hi) -> mread (mdrop m lo hi) a = mread m a.
Proof.
  intro Ha. induction m as [|[k v] t IH]; simpl; [reflexivity|].
  destruct ((lo <=? k) && (k <? hi)) eqn:E; simpl.
  - destruct (k =? a) eqn:Ek; [|exact IH]. exfalso. apply Ha. lia.
  - destruct (k =? a); [reflexivity | exact IH].
Qed.

Lemma mread_mwrite m k v a : mread (mwrite m k v) a = if k =? a then v else mread m a.
Proof. reflexivity. Qed.

Section Store.
  Variable base sizeT : Z.
  Hypothesis sizeT_pos : 0 < sizeT.

  Lemma store_other l : forall m i a,
    (forall k, i <= k -> a <> base + k * sizeT) ->
    mread (m_store m base sizeT i l) a = mread m a.
  Proof.
    induction l as [|x l IH]; intros m i a Ha; simpl; [reflexivity|].
    rewrite IH by (intros k Hk; apply Ha; lia).
    rewrite mread_mwrite. destruct (base + i * sizeT =? a) eqn:E; [|reflexivity].
    exfalso. apply (Ha i); lia.
  Qed.

  Lemma store_hit l : forall m i k,
    (k < length l)%nat ->
    mread (m_store m base sizeT i l) (base + (i + Z.of_nat k) * sizeT) = nth k l 0.
  Proof.
    induction l as [|x l IH]; intros m i k Hk; simpl in Hk; [lia|].
    destruct k as [|k]; simpl.
    - rewrite store_other by (intros j Hj; nia).
      rewrite mread_mwrite. replace (i + 0) with i by lia. rewrite Z.eqb_refl. reflexivity.
    - replace (i + Z.pos (Pos.of_succ_nat k)) with (i + 1 + Z.of_nat k) by lia.
      apply IH. lia.
  Qed.

  Lemma map_seq_nth (f : nat -> Z) l :
    (forall k, (k < length l)%nat -> f k = nth k l 0) -> map f (seq 0 (length l)) = l.
  Proof.
    intro H. apply (nth_ext _ _ 0 0).
    - rewrite map_length, seq_length. reflexivity.
    - intros n Hn. rewrite map_length, seq_length in Hn.
      rewrite (nth_indep _ 0 (f 0%nat)) by (rewrite map_length, seq_length; exact Hn).
      rewrite map_nth. rewrite seq_nth by exact Hn. simpl. apply H. exact Hn.
  Qed.

  (* what was stored can be loaded back *)
  Lemma load_store m l :
    m_load (m_store m base sizeT 0 l) base sizeT (Z.of_nat (length l)) = l.
  Proof.
    unfold m_load. rewrite Nat2Z.id. apply map_seq_nth. intros k Hk.
    rewrite <- (store_hit l m 0 k Hk). reflexivity.
  Qed.

  Lemma load_store' m l n :
    n = Z.of_nat (length l) -> m_load (m_store m base sizeT 0 l) base sizeT n = l.
  Proof. intro H. subst n. apply load_store. Qed.

  Lemma m_load_length m n : length (m_load m base sizeT n) = Z.to_nat n.
  Proof. unfold m_load. rewrite map_length, seq_length. reflexivity. Qed.

  (* loads only depend on the cells they read *)
  Lemma m_load_ext m m' n :
    (forall i, 0 <= i < n -> mread m' (base + i * sizeT) = mread m (base + i * sizeT)) ->
    m_load m' base sizeT n = m_load m base sizeT n.
  Proof.
    intro H. unfold m_load. apply map_ext_in. intros k Hk. apply in_seq in Hk.
    apply H. lia.
  Qed.
End Store.

(* ------------------------------------------------- the back end as a section *)
Section WithBackend.
  Variable ost : Type.
  Variable be_malloc : ost -> heap -> Z -> Z -> option Z * ost.
  Variable be_free : ost -> Z -> ost.
  Variable ndebug : bool.
  Hypothesis contract : be_contract be_malloc.

  Local Notation amalloc := (aligned_malloc ost be_malloc ndebug).
  Local Notation afree := (aligned_free ost be_free).
  Local Notation alloc := (allocate ost be_malloc ndebug).
  Local Notation hstep := (h_step ost be_malloc be_free ndebug).
  Local Notation hrun := (h_run ost be_malloc be_free ndebug).

  (* alignedMalloc: a returned pointer is a new live block with the contract's
     properties; memory contents are untouched *)
  Lemma amalloc_ptr w size align p w' :
    amalloc w size align = (AMPtr p, w') ->
    0 < p /\ p + Z.max 1 size <= W /\ (0 < align -> (align | p)) /\
    fresh (w_live ost w) p size = true /\
    w_live ost w' = {| b_addr := p; b_size := size |} :: w_live ost w /\
    w_mem ost w' = w_mem ost w.
  Proof.
    unfold aligned_malloc. destruct (negb ndebug && negb (assert_ok align)); [discriminate|].
    destruct (be_malloc (w_be ost w) (w_live ost w) size align) as [[q|] st'] eqn:E; [|discriminate].
    intro H. inversion H. subst. simpl.
    destruct (contract _ _ _ _ _ _ E) as [H1 [H2 [H3 H4]]]. repeat split; assumption.
  Qed.

  Lemma amalloc_other w size align r w' :
    amalloc w size align = (r, w') -> (forall p, r <> AMPtr p) ->
    w_live ost w' = w_live ost w /\ w_mem ost w' = w_mem ost w.
  Proof.
    unfold aligned_malloc. destruct (negb ndebug && negb (assert_ok align)).
    - intro H. inversion H. subst. split; reflexivity.
    - destruct (be_malloc (w_be ost w) (w_live ost w) size align) as [[q|] st'] eqn:E;
        intro H; inversion H; subst; simpl; intro Hn.
      + exfalso. apply (Hn q). reflexivity.
      + split; reflexivity.
  Qed.

  Lemma amalloc_wf w size align r w' :
    heap_wf (w_live ost w) -> amalloc w size align = (r, w') -> heap_wf (w_live ost w').
  Proof.
    intros Hwf H. destruct r as [| |p].
    - destruct (amalloc_other _ _ _ _ _ H) as [E _]; [discriminate | rewrite E; exact Hwf].
    - destruct (amalloc_other _ _ _ _ _ H) as [E _]; [discriminate | rewrite E; exact Hwf].
    - destruct (amalloc_ptr _ _ _ _ _ H) as [H1 [_ [_ [H4 [H5 _]]]]].
      rewrite H5. simpl. split; [lia|]. split; [exact H4 | exact Hwf].
  Qed.

  Lemma afree_wf w p w' :
    heap_wf (w_live ost w) -> afree w p = Some w' -> heap_wf (w_live ost w').
  Proof.
    unfold aligned_free. intros Hwf. destruct (p =? 0); [intro H; inversion H; subst; exact Hwf|].
    destruct (h_find (w_live ost w) p) as [b|]; [|discriminate].
    destruct (h_remove (w_live ost w) p) as [l'|] eqn:R; [|discriminate].
    intro H. inversion H. subst. simpl. exact (h_remove_wf _ p _ Hwf R).
  Qed.

  (* freed exactly once: a second alignedFree of the same pointer is rejected *)
  Lemma afree_twice w p w' :
    heap_wf (w_live ost w) -> p <> 0 -> afree w p = Some w' -> afree w' p = None.
  Proof.
    unfold aligned_free. intros Hwf Hp. destruct (p =? 0) eqn:E0; [lia|].
    destruct (h_find (w_live ost w) p) as [b|]; [|discriminate].
    destruct (h_remove (w_live ost w) p) as [l'|] eqn:R; [|discriminate].
    intro H. inversion H. subst. simpl.
    rewrite (h_remove_gone _ _ _ Hwf R). reflexivity.
  Qed.

  (* a pointer that is not live (never returned, or already freed) is rejected *)
  Lemma afree_not_live w p :
    p <> 0 -> h_find (w_live ost w) p = None -> afree w p = None.
  Proof.
    unfold aligned_free. intros Hp Hf. destruct (p =? 0) eqn:E0; [lia|]. rewrite Hf. reflexivity.
  Qed.

  (* alignedFree leaves every other live block's contents alone *)
  Lemma afree_integrity w p w' b a :
    heap_wf (w_live ost w) -> afree w p = Some w' ->
    In b (w_live ost w') -> in_block b a ->
    In b (w_live ost w) /\ mread (w_mem ost w') a = mread (w_mem ost w) a.
  Proof.
    unfold aligned_free. intros Hwf. destruct (p =? 0); [intro H; inversion H; subst; intros Hb _; split; [exact Hb | reflexivity]|].
    destruct (h_find (w_live ost w) p) as [x|] eqn:F; [|discriminate].
    destruct (h_remove (w_live ost w) p) as [l'|] eqn:R; [|discriminate].
    intro H. inversion H. subst. simpl. intros Hb Ha.
    split; [apply (h_remove_sub _ _ _ R); exact Hb|].
    apply mread_mdrop. intro Hx.
    pose proof (h_remove_disjoint _ _ _ _ Hwf F R) as Hd.
    rewrite forallb_forall in Hd. specialize (Hd b Hb).
    apply (disjointb_apart x b a a Hd); [exact Hx | exact Ha | reflexivity].
  Qed.

  Lemma hstep_wf w o r w' :
    heap_wf (w_live ost w) -> hstep w o = Some (r, w') -> heap_wf (w_live ost w').
  Proof.
    intros Hwf. destruct o as [size align|p|p off v]; simpl.
    - intro H. inversion H. apply (amalloc_wf _ _ _ _ _ Hwf H1).
    - destruct (afree w p) as [w1|] eqn:F; [|discriminate]. intro H. inversion H. subst.
      apply (afree_wf _ _ _ Hwf F).
    - destruct (h_find (w_live ost w) p) as [b|]; [|discriminate].
      destruct ((0 <=? off) && (off <? b_size b)); [|discriminate].
      intro H. inversion H. subst. exact Hwf.
  Qed.

  (* heap integrity over any history of alignedMalloc / alignedFree / stores *)
  Lemma hrun_wf ops : forall w w',
    heap_wf (w_live ost w) -> hrun w ops = Some w' -> heap_wf (w_live ost w').
  Proof.
    induction ops as [|o ops IH]; intros w w' Hwf; simpl.
    - intro H. inversion H. subst. exact Hwf.
    - destruct (hstep w o) as [[r w1]|] eqn:S; [|discriminate].
      intro H. apply (IH w1); [apply (hstep_wf _ _ _ _ Hwf S) | exact H].
  Qed.

  (* one step never changes a byte of a block that stays live, unless the step
     is a store into that very block *)
  Lemma hstep_integrity w o r w' b a :
    heap_wf (w_live ost w) -> hstep w o = Some (r, w') ->
    In b (w_live ost w) -> In b (w_live ost w') -> in_block b a ->
    (forall p off v, o = HWrite p off v -> p <> b_addr b) ->
    mread (w_mem ost w') a = mread (w_mem ost w) a.
  Proof.
    intros Hwf H Hb Hb' Ha Hw. destruct o as [size align|p|p off v]; simpl in H.
    - inversion H. destruct r as [| |q].
      + destruct (amalloc_other _ _ _ _ _ H1) as [_ E]; [discriminate | rewrite E; reflexivity].
      + destruct (amalloc_other _ _ _ _ _ H1) as [_ E]; [discriminate | rewrite E; reflexivity].
      + destruct (amalloc_ptr _ _ _ _ _ H1) as [_ [_ [_ [_ [_ E]]]]]. rewrite E. reflexivity.
    - destruct (afree w p) as [w1|] eqn:F; [|discriminate]. inversion H. subst.
      apply (afree_integrity _ _ _ b a Hwf F Hb' Ha).
    - destruct (h_find (w_live ost w) p) as [x|] eqn:F; [|discriminate].
      destruct ((0 <=? off) && (off <? b_size x)) eqn:R; [|discriminate].
      inversion H. subst. cbn [w_mem]. rewrite mread_mwrite.
      destruct (p + off =? a) eqn:E; [|reflexivity]. exfalso.
      apply h_find_some in F. destruct F as [Hx Hpx].
      assert (Hne : x <> b) by (intro Q; subst x; apply (Hw p off v eq_refl); symmetry; exact Hpx).
      assert (Hd : disjointb x b = true).
      { clear - Hwf Hx Hb Hne. induction (w_live ost w) as [|y t IH]; [contradiction|].
        simpl in Hwf. destruct Hwf as [_ [Hd Ht]]. rewrite forallb_forall in Hd.
        destruct Hx as [Hx|Hx], Hb as [Hb|Hb].
        - congruence.
        - subst y. apply Hd. exact Hb.
        - subst y. rewrite disjointb_sym. apply Hd. exact Hx.
        - apply IH; assumption. }
      apply (disjointb_apart x b (p + off) a Hd); [|exact Ha | lia].
      unfold in_block, b_end, b_ext. lia.
  Qed.

  (* ----------------------------------------- aligned_allocator::allocate *)
  Lemma allocate_length_error w sizeT A n :
    0 < sizeT -> max_size sizeT < n -> alloc w sizeT A n = (ALengthError, w).
  Proof.
    intros Hs Hn. unfold allocate. rewrite guard_length_error by assumption. reflexivity.
  Qed.

  Lemma allocate_cases w sizeT A n :
    0 < sizeT -> 0 <= n -> 0 < A < W -> assert_ok A = true ->
    match alloc w sizeT A n with
    | (ANull, w') => n = 0 /\ w' = w
    | (ALengthError, w') => max_size sizeT < n /\ w' = w
    | (ABadAlloc, w') =>
        0 < n <= max_size sizeT /\
        fst (be_malloc (w_be ost w) (w_live ost w) (n * sizeT) A) = None /\
        w_live ost w' = w_live ost w /\ w_mem ost w' = w_mem ost w
    | (APtr p, w') =>
        0 < n <= max_size sizeT /\ 0 < p /\ (A | p) /\ p + n * sizeT <= W /\
        fresh (w_live ost w) p (n * sizeT) = true /\
        w_live ost w' = {| b_addr := p; b_size := n * sizeT |} :: w_live ost w /\
        w_mem ost w' = w_mem ost w
    | (AAbort, _) => False
    end.
  Proof.
    intros Hs Hn HA Hok. unfold allocate.
    pose proof (guard_cases sizeT n Hs Hn) as G.
    destruct (allocate_guard sizeT n) as [| |bytes]; [split; [exact G | reflexivity] .. |].
    destruct G as [G1 [G2 G3]]. subst bytes. rewrite (wrap_small A) by lia.
    destruct (amalloc w (n * sizeT) A) as [r w'] eqn:E. destruct r as [| |p].
    - exfalso. unfold aligned_malloc in E. rewrite Hok in E. rewrite andb_false_r in E.
      destruct (be_malloc (w_be ost w) (w_live ost w) (n * sizeT) A) as [[q|] st']; discriminate.
    - split; [exact G1|].
      destruct (amalloc_other _ _ _ _ _ E) as [E1 E2]; [discriminate|].
      split; [|split; assumption].
      unfold aligned_malloc in E. rewrite Hok in E. rewrite andb_false_r in E.
      destruct (be_malloc (w_be ost w) (w_live ost w) (n * sizeT) A) as [[q|] st']; [discriminate | reflexivity].
    - destruct (amalloc_ptr _ _ _ _ _ E) as [H1 [H2 [H3 [H4 [H5 H6]]]]].
      split; [exact G1|]. split; [exact H1|]. split; [apply H3; lia|].
      split; [nia|]. split; [exact H4|]. split; assumption.
  Qed.

  (* ----------------------------------------------------- AlignedVector *)
  Variable sizeT : Z.
  Variable vmax : Z.
  Variable grow : Z -> Z -> Z.
  Hypothesis sizeT_pos : 0 < sizeT.

  Local Notation vrealloc := (v_realloc ost be_malloc be_free ndebug sizeT).
  Local Notation vapply := (v_op ost be_malloc be_free ndebug sizeT vmax grow).
  Local Notation vsstep := (vs_step ost be_malloc be_free ndebug sizeT vmax grow).
  Local Notation vsrun := (vs_run ost be_malloc be_free ndebug sizeT vmax grow).

  Lemma assert_ok_64 : assert_ok 64 = true.
  Proof. reflexivity. Qed.

  Lemma wrap_64 : wrap 64 = 64.
  Proof. reflexivity. Qed.

  (* a reallocation leaves data() null or 64-byte aligned, keeps the heap
     well-formed, and on an exception leaves the vector as it was *)
  Lemma vrealloc_props keep w v c r w' v' :
    0 <= c -> heap_wf (w_live ost w) -> aligned64 v ->
    vrealloc keep w v c = (r, w', v') ->
    aligned64 v' /\ heap_wf (w_live ost w') /\ r <> OAbort /\
    (r <> OOk -> v' = v /\ w_mem ost w' = w_mem ost w) /\
    (r = OOk -> v_cap v' = c /\ (c = 0 <-> v_data v' = 0) /\ v_size v' = (if keep then v_size v else 0)).
  Proof.
    intros Hc Hwf Hal. unfold v_realloc.
    pose proof (allocate_cases w sizeT 64 c sizeT_pos Hc ltac:(rewrite W_val; lia) assert_ok_64) as AC.
    destruct (alloc w sizeT 64 c) as [ar w1] eqn:EA.
    assert (Hwf1 : heap_wf (w_live ost w1)).
    { destruct ar; try (destruct AC as [_ AC]; subst; exact Hwf).
      - destruct AC as [_ [_ [E _]]]. rewrite E. exact Hwf.
      - destruct AC as [_ [Hp [_ [_ [Hf [E _]]]]]]. rewrite E. simpl.
        split; [lia|]. split; [exact Hf | exact Hwf].
      - contradiction. }
    destruct ar as [| | |p|].
    - (* allocate(0) = nullptr *)
      destruct AC as [Hc0 Hw1]. subst w1.
      destruct (afree _ (v_data v)) as [w3|] eqn:F.
      + intro H. inversion H. subst. simpl.
        split; [left; reflexivity|]. split; [refine (afree_wf _ _ _ _ F); exact Hwf|].
        split; [discriminate|]. split; [intro Q; contradiction Q; reflexivity|].
        intros _. split; [reflexivity|]. split; [split; intro; reflexivity | reflexivity].
      + intro H. inversion H. subst. repeat split; try assumption; try discriminate.
        all: intro Q; discriminate Q.
    - intro H. inversion H. subst. destruct AC as [_ AC]. subst.
      repeat split; try assumption; try discriminate. all: intro Q; discriminate Q.
    - intro H. inversion H. subst. destruct AC as [_ [_ [_ E]]].
      repeat split; try assumption; try discriminate. all: intro Q; discriminate Q.
    - destruct AC as [Hcpos [Hp [Hdiv [_ [_ [El Em]]]]]].
      match goal with |- context [afree ?w2 (v_data v)] => destruct (afree w2 (v_data v)) as [w3|] eqn:F end.
      + intro H. inversion H. subst. simpl.
        split; [right; exact Hdiv|]. split; [refine (afree_wf _ _ _ _ F); exact Hwf1|].
        split; [discriminate|]. split; [intro Q; contradiction Q; reflexivity|].
        intros _. split; [reflexivity|]. split; [split; intro; lia | reflexivity].
      + intro H. inversion H. subst. repeat split; try assumption; try discriminate.
        all: intro Q; discriminate Q.
    - contradiction.
  Qed.

  (* elements survive reallocation: the vector owns a live block (or none),
     the new capacity holds the elements; afterwards data() is the new block and
     reads back exactly the old contents *)
  Lemma vrealloc_keeps w v c w' v' :
    heap_wf (w_live ost w) -> 0 <= v_size v <= c ->
    (v_data v = 0 \/ exists x, h_find (w_live ost w) (v_data v) = Some x) ->
    vrealloc true w v c = (OOk, w', v') ->
    v_contents sizeT (w_mem ost w') v' = v_contents sizeT (w_mem ost w) v.
  Proof.
    intros Hwf Hsz Hown. unfold v_realloc.
    assert (Hc : 0 <= c) by lia.
    pose proof (allocate_cases w sizeT 64 c sizeT_pos Hc ltac:(rewrite W_val; lia) assert_ok_64) as AC.
    destruct (alloc w sizeT 64 c) as [ar w1] eqn:EA.
    destruct ar as [| | |p|]; try discriminate.
    - destruct AC as [Hc0 Hw1]. subst w1.
      destruct (afree _ (v_data v)) as [w3|] eqn:F; [|discriminate].
      intro H. inversion H. subst. unfold v_contents. cbn [v_data v_size].
      assert (Hz : v_size v = 0) by lia. rewrite Hz. reflexivity.
    - destruct AC as [Hcpos [Hp [Hdiv [Hend [Hfresh [El Em]]]]]].
      match goal with |- context [afree ?w2 (v_data v)] => destruct (afree w2 (v_data v)) as [w3|] eqn:F end; [|discriminate].
      intro H. inversion H. subst. unfold v_contents. cbn [v_data v_size].
      unfold v_contents in F. rewrite Em in F. set (m := w_mem ost w) in *.
      set (xs := m_load m (v_data v) sizeT (v_size v)) in *.
      assert (Hlen : v_size v = Z.of_nat (length xs)).
      { unfold xs. rewrite m_load_length. lia. }
      unfold aligned_free in F. cbn [w_live w_mem w_be] in F.
      destruct (v_data v =? 0) eqn:E0.
      + inversion F. subst. cbn [w_mem]. apply load_store'; assumption.
      + destruct Hown as [H0|[x Hx]]; [lia|].
        pose proof (h_find_some _ _ _ Hx) as [Hxin Hxa].
        assert (Hd : disjointb {| b_addr := p; b_size := c * sizeT |} x = true).
        { unfold fresh in Hfresh. rewrite forallb_forall in Hfresh. apply Hfresh. exact Hxin. }
        rewrite El in F. simpl h_find in F. simpl h_remove in F.
        pose proof (disjointb_addr _ _ Hd) as Hne. simpl in Hne.
        destruct (p =? v_data v) eqn:Ep; [lia|].
        rewrite Hx in F.
        destruct (h_remove (w_live ost w) (v_data v)) as [l'|]; [|discriminate].
        inversion F. subst. cbn [w_mem].
        rewrite (m_load_ext p sizeT (m_store m p sizeT 0 xs)).
        * apply load_store'; assumption.
        * intros i Hi. apply mread_mdrop. intro Hx2.
          apply (disjointb_apart _ x (p + i * sizeT) (p + i * sizeT) Hd); [|exact Hx2 | reflexivity].
          unfold in_block, b_end, b_ext. simpl. nia.
  Qed.

  (* -------- invariants of one vector under every operation *)
  Definition vinv (v : vec) : Prop :=
    aligned64 v /\ 0 <= v_size v /\ (v_cap v = 0 <-> v_data v = 0).

  Definition vop_wf (o : vop) : Prop :=
    match o with
    | VResize _ n _ | VReserve _ n | VAssign _ n _ => 0 <= n
    | _ => True
    end.

  Lemma vinv_set_size v n : vinv v -> 0 <= n -> vinv (v_set_size v n).
  Proof. intros [H1 [H2 H3]] Hn. unfold vinv, aligned64, v_set_size. simpl. auto. Qed.

  Lemma vrealloc_inv keep w v c r w' v' :
    0 <= c -> heap_wf (w_live ost w) -> vinv v ->
    vrealloc keep w v c = (r, w', v') ->
    vinv v' /\ heap_wf (w_live ost w') /\ r <> OAbort /\
    (r = OOk -> v_size v' = if keep then v_size v else 0).
  Proof.
    intros Hc Hwf [I1 [I2 I3]] R.
    destruct (vrealloc_props keep w v c r w' v' Hc Hwf I1 R) as [P1 [P2 [P3 [P4 P5]]]].
    split; [|split; [exact P2 | split; [exact P3 | intro Q; apply P5; exact Q]]].
    destruct r; try (destruct P4 as [Q _]; [discriminate | subst v'; repeat split; assumption || apply I3]).
    destruct (P5 eq_refl) as [Q1 [Q2 Q3]]. split; [exact P1|]. split.
    - rewrite Q3. destruct keep; lia.
    - rewrite Q1. exact Q2.
  Qed.

  Hypothesis grow_good : grow_ok vmax grow.

  Lemma vop_inv w v o r w' v' :
    vop_wf o -> heap_wf (w_live ost w) -> vinv v ->
    vapply w v o = (r, w', v') ->
    vinv v' /\ heap_wf (w_live ost w') /\ r <> OAbort.
  Proof.
    intros Ho Hwf Iv. pose proof Iv as [I1 [I2 I3]].
    assert (Done : forall (w0 : world ost) v0, heap_wf (w_live ost w0) -> vinv v0 ->
              forall rr, rr <> OAbort -> (rr, w0, v0) = (r, w', v') ->
              vinv v' /\ heap_wf (w_live ost w') /\ r <> OAbort).
    { intros w0 v0 A B rr C E. inversion E. subst. repeat split; try apply B; assumption. }
    destruct o as [t x|t n x|t n|t|t n x|t| |t x]; cbn [v_op]; simpl in Ho.
    - destruct (v_size v <? v_cap v).
      + apply Done; [exact Hwf | apply vinv_set_size; [exact Iv | lia] | discriminate].
      + destruct (vmax - v_size v <? 1) eqn:E1; [apply Done; [exact Hwf | exact Iv | discriminate]|].
        destruct (vrealloc true w v (grow (v_size v) 1)) as [[r1 w1] v1] eqn:R.
        assert (Hc : 0 <= grow (v_size v) 1) by (pose proof (grow_good (v_size v) 1); lia).
        destruct (vrealloc_inv _ _ _ _ _ _ _ Hc Hwf Iv R) as [J1 [J2 [J3 J4]]].
        destruct r1; try (apply Done; [exact J2 | exact J1 | discriminate]); [|contradiction J3; reflexivity].
        apply Done; [exact J2 | apply vinv_set_size; [exact J1 | rewrite (J4 eq_refl); lia] | discriminate].
    - destruct (n <=? v_size v) eqn:E0; [apply Done; [exact Hwf | apply vinv_set_size; assumption | discriminate]|].
      destruct (n <=? v_cap v); [apply Done; [exact Hwf | apply vinv_set_size; assumption | discriminate]|].
      destruct (vmax - v_size v <? n - v_size v) eqn:E1; [apply Done; [exact Hwf | exact Iv | discriminate]|].
      destruct (vrealloc true w v (grow (v_size v) (n - v_size v))) as [[r1 w1] v1] eqn:R.
      assert (Hc : 0 <= grow (v_size v) (n - v_size v)) by (pose proof (grow_good (v_size v) (n - v_size v)); lia).
      destruct (vrealloc_inv _ _ _ _ _ _ _ Hc Hwf Iv R) as [J1 [J2 [J3 J4]]].
      destruct r1; try (apply Done; [exact J2 | exact J1 | discriminate]); [|contradiction J3; reflexivity].
      apply Done; [exact J2 | apply vinv_set_size; assumption | discriminate].
    - destruct (vmax <? n); [apply Done; [exact Hwf | exact Iv | discriminate]|].
      destruct (n <=? v_cap v); [apply Done; [exact Hwf | exact Iv | discriminate]|].
      destruct (vrealloc true w v n) as [[r1 w1] v1] eqn:R.
      destruct (vrealloc_inv _ _ _ _ _ _ _ Ho Hwf Iv R) as [J1 [J2 [J3 J4]]].
      intro E. inversion E. subst. repeat split; try apply J1; assumption.
    - destruct (v_cap v =? v_size v); [apply Done; [exact Hwf | exact Iv | discriminate]|].
      destruct (vrealloc true w v (v_size v)) as [[r1 w1] v1] eqn:R.
      destruct (vrealloc_inv _ _ _ _ _ _ _ I2 Hwf Iv R) as [J1 [J2 [J3 J4]]].
      destruct r1; apply Done; try exact J2; try exact J1; discriminate.
    - destruct (n <=? v_cap v); [apply Done; [exact Hwf | apply vinv_set_size; assumption | discriminate]|].
      destruct (vmax <? n); [apply Done; [exact Hwf | exact Iv | discriminate]|].
      destruct (vrealloc false w v n) as [[r1 w1] v1] eqn:R.
      destruct (vrealloc_inv _ _ _ _ _ _ _ Ho Hwf Iv R) as [J1 [J2 [J3 J4]]].
      destruct r1; try (apply Done; [exact J2 | exact J1 | discriminate]); [|contradiction J3; reflexivity].
      apply Done; [exact J2 | apply vinv_set_size; assumption | discriminate].
    - apply Done; [exact Hwf | apply vinv_set_size; [exact Iv | lia] | discriminate].
    - apply Done; [exact Hwf | exact Iv | discriminate].
    - destruct (v_size v <? v_cap v).
      + apply Done; [exact Hwf | apply vinv_set_size; [exact Iv | lia] | discriminate].
      + destruct (vmax - v_size v <? 1) eqn:E1; [apply Done; [exact Hwf | exact Iv | discriminate]|].
        destruct (vrealloc true w v (grow (v_size v) 1)) as [[r1 w1] v1] eqn:R.
        assert (Hc : 0 <= grow (v_size v) 1) by (pose proof (grow_good (v_size v) 1); lia).
        destruct (vrealloc_inv _ _ _ _ _ _ _ Hc Hwf Iv R) as [J1 [J2 [J3 J4]]].
        destruct r1; try (apply Done; [exact J2 | exact J1 | discriminate]); [|contradiction J3; reflexivity].
        apply Done; [exact J2 | apply vinv_set_size; [exact J1 | rewrite (J4 eq_refl); lia] | discriminate].
  Qed.

  (* -------- ownership: every vector owns exactly its block, nothing else is live *)
  Definition owns (live : heap) (v : vec) : Prop :=
    v_data v = 0 \/ exists x, h_find live (v_data v) = Some x.

  (* v and u: two vectors over the heap [live]; every live block is the storage of one of them
     and the two storages are different blocks *)
  Definition pair_own (live : heap) (v u : vec) : Prop :=
    owns live v /\ owns live u /\ (v_data v = 0 \/ v_data v <> v_data u) /\
    (forall blk, In blk live -> b_addr blk = v_data v \/ b_addr blk = v_data u).

  Lemma pair_own_sym live v u : pair_own live v u -> pair_own live u v.
  Proof.
    intros [A [B [C D]]]. repeat split; try assumption.
    - destruct (Z.eq_dec (v_data u) 0) as [E|E]; [left; exact E | right].
      destruct C as [C|C]; [rewrite C; exact E | intro Q; apply C; symmetry; exact Q].
    - intros blk Hb. destruct (D blk Hb); [right | left]; assumption.
  Qed.

  Lemma vrealloc_own keep w v u c r w' v' :
    0 <= c -> heap_wf (w_live ost w) -> pair_own (w_live ost w) v u ->
    vrealloc keep w v c = (r, w', v') ->
    r <> OInvalidFree /\ pair_own (w_live ost w') v' u.
  Proof.
    intros Hc Hwf [Ov [Ou [Dvu Ex]]]. unfold v_realloc.
    pose proof (allocate_cases w sizeT 64 c sizeT_pos Hc ltac:(rewrite W_val; lia) assert_ok_64) as AC.
    destruct (alloc w sizeT 64 c) as [ar w1] eqn:EA.
    (* the free of the old storage, from a world whose live list is [l1] *)
    assert (Free : forall (w2 : world ost) l1, w_live ost w2 = l1 ->
              (forall q, q <> 0 -> q = v_data v -> exists x, h_find l1 q = Some x) ->
              exists w3, afree w2 (v_data v) = Some w3 /\
                ((v_data v = 0 /\ w_live ost w3 = l1) \/
                 (v_data v <> 0 /\ h_remove l1 (v_data v) = Some (w_live ost w3)))).
    { intros w2 l1 E2 Hf. unfold aligned_free. destruct (v_data v =? 0) eqn:E0.
      - exists w2. split; [reflexivity|]. left. split; [lia | exact E2].
      - assert (N : v_data v <> 0) by lia. destruct (Hf _ N eq_refl) as [x Hx]. rewrite E2, Hx.
        destruct (h_find_remove _ _ _ Hx) as [l' Hl']. rewrite Hl'. eexists. split; [reflexivity|].
        right. split; [exact N | simpl; reflexivity]. }
    assert (OwnV : forall q, q <> 0 -> q = v_data v -> exists x, h_find (w_live ost w) q = Some x).
    { intros q Hq E. subst q. destruct Ov as [Z0|X]; [contradiction | exact X]. }
    destruct ar as [| | |p|].
    - (* nullptr: c = 0 *)
      destruct AC as [_ Hw1]. subst w1.
      match goal with |- context [afree ?w2 (v_data v)] =>
        destruct (Free w2 (w_live ost w) eq_refl OwnV) as [w3 [F FS]]; rewrite F end.
      intro H. inversion H. subst. split; [discriminate|].
      destruct FS as [[Z0 El]|[N Rm]].
      + rewrite El. repeat split.
        * left. reflexivity.
        * exact Ou.
        * left. reflexivity.
        * intros blk Hb. right. destruct (Ex blk Hb) as [Q|Q]; [|exact Q].
          exfalso. apply (heap_wf_nonzero _ _ Hwf Hb). rewrite Q. exact Z0.
      + assert (Du : v_data u <> v_data v).
        { destruct Dvu as [Q|Q]; [contradiction | intro Q2; apply Q; symmetry; exact Q2]. }
        repeat split.
        * left. reflexivity.
        * destruct Ou as [Q|[x Hx]]; [left; exact Q | right]. exists x.
          rewrite (h_find_remove_other _ _ _ _ Rm Du). exact Hx.
        * left. reflexivity.
        * intros blk Hb. right. destruct (Ex blk (h_remove_sub _ _ _ Rm blk Hb)) as [Q|Q]; [|exact Q].
          exfalso. destruct (h_find_in _ _ Hb) as [y Hy]. rewrite Q in Hy.
          rewrite (h_remove_gone _ _ _ Hwf Rm) in Hy. discriminate.
    - intro H. inversion H. subst. destruct AC as [_ AC]. subst. split; [discriminate|].
      repeat split; assumption.
    - intro H. inversion H. subst. destruct AC as [_ [_ [El _]]]. split; [discriminate|].
      rewrite El. repeat split; assumption.
    - destruct AC as [_ [Hp [_ [_ [Hfresh [El Em]]]]]].
      set (nb := {| b_addr := p; b_size := c * sizeT |}) in *.
      assert (Pne : forall x, In x (w_live ost w) -> p <> b_addr x).
      { intros x Hx. apply (fresh_addr_ne _ _ _ _ Hfresh Hx). }
      assert (PneV : v_data v <> 0 -> p <> v_data v).
      { intros N. destruct (OwnV _ N eq_refl) as [x Hx]. apply h_find_some in Hx. destruct Hx as [Hin Ha].
        rewrite <- Ha. apply Pne. exact Hin. }
      assert (PneU : p <> v_data u).
      { destruct Ou as [Q|[x Hx]]; [lia|]. apply h_find_some in Hx. destruct Hx as [Hin Ha].
        rewrite <- Ha. apply Pne. exact Hin. }
      assert (Own1 : forall q, q <> 0 -> q = v_data v -> exists x, h_find (nb :: w_live ost w) q = Some x).
      { intros q Hq E. destruct (OwnV q Hq E) as [x Hx]. simpl.
        destruct (p =? q) eqn:Ep; [eexists; reflexivity | exists x; exact Hx]. }
      match goal with |- context [afree ?w2 (v_data v)] =>
        destruct (Free w2 (nb :: w_live ost w) El Own1) as [w3 [F FS]]; rewrite F end.
      intro H. inversion H. subst. split; [discriminate|]. cbn [v_data].
      assert (OuNew : forall l, (forall q, q <> p -> q <> v_data v \/ v_data v = 0 -> h_find l q = h_find (nb :: w_live ost w) q) ->
                 owns l u).
      { intros l Hl. destruct Ou as [Q|[x Hx]]; [left; exact Q | right]. exists x.
        assert (Uq : v_data u <> v_data v \/ v_data v = 0).
        { destruct Dvu as [Q|Q]; [right; exact Q | left; intro Q2; apply Q; symmetry; exact Q2]. }
        rewrite (Hl (v_data u) (fun Q => PneU (eq_sym Q)) Uq). simpl.
        destruct (p =? v_data u) eqn:Ep; [lia | exact Hx]. }
      destruct FS as [[Z0 El3]|[N Rm]].
      + rewrite El3. repeat split.
        * right. exists nb. simpl. rewrite Z.eqb_refl. reflexivity.
        * apply OuNew. intros q _ _. reflexivity.
        * right. exact PneU.
        * intros blk [Hb|Hb]; [left; subst blk; reflexivity | right].
          destruct (Ex blk Hb) as [Q|Q]; [|exact Q].
          exfalso. apply (heap_wf_nonzero _ _ Hwf Hb). rewrite Q. exact Z0.
      + simpl in Rm. destruct (p =? v_data v) eqn:Ep; [exfalso; apply (PneV N); lia|].
        destruct (h_remove (w_live ost w) (v_data v)) as [l'|] eqn:Rm0; [|discriminate].
        inversion Rm as [Rl]. repeat split.
        * right. exists nb. simpl. rewrite Z.eqb_refl. reflexivity.
        * apply OuNew. intros q Hqp [Hqv|Hz]; [|contradiction]. simpl.
          destruct (p =? q); [reflexivity|]. apply (h_find_remove_other _ _ _ _ Rm0 Hqv).
        * right. exact PneU.
        * intros blk [Hb|Hb]; [left; subst blk; reflexivity | right].
          destruct (Ex blk (h_remove_sub _ _ _ Rm0 blk Hb)) as [Q|Q]; [|exact Q].
          exfalso. destruct (h_find_in _ _ Hb) as [y Hy]. rewrite Q in Hy.
          rewrite (h_remove_gone _ _ _ Hwf Rm0) in Hy. discriminate.
    - contradiction.
  Qed.

  (* every vector operation either leaves the heap and data() alone, or is one reallocation *)
  Lemma vop_shape w v o r w' v' :
    vop_wf o -> 0 <= v_size v ->
    vapply w v o = (r, w', v') ->
    (w_live ost w' = w_live ost w /\ v_data v' = v_data v /\ r <> OInvalidFree) \/
    (exists keep c r1 w1 v1,
        vrealloc keep w v c = (r1, w1, v1) /\ w_live ost w' = w_live ost w1 /\
        v_data v' = v_data v1 /\ (r = OInvalidFree -> r1 = OInvalidFree) /\ 0 <= c).
  Proof.
    intros Ho Hs.
    assert (L : forall (w0 : world ost) v0 rr, w_live ost w0 = w_live ost w -> v_data v0 = v_data v -> rr <> OInvalidFree ->
              (rr, w0, v0) = (r, w', v') ->
              (w_live ost w' = w_live ost w /\ v_data v' = v_data v /\ r <> OInvalidFree) \/
              (exists keep c r1 w1 v1,
                  vrealloc keep w v c = (r1, w1, v1) /\ w_live ost w' = w_live ost w1 /\
                  v_data v' = v_data v1 /\ (r = OInvalidFree -> r1 = OInvalidFree) /\ 0 <= c)).
    { intros w0 v0 rr A B C E. inversion E. subst. left. auto. }
    destruct o as [t x|t n x|t n|t|t n x|t| |t x]; cbn [v_op]; simpl in Ho.
    - destruct (v_size v <? v_cap v); [apply L; try reflexivity; discriminate|].
      destruct (vmax - v_size v <? 1) eqn:E1; [apply L; try reflexivity; discriminate|].
      destruct (vrealloc true w v (grow (v_size v) 1)) as [[r1 w1] v1] eqn:R.
      assert (Hc : 0 <= grow (v_size v) 1) by (pose proof (grow_good (v_size v) 1); lia).
      intro E. right. exists true, (grow (v_size v) 1), r1, w1, v1. split; [exact R|].
      destruct r1; inversion E; subst; simpl; repeat split; auto; try discriminate.
    - destruct (n <=? v_size v) eqn:E0; [apply L; try reflexivity; discriminate|].
      destruct (n <=? v_cap v); [apply L; try reflexivity; discriminate|].
      destruct (vmax - v_size v <? n - v_size v) eqn:E1; [apply L; try reflexivity; discriminate|].
      destruct (vrealloc true w v (grow (v_size v) (n - v_size v))) as [[r1 w1] v1] eqn:R.
      assert (Hc : 0 <= grow (v_size v) (n - v_size v)) by (pose proof (grow_good (v_size v) (n - v_size v)); lia).
      intro E. right. exists true, (grow (v_size v) (n - v_size v)), r1, w1, v1. split; [exact R|].
      destruct r1; inversion E; subst; simpl; repeat split; auto; try discriminate.
    - destruct (vmax <? n); [apply L; try reflexivity; discriminate|].
      destruct (n <=? v_cap v); [apply L; try reflexivity; discriminate|].
      destruct (vrealloc true w v n) as [[r1 w1] v1] eqn:R.
      intro E. right. exists true, n, r1, w1, v1. split; [exact R|].
      inversion E; subst; simpl; repeat split; auto.
    - destruct (v_cap v =? v_size v); [apply L; try reflexivity; discriminate|].
      destruct (vrealloc true w v (v_size v)) as [[r1 w1] v1] eqn:R.
      intro E. right. exists true, (v_size v), r1, w1, v1. split; [exact R|].
      destruct r1; inversion E; subst; simpl; repeat split; auto; try discriminate.
    - destruct (n <=? v_cap v); [apply L; try reflexivity; discriminate|].
      destruct (vmax <? n); [apply L; try reflexivity; discriminate|].
      destruct (vrealloc false w v n) as [[r1 w1] v1] eqn:R.
      intro E. right. exists false, n, r1, w1, v1. split; [exact R|].
      destruct r1; inversion E; subst; simpl; repeat split; auto; try discriminate.
    - apply L; try reflexivity; discriminate.
    - apply L; try reflexivity; discriminate.
    - destruct (v_size v <? v_cap v); [apply L; try reflexivity; discriminate|].
      destruct (vmax - v_size v <? 1) eqn:E1; [apply L; try reflexivity; discriminate|].
      destruct (vrealloc true w v (grow (v_size v) 1)) as [[r1 w1] v1] eqn:R.
      assert (Hc : 0 <= grow (v_size v) 1) by (pose proof (grow_good (v_size v) 1); lia).
      intro E. right. exists true, (grow (v_size v) 1), r1, w1, v1. split; [exact R|].
      destruct r1; inversion E; subst; simpl; repeat split; auto; try discriminate.
  Qed.

  Lemma pair_own_data live v u v' :
    v_data v' = v_data v -> pair_own live v u -> pair_own live v' u.
  Proof. unfold pair_own, owns. intros E. rewrite E. auto. Qed.

  Lemma vop_own w v u o r w' v' :
    vop_wf o -> heap_wf (w_live ost w) -> vinv v -> pair_own (w_live ost w) v u ->
    vapply w v o = (r, w', v') ->
    r <> OInvalidFree /\ pair_own (w_live ost w') v' u.
  Proof.
    intros Ho Hwf Iv P E. pose proof Iv as [_ [I2 _]].
    destruct (vop_shape _ _ _ _ _ _ Ho I2 E) as [[A [B C]]|[keep [c [r1 [w1 [v1 [R [A [B [C Hc]]]]]]]]]].
    - split; [exact C|]. rewrite A. apply (pair_own_data _ v); assumption.
    - destruct (vrealloc_own _ _ _ _ _ _ _ _ Hc Hwf P R) as [N Q].
      split; [intro X; apply N; apply C; exact X|].
      rewrite A. apply (pair_own_data _ v1); assumption.
  Qed.

  Definition sinv (s : vstate ost) : Prop :=
    heap_wf (w_live ost (s_w ost s)) /\ vinv (s_a ost s) /\ vinv (s_b ost s).

  Lemma vsstep_inv s o :
    vop_wf o -> sinv s -> sinv (snd (vsstep s o)) /\ fst (vsstep s o) <> OAbort.
  Proof.
    intros Ho [Hw [Ha Hb]]. unfold vs_step.
    destruct (vop_target o) as [[|]|].
    - destruct (vapply (s_w ost s) (s_b ost s) o) as [[r w'] v'] eqn:E.
      destruct (vop_inv _ _ _ _ _ _ Ho Hw Hb E) as [J1 [J2 J3]].
      simpl. unfold sinv. simpl. auto.
    - destruct (vapply (s_w ost s) (s_a ost s) o) as [[r w'] v'] eqn:E.
      destruct (vop_inv _ _ _ _ _ _ Ho Hw Ha E) as [J1 [J2 J3]].
      simpl. unfold sinv. simpl. auto.
    - simpl. unfold sinv. simpl. split; [auto | discriminate].
  Qed.

  Lemma vsrun_inv ops : forall s, Forall vop_wf ops -> sinv s -> sinv (vsrun s ops).
  Proof.
    induction ops as [|o ops IH]; intros s Hops Hs; simpl; [exact Hs|].
    inversion Hops; subst. apply IH; [assumption|]. apply vsstep_inv; assumption.
  Qed.

  Lemma sinv_init st : sinv (vs_init ost st).
  Proof.
    unfold sinv, vs_init, vinv, aligned64, vnull. simpl.
    repeat split; auto; lia.
  Qed.

  Definition sown (s : vstate ost) : Prop :=
    pair_own (w_live ost (s_w ost s)) (s_a ost s) (s_b ost s).

  Lemma vsstep_own s o :
    vop_wf o -> sinv s -> sown s ->
    fst (vsstep s o) <> OInvalidFree /\ sown (snd (vsstep s o)).
  Proof.
    intros Ho [Hw [Ha Hb]] P. unfold vs_step, sown in *.
    destruct (vop_target o) as [[|]|].
    - destruct (vapply (s_w ost s) (s_b ost s) o) as [[r w'] v'] eqn:E.
      destruct (vop_own _ _ (s_a ost s) _ _ _ _ Ho Hw Hb (pair_own_sym _ _ _ P) E) as [N Q].
      simpl. split; [exact N | apply pair_own_sym; exact Q].
    - destruct (vapply (s_w ost s) (s_a ost s) o) as [[r w'] v'] eqn:E.
      destruct (vop_own _ _ (s_b ost s) _ _ _ _ Ho Hw Ha P E) as [N Q].
      simpl. split; [exact N | exact Q].
    - simpl. split; [discriminate | apply pair_own_sym; exact P].
  Qed.

  Lemma vsrun_own ops : forall s, Forall vop_wf ops -> sinv s -> sown s ->
    sinv (vsrun s ops) /\ sown (vsrun s ops).
  Proof.
    induction ops as [|o ops IH]; intros s Hops Hs Ho; simpl; [split; assumption|].
    inversion Hops; subst. apply IH; [assumption | apply vsstep_inv; assumption | apply vsstep_own; assumption].
  Qed.

  Lemma sown_init st : sown (vs_init ost st).
  Proof.
    unfold sown, pair_own, owns, vs_init, vnull. simpl.
    repeat split; auto. intros blk [].
  Qed.
End WithBackend.

(* after any history of operations on two AlignedVectors, starting from two empty
   vectors: the heap is well-formed, and each vector's data() is null exactly
   when its capacity is 0 and otherwise a non-null multiple of 64 *)
Lemma vector_history ost be_malloc be_free ndebug sizeT vmax grow st ops :
  be_contract be_malloc -> 0 < sizeT -> grow_ok vmax grow -> Forall vop_wf ops ->
  let s := vs_run ost be_malloc be_free ndebug sizeT vmax grow (vs_init ost st) ops in
  heap_wf (w_live ost (s_w ost s)) /\
  (forall v, v = s_a ost s \/ v = s_b ost s ->
     0 <= v_size v /\ (v_cap v = 0 -> v_data v = 0) /\
     (v_cap v <> 0 -> v_data v <> 0 /\ (64 | v_data v))).
Proof.
  intros Hc Hs Hg Hops s.
  assert (I : sinv ost s).
  { unfold s. eapply vsrun_inv; try eassumption; try apply sinv_init; try exact be_free; try exact 0; try exact (fun _ _ => 0). }
  destruct I as [I1 [I2 I3]].
  split; [exact I1|].
  intros v [E|E]; subst v.
  - destruct I2 as [A [B C]]. unfold aligned64 in A. split; [exact B|]. split; [tauto|].
    intro N. split; [tauto|]. destruct A as [A|A]; [tauto | exact A].
  - destruct I3 as [A [B C]]. unfold aligned64 in A. split; [exact B|]. split; [tauto|].
    intro N. split; [tauto|]. destruct A as [A|A]; [tauto | exact A].
Qed.

(* no step of such a history trips the assert in alignedMalloc *)
Lemma vector_step_no_abort ost be_malloc be_free ndebug sizeT vmax grow s o :
  be_contract be_malloc -> 0 < sizeT -> grow_ok vmax grow -> vop_wf o -> sinv ost s ->
  fst (vs_step ost be_malloc be_free ndebug sizeT vmax grow s o) <> OAbort /\
  sinv ost (snd (vs_step ost be_malloc be_free ndebug sizeT vmax grow s o)).
Proof.
  intros Hc Hs Hg Ho Hi.
  assert (I : sinv ost (snd (vs_step ost be_malloc be_free ndebug sizeT vmax grow s o)) /\
              fst (vs_step ost be_malloc be_free ndebug sizeT vmax grow s o) <> OAbort).
  { eapply vsstep_inv; try eassumption; try exact be_free; try exact 0; try exact (fun _ _ => 0). }
  destruct I as [A B]. split; assumption.
Qed.

(* ---- statements in the form used by Properties.v (section parameters that a
   lemma does not use are dropped) *)
Lemma allocate_outcomes_stmt ost (be_malloc : ost -> heap -> Z -> Z -> option Z * ost) ndebug w sizeT A n :
  be_contract be_malloc ->
  0 < sizeT -> 0 <= n -> 0 < A < W -> assert_ok A = true ->
  match allocate ost be_malloc ndebug w sizeT A n with
  | (ANull, w') => n = 0 /\ w' = w
  | (ALengthError, w') => max_size sizeT < n /\ w' = w
  | (ABadAlloc, w') =>
      0 < n <= max_size sizeT /\
      fst (be_malloc (w_be ost w) (w_live ost w) (n * sizeT) A) = None /\
      w_live ost w' = w_live ost w /\ w_mem ost w' = w_mem ost w
  | (APtr p, w') =>
      0 < n <= max_size sizeT /\ 0 < p /\ (A | p) /\ p + n * sizeT <= W /\
      fresh (w_live ost w) p (n * sizeT) = true /\
      w_live ost w' = {| b_addr := p; b_size := n * sizeT |} :: w_live ost w /\
      w_mem ost w' = w_mem ost w
  | (AAbort, _) => False
  end.
Proof.
  intros Hc. apply (allocate_cases ost be_malloc (fun s _ => s) ndebug Hc).
Qed.

Lemma vrealloc_keeps_stmt ost be_malloc be_free ndebug sizeT w v c w' v' :
  be_contract be_malloc -> 0 < sizeT ->
  heap_wf (w_live ost w) -> 0 <= v_size v <= c ->
  (v_data v = 0 \/ exists x, h_find (w_live ost w) (v_data v) = Some x) ->
  v_realloc ost be_malloc be_free ndebug sizeT true w v c = (OOk, w', v') ->
  v_contents sizeT (w_mem ost w') v' = v_contents sizeT (w_mem ost w) v /\
  v_size v' = v_size v /\ v_cap v' = c /\ aligned64 v'.
Proof.
  intros Hc Hs Hwf Hsz Hown R. split.
  - eapply (vrealloc_keeps ost be_malloc be_free ndebug Hc sizeT 0 (fun _ _ => 0)); eauto.
  - assert (Hc0 : 0 <= c) by lia.
    assert (Hal : aligned64 {| v_data := 0; v_size := 0; v_cap := 0 |}) by (left; reflexivity).
    unfold v_realloc in R.
    pose proof (allocate_outcomes_stmt ost be_malloc ndebug w sizeT 64 c Hc Hs Hc0 ltac:(rewrite W_val; lia) eq_refl) as AC.
    destruct (allocate ost be_malloc ndebug w sizeT 64 c) as [ar w1]. destruct ar; try discriminate.
    + match type of R with context [aligned_free ost be_free ?w2 ?p] => destruct (aligned_free ost be_free w2 p) end; [|discriminate].
      inversion R. subst. simpl. destruct AC as [E _]. repeat split; try reflexivity; try lia. left. reflexivity.
    + match type of R with context [aligned_free ost be_free ?w2 ?q] => destruct (aligned_free ost be_free w2 q) end; [|discriminate].
      inversion R. subst. simpl. destruct AC as [_ [_ [D _]]]. repeat split; try reflexivity. right. exact D.
Qed.

(* ---- ownership over every history (statements as used by Properties.v) *)
Lemma vector_ownership ost be_malloc be_free ndebug sizeT vmax grow st ops :
  be_contract be_malloc -> 0 < sizeT -> grow_ok vmax grow -> Forall vop_wf ops ->
  let s := vs_run ost be_malloc be_free ndebug sizeT vmax grow (vs_init ost st) ops in
  let live := w_live ost (s_w ost s) in
  let a := s_a ost s in let b := s_b ost s in
  (v_data a = 0 \/ exists x, h_find live (v_data a) = Some x) /\
  (v_data b = 0 \/ exists x, h_find live (v_data b) = Some x) /\
  (v_data a = 0 \/ v_data a <> v_data b) /\
  (forall blk, In blk live -> b_addr blk = v_data a \/ b_addr blk = v_data b) /\
  (forall o, vop_wf o ->
     fst (vs_step ost be_malloc be_free ndebug sizeT vmax grow s o) <> OInvalidFree).
Proof.
  intros Hc Hs Hg Hops s live a b.
  assert (I : sinv ost s /\ sown ost s).
  { unfold s. eapply vsrun_own; try eassumption; try apply sinv_init; try apply sown_init;
      try exact be_free; try exact 0; try exact (fun _ _ => 0). }
  destruct I as [I1 I2]. pose proof I2 as [A [B [C D]]].
  split; [exact A|]. split; [exact B|]. split; [exact C|]. split; [exact D|].
  intros o Ho.
  assert (Q : fst (vs_step ost be_malloc be_free ndebug sizeT vmax grow s o) <> OInvalidFree /\
              sown ost (snd (vs_step ost be_malloc be_free ndebug sizeT vmax grow s o))).
  { eapply vsstep_own; try eassumption. }
  exact (proj1 Q).
Qed.

(* elements survive reallocation, for every reachable state and either vector: no ownership premise *)
Lemma vrealloc_keeps_reachable ost be_malloc be_free ndebug sizeT vmax grow st ops v c w' v' :
  be_contract be_malloc -> 0 < sizeT -> grow_ok vmax grow -> Forall vop_wf ops ->
  let s := vs_run ost be_malloc be_free ndebug sizeT vmax grow (vs_init ost st) ops in
  v = s_a ost s \/ v = s_b ost s -> v_size v <= c ->
  v_realloc ost be_malloc be_free ndebug sizeT true (s_w ost s) v c = (OOk, w', v') ->
  v_contents sizeT (w_mem ost w') v' = v_contents sizeT (w_mem ost (s_w ost s)) v /\
  v_size v' = v_size v /\ v_cap v' = c /\ aligned64 v'.
Proof.
  intros Hc Hs Hg Hops s Hv Hsz R.
  destruct (vector_history ost be_malloc be_free ndebug sizeT vmax grow st ops Hc Hs Hg Hops) as [Hwf Hv2].
  destruct (vector_ownership ost be_malloc be_free ndebug sizeT vmax grow st ops Hc Hs Hg Hops) as [A [B _]].
  fold s in Hwf, Hv2, A, B. destruct (Hv2 v Hv) as [S0 _].
  apply (vrealloc_keeps_stmt ost be_malloc be_free ndebug sizeT (s_w ost s) v c w' v' Hc Hs Hwf); try assumption.
  - lia.
  - destruct Hv as [E|E]; subst v; assumption.
Qed.
