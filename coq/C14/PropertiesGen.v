(* C14 - Tie A obligations.  gen/GenAlloc.v is regenerated from the repository's working tree on
   every run (tools/cxx2coq + tools/c14gen over tools/cxx2coq/inst/alloc.cpp).  Each theorem says
   that a generated definition, read as machine arithmetic (CxxSem.MZ: every operation wrapped to
   its C type, size_t = U64), is extensionally equal to the hand-written Model.v function that the
   theorems of Properties.v are about.  A source change that alters the arithmetic breaks one of them.
   Each is closed by [exact] of a lemma of ProofsGen.v. *)
From Common Require Import Prelude.
From Common Require CxxSem.
From C14 Require Import Model GenSem ProofsGen.
From C14.gen Require GenAlloc.
Import CxxSem(MZ).
Local Open Scope Z_scope.

(* #define ALIGN_PTR(ptr, alignment), size_t alignment operand *)
Theorem gen_ALIGN_PTR_size_t : forall p a,
  0 <= p < W -> 0 <= a < W -> GenAlloc.c14inst_align_ptr_ul__ul_ul MZ p a = align_ptr p a.
Proof. exact gen_align_ptr_ul. Qed.
Print Assumptions gen_ALIGN_PTR_size_t.

(* ... int alignment operand (sign-extended by (ssize_t)alignment) *)
Theorem gen_ALIGN_PTR_int : forall p a,
  0 <= p < W -> - 2 ^ 31 <= a < 2 ^ 31 -> GenAlloc.c14inst_align_ptr_i__ul_i MZ p a = align_ptr p a.
Proof. exact gen_align_ptr_int. Qed.
Print Assumptions gen_ALIGN_PTR_int.

(* memory::isAligned(ptr, alignment): the returned expression, the pointer read as its address *)
Theorem gen_isAligned_expr : forall p a,
  0 <= p < W -> - 2 ^ 31 <= a < 2 ^ 31 -> a <> 0 ->
  is_aligned p a = Some (GenAlloc.memory_isAligned__p_i_expr MZ p a).
Proof. exact gen_isAligned. Qed.
Print Assumptions gen_isAligned_expr.

Theorem gen_isAligned_default_alignment : GenAlloc.memory_isAligned__p_i_default_alignment MZ = 64.
Proof. exact gen_isAligned_default. Qed.
Print Assumptions gen_isAligned_default_alignment.

(* aligned_allocator<unsigned char,64> (sizeof(T) = 1): max_size() *)
Theorem gen_max_size_sizeof_1 : GenAlloc.aligned_allocator64_max_size__ MZ tt = max_size 1.
Proof. exact gen_max_size_1. Qed.
Print Assumptions gen_max_size_sizeof_1.

(* ... the statements of allocate(n) up to the allocator's answer decide exactly what
   Model.allocate_guard decides: nullptr for n = 0, length_error for n > max_size() without a call,
   otherwise ONE call alignedMalloc(n * sizeof(T) mod 2^64, 64), null -> bad_alloc, else the pointer *)
Theorem gen_allocate_sizeof_1 : forall n,
  0 <= n < W ->
  run (GenAlloc.aligned_allocator64_allocate__ul_body MZ tt n) = of_guard (allocate_guard 1 n).
Proof. exact gen_allocate_1. Qed.
Print Assumptions gen_allocate_sizeof_1.

(* aligned_allocator<short,64> (sizeof(T) = 2): max_size() *)
Theorem gen_max_size_sizeof_2 : GenAlloc.aligned_allocator64_max_size___2 MZ tt = max_size 2.
Proof. exact gen_max_size_2. Qed.
Print Assumptions gen_max_size_sizeof_2.

(* ... the statements of allocate(n) up to the allocator's answer decide exactly what
   Model.allocate_guard decides: nullptr for n = 0, length_error for n > max_size() without a call,
   otherwise ONE call alignedMalloc(n * sizeof(T) mod 2^64, 64), null -> bad_alloc, else the pointer *)
Theorem gen_allocate_sizeof_2 : forall n,
  0 <= n < W ->
  run (GenAlloc.aligned_allocator64_allocate__ul_2_body MZ tt n) = of_guard (allocate_guard 2 n).
Proof. exact gen_allocate_2. Qed.
Print Assumptions gen_allocate_sizeof_2.

(* aligned_allocator<float,64> (sizeof(T) = 4): max_size() *)
Theorem gen_max_size_sizeof_4 : GenAlloc.aligned_allocator64_max_size___3 MZ tt = max_size 4.
Proof. exact gen_max_size_4. Qed.
Print Assumptions gen_max_size_sizeof_4.

(* ... the statements of allocate(n) up to the allocator's answer decide exactly what
   Model.allocate_guard decides: nullptr for n = 0, length_error for n > max_size() without a call,
   otherwise ONE call alignedMalloc(n * sizeof(T) mod 2^64, 64), null -> bad_alloc, else the pointer *)
Theorem gen_allocate_sizeof_4 : forall n,
  0 <= n < W ->
  run (GenAlloc.aligned_allocator64_allocate__ul_3_body MZ tt n) = of_guard (allocate_guard 4 n).
Proof. exact gen_allocate_4. Qed.
Print Assumptions gen_allocate_sizeof_4.

(* aligned_allocator<double,64> (sizeof(T) = 8): max_size() *)
Theorem gen_max_size_sizeof_8 : GenAlloc.aligned_allocator64_max_size___4 MZ tt = max_size 8.
Proof. exact gen_max_size_8. Qed.
Print Assumptions gen_max_size_sizeof_8.

(* ... the statements of allocate(n) up to the allocator's answer decide exactly what
   Model.allocate_guard decides: nullptr for n = 0, length_error for n > max_size() without a call,
   otherwise ONE call alignedMalloc(n * sizeof(T) mod 2^64, 64), null -> bad_alloc, else the pointer *)
Theorem gen_allocate_sizeof_8 : forall n,
  0 <= n < W ->
  run (GenAlloc.aligned_allocator64_allocate__ul_4_body MZ tt n) = of_guard (allocate_guard 8 n).
Proof. exact gen_allocate_8. Qed.
Print Assumptions gen_allocate_sizeof_8.

(* the typed overload alignedMalloc<T>(nElements, align) hands exactly (nElements*sizeof(T) mod 2^64, align)
   to the untyped alignedMalloc: the model's aligned_malloc_typed is the generated request *)
Theorem gen_typed_alignedMalloc_sizeof_4 : forall ost be ndebug (w : world ost) n a,
  aligned_malloc_typed ost be ndebug w 4 n a =
  aligned_malloc ost be ndebug w (fst (GenAlloc.memory_alignedMalloc__ul_ul_request MZ n a))
                                 (snd (GenAlloc.memory_alignedMalloc__ul_ul_request MZ n a)).
Proof. exact gen_typed_model_4. Qed.
Print Assumptions gen_typed_alignedMalloc_sizeof_4.

Theorem gen_typed_alignedMalloc_sizeof_8 : forall ost be ndebug (w : world ost) n a,
  aligned_malloc_typed ost be ndebug w 8 n a =
  aligned_malloc ost be ndebug w (fst (GenAlloc.memory_alignedMalloc__ul_ul_2_request MZ n a))
                                 (snd (GenAlloc.memory_alignedMalloc__ul_ul_2_request MZ n a)).
Proof. exact gen_typed_model_8. Qed.
Print Assumptions gen_typed_alignedMalloc_sizeof_8.

Theorem gen_typed_request_forwards_alignment : forall n a,
  GenAlloc.memory_alignedMalloc__ul_ul_request MZ n a = (wrap (n * 4), a) /\
  GenAlloc.memory_alignedMalloc__ul_ul_2_request MZ n a = (wrap (n * 8), a).
Proof. exact (fun n a => conj (gen_typed_request_4 n a) (gen_typed_request_8 n a)). Qed.
Print Assumptions gen_typed_request_forwards_alignment.

(* aligned_allocator::construct is placement copy construction from its second parameter and nothing else;
   destroy is the in-place destructor call and nothing else (the element events of Model.v) *)
Theorem gen_construct_is_placement_copy :
  GenAlloc.aligned_allocator64_construct__p_uc_shape = [CPlacementCopy] /\
  GenAlloc.aligned_allocator64_construct__p_s_shape = [CPlacementCopy] /\
  GenAlloc.aligned_allocator64_construct__p_f_shape = [CPlacementCopy] /\
  GenAlloc.aligned_allocator64_construct__p_d_shape = [CPlacementCopy] /\
  GenAlloc.containers_aligned_allocator64_construct__p_Obj_shape = [CPlacementCopy].
Proof. exact gen_construct_shapes. Qed.
Print Assumptions gen_construct_is_placement_copy.

Theorem gen_destroy_is_destructor_call :
  GenAlloc.aligned_allocator64_destroy__p_shape = [CDestroyInPlace] /\
  GenAlloc.aligned_allocator64_destroy__p_2_shape = [CDestroyInPlace] /\
  GenAlloc.aligned_allocator64_destroy__p_3_shape = [CDestroyInPlace] /\
  GenAlloc.aligned_allocator64_destroy__p_4_shape = [CDestroyInPlace] /\
  GenAlloc.containers_aligned_allocator64_destroy__p_shape = [CDestroyInPlace].
Proof. exact gen_destroy_shapes. Qed.
Print Assumptions gen_destroy_is_destructor_call.

(* non-vacuity: the generated body at the boundary *)
Example gen_allocate_boundary :
  run (GenAlloc.aligned_allocator64_allocate__ul_4_body MZ tt 0) = RNull /\
  run (GenAlloc.aligned_allocator64_allocate__ul_4_body MZ tt 2305843009213693951) =
    RRequest (18446744073709551608 : CxxSem.S MZ) (64 : CxxSem.S MZ) EBadAlloc /\
  run (GenAlloc.aligned_allocator64_allocate__ul_4_body MZ tt 2305843009213693952) = RThrow ELengthError.
Proof. repeat split; reflexivity. Qed.
