(* C14 - element lifetimes: construct / destroy events. *)
From Common Require Import Prelude.
From Coq Require FinFun.
From C14 Require Import Model Proofs ProofsHeap.
Local Open Scope Z_scope.

Lemma mem_z_in a l : mem_z a l = true <-> In a l.
Proof.
  unfold mem_z. rewrite existsb_exists. split.
  - intros [x [Hx E]]. apply Z.eqb_eq in E. subst. exact Hx.
  - intro H. exists a. split; [exact H | apply Z.eqb_refl].
Qed.

Lemma mem_z_false a l : mem_z a l = false <-> ~ In a l.
Proof.
  rewrite <- mem_z_in. destruct (mem_z a l); split; intro H.
  - discriminate.
  - exfalso. apply H. reflexivity.
  - intro Q. discriminate.
  - reflexivity.
Qed.

Lemma in_remove_z x a l : In x (remove_z a l) <-> In x l /\ x <> a.
Proof.
  unfold remove_z. rewrite filter_In. split; intros [H1 H2]; split; try exact H1.
  - destruct (x =? a) eqn:E; [discriminate | lia].
  - destruct (x =? a) eqn:E; [lia | reflexivity].
Qed.

Lemma ev_run_app es1 : forall es2 L,
  ev_run L (es1 ++ es2) = match ev_run L es1 with Some M => ev_run M es2 | None => None end.
Proof.
  induction es1 as [|e es1 IH]; intros es2 L; simpl; [reflexivity|].
  destruct (ev_step L e); [apply IH | reflexivity].
Qed.

(* constructing a duplicate-free list of slots none of which is alive: all succeed *)
Lemma cons_run C : forall L,
  NoDup C -> (forall c, In c C -> ~ In c L) ->
  exists M, ev_run L (map ECons C) = Some M /\ (forall x, In x M <-> In x C \/ In x L).
Proof.
  induction C as [|c C IH]; intros L Hnd Hfree; simpl.
  - exists L. split; [reflexivity|]. intro x. tauto.
  - inversion Hnd as [|? ? Hc HC]; subst.
    assert (E : mem_z c L = false) by (apply mem_z_false; apply Hfree; left; reflexivity).
    rewrite E.
    destruct (IH (c :: L) HC) as [M [HM HI]].
    { intros c' Hc' [Q|Q]; [subst; contradiction | apply (Hfree c'); [right; exact Hc' | exact Q]]. }
    exists M. split; [exact HM|]. intro x. rewrite HI. simpl. tauto.
Qed.

(* destroying a duplicate-free list of slots all of which are alive: all succeed *)
Lemma dest_run O : forall L,
  NoDup O -> (forall o, In o O -> In o L) ->
  exists M, ev_run L (map EDest O) = Some M /\ (forall x, In x M <-> In x L /\ ~ In x O).
Proof.
  induction O as [|o O IH]; intros L Hnd Hin; simpl.
  - exists L. split; [reflexivity|]. intro x. tauto.
  - inversion Hnd as [|? ? Ho HO]; subst.
    assert (E : mem_z o L = true) by (apply mem_z_in; apply Hin; left; reflexivity).
    rewrite E.
    destruct (IH (remove_z o L) HO) as [M [HM HI]].
    { intros o' Ho'. apply in_remove_z. split; [apply Hin; right; exact Ho' | intro Q; subst; contradiction]. }
    exists M. split; [exact HM|]. intro x. rewrite HI, in_remove_z. simpl. split.
    + intros [[A B] C]. split; [exact A|]. intros [Q|Q]; [apply B; symmetry; exact Q | contradiction].
    + intros [A B]. split; [split; [exact A | intro Q; apply B; left; symmetry; exact Q] | intro Q; apply B; right; exact Q].
Qed.

(* ---- slots *)
Lemma in_slots x base sizeT lo hi :
  In x (slots base sizeT lo hi) <-> exists i, lo <= i < hi /\ x = base + i * sizeT.
Proof.
  unfold slots. rewrite in_map_iff. split.
  - intros [k [E Hk]]. apply in_seq in Hk. exists (lo + Z.of_nat k). split; [lia | symmetry; exact E].
  - intros [i [Hi E]]. exists (Z.to_nat (i - lo)). split.
    + subst x. f_equal. f_equal. lia.
    + apply in_seq. lia.
Qed.

Lemma slots_nodup base sizeT lo hi : 0 < sizeT -> NoDup (slots base sizeT lo hi).
Proof.
  intro Hs. unfold slots. apply FinFun.Injective_map_NoDup; [|apply seq_NoDup].
  intros a b E. nia.
Qed.

(* elements that lie inside two disjoint blocks have different addresses *)
Lemma slots_of_disjoint_blocks x y sizeT n m :
  0 < sizeT -> disjointb x y = true ->
  n * sizeT <= b_size x -> m * sizeT <= b_size y ->
  forall a, In a (slots (b_addr x) sizeT 0 n) -> ~ In a (slots (b_addr y) sizeT 0 m).
Proof.
  intros Hs Hd Hn Hm a Ha Hb. apply in_slots in Ha. apply in_slots in Hb.
  destruct Ha as [i [Hi Ei]]. destruct Hb as [j [Hj Ej]].
  apply (disjointb_apart x y a a Hd); [| |reflexivity].
  - unfold in_block, b_end, b_ext. nia.
  - unfold in_block, b_end, b_ext. nia.
Qed.

(* ---- reallocation = copy-construct every element in the new block, then destroy every old one:
   every event is legal, afterwards exactly the new slots (and the untouched rest) are alive *)
Lemma realloc_events sizeT old new n L :
  0 < sizeT ->
  (forall a, In a (slots new sizeT 0 n) -> ~ In a L) ->
  (forall a, In a (slots old sizeT 0 n) -> In a L) ->
  exists M,
    ev_run L (map ECons (slots new sizeT 0 n) ++ map EDest (slots old sizeT 0 n)) = Some M /\
    (forall x, In x M <-> In x (slots new sizeT 0 n) \/ (In x L /\ ~ In x (slots old sizeT 0 n))).
Proof.
  intros Hs Hnew Hold. rewrite ev_run_app.
  destruct (cons_run (slots new sizeT 0 n) L (slots_nodup _ _ _ _ Hs) Hnew) as [M1 [R1 I1]].
  rewrite R1.
  destruct (dest_run (slots old sizeT 0 n) M1 (slots_nodup _ _ _ _ Hs)) as [M2 [R2 I2]].
  { intros o Ho. apply I1. right. apply Hold. exact Ho. }
  exists M2. split; [exact R2|]. intro x. rewrite I2, I1. split.
  - intros [[A|A] B]; [left; exact A | right; split; assumption].
  - intros [A|[A B]].
    + split; [left; exact A|]. intro Q. apply (Hnew x A). apply Hold. exact Q.
    + split; [right; exact A | exact B].
Qed.

(* ---- a defined run is balanced: per address, constructions and destructions differ exactly by
   the change of aliveness; from nothing alive to nothing alive, constructed = destroyed *)
Lemma mem_z_remove a x L : mem_z a (remove_z x L) = mem_z a L && negb (a =? x).
Proof.
  destruct (mem_z a (remove_z x L)) eqn:E1.
  - apply mem_z_in in E1. apply in_remove_z in E1. destruct E1 as [A B].
    apply mem_z_in in A. rewrite A. destruct (a =? x) eqn:E; [lia | reflexivity].
  - apply mem_z_false in E1. destruct (mem_z a L) eqn:E2; [|reflexivity].
    destruct (a =? x) eqn:E; [reflexivity|]. exfalso. apply E1. apply in_remove_z.
    split; [apply mem_z_in; exact E2 | lia].
Qed.

Lemma ev_run_balance es : forall L M a,
  ev_run L es = Some M ->
  (count_cons a es + b2n (mem_z a L) = count_dest a es + b2n (mem_z a M))%nat.
Proof.
  induction es as [|e es IH]; intros L M a; simpl.
  - intro H. inversion H. reflexivity.
  - assert (Cons : forall x, (if mem_z x L then None else Some (x :: L)) = ev_step L (ECons x)) by reflexivity.
    destruct e as [x|x|x]; simpl.
    + destruct (mem_z x L) eqn:E; [discriminate|]. intro H. specialize (IH _ _ a H).
      unfold mem_z in IH at 1. simpl in IH. fold (mem_z a L) in IH.
      rewrite (Z.eqb_sym a x) in IH.
      destruct (x =? a) eqn:Ex; simpl in *.
      * apply Z.eqb_eq in Ex. subst a. rewrite E. simpl. lia.
      * lia.
    + destruct (mem_z x L) eqn:E; [|discriminate]. intro H. specialize (IH _ _ a H).
      rewrite mem_z_remove in IH. rewrite (Z.eqb_sym a x) in IH.
      destruct (x =? a) eqn:Ex; simpl in *.
      * apply Z.eqb_eq in Ex. subst a. rewrite E. rewrite andb_false_r in IH. simpl in *. lia.
      * rewrite andb_true_r in IH. lia.
    + destruct (mem_z x L) eqn:E; [discriminate|]. intro H. specialize (IH _ _ a H).
      unfold mem_z in IH at 1. simpl in IH. fold (mem_z a L) in IH.
      rewrite (Z.eqb_sym a x) in IH.
      destruct (x =? a) eqn:Ex; simpl in *.
      * apply Z.eqb_eq in Ex. subst a. rewrite E. simpl. lia.
      * lia.
Qed.

Lemma ev_run_constructed_eq_destroyed es a :
  ev_run [] es = Some [] -> count_cons a es = count_dest a es.
Proof. intro H. pose proof (ev_run_balance es [] [] a H) as B. simpl in B. lia. Qed.

(* at most one construction between two destructions: an address alive cannot be constructed again *)
Lemma ev_no_double_construct L a es :
  In a L -> ev_run L (ECons a :: es) = None.
Proof. intro H. simpl. apply mem_z_in in H. rewrite H. reflexivity. Qed.

Lemma ev_no_double_destroy L a es :
  ~ In a L -> ev_run L (EDest a :: es) = None.
Proof. intro H. simpl. apply mem_z_false in H. rewrite H. reflexivity. Qed.

(* construction from constructor arguments obeys the same rule as copy construction *)
Lemma ev_no_double_construct_args L a es :
  In a L -> ev_run L (EArgs a :: es) = None.
Proof. intro H. simpl. apply mem_z_in in H. rewrite H. reflexivity. Qed.
