(* C14 - aligned allocation.  Property theorems only: each is closed by [exact]
   of a lemma from Proofs.v / ProofsHeap.v / ProofsBump.v and followed by
   Print Assumptions.  The external allocator (scalable_aligned_malloc /
   _mm_malloc and the matching free) is the variable [be_malloc]/[be_free]; its
   contract [be_contract] is an explicit premise.  W = 2^64. *)
From Common Require Import Prelude.
From C14 Require Import Model Proofs ProofsHeap ProofsBump ProofsLife.
Local Open Scope Z_scope.

(* ---- aligned_allocator<T,A>::allocate: the overflow guard *)

(* n <= max_size(): the product handed to the allocator is the true size *)
Theorem allocate_no_overflow : forall sizeT n,
  0 < sizeT -> 0 <= n <= max_size sizeT ->
  n * sizeT < W /\ wrap (n * sizeT) = n * sizeT.
Proof. exact no_overflow. Qed.
Print Assumptions allocate_no_overflow.

(* the guard is tight: every n > max_size() would overflow *)
Theorem allocate_guard_tight : forall sizeT n,
  0 < sizeT -> max_size sizeT < n -> W <= n * sizeT.
Proof. exact overflow_beyond. Qed.
Print Assumptions allocate_guard_tight.

(* n > max_size(): length_error, decided before any multiplication and before
   the back end is consulted (the world is returned unchanged) *)
Theorem allocate_length_error_first :
  forall ost (be_malloc : ost -> heap -> Z -> Z -> option Z * ost) ndebug
         (w : world ost) sizeT A n,
  0 < sizeT -> max_size sizeT < n ->
  allocate ost be_malloc ndebug w sizeT A n = (ALengthError, w).
Proof. exact allocate_length_error. Qed.
Print Assumptions allocate_length_error_first.

(* exactly one of: nullptr (n = 0) / length_error / bad_alloc (the back end
   returned null for the request n*sizeof(T), A) / a pointer p with A | p, a new
   live block of extent n*sizeof(T) disjoint from every live block.  Never the
   assert.  (A = 64 for AlignedVector.) *)
Theorem allocate_outcomes :
  forall ost (be_malloc : ost -> heap -> Z -> Z -> option Z * ost) ndebug
         (w : world ost) sizeT A n,
  be_contract be_malloc ->
  0 < sizeT -> 0 <= n -> 0 < A < W -> assert_ok A = true ->
  match allocate ost be_malloc ndebug w sizeT A n with
  | (ANull, w') => n = 0 /\ w' = w
  | (ALengthError, w') => max_size sizeT < n /\ w' = w
  | (ABadAlloc, w') =>
      0 < n <= max_size sizeT /\
      fst (be_malloc (w_be ost w) (w_live ost w) (n * sizeT) A) = None /\
      w_live ost w' = w_live ost w /\ w_mem ost w' = w_mem ost w
  | (APtr p, w') =>
      0 < n <= max_size sizeT /\ 0 < p /\ (A | p) /\ p + n * sizeT <= W /\
      fresh (w_live ost w) p (n * sizeT) = true /\
      w_live ost w' = {| b_addr := p; b_size := n * sizeT |} :: w_live ost w /\
      w_mem ost w' = w_mem ost w
  | (AAbort, _) => False
  end.
Proof. exact allocate_outcomes_stmt. Qed.
Print Assumptions allocate_outcomes.

(* ---- malloc.h: ALIGN_PTR, isAligned, the assert in alignedMalloc *)

(* for a = 2^k and no wrap: the least multiple of a that is >= p *)
Theorem align_ptr_spec : forall p k,
  0 <= k < 64 -> 0 <= p -> p + 2 ^ k - 1 < W ->
  let a := 2 ^ k in
  let r := align_ptr p a in
  (a | r) /\ p <= r < p + a /\ (forall m, (a | m) -> p <= m -> r <= m).
Proof. exact align_ptr_nowrap. Qed.
Print Assumptions align_ptr_spec.

(* with wrap the macro yields 0, a pointer below p: the excluded case is real *)
Theorem align_ptr_wrap : forall p k,
  0 <= k < 64 -> 0 <= p < W -> W <= p + 2 ^ k - 1 -> align_ptr p (2 ^ k) = 0.
Proof. exact align_ptr_wraps. Qed.
Print Assumptions align_ptr_wrap.

Theorem isAligned_spec : forall p a,
  0 < a < W -> 0 <= p ->
  exists b, is_aligned p a = Some b /\ (b = true <-> (a | p)).
Proof. exact is_aligned_pos. Qed.
Print Assumptions isAligned_spec.

(* the int parameter: a negative alignment is converted to size_t first *)
Theorem isAligned_negative_int : forall p a,
  - W < a < 0 -> 0 <= p -> is_aligned p a = Some (p mod (W + a) =? 0).
Proof. exact is_aligned_neg. Qed.
Print Assumptions isAligned_negative_int.

Theorem assert_accepts_powers_of_two : forall k, 0 <= k < 64 -> assert_ok (2 ^ k) = true.
Proof. exact assert_ok_pow2. Qed.
Print Assumptions assert_accepts_powers_of_two.

(* ---- alignedMalloc / alignedFree *)

(* a returned pointer is non-null, a multiple of the alignment, usable for the
   full size inside the address space, disjoint from every live block; it
   becomes a live block and no memory cell changes *)
Theorem alignedMalloc_spec :
  forall ost (be_malloc : ost -> heap -> Z -> Z -> option Z * ost) ndebug,
  be_contract be_malloc ->
  forall (w : world ost) size align p w',
  aligned_malloc ost be_malloc ndebug w size align = (AMPtr p, w') ->
  0 < p /\ p + Z.max 1 size <= W /\ (0 < align -> (align | p)) /\
  fresh (w_live ost w) p size = true /\
  w_live ost w' = {| b_addr := p; b_size := size |} :: w_live ost w /\
  w_mem ost w' = w_mem ost w.
Proof. exact amalloc_ptr. Qed.
Print Assumptions alignedMalloc_spec.

(* heap integrity by induction over ANY history of alignedMalloc / alignedFree /
   stores: the live blocks stay non-null and pairwise disjoint.  h_run = Some
   means every free in the history named a live block (see the next theorems) *)
Theorem heap_integrity_history :
  forall ost (be_malloc : ost -> heap -> Z -> Z -> option Z * ost) be_free ndebug,
  be_contract be_malloc ->
  forall ops (w w' : world ost),
  heap_wf (w_live ost w) ->
  h_run ost be_malloc be_free ndebug w ops = Some w' -> heap_wf (w_live ost w').
Proof. exact hrun_wf. Qed.
Print Assumptions heap_integrity_history.

(* freed exactly once: after alignedFree(p) a second alignedFree(p) is not a
   valid step; nor is the free of a pointer that is not live *)
Theorem free_exactly_once :
  forall ost (be_free : ost -> Z -> ost) (w : world ost) p w',
  heap_wf (w_live ost w) -> p <> 0 ->
  aligned_free ost be_free w p = Some w' -> aligned_free ost be_free w' p = None.
Proof. exact afree_twice. Qed.
Print Assumptions free_exactly_once.

Theorem free_of_dead_pointer_rejected :
  forall ost (be_free : ost -> Z -> ost) (w : world ost) p,
  p <> 0 -> h_find (w_live ost w) p = None -> aligned_free ost be_free w p = None.
Proof. exact afree_not_live. Qed.
Print Assumptions free_of_dead_pointer_rejected.

(* no step (malloc, free, store) changes a cell of a block that stays live,
   except a store into that very block: other allocations are not corrupted *)
Theorem other_blocks_intact :
  forall ost (be_malloc : ost -> heap -> Z -> Z -> option Z * ost) be_free ndebug,
  be_contract be_malloc ->
  forall (w : world ost) o r w' b a,
  heap_wf (w_live ost w) ->
  h_step ost be_malloc be_free ndebug w o = Some (r, w') ->
  In b (w_live ost w) -> In b (w_live ost w') -> in_block b a ->
  (forall p off v, o = HWrite p off v -> p <> b_addr b) ->
  mread (w_mem ost w') a = mread (w_mem ost w) a.
Proof. exact hstep_integrity. Qed.
Print Assumptions other_blocks_intact.

(* ---- AlignedVector<T> = std::vector<T, aligned_allocator<T>>: growth as
   allocate / copy / deallocate *)

(* one reallocation step, from any world in which the vector owns a live block (or none) *)
Theorem vector_reallocation_step :
  forall ost be_malloc be_free ndebug sizeT (w : world ost) v c w' v',
  be_contract be_malloc -> 0 < sizeT ->
  heap_wf (w_live ost w) -> 0 <= v_size v <= c ->
  (v_data v = 0 \/ exists x, h_find (w_live ost w) (v_data v) = Some x) ->
  v_realloc ost be_malloc be_free ndebug sizeT true w v c = (OOk, w', v') ->
  v_contents sizeT (w_mem ost w') v' = v_contents sizeT (w_mem ost w) v /\
  v_size v' = v_size v /\ v_cap v' = c /\ aligned64 v'.
Proof. exact vrealloc_keeps_stmt. Qed.
Print Assumptions vector_reallocation_step.

(* ownership, by induction over ANY history on two vectors: each vector's data() is null or the
   address of a live block; the two are different blocks; every live block is the storage of one of
   them (nothing leaks, nothing else aliases a vector's storage); and no operation ever passes a
   pointer to alignedFree that is not live (outcome invalid_free is unreachable) *)
Theorem vector_ownership_every_history :
  forall ost be_malloc be_free ndebug sizeT vmax grow (st : ost) ops,
  be_contract be_malloc -> 0 < sizeT -> grow_ok vmax grow -> Forall vop_wf ops ->
  let s := vs_run ost be_malloc be_free ndebug sizeT vmax grow (vs_init ost st) ops in
  let live := w_live ost (s_w ost s) in
  let a := s_a ost s in let b := s_b ost s in
  (v_data a = 0 \/ exists x, h_find live (v_data a) = Some x) /\
  (v_data b = 0 \/ exists x, h_find live (v_data b) = Some x) /\
  (v_data a = 0 \/ v_data a <> v_data b) /\
  (forall blk, In blk live -> b_addr blk = v_data a \/ b_addr blk = v_data b) /\
  (forall o, vop_wf o ->
     fst (vs_step ost be_malloc be_free ndebug sizeT vmax grow s o) <> OInvalidFree).
Proof. exact vector_ownership. Qed.
Print Assumptions vector_ownership_every_history.

(* elements survive reallocation - full strength: in EVERY reachable state, for either vector and
   any new capacity that holds its elements, the reallocated vector reads back the same elements
   from a 64-byte aligned (capacity 0: null) data() *)
Theorem vector_elements_survive_reallocation :
  forall ost be_malloc be_free ndebug sizeT vmax grow (st : ost) ops v c w' v',
  be_contract be_malloc -> 0 < sizeT -> grow_ok vmax grow -> Forall vop_wf ops ->
  let s := vs_run ost be_malloc be_free ndebug sizeT vmax grow (vs_init ost st) ops in
  v = s_a ost s \/ v = s_b ost s -> v_size v <= c ->
  v_realloc ost be_malloc be_free ndebug sizeT true (s_w ost s) v c = (OOk, w', v') ->
  v_contents sizeT (w_mem ost w') v' = v_contents sizeT (w_mem ost (s_w ost s)) v /\
  v_size v' = v_size v /\ v_cap v' = c /\ aligned64 v'.
Proof. exact vrealloc_keeps_reachable. Qed.
Print Assumptions vector_elements_survive_reallocation.

(* after ANY history of push_back/resize/reserve/shrink_to_fit/assign/clear/swap
   on two vectors (arguments non-negative, as size_t is): the heap is
   well-formed, data() is null exactly when capacity() is 0 and otherwise a
   non-null multiple of 64 *)
Theorem vector_data_aligned_after_every_history :
  forall ost be_malloc be_free ndebug sizeT vmax grow (st : ost) ops,
  be_contract be_malloc -> 0 < sizeT -> grow_ok vmax grow -> Forall vop_wf ops ->
  let s := vs_run ost be_malloc be_free ndebug sizeT vmax grow (vs_init ost st) ops in
  heap_wf (w_live ost (s_w ost s)) /\
  (forall v, v = s_a ost s \/ v = s_b ost s ->
     0 <= v_size v /\ (v_cap v = 0 -> v_data v = 0) /\
     (v_cap v <> 0 -> v_data v <> 0 /\ (64 | v_data v))).
Proof. exact vector_history. Qed.
Print Assumptions vector_data_aligned_after_every_history.

(* the invariant is inductive, and no vector operation trips the assert *)
Theorem vector_step_preserves_invariant :
  forall ost be_malloc be_free ndebug sizeT vmax grow (s : vstate ost) o,
  be_contract be_malloc -> 0 < sizeT -> grow_ok vmax grow -> vop_wf o -> sinv ost s ->
  fst (vs_step ost be_malloc be_free ndebug sizeT vmax grow s o) <> OAbort /\
  sinv ost (snd (vs_step ost be_malloc be_free ndebug sizeT vmax grow s o)).
Proof. exact vector_step_no_abort. Qed.
Print Assumptions vector_step_preserves_invariant.

(* ---- element lifetimes: construct(p, t) = copy construction at p, destroy(p) = destructor at p
   (that the source does exactly this is the regenerated obligation gen_construct_is_placement_copy /
   gen_destroy_is_destructor_call).  ev_run is defined only while every slot is constructed when not
   alive and destroyed when alive, so "ev_run ... = Some _" says: constructed exactly once per slot
   before each destruction, destroyed exactly once. *)

(* a second construction of a live slot, or the destruction of a slot that is not alive, is not a run *)
Theorem element_constructed_once : forall L a es, In a L -> ev_run L (ECons a :: es) = None.
Proof. exact ev_no_double_construct. Qed.
Print Assumptions element_constructed_once.

(* emplace_back(args...) constructs from constructor arguments (direct-initialisation): a distinct
   event with the same rule - only in a slot that is not alive.  That the element so constructed is
   T(args...) is the harness oracle (a std::vector twin with the default allocator) *)
Theorem element_constructed_from_arguments_once : forall L a es, In a L -> ev_run L (EArgs a :: es) = None.
Proof. exact ev_no_double_construct_args. Qed.
Print Assumptions element_constructed_from_arguments_once.

Theorem element_destroyed_once : forall L a es, ~ In a L -> ev_run L (EDest a :: es) = None.
Proof. exact ev_no_double_destroy. Qed.
Print Assumptions element_destroyed_once.

(* per address, constructions and destructions of a run differ exactly by the change of aliveness *)
Theorem element_events_balanced : forall es L M a,
  ev_run L es = Some M ->
  (count_cons a es + b2n (mem_z a L) = count_dest a es + b2n (mem_z a M))%nat.
Proof. exact ev_run_balance. Qed.
Print Assumptions element_events_balanced.

(* from no element alive to no element alive: every address constructed as often as destroyed *)
Theorem constructed_equals_destroyed : forall es a,
  ev_run [] es = Some [] -> count_cons a es = count_dest a es.
Proof. exact ev_run_constructed_eq_destroyed. Qed.
Print Assumptions constructed_equals_destroyed.

(* reallocation = copy-construct every element in the new block, then destroy every old element:
   if the new slots are not alive and the old ones are, every event is legal and afterwards exactly
   the new slots are alive in place of the old ones *)
Theorem reallocation_constructs_then_destroys : forall sizeT old new n L,
  0 < sizeT ->
  (forall a, In a (slots new sizeT 0 n) -> ~ In a L) ->
  (forall a, In a (slots old sizeT 0 n) -> In a L) ->
  exists M,
    ev_run L (map ECons (slots new sizeT 0 n) ++ map EDest (slots old sizeT 0 n)) = Some M /\
    (forall x, In x M <-> In x (slots new sizeT 0 n) \/ (In x L /\ ~ In x (slots old sizeT 0 n))).
Proof. exact realloc_events. Qed.
Print Assumptions reallocation_constructs_then_destroys.

(* the premise "new slots are not alive": elements lying inside two disjoint blocks (fresh, by the
   allocator contract) never share an address *)
Theorem elements_of_disjoint_blocks_distinct : forall x y sizeT n m,
  0 < sizeT -> disjointb x y = true ->
  n * sizeT <= b_size x -> m * sizeT <= b_size y ->
  forall a, In a (slots (b_addr x) sizeT 0 n) -> ~ In a (slots (b_addr y) sizeT 0 m).
Proof. exact slots_of_disjoint_blocks. Qed.
Print Assumptions elements_of_disjoint_blocks_distinct.

(* ---- the hypotheses are satisfiable: the bump allocator that plays the back
   end in the differential run meets the contract; libstdc++'s growth policy
   meets grow_ok *)
Theorem contract_satisfiable : be_contract bump_malloc.
Proof. exact bump_contract. Qed.
Print Assumptions contract_satisfiable.

Theorem gnu_growth_policy_ok : forall sizeT, grow_ok (gnu_vmax sizeT) (gnu_grow sizeT).
Proof. exact gnu_grow_ok. Qed.
Print Assumptions gnu_growth_policy_ok.

(* ---- non-vacuity *)

(* sizeof(T) = 12: the last admissible n, the first rejected one, and what the
   unguarded product would have been (a 8-byte request for > 2^60 elements) *)
Example guard_boundary_12 :
  max_size 12 = 1537228672809129301 /\
  allocate_guard 12 1537228672809129301 = GRequest 18446744073709551612 /\
  allocate_guard 12 1537228672809129302 = GLengthError /\
  wrap (1537228672809129302 * 12) = 8 /\
  allocate_guard 12 0 = GNull.
Proof. vm_compute. repeat split; reflexivity. Qed.

Example align_ptr_examples :
  align_ptr 4097 4096 = 8192 /\ align_ptr 4096 4096 = 4096 /\ align_ptr 0 64 = 0 /\
  align_ptr 1 1 = 1 /\ align_ptr (W - 64) 64 = W - 64 /\ align_ptr (W - 63) 64 = 0.
Proof. vm_compute. repeat split; reflexivity. Qed.

Example is_aligned_examples :
  is_aligned 128 64 = Some true /\ is_aligned 96 64 = Some false /\
  is_aligned 0 64 = Some true /\ is_aligned 130 65 = Some true /\
  is_aligned 5 0 = None /\ is_aligned (W - 1) (-1) = Some true.
Proof. vm_compute. repeat split; reflexivity. Qed.

(* all five outcomes of allocate occur (scripted back end; alignment 48 trips
   the assert, which the theorem excludes by assert_ok A = true) *)
Example allocate_outcomes_occur :
  let w0 st := {| w_be := st; w_live := []; w_mem := [] |} in
  fst (allocate _ scripted_malloc false (w0 (Some 640)) 12 64 0) = ANull /\
  fst (allocate _ scripted_malloc false (w0 (Some 640)) 12 64 1537228672809129302) = ALengthError /\
  fst (allocate _ scripted_malloc false (w0 None) 12 64 5) = ABadAlloc /\
  fst (allocate _ scripted_malloc false (w0 (Some 640)) 12 64 5) = APtr 640 /\
  fst (allocate _ scripted_malloc false (w0 (Some 640)) 12 48 5) = AAbort.
Proof. vm_compute. repeat split; reflexivity. Qed.

(* a malloc/free history over the bump back end: interleaved frees, a double
   free and the free of a never-returned pointer are rejected *)
Example heap_history_example :
  let w0 := {| w_be := {| bs_cur := BASE; bs_fail := -1 |}; w_live := []; w_mem := [] |} in
  let run := h_run _ bump_malloc bump_free false w0 in
  option_map (fun w => map b_addr (w_live _ w))
    (run [HMalloc 100 64; HMalloc 1 4096; HWrite 4294967360 99 7; HFree 4294967360; HMalloc 0 1])
    = Some [4294971393; 4294971392] /\
  run [HMalloc 100 64; HFree 4294967360; HFree 4294967360] = None /\
  run [HMalloc 100 64; HFree 4294967424] = None /\
  run [HMalloc 100 64; HWrite 4294967360 100 7] = None.
Proof. vm_compute. repeat split; reflexivity. Qed.

(* a vector history with four reallocations (capacity 1,2,4,8), a swap, a
   shrink and an assign: contents are those of the list model, data() moves and
   stays a multiple of 64 *)
Example vector_history_example :
  let run := vs_run _ bump_malloc bump_free false 12 (gnu_vmax 12) (gnu_grow 12)
                    (vs_init _ {| bs_cur := BASE; bs_fail := -1 |}) in
  let s := run [VPush false 1; VPush false 2; VPush false 3; VPush false 4; VPush false 5;
                VSwap; VShrink true; VAssign false 3 9] in
  v_contents 12 (w_mem _ (s_w _ s)) (s_b _ s) = [1; 2; 3; 4; 5] /\
  v_contents 12 (w_mem _ (s_w _ s)) (s_a _ s) = [9; 9; 9] /\
  v_cap (s_b _ s) = 5 /\ v_data (s_b _ s) mod 64 = 0 /\ v_data (s_a _ s) mod 64 = 0 /\
  v_data (s_a _ s) <> v_data (s_b _ s) /\ length (w_live _ (s_w _ s)) = 2%nat.
Proof. vm_compute. repeat split; try reflexivity. discriminate. Qed.

(* the event trace of a vector history (four reallocations, swap, shrink, assign with reallocation):
   every event is legal; afterwards exactly size(a)+size(b) elements are alive, and destroying the
   two vectors leaves none: constructed = destroyed *)
Example lifetime_history_example :
  let step := fun s o => snd (vs_step _ bump_malloc bump_free false 32 (gnu_vmax 32) (gnu_grow 32) s o) in
  let s0 := vs_init _ {| bs_cur := BASE; bs_fail := -1 |} in
  let ops := [VPush false 1; VPush false 2; VPush false 3; VPush false 4; VPush false 5;
              VSwap; VPush false 9; VEmplaceBack false 1101; VEmplaceBack true 1102; VShrink true; VAssign false 3 9;
              VResize true 2 0; VClear false] in
  let s := vs_run _ bump_malloc bump_free false 32 (gnu_vmax 32) (gnu_grow 32) s0 ops in
  let es := vs_events step (s_a _) (s_b _) 32 s0 ops in
  let bye := map EDest (slots (v_data (s_a _ s)) 32 0 (v_size (s_a _ s))) ++
             map EDest (slots (v_data (s_b _ s)) 32 0 (v_size (s_b _ s))) in
  option_map (@length Z) (ev_run [] es) = Some 2%nat /\
  ev_run [] (es ++ bye) = Some [] /\
  length es = 48%nat.
Proof. vm_compute. repeat split; reflexivity. Qed.
