From Common Require Import Prelude.
From C14 Require Import Model Proofs.
Local Open Scope Z_scope.

Theorem tmp_guard : forall sizeT n, 0 < sizeT -> max_size sizeT < n -> allocate_guard sizeT n = GLengthError.
Proof. exact guard_length_error. Qed.
Print Assumptions tmp_guard.
