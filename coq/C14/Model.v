(* C14 - executable model of rkcommon/memory/malloc.{h,cpp},
   containers/aligned_allocator.h and AlignedVector.h (hand-written, Tie B).

   Machine arithmetic is size_t arithmetic written out: every C++ operation on
   size_t is followed by [wrap] (mod 2^64).  The external allocator
   (scalable_aligned_malloc / _mm_malloc and the matching free) is NOT modelled:
   it is a Section variable (an oracle with hidden state) and the theorems take
   its contract as a Section hypothesis.  std::vector's growth policy is external
   too (Section variables [vmax], [grow]); the libstdc++ instance used for the
   differential run is [gnu_vmax]/[gnu_grow] at the end of the file.

   Addresses, sizes and element values are Z.  Address 0 is the null pointer. *)
From Common Require Import Prelude.
Local Open Scope Z_scope.

Definition W : Z := 2 ^ 64.
Definition wrap (x : Z) : Z := x mod W.

(* ------------------------------------------------------------- malloc.h *)
(* #define ALIGN_PTR(ptr, alignment)
     ((((size_t)ptr) + alignment - 1) & ((size_t) - (ssize_t)alignment))
   [a] is the value of the alignment operand (size_t or a sign-extended int). *)
Definition align_ptr (p a : Z) : Z :=
  Z.land (wrap (wrap (p + a) - 1)) (wrap (- a)).

(* inline bool isAligned(void *ptr, int alignment = 64)
     { return reinterpret_cast<size_t>(ptr) % alignment == 0; }
   the int operand is converted to size_t; a zero divisor is undefined (None). *)
Definition is_aligned (p a : Z) : option bool :=
  let m := wrap a in
  if m =? 0 then None else Some (p mod m =? 0).

(* assert((align & (align - 1)) == 0);   in alignedMalloc *)
Definition assert_ok (align : Z) : bool :=
  Z.land align (wrap (align - 1)) =? 0.

(* ------------------------------------------------- live blocks and memory *)
Record block := { b_addr : Z; b_size : Z }.
Definition heap := list block.

(* a block occupies at least one address (allocators hand out distinct
   pointers also for size 0) *)
Definition b_ext (b : block) : Z := Z.max 1 (b_size b).
Definition b_end (b : block) : Z := b_addr b + b_ext b.

Definition disjointb (x y : block) : bool :=
  (b_end x <=? b_addr y) || (b_end y <=? b_addr x).

Definition fresh (live : heap) (p s : Z) : bool :=
  forallb (disjointb {| b_addr := p; b_size := s |}) live.

(* remove the live block that starts at p; None: p is not a live block *)
Fixpoint h_remove (live : heap) (p : Z) : option heap :=
  match live with
  | [] => None
  | b :: t => if b_addr b =? p then Some t
              else match h_remove t p with
                   | Some t' => Some (b :: t')
                   | None => None
                   end
  end.

Fixpoint h_find (live : heap) (p : Z) : option block :=
  match live with
  | [] => None
  | b :: t => if b_addr b =? p then Some b else h_find t p
  end.

(* flat memory: association list address -> value, newest write first.
   Values are whole elements stored at the address of their first byte. *)
Definition mem := list (Z * Z).

Fixpoint mread (m : mem) (a : Z) : Z :=
  match m with
  | [] => 0
  | (k, v) :: t => if k =? a then v else mread t a
  end.

Definition mwrite (m : mem) (a v : Z) : mem := (a, v) :: m.

(* forget the cells of a released range (their contents are indeterminate;
   no theorem reads them) *)
Definition mdrop (m : mem) (lo hi : Z) : mem :=
  filter (fun kv => negb ((lo <=? fst kv) && (fst kv <? hi))) m.

(* store the list l at consecutive slots i, i+1, ... of the array at base *)
Fixpoint m_store (m : mem) (base sizeT i : Z) (l : list Z) : mem :=
  match l with
  | [] => m
  | x :: l' => m_store (mwrite m (base + i * sizeT) x) base sizeT (i + 1) l'
  end.

Definition m_load (m : mem) (base sizeT : Z) (n : Z) : list Z :=
  map (fun i => mread m (base + Z.of_nat i * sizeT)) (seq 0 (Z.to_nat n)).

(* -------------------------------------------------------------- outcomes *)
Inductive am_result := AMAbort | AMNull | AMPtr (p : Z).
Inductive alloc_result := ANull | ALengthError | ABadAlloc | APtr (p : Z) | AAbort.
Inductive outcome := OOk | OLengthError | OBadAlloc | OAbort | OInvalidFree.

(* aligned_allocator<T,A>::max_size():
     (static_cast<size_t>(0) - static_cast<size_t>(1)) / sizeof(T) *)
Definition max_size (sizeT : Z) : Z := wrap (0 - 1) / sizeT.

(* the decision taken by allocate() before anything is multiplied *)
Inductive guard := GNull | GLengthError | GRequest (bytes : Z).
Definition allocate_guard (sizeT n : Z) : guard :=
  if n =? 0 then GNull
  else if max_size sizeT <? n then GLengthError
  else GRequest (wrap (n * sizeT)).

Record vec := { v_data : Z; v_size : Z; v_cap : Z }.
Definition vnull : vec := {| v_data := 0; v_size := 0; v_cap := 0 |}.

Inductive vop :=
| VPush (t : bool) (x : Z)          (* push_back(x)          *)
| VResize (t : bool) (n x : Z)      (* resize(n, x)          *)
| VReserve (t : bool) (n : Z)       (* reserve(n)            *)
| VShrink (t : bool)                (* shrink_to_fit()       *)
| VAssign (t : bool) (n x : Z)      (* assign(n, x)          *)
| VClear (t : bool)                 (* clear()               *)
| VSwap                             (* a.swap(b)             *)
| VEmplaceBack (t : bool) (x : Z).  (* emplace_back(args...): x is the value T(args...) *)

Inductive hop :=
| HMalloc (size align : Z)          (* alignedMalloc(size, align)            *)
| HFree (p : Z)                     (* alignedFree(p), p = 0 is nullptr      *)
| HWrite (p off v : Z).             (* ((byte* )p)[off] = v, inside a block  *)

Section Backend.
  (* the external allocator: hidden state, a request sees the live blocks *)
  Variable ost : Type.
  Variable be_malloc : ost -> heap -> Z -> Z -> option Z * ost.
  Variable be_free : ost -> Z -> ost.
  Variable ndebug : bool.             (* NDEBUG: assert compiled out *)

  Record world := { w_be : ost; w_live : heap; w_mem : mem }.

  (* void *alignedMalloc(size_t size, size_t align) *)
  Definition aligned_malloc (w : world) (size align : Z) : am_result * world :=
    if negb ndebug && negb (assert_ok align) then (AMAbort, w)
    else
      match be_malloc (w_be w) (w_live w) size align with
      | (None, st') =>
          (AMNull, {| w_be := st'; w_live := w_live w; w_mem := w_mem w |})
      | (Some p, st') =>
          (AMPtr p, {| w_be := st';
                       w_live := {| b_addr := p; b_size := size |} :: w_live w;
                       w_mem := w_mem w |})
      end.

  (* template <typename T> T *alignedMalloc(size_t nElements, size_t align = 64)
       { return (T * )alignedMalloc(nElements * sizeof(T), align); }
     the typed overload: no overflow guard, the product wraps *)
  Definition aligned_malloc_typed (w : world) (sizeT nElements align : Z) : am_result * world :=
    aligned_malloc w (wrap (nElements * sizeT)) align.

  (* void alignedFree(void *ptr): forwards; the back ends ignore nullptr.
     None = ptr is not a live block (undefined behaviour in C++). *)
  Definition aligned_free (w : world) (p : Z) : option world :=
    if p =? 0 then Some w
    else
      match h_find (w_live w) p, h_remove (w_live w) p with
      | Some b, Some live' =>
          Some {| w_be := be_free (w_be w) p; w_live := live';
                  w_mem := mdrop (w_mem w) (b_addr b) (b_end b) |}
      | _, _ => None
      end.

  (* T *aligned_allocator<T,A>::allocate(const size_t n) const *)
  Definition allocate (w : world) (sizeT A n : Z) : alloc_result * world :=
    match allocate_guard sizeT n with
    | GNull => (ANull, w)
    | GLengthError => (ALengthError, w)
    | GRequest bytes =>
        match aligned_malloc w bytes (wrap A) with
        | (AMAbort, w') => (AAbort, w')
        | (AMNull, w') => (ABadAlloc, w')
        | (AMPtr p, w') => (APtr p, w')
        end
    end.

  (* ---- raw histories of alignedMalloc / alignedFree / stores into a block *)
  Definition h_step (w : world) (o : hop) : option (am_result * world) :=
    match o with
    | HMalloc size align => Some (aligned_malloc w size align)
    | HFree p => match aligned_free w p with
                 | Some w' => Some (AMNull, w')
                 | None => None
                 end
    | HWrite p off v =>
        match h_find (w_live w) p with
        | Some b => if (0 <=? off) && (off <? b_size b)
                    then Some (AMNull, {| w_be := w_be w; w_live := w_live w;
                                          w_mem := mwrite (w_mem w) (p + off) v |})
                    else None
        | None => None
        end
    end.

  Fixpoint h_run (w : world) (ops : list hop) : option world :=
    match ops with
    | [] => Some w
    | o :: ops' => match h_step w o with
                   | Some (_, w') => h_run w' ops'
                   | None => None
                   end
    end.

  (* ---- AlignedVector<T> = std::vector<T, aligned_allocator<T>> *)
  Variable sizeT : Z.                 (* sizeof(T) *)
  Variable vmax : Z.                  (* std::vector::max_size() *)
  Variable grow : Z -> Z -> Z.        (* new capacity for size, extra (_M_check_len) *)

  Definition v_contents (m : mem) (v : vec) : list Z :=
    m_load m (v_data v) sizeT (v_size v).

  (* allocate c elements, copy (keep) the elements over, release the old
     storage; exceptions leave the vector as it was *)
  Definition v_realloc (keep : bool) (w : world) (v : vec) (c : Z)
    : outcome * world * vec :=
    match allocate w sizeT 64 c with
    | (ALengthError, w1) => (OLengthError, w1, v)
    | (ABadAlloc, w1) => (OBadAlloc, w1, v)
    | (AAbort, w1) => (OAbort, w1, v)
    | (r, w1) =>
        let p := match r with APtr p => p | _ => 0 end in
        let xs := if keep then v_contents (w_mem w1) v else [] in
        let w2 := {| w_be := w_be w1; w_live := w_live w1;
                     w_mem := m_store (w_mem w1) p sizeT 0 xs |} in
        match aligned_free w2 (v_data v) with
        | Some w3 => (OOk, w3, {| v_data := p;
                                  v_size := if keep then v_size v else 0;
                                  v_cap := c |})
        | None => (OInvalidFree, w1, v)
        end
    end.

  Definition v_store (w : world) (v : vec) (i : Z) (l : list Z) : world :=
    {| w_be := w_be w; w_live := w_live w;
       w_mem := m_store (w_mem w) (v_data v) sizeT i l |}.

  Definition v_set_size (v : vec) (n : Z) : vec :=
    {| v_data := v_data v; v_size := n; v_cap := v_cap v |}.

  Definition zrepeat (x : Z) (n : Z) : list Z := repeat x (Z.to_nat n).

  Definition v_op (w : world) (v : vec) (o : vop) : outcome * world * vec :=
    match o with
    | VPush _ x | VEmplaceBack _ x =>
        if v_size v <? v_cap v
        then (OOk, v_store w v (v_size v) [x], v_set_size v (v_size v + 1))
        else if vmax - v_size v <? 1 then (OLengthError, w, v)
        else match v_realloc true w v (grow (v_size v) 1) with
             | (OOk, w1, v1) =>
                 (OOk, v_store w1 v1 (v_size v1) [x], v_set_size v1 (v_size v1 + 1))
             | r => r
             end
    | VResize _ n x =>
        if n <=? v_size v then (OOk, w, v_set_size v n)
        else if n <=? v_cap v
        then (OOk, v_store w v (v_size v) (zrepeat x (n - v_size v)), v_set_size v n)
        else if vmax - v_size v <? n - v_size v then (OLengthError, w, v)
        else match v_realloc true w v (grow (v_size v) (n - v_size v)) with
             | (OOk, w1, v1) =>
                 (OOk, v_store w1 v1 (v_size v1) (zrepeat x (n - v_size v1)), v_set_size v1 n)
             | r => r
             end
    | VReserve _ n =>
        if vmax <? n then (OLengthError, w, v)
        else if n <=? v_cap v then (OOk, w, v)
        else v_realloc true w v n
    | VShrink _ =>
        if v_cap v =? v_size v then (OOk, w, v)
        else match v_realloc true w v (v_size v) with
             | (OOk, w1, v1) => (OOk, w1, v1)
             | (OInvalidFree, w1, v1) => (OInvalidFree, w1, v1)
             | (_, w1, v1) => (OOk, w1, v1)    (* catch (...) { return false; } *)
             end
    | VAssign _ n x =>
        if n <=? v_cap v
        then (OOk, v_store w v 0 (zrepeat x n), v_set_size v n)
        else if vmax <? n then (OLengthError, w, v)
        else match v_realloc false w v n with
             | (OOk, w1, v1) => (OOk, v_store w1 v1 0 (zrepeat x n), v_set_size v1 n)
             | r => r
             end
    | VClear _ => (OOk, w, v_set_size v 0)
    | VSwap => (OOk, w, v)
    end.

  Record vstate := { s_w : world; s_a : vec; s_b : vec }.

  Definition vop_target (o : vop) : option bool :=
    match o with
    | VPush t _ | VResize t _ _ | VReserve t _ | VShrink t | VAssign t _ _ | VClear t | VEmplaceBack t _ => Some t
    | VSwap => None
    end.

  Definition vs_step (s : vstate) (o : vop) : outcome * vstate :=
    match vop_target o with
    | None => (OOk, {| s_w := s_w s; s_a := s_b s; s_b := s_a s |})
    | Some false =>
        match v_op (s_w s) (s_a s) o with
        | (r, w', v') => (r, {| s_w := w'; s_a := v'; s_b := s_b s |})
        end
    | Some true =>
        match v_op (s_w s) (s_b s) o with
        | (r, w', v') => (r, {| s_w := w'; s_a := s_a s; s_b := v' |})
        end
    end.

  Fixpoint vs_run (s : vstate) (ops : list vop) : vstate :=
    match ops with
    | [] => s
    | o :: ops' => vs_run (snd (vs_step s o)) ops'
    end.

  Definition vs_init (st : ost) : vstate :=
    {| s_w := {| w_be := st; w_live := []; w_mem := [] |}; s_a := vnull; s_b := vnull |}.
End Backend.

(* ------------------------------------------ the plain list model of a vector *)
Definition l_op (l : list Z) (o : vop) : list Z :=
  match o with
  | VPush _ x | VEmplaceBack _ x => l ++ [x]
  | VResize _ n x =>
      if n <=? Z.of_nat (length l) then firstn (Z.to_nat n) l
      else l ++ repeat x (Z.to_nat (n - Z.of_nat (length l)))
  | VReserve _ _ | VShrink _ | VSwap => l
  | VAssign _ n x => repeat x (Z.to_nat n)
  | VClear _ => []
  end.

(* ------------- instances used by the differential run (no theorem needs them
   except the non-vacuity examples) *)

(* a scripted back end: answers every request with [ans] *)
Definition scripted_malloc (ans : option Z) (_ : heap) (_ _ : Z) : option Z * option Z :=
  (ans, ans).
Definition scripted_free (st : option Z) (_ : Z) : option Z := st.

(* a bump allocator over the arena [BASE, BASE + ARENA): never reuses memory,
   returns the least address >= cursor that is a multiple of align but not of
   2*align, fails for align = 0 / not a power of two, and fails the request
   number [bs_fail] (counted from 0; negative: never) *)
Definition BASE : Z := 2 ^ 32.
Definition ARENA : Z := 2 ^ 28.
Record bump_st := { bs_cur : Z; bs_fail : Z }.

Definition heap_top (live : heap) : Z :=
  fold_right (fun b acc => Z.max (b_end b) acc) BASE live.

Definition bump_place (lo a : Z) : Z :=
  let r := (lo - a) mod (2 * a) in
  if r =? 0 then lo else lo + (2 * a - r).

Definition bump_malloc (st : bump_st) (live : heap) (size align : Z) : option Z * bump_st :=
  let st' := {| bs_cur := bs_cur st; bs_fail := bs_fail st - 1 |} in
  if bs_fail st =? 0 then (None, st')
  else if (align <=? 0) || negb (assert_ok align) || (2 ^ 20 <? align) then (None, st')
  else
    let p := bump_place (Z.max (bs_cur st) (heap_top live)) align in
    if BASE + ARENA <? p + Z.max 1 size then (None, st')
    else (Some p, {| bs_cur := p + Z.max 1 size; bs_fail := bs_fail st - 1 |}).

Definition bump_free (st : bump_st) (_ : Z) : bump_st := st.

(* libstdc++ (GCC 12) std::vector: max_size() and _M_check_len *)
Definition gnu_vmax (sizeT : Z) : Z := Z.min ((2 ^ 63 - 1) / sizeT) (max_size sizeT).
Definition gnu_grow (sizeT : Z) (size extra : Z) : Z :=
  let len := size + Z.max size extra in
  if gnu_vmax sizeT <? len then gnu_vmax sizeT else len.

(* ------------------------------------------------ specification vocabulary
   (used by the statements in Properties.v; nothing below is executed) *)

(* contract of the external allocator (scalable_aligned_malloc / _mm_malloc):
   a returned block is non-null, lies inside the address space, is a multiple
   of the requested alignment and overlaps no live block.  It is a hypothesis of
   the theorems, measured on the real back ends by the differential run. *)
Definition be_contract {ost : Type}
    (be_malloc : ost -> heap -> Z -> Z -> option Z * ost) : Prop :=
  forall st live size align p st',
    be_malloc st live size align = (Some p, st') ->
    0 < p /\ p + Z.max 1 size <= W /\ (0 < align -> (align | p)) /\
    fresh live p size = true.

(* heap integrity: live blocks are non-null and pairwise disjoint *)
Fixpoint heap_wf (live : heap) : Prop :=
  match live with
  | [] => True
  | b :: t => b_addr b <> 0 /\ forallb (disjointb b) t = true /\ heap_wf t
  end.

Definition in_block (b : block) (a : Z) : Prop := b_addr b <= a < b_end b.

(* data() of a vector: null or a multiple of 64 *)
Definition aligned64 (v : vec) : Prop := v_data v = 0 \/ (64 | v_data v).

(* the growth policy of std::vector never returns less than what is needed *)
Definition grow_ok (vmax : Z) (grow : Z -> Z -> Z) : Prop :=
  forall s e, 0 <= s -> 0 < e -> s + e <= vmax -> s + e <= grow s e.

(* ------------------------------------------------ element lifetimes (events)
   aligned_allocator::construct(p, t) is placement copy construction at p and
   destroy(p) the destructor call at p (tools/c14gen checks exactly that shape,
   PropertiesGen.v).  A run of events is defined only while every slot is
   constructed when it is not alive and destroyed when it is alive. *)
(* ECons: copy construction from an existing element (allocator construct(p, t));
   EArgs: construction from constructor arguments, direct-initialisation T(args...) (emplace_back:
   std::allocator_traits falls back to ::new((void * )p) T(args...) because the allocator has no
   matching construct); EDest: the destructor call. *)
Inductive ev := ECons (a : Z) | EDest (a : Z) | EArgs (a : Z).

Definition mem_z (a : Z) (l : list Z) : bool := existsb (Z.eqb a) l.
Definition remove_z (a : Z) (l : list Z) : list Z := filter (fun x => negb (x =? a)) l.

Definition ev_step (alive : list Z) (e : ev) : option (list Z) :=
  match e with
  | ECons a | EArgs a => if mem_z a alive then None else Some (a :: alive)
  | EDest a => if mem_z a alive then Some (remove_z a alive) else None
  end.

Fixpoint ev_run (alive : list Z) (es : list ev) : option (list Z) :=
  match es with
  | [] => Some alive
  | e :: es' => match ev_step alive e with
                | Some alive' => ev_run alive' es'
                | None => None
                end
  end.

(* addresses of the elements lo <= i < hi of the array at base *)
Definition slots (base sizeT lo hi : Z) : list Z :=
  map (fun i => base + (lo + Z.of_nat i) * sizeT) (seq 0 (Z.to_nat (hi - lo))).

(* what std::vector does to element lifetimes in one operation, read off the
   vector before and after: a reallocation copy-constructs the kept elements in
   the new block, then destroys the old ones; in place it constructs the new
   tail or destroys the removed tail (assign within capacity assigns the common
   prefix); an exception changes nothing *)
Definition v_events (sizeT : Z) (o : vop) (v v' : vec) : list ev :=
  let fresh_slot a := match o with VEmplaceBack _ _ => EArgs a | _ => ECons a end in
  if v_data v' =? v_data v then
    if v_size v <=? v_size v'
    then map fresh_slot (slots (v_data v) sizeT (v_size v) (v_size v'))
    else map EDest (slots (v_data v) sizeT (v_size v') (v_size v))
  else
    let kept := match o with VAssign _ _ _ => 0 | _ => v_size v end in
    match o with
    | VEmplaceBack _ _ =>
        (* _M_realloc_insert: the new element is built first, in the new block *)
        map EArgs (slots (v_data v') sizeT kept (v_size v')) ++
        map ECons (slots (v_data v') sizeT 0 kept) ++
        map EDest (slots (v_data v) sizeT 0 (v_size v))
    | _ =>
        map ECons (slots (v_data v') sizeT 0 kept) ++
        map EDest (slots (v_data v) sizeT 0 (v_size v)) ++
        map ECons (slots (v_data v') sizeT kept (v_size v'))
    end.

Fixpoint count_cons (a : Z) (es : list ev) : nat :=
  match es with
  | [] => 0
  | ECons x :: r | EArgs x :: r => (if x =? a then 1 else 0) + count_cons a r
  | EDest _ :: r => count_cons a r
  end.
Fixpoint count_dest (a : Z) (es : list ev) : nat :=
  match es with
  | [] => 0
  | EDest x :: r => (if x =? a then 1 else 0) + count_dest a r
  | ECons _ :: r | EArgs _ :: r => count_dest a r
  end.
Definition b2n (b : bool) : nat := if b then 1 else 0.

(* the event trace of a history on two vectors ([step], [va], [vb]: the instance of vs_step and the
   projections, so that this definition does not depend on the back end section) *)
Fixpoint vs_events {st : Type} (step : st -> vop -> st) (va vb : st -> vec) (sizeT : Z)
    (s : st) (ops : list vop) : list ev :=
  match ops with
  | [] => []
  | o :: r =>
      let s' := step s o in
      match vop_target o with
      | None => []
      | Some false => v_events sizeT o (va s) (va s')
      | Some true => v_events sizeT o (vb s) (vb s')
      end ++ vs_events step va vb sizeT s' r
  end.
