(* C06: non-vacuity witnesses -- the hypotheses of the implications are satisfiable, and each
   quaternion-from-matrix branch is reachable by a unit quaternion. *)
From Coq Require Import Reals Lra Psatz List Bool ZArith.
From Common Require Import CxxSem.
From C06 Require Import GenLin Sem ProofsLin ProofsRot ProofsQuat ProofsBranch ProofsSlerp.
Local Open Scope R_scope.

Lemma nonvac_inverse : det3 (rows3 2 1 0 0 1 3 0 0 1) <> 0 /\ det2 (rows2 2 1 0 1) <> 0.
Proof. split; gen; lra. Qed.

Lemma nonvac_inverse_value :
  inv3 (rows3 2 0 0 0 4 0 0 0 8) = rows3 (1/2) 0 0 0 (1/4) 0 0 0 (1/8).
Proof. gen. unfold rows3, v3. comps; field. Qed.

Lemma nonvac_unit_axis : dot3 (v3 0 0 1) (v3 0 0 1) = 1 /\ dot3 (v3 0 0 1) (v3 1 0 0) = 0.
Proof. split; gen; ring. Qed.

(* rotate((0,0,1), pi/2) maps x to y: right-handed *)
Lemma nonvac_rotate_handedness : apply3 (rotate3 (v3 0 0 1) (PI / 2)) (v3 1 0 0) = v3 0 1 0.
Proof.
  rewrite rotate3_rodrigues by (gen; ring). unfold rodrigues. rewrite cos_PI2, sin_PI2. gen. unfold v3. comps; ring.
Qed.

Lemma nonvac_branch1 : qdot (quat 1 0 0 0) (quat 1 0 0 0) = 1 /\ guard1 (quat 1 0 0 0).
Proof. split; gen; lra. Qed.
Lemma nonvac_branch2 : qdot (quat 0 1 0 0) (quat 0 1 0 0) = 1 /\ ~ guard1 (quat 0 1 0 0) /\ guard2 (quat 0 1 0 0).
Proof. unfold guard2. repeat split; gen; lra. Qed.
Lemma nonvac_branch3 :
  qdot (quat 0 0 1 0) (quat 0 0 1 0) = 1 /\ ~ guard1 (quat 0 0 1 0) /\ ~ guard2 (quat 0 0 1 0) /\ guard3 (quat 0 0 1 0).
Proof. unfold guard2. repeat split; gen; lra. Qed.
Lemma nonvac_branch4 :
  qdot (quat 0 0 0 1) (quat 0 0 0 1) = 1 /\ ~ guard1 (quat 0 0 0 1) /\ ~ guard2 (quat 0 0 0 1) /\ ~ guard3 (quat 0 0 0 1).
Proof. unfold guard2. repeat split; gen; lra. Qed.

Lemma nonvac_slerp :
  (0 <= qdot (quat 1 0 0 0) (quat 0 1 0 0) <= thr) /\ (qdot (quat 1 0 0 0) (quat (-1) 0 0 0) < 0) /\
  thr < qdot (quat 1 0 0 0) (quat 1 0 0 0).
Proof. unfold thr. repeat split; gen; lra. Qed.
