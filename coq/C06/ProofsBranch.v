(* C06 proofs, part 4: the four-branch quaternion-from-basis-vectors constructor, one theorem per branch. *)
From Coq Require Import Reals Lra Psatz List Bool ZArith Nsatz.
From Common Require Import CxxSem.
From C06 Require Import GenLin Sem ProofsLin ProofsRot ProofsQuat.
Import ListNotations.
Local Open Scope R_scope.

Definition quat_from_matrix := QuaternionT_f_mk__v3f_v3f_v3f IR.
Definition colx (q : Qt) : V3 := LinearSpace3_vx (mat_of_quat q).
Definition coly (q : Qt) : V3 := LinearSpace3_vy (mat_of_quat q).
Definition colz (q : Qt) : V3 := LinearSpace3_vz (mat_of_quat q).
Definition from_own_matrix (q : Qt) : Qt := quat_from_matrix (colx q) (coly q) (colz q).

(* the guards, written on the diagonal of the matrix exactly as the constructor tests them *)
Definition mxx q := vec3_x (colx q).
Definition myy q := vec3_y (coly q).
Definition mzz q := vec3_z (colz q).
Definition guard1 q := 0 <= mxx q + myy q + mzz q.
Definition guard2 q := myy q <= mxx q /\ mzz q <= mxx q.          (* vx.x >= max(vy.y, vz.z) *)
Definition guard3 q := mzz q <= myy q.

Ltac guards := repeat (match goal with
   | |- context [Rlt_dec ?a ?b] => destruct (Rlt_dec a b)
   | |- context [Rle_dec ?a ?b] => destruct (Rle_dec a b)
   end; cbv beta iota).

(* T = (2x)^2 for the component x the branch divides by; x > 0 gives q, x < 0 gives -q *)
Ltac finish x Hu :=
  match goal with |- context [sqrt ?T] =>
    let HT := fresh "HT" in assert (HT : T = (2 * x) * (2 * x)) by (clear - Hu; first [lra | nsatz]); rewrite !HT; clear HT end;
  destruct (Rlt_dec 0 x);
  [ left; rewrite sqrt_square by lra; comps; field; lra
  | right; rewrite <- (Rmult_opp_opp (2 * x) (2 * x)), sqrt_square by lra; comps; field; lra ].

Lemma quat_from_matrix_branch1 (q : Qt) :
  qdot q q = 1 -> guard1 q -> from_own_matrix q = q \/ from_own_matrix q = qneg q.
Proof.
  destruct q as [i j k r]; cbv [S IR] in i, j, k, r. intros Hu G1. gen_in Hu. gen_in G1.
  assert (Hx : r <> 0) by (intro E; rewrite E in *; nra).
  gen. guards; try (exfalso; lra).
  all: finish r Hu.
Qed.

Lemma quat_from_matrix_branch2 (q : Qt) :
  qdot q q = 1 -> ~ guard1 q -> guard2 q -> from_own_matrix q = q \/ from_own_matrix q = qneg q.
Proof.
  destruct q as [i j k r]; cbv [S IR] in i, j, k, r. intros Hu G1 [G2 G2']. gen_in Hu. gen_in G1. gen_in G2. gen_in G2'.
  assert (Hsq : 1 / 4 < i * i) by lra.
  assert (Hx : i <> 0) by (intro E; rewrite E in *; lra).
  gen. guards; try (exfalso; lra).
  all: finish i Hu.
Qed.

Lemma quat_from_matrix_branch3 (q : Qt) :
  qdot q q = 1 -> ~ guard1 q -> ~ guard2 q -> guard3 q -> from_own_matrix q = q \/ from_own_matrix q = qneg q.
Proof.
  destruct q as [i j k r]; cbv [S IR] in i, j, k, r. intros Hu G1 G2 G3. unfold guard2 in G2. gen_in Hu. gen_in G1. gen_in G2. gen_in G3.
  assert (Hsq : 1 / 4 < j * j) by lra.
  assert (Hx : j <> 0) by (intro E; rewrite E in *; lra).
  gen. guards; try (exfalso; lra).
  all: finish j Hu.
Qed.

Lemma quat_from_matrix_branch4 (q : Qt) :
  qdot q q = 1 -> ~ guard1 q -> ~ guard2 q -> ~ guard3 q -> from_own_matrix q = q \/ from_own_matrix q = qneg q.
Proof.
  destruct q as [i j k r]; cbv [S IR] in i, j, k, r. intros Hu G1 G2 G3. unfold guard2 in G2. gen_in Hu. gen_in G1. gen_in G2. gen_in G3.
  assert (Hsq : 1 / 4 < k * k) by lra.
  assert (Hx : k <> 0) by (intro E; rewrite E in *; lra).
  gen. guards; try (exfalso; lra).
  all: finish k Hu.
Qed.

Lemma quat_from_matrix_guards_exhaustive (q : Qt) :
  guard1 q \/ (~ guard1 q /\ guard2 q) \/ (~ guard1 q /\ ~ guard2 q /\ guard3 q) \/
  (~ guard1 q /\ ~ guard2 q /\ ~ guard3 q).
Proof.
  unfold guard1, guard2, guard3.
  destruct (Rle_dec 0 (mxx q + myy q + mzz q)); [left; assumption|].
  destruct (Rle_dec (myy q) (mxx q)); destruct (Rle_dec (mzz q) (mxx q)); destruct (Rle_dec (mzz q) (myy q)); intuition.
Qed.

(* every unit quaternion is recovered up to sign, whichever branch is taken *)
Lemma quat_from_matrix_roundtrip (q : Qt) :
  qdot q q = 1 -> from_own_matrix q = q \/ from_own_matrix q = qneg q.
Proof.
  intro Hu. destruct (quat_from_matrix_guards_exhaustive q) as [G | [[G1 G2] | [[G1 [G2 G3]] | [G1 [G2 G3]]]]].
  - apply quat_from_matrix_branch1; auto.
  - apply quat_from_matrix_branch2; auto.
  - apply quat_from_matrix_branch3; auto.
  - apply quat_from_matrix_branch4; auto.
Qed.

(* q and -q are the same rotation *)
Lemma quat_neg_same_rotation (q : Qt) (v : V3) : qrot (qneg q) v = qrot q v.
Proof. recs. gen. comps; ring. Qed.
