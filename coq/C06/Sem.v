(* C06: numeric interpretations for the regenerated definitions (gen/GenLin.v).
   IR : the ideal reading over the real numbers (casts are the identity, rcp x = 1/x,
        sqrt/sin/cos/acos are Coq's real functions) -- used by all theorems.
   IQ : the exact rational reading (executable; extracted) -- used by the correspondence run on
        small-integer inputs.  sqrt/sin/cos/acos are not rational functions: in IQ they return 0 and
        the driver never evaluates a function that reaches them under IQ (it uses the float reading
        built in ocaml/C06/driver.ml for those). *)
From Coq Require Import ZArith QArith Qabs Reals List Bool.
From Common Require Import CxxSem.
Import ListNotations.

(* ------------------------------------------------------------------ R *)
Local Open Scope R_scope.

Definition Rltb (a b : R) : bool := if Rlt_dec a b then true else false.
Definition Rleb (a b : R) : bool := if Rle_dec a b then true else false.
Definition Reqb (a b : R) : bool := if Req_EM_T a b then true else false.

Definition r_bop (o : binop) (a b : R) : R :=
  match o with
  | Add => a + b | Sub => a - b | Mul => a * b | Div => a / b
  | _ => 0
  end.
Definition r_uop (o : unop) (a : R) : R :=
  match o with Neg => - a | Pos => a | BNot => 0 end.
Definition r_cmp (o : cmpop) (a b : R) : bool :=
  match o with
  | Lt => Rltb a b | Le => Rleb a b | Gt => Rltb b a | Ge => Rleb b a
  | Eq => Reqb a b | Ne => negb (Reqb a b)
  end.
Definition r_lib (f : libfn) (l : list R) : R :=
  match f, l with
  | LMin, [a; b] => if Rltb b a then b else a        (* std::min: (b < a) ? b : a *)
  | LMax, [a; b] => if Rltb a b then b else a        (* std::max: (a < b) ? b : a *)
  | LAbs, [a] => Rabs a
  | LSqrt, [a] => sqrt a
  | LSin, [a] => sin a
  | LCos, [a] => cos a
  | LAcos, [a] => acos a
  | _, _ => 0
  end.

Definition IR : interp := {|
  S := R;
  bop := fun o _ => r_bop o;
  uop := fun o _ => r_uop o;
  cmp := fun o _ => r_cmp o;
  cast := fun _ _ x => x;
  ilit := fun _ z => IZR z;
  flit := fun _ n d => IZR n / IZR d;
  lib := fun f _ => r_lib f;
  ofbool := fun _ b => if b then 1 else 0;
  tobool := fun _ x => negb (Reqb x 0);
|}.

(* ------------------------------------------------------------------ Q *)
Local Open Scope Q_scope.

Definition q_bop (o : binop) (a b : Q) : Q :=
  Qred match o with
       | Add => a + b | Sub => a - b | Mul => a * b | Div => a / b
       | _ => 0
       end.
Definition q_uop (o : unop) (a : Q) : Q :=
  match o with Neg => - a | Pos => a | BNot => 0 end.
Definition Qltb (a b : Q) : bool := negb (Qle_bool b a).
Definition q_cmp (o : cmpop) (a b : Q) : bool :=
  match o with
  | Lt => Qltb a b | Le => Qle_bool a b | Gt => Qltb b a | Ge => Qle_bool b a
  | Eq => Qeq_bool a b | Ne => negb (Qeq_bool a b)
  end.
Definition q_lib (f : libfn) (l : list Q) : Q :=
  match f, l with
  | LMin, [a; b] => if Qltb b a then b else a
  | LMax, [a; b] => if Qltb a b then b else a
  | LAbs, [a] => Qabs a
  | _, _ => 0
  end.

Definition IQ : interp := {|
  S := Q;
  bop := fun o _ => q_bop o;
  uop := fun o _ => q_uop o;
  cmp := fun o _ => q_cmp o;
  cast := fun _ _ x => x;
  ilit := fun _ z => inject_Z z;
  flit := fun _ n d => Qred (inject_Z n / inject_Z d);
  lib := fun f _ => q_lib f;
  ofbool := fun _ b => if b then 1 else 0;
  tobool := fun _ x => negb (Qeq_bool x 0);
|}.
