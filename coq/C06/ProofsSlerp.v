(* C06 proofs, part 5: slerp. *)
From Coq Require Import Reals Lra Psatz List Bool ZArith Nsatz.
From Common Require Import CxxSem.
From C06 Require Import GenLin Sem ProofsLin ProofsRot ProofsQuat ProofsBranch.
Import ListNotations.
Local Open Scope R_scope.

Definition slerp := slerp__f_QuaternionT_f_QuaternionT_f IR.
Definition qlerp := lerp__f_QuaternionT_f_QuaternionT_f IR.
(* the literal 0.9995 of the source, as the decimal expansion of the binary64 value clang reports *)
Definition thr : R := IZR 49975000000000003 / IZR 50000000000000000.

(* (sin((1-t) th)/sin th) a + (sin(t th)/sin th) b   with th = acos d *)
Definition slerp_spec (t : R) (a b : Qt) (d : R) : Qt :=
  qadd (qscale (sin ((1 - t) * acos d) / sin (acos d)) a) (qscale (sin (t * acos d) / sin (acos d)) b).

Lemma thr_lt_1 : thr < 1.
Proof. unfold thr. lra. Qed.

Lemma sin_acos_pos d : -1 < d -> d < 1 -> 0 < sin (acos d).
Proof.
  intros H1 H2. rewrite sin_acos by lra. apply sqrt_lt_R0. unfold Rsqr. nra.
Qed.

Lemma slerp_coeff t d : -1 < d -> d < 1 ->
  cos (acos d * t) - d * (sin (acos d * t) / sin (acos d)) = sin ((1 - t) * acos d) / sin (acos d).
Proof.
  intros H1 H2. pose proof (sin_acos_pos d H1 H2) as Hs.
  replace ((1 - t) * acos d) with (acos d - acos d * t) by ring.
  rewrite sin_minus, cos_acos by lra. field. lra.
Qed.

Lemma slerp_formula (t : R) (a b : Qt) :
  0 <= qdot a b -> qdot a b <= thr -> slerp t a b = slerp_spec t a b (qdot a b).
Proof.
  pose proof thr_lt_1 as Ht. unfold thr in *.
  destruct a as [ai aj ak ar], b as [bi bj bk br]. cbv [S IR] in *. intros H0 H1. gen_in H0. gen_in H1.
  gen. guards; try (exfalso; lra).
  match goal with |- context [acos ?D] =>
    assert (Hlo : -1 < D) by lra; assert (Hhi : D < 1) by lra; set (d := D) in * end.
  assert (Hc := slerp_coeff t d Hlo Hhi).
  rewrite <- Hc. replace (t * acos d) with (acos d * t) by ring. comps; unfold Rdiv; ring.
Qed.

(* the sign flip: for a negative dot product the interpolation runs from -a (the same rotation) *)
Lemma slerp_short_way (t : R) (a b : Qt) :
  qdot a b < 0 -> - qdot a b <= thr -> slerp t a b = slerp_spec t (qneg a) b (- qdot a b).
Proof.
  pose proof thr_lt_1 as Ht. unfold thr in *.
  destruct a as [ai aj ak ar], b as [bi bj bk br]. cbv [S IR] in *. intros H0 H1. gen_in H0. gen_in H1.
  gen. guards; try (exfalso; lra).
  match goal with |- context [acos ?D] =>
    assert (Hlo : -1 < D) by lra; assert (Hhi : D < 1) by lra; set (d := D) in * end.
  assert (Hc := slerp_coeff t d Hlo Hhi).
  rewrite <- Hc. replace (t * acos d) with (acos d * t) by ring. comps; unfold Rdiv; ring.
Qed.

Lemma slerp_lerp_branch (t : R) (a b : Qt) :
  (thr < qdot a b -> slerp t a b = qnormalize (qlerp t a b)) /\
  (thr < - qdot a b -> slerp t a b = qnormalize (qlerp t (qneg a) b)).
Proof.
  pose proof thr_lt_1 as Ht. unfold thr in *.
  destruct a as [ai aj ak ar], b as [bi bj bk br]. cbv [S IR] in *.
  split; intros H0; gen_in H0; gen; guards; try (exfalso; lra); reflexivity.
Qed.

Lemma slerp_endpoints (a b : Qt) (d : R) : -1 < d -> d < 1 ->
  slerp_spec 0 a b d = a /\ slerp_spec 1 a b d = b.
Proof.
  intros H1 H2. pose proof (sin_acos_pos d H1 H2) as Hs. destruct a, b. unfold slerp_spec.
  replace ((1 - 0) * acos d) with (acos d) by ring. replace (0 * acos d) with 0 by ring.
  replace ((1 - 1) * acos d) with 0 by ring. replace (1 * acos d) with (acos d) by ring.
  rewrite sin_0. split; gen; comps; field; lra.
Qed.

